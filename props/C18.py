"""C18 - TLS behaviour depends on the bytes received, not on how they are chunked.

Theorems: coq/Properties/Properties_C18.v (receive loop of the API over a decoder bound by the framing
contract Hconsume/Hframe; send side under partial sends).
Tie: (a) the contract is validated on the real decoder: each flight is first delivered one record per call
(canonical run) which yields the table of decode steps; (b) the extracted model loop (ocaml/drv_c18.ml), run with
that table as its decoder, must predict the events of EVERY receive call of the library for every re-chunking
of the same flight; (c) the direct statement of the property is checked on the implementation: identical
normalised event trace, identical final state and byte-identical output for all chunkings and partial-send patterns.
"""
import json, re
import vlib, sesslib
from sesslib import CONFIGS

TAGS = {"APPDATA": 1, "ALERT": 2, "HSDONE": 3, "SEND": 4, "CLOSE": 5, "sentHSDONE": 6, "ERR": 7, "sentCLOSE": 8}

def tags_of(body):
    """event tags of one receive call / one record delivery, in order"""
    out = []
    for m in re.finditer(r"APPDATA:[0-9a-f-]+|ALERT:-?\d+:-?\d+|\[sent:HSDONE\]|\[sent:CLOSE\]|HSDONE|SEND|CLOSE|(?<![\w:])E-\d+|rb:E-?\d+", body):
        t = m.group(0)
        if t.startswith("APPDATA"): out.append(TAGS["APPDATA"])
        elif t.startswith("ALERT"): out.append(TAGS["ALERT"])
        elif t == "[sent:HSDONE]": out.append(TAGS["sentHSDONE"])
        elif t == "[sent:CLOSE]": out.append(TAGS["sentCLOSE"])
        elif t == "HSDONE": out.append(TAGS["HSDONE"])
        elif t == "SEND": out.append(TAGS["SEND"])
        elif t == "CLOSE": out.append(TAGS["CLOSE"])
        else: out.append(TAGS["ERR"])
    return out

def norm_events(body):
    """chunking-independent content of a segment: delivered data, alerts, completion, errors (no call separators, no OK/RECV noise)"""
    ev = re.findall(r"APPDATA:[0-9a-f-]+|ALERT:-?\d+:-?\d+|\[sent:HSDONE\]|\[sent:CLOSE\]|HSDONE|CLOSE|(?<![\w:])E-\d+", body)
    # a dead session reports an error on every further call: keep only the first error report
    out = []
    closed = False
    for e in ev:
        if e.startswith("E-"):
            if not closed:
                out.append(e)
            break
        out.append(e)
        if e in ("CLOSE", "[sent:CLOSE]"):
            closed = True       # the session asked to be closed: whether further calls are made (and fail) is the caller's choice
    return " ".join(out)

SCENARIOS = {
    # name: list of script steps; "F:<dir>" is replaced by the delivery command of the run
    "full+data": ["F:c2s", "F:s2c", "F:c2s", "F:s2c", "F:c2s", "app c 68656c6c6f", "app c 776f726c64", "app c -", "F:c2s", "app s 616263", "F:s2c",
                  "closure c", "F:c2s", "F:s2c"],
    "fail@2": ["F:c2s", "X:s2c:9:40", "F:s2c", "F:c2s", "F:s2c"],
    "fail@3": ["F:c2s", "F:s2c", "X:c2s:6:01", "F:c2s", "F:s2c", "F:c2s"],
    # a peer in middlebox-compatibility mode sends a plaintext ChangeCipherSpec in front of its protected flight (TLS 1.3 only)
    "ccs-compat": ["F:c2s", "Q:s2c:head:140303000101", "F:s2c", "Q:c2s:head:140303000101", "F:c2s", "F:s2c", "app c 68656c6c6f", "F:c2s", "app s 616263", "F:s2c"],
    # TLS False Start (TLS <= 1.2): the client sends application data right behind its Finished, before the server's Finished
    "falsestart": ["F:c2s", "F:s2c", "seths c 255", "app c 474554202f", "app c 0d0a", "seths c 20", "F:c2s", "F:s2c", "F:c2s", "app s 616263", "F:s2c"],
    # TLS 1.3 0-RTT from a middlebox-compatibility client: ClientHello | ChangeCipherSpec | early data (ticket resumption, early data accepted)
    "early+ccs": ["app c " + "65" * 100, "Q:c2s:1:140303000101", "F:c2s", "F:s2c", "F:c2s", "F:s2c", "app c 68656c6c6f", "F:c2s", "app s 616263", "F:s2c"],
    "bigdata": ["F:c2s", "F:s2c", "F:c2s", "F:s2c", "F:c2s", "app c " + "5a" * 3000, "app c " + "a5" * 17, "F:c2s", "app s " + "11" * 5000, "app s 22", "F:s2c"],
}
MODES_QUICK = [("all", ""), ("bytes", "1"), ("bytes", "7"), ("list", "5,1,300,2,64"), ("bytes", "1000")]
MODES_THOROUGH = MODES_QUICK + [("bytes", "2"), ("bytes", "3"), ("bytes", "5"), ("bytes", "16"), ("bytes", "100"), ("list", "4,1"), ("list", "6,5,4,3,2,1"),
                                ("list", "1,2,4,8,16,32,64,128,256,512"), ("list", "13,1,1,1,700")]


def chunk_sizes(mode, arg, total):
    if total == 0:
        return []
    if mode == "all":
        return [total]
    sizes = [int(arg)] if mode == "bytes" else [int(x) for x in arg.split(",")]
    out, off, i = [], 0, 0
    while off < total:
        k = min(sizes[i % len(sizes)], total - off); out.append(k); off += k; i += 1
    return out


def build_script(cfg, seed, steps, deliver, sendchunk=0, resumed=False, rbmode=0, early=False):
    s = ""
    if resumed:
        s = "new %s seed=%d ticket=1%s ; hs ; " % (cfg, seed, " smaxed=5000" if early else "")
        s += "new %s seed=%d resume=1 ticket=1 keepkeys=1%s" % (cfg, seed + 100, " smaxed=5000" if early else "")
    else:
        s = "new %s seed=%d" % (cfg, seed)
    if sendchunk:
        s += " ; sendchunk %d" % sendchunk
    if rbmode:
        s += " ; rbmode 1"      # receive chunks through matrixSslGetReadbufOfSize(chunk) instead of matrixSslGetReadbuf
    for st in steps:
        if st.startswith("F:"):
            s += " ; " + deliver(st[2:])
        elif st.startswith("X:"):
            _, d, off, val = st.split(":")
            s += " ; xor %s %s %s" % (d, off, val)
        elif st.startswith("Q:"):
            _, d, where, hx = st.split(":")
            s += " ; qinj %s %s %s" % (d, where, hx)
        else:
            s += " ; " + st
    return s + " ; wire ; st"


def run(ck):
    ck.trusted += ["Coq 8.16.1 kernel", "extraction (ExtrOcamlBasic only) + ocaml/drv_c18.ml; harness/h_sess.c + sess.h with pinned entropy and calendar",
                   "modelled, not verified: the DECODE_MORE loop of matrixSslReceivedData/ProcessedData and the SentData compaction (coq/Api/ApiModel.v); the record decoder is a parameter bound by the contract Hconsume/Hframe, validated on the real decoder by the canonical one-record-per-call run",
                   "stream_ok: a response that empties the input buffer (SSL_SEND_RESPONSE: ssl->inlen = 0) is the last thing received so far - flights are lock-step; bytes pipelined behind such a record by a non-conforming peer are outside the theorem (see DESIGN.md C18)"]
    ck.build_repo()
    ck.regen([("consts.sh",)])
    ck.coq_properties()
    h = ck.cc("h_sess.c", wraps=sesslib.WRAPS)
    drv = ck.ocaml_driver("drv_c18", extract_vo="Extract/Extract_C18.vo", gen_ml=["m_c18"])
    modes = MODES_QUICK if ck.tier == "quick" else MODES_THOROUGH
    cfgs = ["tls12", "tls13", "tls12_cbc", "tls12_cauth", "tls13_cauth", "tls13c_12s", "tls13_big_cauth", "tls12_big_cauth"] if ck.tier == "quick" else [c for c in CONFIGS if "|" not in CONFIGS[c]]
    runs = []   # (key, kind, mode, script)
    for cname in cfgs:
        cfg = CONFIGS[cname]
        for sname, steps in SCENARIOS.items():
            if sname == "ccs-compat" and "cv=4" not in cfg:
                continue
            if sname == "falsestart" and ("cv=4" in cfg or "cv=3,4" in cfg):
                continue
            early = sname.startswith("early")
            if early and cname != "tls13":
                continue
            for resumed in ((True,) if early else ((False, True) if sname == "full+data" and "cauth" not in cname else (False,))):
                key = (cname, sname, resumed)
                runs.append((key, "canon", None, build_script(cfg, ck.seed, steps, lambda d: "step %s 99" % d, resumed=resumed, early=early)))
                for (m, a) in modes:
                    runs.append((key, "chunk", (m, a), build_script(cfg, ck.seed, steps, lambda d, m=m, a=a: ("flight %s %s %s" % (d, m, a)).strip(), resumed=resumed, early=early)))
                # the other way of asking for room: matrixSslGetReadbufOfSize(n) with chunks larger than the free room while a partial record is buffered
                if sname in ("bigdata", "full+data", "early+ccs"):
                    for (m, a) in (("all", ""), ("bytes", "2000"), ("list", "1000,3500,9000"), ("list", "300,16000"), ("bytes", "1"), ("list", "5,4000")):
                        runs.append((key, "ofsize", (m, a), build_script(cfg, ck.seed, steps, lambda d, m=m, a=a: ("flight %s %s %s" % (d, m, a)).strip(), resumed=resumed, rbmode=1, early=early)))
                for sc in ((1, 13) if ck.tier == "quick" else (1, 2, 13, 100, 1500)):
                    runs.append((key, "send", sc, build_script(cfg, ck.seed, steps, lambda d: "flight %s all" % d, sendchunk=sc, resumed=resumed, early=early)))
    rc, outs, err = ck.run_lines(h, [r[3] for r in runs], timeout=3000)
    if len(outs) != len(runs):
        ck.log("h_sess line count mismatch %d vs %d: %s" % (len(outs), len(runs), err[-300:]))
    ck.rules.append("configurations x scenarios (full/resumed/client-auth handshakes + data incl. empty and multi-record writes + closure, handshakes failing at a corrupted record) "
                    "x chunkings (all-at-once, 1/7/1000-byte calls, irregular lists) x partial-send sizes; canonical = one record per call; "
                    "non-trivial = a flight with at least one event-producing record")
    # group by scenario key
    groups = {}
    for (key, kind, mode, script), out in zip(runs, outs):
        groups.setdefault(key, []).append((kind, mode, script, out))
    model_cases, model_obs, model_info = [], [], []
    for key, lst in groups.items():
        canon = [x for x in lst if x[0] == "canon"][0]
        csegs = canon[3].split(" | ")
        ccmds = canon[2].split(" ; ")
        # normalised trace of the canonical run: per command the normalised events, plus wire + final state
        def norm_trace(script, out):
            segs = out.split(" | "); cmds = script.split(" ; ")
            tr = []
            for c, sg in zip(cmds, segs):
                w = c.split()[0]
                if w in ("step", "flight"):
                    tr.append("%s:%s" % (c.split()[1], norm_events(sg)))
                elif w == "app":
                    tr.append("app:" + ("OK" if "rc=OK" in sg else "ERR"))
                elif w == "closure":
                    tr.append("closure:" + (re.search(r"rc=(\S+)", sg).group(1) if "rc=" in sg else "?"))
                elif w == "wire":
                    tr.append(sg.strip())
                elif w == "st":
                    tr.append(re.sub(r"ig=-?\d+", "", sg.strip()))
                elif w == "new":
                    tr.append(sg.strip())
            return tr
        ctrace = norm_trace(canon[2], canon[3])
        ck.count("scenario:%s:%s%s" % (key[0], key[1], ":resumed" if key[2] else ""))
        for kind, mode, script, out in lst:
            if kind == "canon":
                continue
            tr = norm_trace(script, out)
            ck.cov["evaluations"] += 1
            if tr != ctrace:
                diff = [(i, a, b) for i, (a, b) in enumerate(zip(ctrace, tr)) if a != b][:3]
                ck.spec_violation("chunk-dependent:%s:%s:%s" % (key[0], key[1], kind),
                                  "session behaviour differs between one-record-per-call delivery and %s %s: %s" % (kind, mode, diff),
                                  {"harness": "h_sess", "script": script, "canonical_script": canon[2], "first_differences": diff})
            else:
                ck.count("identical:%s" % kind)
                ck.add_distinct((key, kind, mode))
        # model correspondence per flight
        # table per flight command index from the canonical run
        flight_tabs = {}
        for ci, (c, sg) in enumerate(zip(ccmds, csegs)):
            if c.split()[0] != "step":
                continue
            ents = []
            recs = re.findall(r"step:[cs] pre=\S+ (.*?)post=\S+", sg)
            for ri, body in enumerate(recs):
                mm = sesslib.META_RE.search(body)
                if not mm:
                    continue
                n = int(mm.group(4)) + 5
                tg = tags_of(body[mm.end():])
                last = ri == len(recs) - 1
                died = TAGS["sentCLOSE"] in tg or TAGS["CLOSE"] in tg
                k = 1 if (TAGS["SEND"] in tg and (last or died)) else 0
                if TAGS["ERR"] in tg:
                    ents.append("1:0:%d" % TAGS["ERR"]); break       # a dead session answers any further input with an error
                ents.append("%d:%d:%s" % (n, k, ".".join(str(t) for t in tg) or "-"))
                if died:
                    ents.append("1:0:%d" % TAGS["ERR"]); break
            flight_tabs[ci] = ents
        for kind, mode, script, out in lst:
            if kind != "chunk" or key[1].startswith("early"):
                # 0-RTT data is pipelined behind the ClientHello, whose answer is reported after the buffered early data has been
                # delivered: outside the theorem's stream_ok hypothesis (see ck.trusted); the metamorphic oracle above still applies
                continue
            segs = out.split(" | "); cmds = script.split(" ; ")
            for ci, (c, sg) in enumerate(zip(cmds, segs)):
                if c.split()[0] != "flight" or ci not in flight_tabs or not flight_tabs[ci]:
                    continue
                m = re.match(r"\s*flight:[cs] n=(\d+) calls: (.*)post=", sg)
                if not m:
                    continue
                total = int(m.group(1))
                calls = m.group(2).split("/ ")
                if calls and calls[-1].strip() == "":
                    calls = calls[:-1]
                # actual sizes of the receive calls (the harness also cuts at the read buffer's free room)
                sizes = [int(x) for x in re.findall(r"\{n=(\d+) in=", m.group(2))]
                def cut(tl):
                    # nothing is compared after the first error report: a dead session answers every further call with an error
                    out = []
                    for call in tl:
                        if TAGS["ERR"] in call:
                            out.append(call[:call.index(TAGS["ERR"]) + 1]); break
                        out.append(call)
                    return out
                obs_calls = cut([tags_of(cb) for cb in calls])
                if TAGS["sentCLOSE"] in [t for c in obs_calls for t in c] or TAGS["CLOSE"] in [t for c in obs_calls for t in c]:
                    while obs_calls and not obs_calls[-1]:
                        obs_calls.pop()        # calls made after the session asked to be closed
                obs = " / ".join(" ".join(str(t) for t in c) for c in obs_calls)
                sizes = sizes[:len(obs_calls)]
                model_cases.append("api %s | %s" % (" ".join(flight_tabs[ci]), " ".join(str(x) for x in sizes)))
                model_obs.append(obs)
                model_info.append((key, mode, ci))
    if drv and model_cases:
        rc, mo, err = ck.run_lines(drv, model_cases)
        def cutm(x):
            calls = [c.split() for c in x.split(" ; ")[0].split("/")]
            out = []
            for c in calls:
                if str(TAGS["ERR"]) in c:
                    out.append(c[:c.index(str(TAGS["ERR"])) + 1]); break
                out.append(c)
            flat = [t for c in out for t in c]
            if str(TAGS["sentCLOSE"]) in flat or str(TAGS["CLOSE"]) in flat:
                while out and not out[-1]:
                    out.pop()
            return " / ".join(" ".join(c) for c in out)
        mo_ev = [cutm(x) for x in mo]
        dis = ck.correspond("API receive loop: feed(tdec table)(model) vs matrixSslReceivedData per call (impl)", model_cases,
                            [o.strip() for o in model_obs], mo_ev, nontrivial=lambda c, o: any(ch.isdigit() for ch in o))
        for i in dis[:5]:
            ck.log("DISAGREE %s\n  case=%s\n  impl=%s\n  model=%s" % (model_info[i], model_cases[i][:300], model_obs[i], mo[i] if i < len(mo) else None))
    ck.cov["scenario_groups"] = len(groups)
    ck.cov["exhaustive"] = False


def replay(ck, path):
    rp = json.load(open(path))["replay"]
    h = ck.cc("h_sess.c", wraps=sesslib.WRAPS)
    rc, out, err = ck.run_lines(h, [rp["canonical_script"], rp["script"]])
    print("canonical:", out[0][-400:] if out else None); print("chunked:  ", out[1][-400:] if len(out) > 1 else None)
