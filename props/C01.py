"""C01 - application data flows only after an authenticated, completed handshake.

Theorems: coq/Properties/Properties_C01.v over the record-layer session machine coq/Sess/SessModel.v.
Tie: live two-peer sessions (harness/h_sess.c) stepped one record at a time; in every state reached by a
prefix of a legal handshake every attacker-makeable record is injected into either side; each step is
re-run through the extracted model (ocaml/drv_sess.ml) and must agree on outcome and post-state flags.
Search oracle (Impl vs Spec): an APPDATA event is legal only on a side whose handshake is complete and
only with bytes the peer application submitted, in order; an application send succeeds only when complete.
"""
import json
import vlib, sesslib
from sesslib import CONFIGS, attacker_records, prefix_script, parse_steps


def build_scenarios(ck, sr, cfgs, seeds):
    scripts, inj_desc, meta = [], {}, []
    atk = attacker_records(None)
    for name in cfgs:
        cfg = CONFIGS[name]
        for seed in seeds:
            trace, _ = sr.legal_trace(cfg, seed)
            if not trace:
                ck.count("no_legal_trace:" + name); continue
            for k in range(len(trace) + 1):
                for side in ("c", "s"):
                    for (an, raw, d) in atk:
                        i = len(scripts)
                        scripts.append(prefix_script(cfg, seed, trace, k) + " ; inj %s %s ; st" % (side, raw.hex()))
                        inj_desc[i] = [d]; meta.append((name, k, side, an))
                    # application send attempted in this state
                    i = len(scripts)
                    scripts.append(prefix_script(cfg, seed, trace, k) + " ; app %s 70696e67 ; st" % side)
                    meta.append((name, k, side, "appsend"))
            # replay / reflection of genuine records: save the k-th record, finish the handshake, then replay it
            for k in range(len(trace)):
                d0 = trace[k]
                to = "s" if d0 == "c2s" else "c"
                other = "c" if to == "s" else "s"
                base = prefix_script(cfg, seed, trace, k) + " ; save %s 1" % d0
                for dd in trace[k:]:
                    base += " ; step %s" % dd
                for tgt, nm in ((to, "replay_same"), (other, "reflect")):
                    i = len(scripts)
                    scripts.append(base + " ; replay %s 1 ; st" % tgt)
                    inj_desc[i] = [None]; meta.append((name, k, tgt, nm))
            if "smaxed" in cfg:
                # TLS 1.3 0-RTT: the client writes early data behind its ClientHello; the server either accepts it (resumption PSK,
                # delivered in WAIT_EOED up to the limit) or rejects it and skips the undecryptable records up to its limit
                pump = "".join(" ; step c2s 9 ; step s2c 9" for _ in range(4))
                for sizes in ((5,), (600,), (600, 300), (600, 600), (999, 1, 1), (3000, 1999), (3000, 2001), (1, 1, 1, 1)):
                    i = len(scripts)
                    scripts.append(sesslib.newcmd(cfg, seed) + "".join(" ; app c %s" % ("%02x" % (0x41 + j) * n) for j, n in enumerate(sizes)) + pump
                                   + " ; app c 6c61746572 ; step c2s 9 ; app s 7265706c79 ; step s2c 9 ; st")
                    meta.append((name, 0, "s", "earlydata:" + "+".join(str(n) for n in sizes)))
            full0 = prefix_script(cfg, seed, trace, len(trace))
            # the application-data gate in every handshake state: on an established session (keys active both ways) the
            # receiver's hsState is overwritten with each SSL_HS_* value, then a genuine sealed application record arrives
            for side in ("c", "s"):
                other = "s" if side == "c" else "c"; din = "c2s" if side == "s" else "s2c"
                for hsv in list(range(1, 41)) + [255]:     # 0 = HELLO_REQUEST: only reachable with rehandshaking compiled in
                    scripts.append(full0 + " ; seths %s %d ; app %s 6869 ; step %s ; st" % (side, hsv, other, din))
                    meta.append((name, len(trace), side, "gate:hs=%d" % hsv))
                # a misbehaving authenticated peer: correctly protected records of the wrong kind in DONE
                for (rt, ht, body, nm) in ((22, 0, "-", "hs:HelloRequest"), (22, 1, "0303" + "00" * 32 + "00", "hs:ClientHello"), (22, 20, "00" * 12, "hs:Finished"),
                                          (20, 0, "01", "ccs"), (21, 0, "0164", "alert:warn:no_renegotiation"), (21, 0, "0264", "alert:fatal:no_renegotiation"),
                                          (21, 0, "015a", "alert:warn:user_canceled"), (23, 0, "-", "app:empty")):
                    scripts.append(full0 + " ; forge %s %d %d %s ; step %s ; app %s 6869 ; step %s ; app %s 6a ; st" % (other, rt, ht, body, din, other, din, side))
                    meta.append((name, len(trace), side, "forge:" + nm))
            # legal handshake then data both ways, then replay of a data record
            full = prefix_script(cfg, seed, trace, len(trace))
            i = len(scripts)
            scripts.append(full + " ; app c 68656c6c6f ; save c2s 2 ; step c2s ; app s 776f726c64 ; step s2c ; app c - ; step c2s ; replay s 2 ; st")
            inj_desc[i] = [None]; meta.append((name, len(trace), "s", "data_then_replay"))
    return scripts, inj_desc, meta


def fill_replay_desc(scripts, outs, inj_desc):
    """replayed genuine records: description = that of the saved record, but no longer verifying (Bad) when sealed"""
    for si, dl in inj_desc.items():
        if dl != [None]:
            continue
        out = outs[si] if si < len(outs) else ""
        segs = out.split(" | ")
        # the saved record is the next stepped record after the `save` segment in direction order: find its meta
        saved = None
        for j, seg in enumerate(segs):
            if seg.startswith("save:"):
                for seg2 in segs[j + 1:]:
                    st = parse_steps(seg2)
                    if st and st[0].kind == "step" and st[0].meta:
                        saved = st[0]; break
                break
        if saved is None:
            inj_desc[si] = []
            continue
        d = sesslib.describe_genuine(saved, in_order=False)
        inj_desc[si] = [d]


def run(ck):
    ck.trusted += ["Coq 8.16.1 kernel", "tools/srcgen/consts.c + gen_defines.py translators",
                   "extraction (ExtrOcamlBasic only) + ocaml/drv_sess.ml; harness/h_sess.c + sess.h (link-time wraps of psGetEntropy, psGetBrokenDownGMTime, TLS 1.3 AEAD seal to read inner content types)",
                   "modelled, not verified: matrixSslDecode / matrixSslDecodeTls13 / matrixSslDecodeTls12AndBelow record-layer control flow and the encode gates are hand-written Gallina (coq/Sess/SessModel.v) compared with the library step by step on every run",
                   "handshake-message processing is an oracle in the model (answers read off the implementation); symbolic keys: a record is Good iff it verifies under the receiver's current key and sequence number (byte-level realisation: C02)"]
    ck.assumptions += ["attacker without session keys = can only produce records that are plaintext, garbage, or copies of records an honest peer sent"]
    ck.build_repo()
    ck.regen([("consts.sh",), ("gen_defines.py",)])
    ck.coq_properties()
    sr = sesslib.SessRun(ck)
    cfgs = ["tls12", "tls13", "tls13c_12s", "tls12_cauth", "tls13_cauth", "tls12_cbc", "tls12_resumed_id", "tls12_resumed_ticket", "tls13_resumed_psk", "tls13_resumed_early", "tls13_extpsk"] if ck.tier == "quick" else list(CONFIGS)
    seeds = [ck.seed] if ck.tier == "quick" else [ck.seed, ck.seed + 1, ck.seed + 2]
    scripts, inj_desc, meta = build_scenarios(ck, sr, cfgs, seeds)
    outs = sr.run(scripts)
    fill_replay_desc(scripts, outs, inj_desc)
    back = sesslib.analyse(ck, sr, scripts, outs, "session record-layer machine: decode(model) vs matrixSslReceivedData(impl)", inj_desc)
    ck.rules.append("for each configuration (TLS 1.1/1.2/1.3, fallback, client-auth, CBC/GCM): every prefix of the legal record trace x both sides x "
                    "13 attacker-makeable records (plaintext app data/alerts/CCS/handshake, garbage, bad headers) + replay and cross-direction "
                    "reflection of every genuine record + application sends in every state; a step is non-trivial unless refused by the dead-session guard")
    # ---- Impl vs Spec
    sent_ok = 0
    for si, st, d in back:
        if st.appdata:
            legit = st.kind == "step" and st.pre["done"] == 1
            # accepted 0-RTT data: a TLS 1.3 server that enabled early data for a resumption PSK, in WAIT_EOED, from a record that verified
            if st.kind == "step" and st.pre["v"] == 1 and st.pre["sv"] == 1 and st.pre["se"] == 1 and st.pre["hs"] == 27 and d.get("prot") == "good":
                ck.count("accepted_early_data_delivered"); legit = True
            # fabricated-state sweep only: the <= 1.2 gate deliberately admits hsState = SERVER_HELLO with read protection on
            # (a client that sent a renegotiation ClientHello); with rehandshaking compiled out no real session reaches that
            # combination - it is produced here by overwriting hsState - and the C01 theorem lists it in deliver_state
            if meta[si][3].startswith("gate:") and st.pre["v"] == 0 and st.pre["hs"] == 2 and st.pre["R"]:
                ck.count("gate_sweep_rehandshake_allowance"); legit = True
            # likewise WAIT_EOED (27) is entered by a real TLS 1.3 server only after it accepted early data; the sweep fabricates it
            if meta[si][3].startswith("gate:") and st.pre["v"] == 1 and st.pre["hs"] == 27 and st.pre["R"]:
                ck.count("gate_sweep_wait_eoed_allowance"); legit = True
            if not legit:
                ck.spec_violation("appdata:%s:v%d:hs%d:R%d:%s" % (st.kind, st.pre["v"], st.pre["hs"], st.pre["R"], d.get("prot")),
                                  "application data %s reported to the %s application from a %s record in hsState %d (handshake complete=%d, read protection=%d)" % (
                                      st.appdata, "server" if st.side == "s" else "client", "genuine" if st.kind == "step" else "attacker-injected/replayed",
                                      st.pre["hs"], st.pre["done"], st.pre["R"]),
                                  {"harness": "h_sess", "script": scripts[si], "observed": st.body, "scenario": meta[si]})
    # delivered bytes = submitted bytes, in order (legal data exchange scripts)
    for si, out in enumerate(outs):
        if meta[si][3] != "data_then_replay":
            continue
        got_s = "".join(a for seg in out.split(" | ") for st in parse_steps(seg) if st.side == "s" for a in st.appdata if a != "-")
        got_c = "".join(a for seg in out.split(" | ") for st in parse_steps(seg) if st.side == "c" for a in st.appdata if a != "-")
        if got_s != "68656c6c6f" or got_c != "776f726c64":
            ck.spec_violation("data-exchange:%s" % meta[si][0], "delivered bytes differ from submitted bytes (server got %s, client got %s)" % (got_s, got_c),
                              {"harness": "h_sess", "script": scripts[si], "observed": out[-600:]})
        else:
            ck.count("legal_data_exchange_ok")
    # application send only when complete
    enc_cases, enc_obs = [], []
    for si, out in enumerate(outs):
        if meta[si][3] != "appsend":
            continue
        m = sesslib.re.search(r"app:([cs]) pre=(\S+) rc=(\S+)", out)
        if not m:
            continue
        pre = sesslib.parse_snap(m.group(2)); ok = m.group(3) == "OK"
        enc_cases.append("enc " + sesslib.st_fields(pre)); enc_obs.append("ok=%d" % ok)
        if ok and not pre["done"] and not (pre["ce"] or pre["se"]):
            ck.spec_violation("seal-before-done:v%d:hs%d" % (pre["v"], pre["hs"]), "application data encrypted before the handshake completed",
                              {"harness": "h_sess", "script": scripts[si], "observed": out[-300:]})
        sent_ok += ok
    if sr.drv and enc_cases:
        rc, model, err = ck.run_lines(sr.drv, enc_cases)
        ck.correspond("encode gate: encode_app_ok(model) vs matrixSslEncodeToOutdata(impl)", enc_cases, enc_obs, model)
    ck.cov["scenarios"] = len(scripts)
    ck.cov["app_sends_accepted"] = sent_ok
    ck.cov["exhaustive"] = False


def replay(ck, path):
    rp = json.load(open(path))["replay"]
    sr = sesslib.SessRun(ck)
    out = sr.run([rp["script"]])
    print("script:", rp["script"]); print("observed now:", out[0] if out else None)
