"""C01 - application data flows only after an authenticated, completed handshake.

Theorems: coq/Properties/Properties_C01.v over the record-layer session machine coq/Sess/SessModel.v.
Tie: live two-peer sessions (harness/h_sess.c) stepped one record at a time; in every state reached by a
prefix of a legal handshake every attacker-makeable record is injected into either side; each step is
re-run through the extracted model (ocaml/drv_sess.ml) and must agree on outcome and post-state flags.
Search oracle (Impl vs Spec): an APPDATA event is legal only on a side whose handshake is complete and
only with bytes the peer application submitted, in order; an application send succeeds only when complete.
"""
import json
import vlib, sesslib
from sesslib import CONFIGS, DTLS_CONFIGS, attacker_records, prefix_script, parse_steps


def build_dtls_scenarios(ck, sr, cfgs, seeds, scripts, inj_desc, meta, full_cfgs=("dtls12",)):
    """DTLS 1.2 / 1.0: every prefix of the legal record trace (one record per datagram) x both sides x attacker records in DTLS
    framing (epoch in {0, current, current+1} x sequence number in {fresh, replayed, far ahead}), replay / reflection of every
    genuine record, application sends and retransmission timeouts in every state, the gate sweep, a misbehaving authenticated
    peer, whole-datagram handshakes and handshakes that lose a flight."""
    for name in cfgs:
        cfg = DTLS_CONFIGS[name]
        full = name in full_cfgs
        for seed in seeds:
            trace, tout = sr.legal_trace(cfg, seed)
            if not trace:
                ck.count("no_legal_trace:" + name); continue
            states = sesslib.side_states(tout, cfg)
            n = len(trace)
            for k in range(n + 1):
                for side in ("c", "s"):
                    stt = states[k][side] if k < len(states) else None
                    xe, lr = (stt["xe"], stt["lr"]) if stt else (0, 0)
                    for (an, raw, d) in sesslib.dtls_attacker_records(cfg, xe, lr, full):
                        i = len(scripts)
                        scripts.append(prefix_script(cfg, seed, trace, k) + " ; inj %s %s ; st" % (side, raw.hex()))
                        inj_desc[i] = [d]; meta.append((name, k, side, an))
                    scripts.append(prefix_script(cfg, seed, trace, k) + " ; app %s 70696e67 ; st" % side)
                    meta.append((name, k, side, "appsend"))
                    # the application's retransmission timer fires in this state (twice), then the handshake goes on
                    scripts.append(prefix_script(cfg, seed, trace, k) + " ; resend %s ; resend %s ; st" % (side, side))
                    meta.append((name, k, side, "timeout"))
            for k in range(n):
                d0 = trace[k]
                to = "s" if d0 == "c2s" else "c"
                other = "c" if to == "s" else "s"
                base = prefix_script(cfg, seed, trace, k) + " ; save %s 1" % d0
                for dd in trace[k:]:
                    base += " ; step %s" % dd
                # right after the handshake, and again after application data has been exchanged (appDataExch set: no more resends)
                for tail, tg in ((" ", ""), (" ; app c 6869 ; step c2s ; app s 6a6b ; step s2c", "+data")):
                    for tgt, nm in ((to, "replay_same"), (other, "reflect")):
                        i = len(scripts)
                        scripts.append(base + tail + " ; replay %s 1 ; st" % tgt)
                        inj_desc[i] = [None]; meta.append((name, k, tgt, nm + tg))
                # the same record twice in a row, mid-handshake (duplication by the network)
                i = len(scripts)
                scripts.append(prefix_script(cfg, seed, trace, k) + " ; save %s 1 ; step %s ; replay %s 1 ; st" % (d0, d0, to)
                               + "".join(" ; step %s" % dd for dd in trace[k + 1:]) + " ; app c 6869 ; step c2s ; st")
                inj_desc[i] = [None]; meta.append((name, k, to, "duplicate_now"))
            full0 = prefix_script(cfg, seed, trace, n)
            if full:
                for side in ("c", "s"):
                    other = "s" if side == "c" else "c"; din = "c2s" if side == "s" else "s2c"
                    for hsv in list(range(1, 41)) + [255]:
                        scripts.append(full0 + " ; seths %s %d ; app %s 6869 ; step %s ; st" % (side, hsv, other, din))
                        meta.append((name, n, side, "gate:hs=%d" % hsv))
            for side in ("c", "s"):
                other = "s" if side == "c" else "c"; din = "c2s" if side == "s" else "s2c"
                for (rt, ht, body, nm) in ((22, 0, "-", "hs:HelloRequest"), (22, 1, "0303" + "00" * 32 + "00", "hs:ClientHello"), (22, 20, "00" * 12, "hs:Finished"),
                                          (20, 0, "01", "ccs"), (21, 0, "0164", "alert:warn:no_renegotiation"), (21, 0, "0264", "alert:fatal:no_renegotiation"),
                                          (23, 0, "-", "app:empty")):
                    scripts.append(full0 + " ; forge %s %d %d %s ; step %s ; app %s 6869 ; step %s ; app %s 6a ; st" % (other, rt, ht, body, din, other, din, side))
                    meta.append((name, n, side, "forge:" + nm))
            # data both ways, replay of a data record, out-of-order delivery of two data records, then the older one again
            i = len(scripts)
            scripts.append(full0 + " ; app c 68656c6c6f ; save c2s 2 ; step c2s ; app s 776f726c64 ; step s2c ; app c - ; step c2s ; replay s 2 ; st")
            inj_desc[i] = [None]; meta.append((name, n, "s", "data_then_replay"))
            i = len(scripts)
            scripts.append(full0 + " ; app c 6131 ; save c2s 2 ; drop c2s ; app c 6232 ; step c2s ; replay s 2 ; replay s 2 ; st")
            inj_desc[i] = [None, None]; meta.append((name, n, "s", "reordered_data"))
            # datagrams holding several records, made by the attacker around genuine traffic (spec oracle only: the model steps one
            # record per datagram): a dropped record in front of a forged one, a copy of a delivered record in front of plaintext data, ...
            ver = sesslib.wire_version(cfg)
            sfin = states[n]["s"] if n < len(states) and states[n]["s"] else {"xe": 1, "lr": 0}
            xe, lr = sfin["xe"], sfin["lr"]
            multi = [sesslib.drec_bytes(21, bytes([1, 90]), ver, 0, 7) + sesslib.drec_bytes(23, b"hello", ver, xe, lr + 2),
                     sesslib.drec_bytes(20, b"\x01", ver, xe + 1, 0) + sesslib.drec_bytes(23, b"hello", ver, xe + 1, 1),
                     sesslib.drec_bytes(23, b"hello", ver, 0, 1) + sesslib.drec_bytes(23, b"hello", ver, 0, 2) + sesslib.drec_bytes(23, bytes(range(64)), ver, xe, lr + 5)]
            for mi, raw in enumerate(multi):
                i = len(scripts)
                scripts.append(full0 + " ; app c 6869 ; save c2s 5 ; step c2s ; inj s %s ; app c 6a ; step c2s ; st" % raw.hex())
                inj_desc[i] = []; meta.append((name, n, "s", "multi_record_datagram:%d" % mi))
            # whole datagrams, as the peers emit them
            pumpdg = "".join(" ; stepdg c2s 9 ; stepdg s2c 9" for _ in range(5))
            scripts.append(sesslib.newcmd(cfg, seed) + pumpdg + " ; app c 68656c6c6f ; stepdg c2s ; app s 776f726c64 ; stepdg s2c ; st")
            meta.append((name, n, "s", "datagram_handshake"))
            # a lost flight: the k-th record's whole flight direction is dropped once, both sides time out, the handshake must still
            # complete and data must flow (records of re-sent flights carry later epochs / sequence numbers)
            for k in range(n):
                d0 = trace[k]
                snd = "c" if d0 == "c2s" else "s"
                scripts.append(prefix_script(cfg, seed, trace, k) + " ; drop %s 9 ; resend %s" % (d0, snd)
                               + "".join(" ; step c2s 9 ; step s2c 9" for _ in range(5)) + " ; app c 68656c6c6f ; step c2s 3 ; app s 776f726c64 ; step s2c 3 ; st")
                meta.append((name, k, snd, "lost_flight"))
    return scripts, inj_desc, meta


def build_scenarios(ck, sr, cfgs, seeds):
    scripts, inj_desc, meta = [], {}, []
    for name in cfgs:
        cfg = CONFIGS[name]
        atk = attacker_records(cfg)
        for seed in seeds:
            trace, _ = sr.legal_trace(cfg, seed)
            if not trace:
                ck.count("no_legal_trace:" + name); continue
            for k in range(len(trace) + 1):
                for side in ("c", "s"):
                    for (an, raw, d) in atk:
                        i = len(scripts)
                        scripts.append(prefix_script(cfg, seed, trace, k) + " ; inj %s %s ; st" % (side, raw.hex()))
                        inj_desc[i] = [d]; meta.append((name, k, side, an))
                    # application send attempted in this state
                    i = len(scripts)
                    scripts.append(prefix_script(cfg, seed, trace, k) + " ; app %s 70696e67 ; st" % side)
                    meta.append((name, k, side, "appsend"))
            # replay / reflection of genuine records: save the k-th record, finish the handshake, then replay it
            for k in range(len(trace)):
                d0 = trace[k]
                to = "s" if d0 == "c2s" else "c"
                other = "c" if to == "s" else "s"
                base = prefix_script(cfg, seed, trace, k) + " ; save %s 1" % d0
                for dd in trace[k:]:
                    base += " ; step %s" % dd
                for tgt, nm in ((to, "replay_same"), (other, "reflect")):
                    i = len(scripts)
                    scripts.append(base + " ; replay %s 1 ; st" % tgt)
                    inj_desc[i] = [None]; meta.append((name, k, tgt, nm))
            if "smaxed" in cfg:
                # TLS 1.3 0-RTT: the client writes early data behind its ClientHello; the server either accepts it (resumption PSK,
                # delivered in WAIT_EOED up to the limit) or rejects it and skips the undecryptable records up to its limit
                pump = "".join(" ; step c2s 9 ; step s2c 9" for _ in range(4))
                for sizes in ((5,), (600,), (600, 300), (600, 600), (999, 1, 1), (3000, 1999), (3000, 2001), (1, 1, 1, 1)):
                    i = len(scripts)
                    scripts.append(sesslib.newcmd(cfg, seed) + "".join(" ; app c %s" % ("%02x" % (0x41 + j) * n) for j, n in enumerate(sizes)) + pump
                                   + " ; app c 6c61746572 ; step c2s 9 ; app s 7265706c79 ; step s2c 9 ; st")
                    meta.append((name, 0, "s", "earlydata:" + "+".join(str(n) for n in sizes)))
            full0 = prefix_script(cfg, seed, trace, len(trace))
            # the application-data gate in every handshake state: on an established session (keys active both ways) the
            # receiver's hsState is overwritten with each SSL_HS_* value, then a genuine sealed application record arrives
            for side in ("c", "s"):
                other = "s" if side == "c" else "c"; din = "c2s" if side == "s" else "s2c"
                for hsv in list(range(1, 41)) + [255]:     # 0 = HELLO_REQUEST: only reachable with rehandshaking compiled in
                    scripts.append(full0 + " ; seths %s %d ; app %s 6869 ; step %s ; st" % (side, hsv, other, din))
                    meta.append((name, len(trace), side, "gate:hs=%d" % hsv))
                # a misbehaving authenticated peer: correctly protected records of the wrong kind in DONE
                for (rt, ht, body, nm) in ((22, 0, "-", "hs:HelloRequest"), (22, 1, "0303" + "00" * 32 + "00", "hs:ClientHello"), (22, 20, "00" * 12, "hs:Finished"),
                                          (20, 0, "01", "ccs"), (21, 0, "0164", "alert:warn:no_renegotiation"), (21, 0, "0264", "alert:fatal:no_renegotiation"),
                                          (21, 0, "015a", "alert:warn:user_canceled"), (23, 0, "-", "app:empty")):
                    scripts.append(full0 + " ; forge %s %d %d %s ; step %s ; app %s 6869 ; step %s ; app %s 6a ; st" % (other, rt, ht, body, din, other, din, side))
                    meta.append((name, len(trace), side, "forge:" + nm))
            # legal handshake then data both ways, then replay of a data record
            full = prefix_script(cfg, seed, trace, len(trace))
            i = len(scripts)
            scripts.append(full + " ; app c 68656c6c6f ; save c2s 2 ; step c2s ; app s 776f726c64 ; step s2c ; app c - ; step c2s ; replay s 2 ; st")
            inj_desc[i] = [None]; meta.append((name, len(trace), "s", "data_then_replay"))
    return scripts, inj_desc, meta


GCM12 = {"tls12": "009c", "tls12_cauth": "009c", "tls12_rsa": None, "tls12_ec": "c02b", "tls12_big_cauth": "009c",
         "tls12_resumed_id": "009c", "tls12_resumed_ticket": "009c", "tls12c_13s": "009c", "tls12_ticketopt": "009c"}
EXTRA_CONFIGS = {"tls12_ticketopt": "cv=3 sv=3 ticket=1"}      # a client that asks for a session ticket and holds none yet


def build_keyless_scenarios(ck, sr, cfgs, seeds, scripts, inj_desc, meta):
    """Attackers that need no key at all (spec oracle only; these steps are not steps of the record-layer model):
    (a) `nullfin`: in every state of the legal TLS <= 1.2 handshake, on either side, ChangeCipherSpec + a Finished + an application
        record sealed under the keys that follow from an ALL-ZERO master secret and the public randoms (the victim's secrets are
        still at their initial value before its key exchange: CVE-2014-0224 and relatives);
    (b) `nullsh`: the attacker answers the ClientHello itself - ServerHello without extensions, session id echoed / empty / made up,
        suite of its choice - and goes on with (a): every shortcut of the client towards an abbreviated handshake is tried;
    (c) unauthenticated records the receiver tolerates (TLS 1.3: ChangeCipherSpec) put in front of genuine records in the same
        receive call: what is delivered must still be exactly what the peer submitted."""
    allcfg = dict(CONFIGS); allcfg.update(EXTRA_CONFIGS)
    for name in cfgs:
        cfg = allcfg[name]
        for seed in seeds:
            trace, _ = sr.legal_trace(cfg, seed)
            if not trace:
                ck.count("no_legal_trace:" + name); continue
            n = len(trace)
            v13 = "cv=4" in cfg
            if not v13:
                for k in range(n + 1):
                    for side in ("c", "s"):
                        scripts.append(prefix_script(cfg, seed, trace, k) + " ; nullfin %s ; st" % side)
                        meta.append((name, k, side, "keyless:nullfin"))
                for var in (0, 1, 2):
                    for suite in ("009c", "c02f", "009d", "c030", "c02b"):
                        scripts.append(sesslib.newcmd(cfg, seed) + " ; nullsh %d %s ; nullfin c ; st" % (var, suite))
                        meta.append((name, 0, "c", "keyless:nullsh%d:%s" % (var, suite)))
            # tolerated unauthenticated records coalesced with genuine ones
            ccs = "140303000101"
            for k in range(n + 1):
                for d0 in ("c2s", "s2c"):
                    snd = "c" if d0 == "c2s" else "s"
                    tail = (" ; app %s 636f616c6573636564" % snd) if k == n else ""
                    for where in ("head", "tail"):
                        if where == "tail" and k < n:
                            continue
                        scripts.append(prefix_script(cfg, seed, trace, k) + tail + " ; qinj %s head %s ; " % (d0, ccs)
                                       + ("qinj %s head %s ; " % (d0, ccs) if where == "tail" else "") + "flight %s all ; st" % d0)
                        meta.append((name, k, "s" if d0 == "c2s" else "c", "coalesced:ccs%s" % ("x2" if where == "tail" else "")))


class _Saved:
    """a record captured by `save` on a DTLS wire queue, described by the metadata `save` printed"""
    def __init__(self, meta, side):
        self.meta, self.side, self.pre, self.alerts_in, self.appdata = meta, side, {"v": 0, "se": 0}, [], []


def fill_replay_desc(scripts, outs, inj_desc):
    """replayed genuine records: description = that of the saved record, but no longer verifying (Bad) when sealed
    (DTLS: still verifying at the side it was sealed for - see sesslib.describe_genuine).  Every None slot of a script's
    description list is filled with the description of the record saved by the script's (last preceding) `save`."""
    for si, dl in inj_desc.items():
        if None not in dl:
            continue
        out = outs[si] if si < len(outs) else ""
        segs = out.split(" | ")
        cmds = scripts[si].split(" ; ")
        # the saved record is the next stepped record after the `save` segment in direction order: find its meta
        saved = None
        for j, seg in enumerate(segs):
            if seg.startswith("save:"):
                mm = sesslib.META_RE.search(seg)
                if mm and mm.group(7) is not None:      # DTLS: `save` printed the metadata itself
                    m2 = mm
                    meta = {"o": int(m2.group(1)), "i": int(m2.group(2)), "s": int(m2.group(3)), "l": int(m2.group(4)),
                            "b0": int(m2.group(5)[:2], 16), "b1": int(m2.group(5)[2:], 16), "e": int(m2.group(6) or 0),
                            "ep": int(m2.group(7)), "sq": int(m2.group(8)), "dg": int(m2.group(9)),
                            "vr": (int(m2.group(10)[:2], 16), int(m2.group(10)[2:], 16))}
                    dirn = cmds[j].split()[1] if j < len(cmds) and len(cmds[j].split()) > 1 else "c2s"
                    saved = _Saved(meta, "s" if dirn == "c2s" else "c")
                    break
                for seg2 in segs[j + 1:]:
                    st = parse_steps(seg2)
                    if st and st[0].kind == "step" and st[0].meta:
                        saved = st[0]; break
                break
        if saved is None:
            inj_desc[si] = [x for x in dl if x is not None]
            continue
        d = sesslib.describe_genuine(saved, in_order=False)
        inj_desc[si] = [dict(d) if x is None else x for x in dl]


def load_corpus(scripts, inj_desc, meta):
    """corpus/C01/*.case: one script per line (`#` comments); kept defect witnesses and past disagreements, always run.
    A line may end in `## <abstract descriptions as JSON list>` for its inj/replay steps (None = filled from `save`)."""
    import os, glob
    n = 0
    for f in sorted(glob.glob(os.path.join(vlib.VERIF, "corpus", "C01", "*.case"))):
        for line in open(f):
            line = line.strip()
            if not line or line.startswith("#"):
                continue
            desc = None
            if " ## " in line:
                line, dj = line.split(" ## ", 1); desc = json.loads(dj)
            i = len(scripts)
            scripts.append(line.strip())
            if desc is not None:
                inj_desc[i] = desc
            meta.append(("corpus", 0, "-", "corpus:" + os.path.basename(f))); n += 1
    return n


def run(ck):
    ck.trusted += ["Coq 8.16.1 kernel", "tools/srcgen/consts.c + gen_defines.py translators",
                   "extraction (ExtrOcamlBasic only) + ocaml/drv_sess.ml; harness/h_sess.c + sess.h (link-time wraps of psGetEntropy, psGetBrokenDownGMTime, TLS 1.3 AEAD seal to read inner content types)",
                   "modelled, not verified: matrixSslDecode / matrixSslDecodeTls13 / matrixSslDecodeTls12AndBelow record-layer control flow and the encode gates are hand-written Gallina (coq/Sess/SessModel.v) compared with the library step by step on every run",
                   "handshake-message processing is an oracle in the model (answers read off the implementation); symbolic keys: a record is Good iff it verifies under the receiver's current key and sequence number (byte-level realisation: C02)"]
    ck.assumptions += ["attacker without session keys = can only produce records that are plaintext, garbage, or copies of records an honest peer sent",
                       "DTLS: epoch and sequence number are explicit and authenticated, so a copy of a genuine record still verifies at the side it was sealed for; "
                       "what keeps it out is the replay window (r_replay = Dup), whose agreement with 'this sequence number was accepted before in this epoch' is C16's theorem. "
                       "The attacker of the DTLS theorems is therefore: records that do not verify, or copies (Dup) of records of the expected epoch",
                       "DTLS: records of another epoch and replayed sequence numbers are dropped before decryption (silently or with a retransmission request); "
                       "a record of the expected epoch with a fresh sequence number that fails to verify is fatal, as in TLS (MatrixSSL does not use RFC 6347 4.1.2.7's permission to discard it)",
                       "DTLS model = one record per datagram; a datagram with several records is decoded record by record by the same code, records behind an answered record are dropped unread"]
    ck.build_repo()
    ck.regen([("consts.sh",), ("gen_defines.py",)])
    ck.coq_properties()
    sr = sesslib.SessRun(ck)
    cfgs = ["tls12", "tls13", "tls13c_12s", "tls12_cauth", "tls13_cauth", "tls12_cbc", "tls12_resumed_id", "tls12_resumed_ticket", "tls13_resumed_psk", "tls13_resumed_early", "tls13_extpsk"] if ck.tier == "quick" else list(CONFIGS)
    seeds = [ck.seed] if ck.tier == "quick" else [ck.seed, ck.seed + 1, ck.seed + 2]
    scripts, inj_desc, meta = build_scenarios(ck, sr, cfgs, seeds)
    ntls = len(scripts)
    dcfgs = ["dtls12", "dtls12_cbc", "dtls12_cauth", "dtls12_resumed_id", "dtls10"] if ck.tier == "quick" else list(DTLS_CONFIGS)
    build_dtls_scenarios(ck, sr, dcfgs, seeds, scripts, inj_desc, meta, full_cfgs=("dtls12",) if ck.tier == "quick" else ("dtls12", "dtls12_cbc", "dtls10", "dtls12_resumed_id"))
    kcfgs = (["tls12", "tls12_cauth", "tls12_resumed_id", "tls12_resumed_ticket", "tls12_ticketopt", "tls13", "tls13_cauth", "tls13_resumed_psk"] if ck.tier == "quick"
             else [c for c in list(CONFIGS) + list(EXTRA_CONFIGS) if "cv=2" not in (dict(CONFIGS, **EXTRA_CONFIGS))[c] and "suite=c027" not in (dict(CONFIGS, **EXTRA_CONFIGS))[c]])
    nk0 = len(scripts)
    build_keyless_scenarios(ck, sr, kcfgs, seeds, scripts, inj_desc, meta)
    ck.cov["keyless_attacker_scenarios"] = len(scripts) - nk0
    corpus = load_corpus(scripts, inj_desc, meta)
    ck.cov["dtls_scenarios"] = len(scripts) - ntls
    outs = sr.run(scripts)
    fill_replay_desc(scripts, outs, inj_desc)
    back = sesslib.analyse(ck, sr, scripts, outs, "session record-layer machine: decode(model) vs matrixSslReceivedData(impl)", inj_desc)
    ck.rules.append("for each configuration (TLS 1.1/1.2/1.3, fallback, client-auth, CBC/GCM): every prefix of the legal record trace x both sides x "
                    "15 attacker-makeable records (plaintext app data/alerts/CCS/handshake, garbage, bad headers, wrong record version; framed with the "
                    "version the configuration negotiates) + replay and cross-direction "
                    "reflection of every genuine record + application sends in every state; a step is non-trivial unless refused by the dead-session guard")
    ck.rules.append("DTLS 1.2 (GCM, CBC, client auth, resumed) and DTLS 1.0: the same matrix with records in DTLS framing, one record per datagram: "
                    "epoch in {0, expected, expected+1} x sequence number in {fresh, replayed, far ahead} (full cross product for 6 record kinds, "
                    "expected epoch + fresh number for the others), truncated datagram, wrong version; replay / reflection of every genuine record "
                    "right after the handshake, after data exchange and immediately (network duplication); reordered data records; retransmission "
                    "timeouts (matrixDtlsGetOutdata with nothing pending) in every state; whole-datagram handshakes; handshakes losing one flight")
    # ---- Impl vs Spec
    sent_ok = 0
    delivered = set()
    for si, st, d in back:
        if st.appdata:
            legit = st.kind == "step" and st.pre["done"] == 1
            if st.pre["dt"]:
                # DTLS: a genuine record may arrive late or out of order (also through `replay` of a record that was never delivered),
                # but it is delivered at most once, only at the side it was sealed for, unmodified, after completion
                key = (si, st.side, d.get("ep"), d.get("sq"))
                legit = st.pre["done"] == 1 and st.kind in ("step", "replay") and d.get("prot") == "good" and key not in delivered
                if key in delivered:
                    ck.spec_violation("dtls-record-delivered-twice:hs%d" % st.pre["hs"], "DTLS record (epoch %s, sequence number %s) was delivered to the application twice" % (d.get("ep"), d.get("sq")),
                                      {"harness": "h_sess", "script": scripts[si], "observed": st.body, "scenario": meta[si]})
                delivered.add(key)
                ck.count("dtls_delivery:" + st.kind)
            # accepted 0-RTT data: a TLS 1.3 server that enabled early data for a resumption PSK, in WAIT_EOED, from a record that verified
            if st.kind == "step" and st.pre["v"] == 1 and st.pre["sv"] == 1 and st.pre["se"] == 1 and st.pre["hs"] == 27 and d.get("prot") == "good":
                ck.count("accepted_early_data_delivered"); legit = True
            # fabricated-state sweep only: the <= 1.2 gate deliberately admits hsState = SERVER_HELLO with read protection on
            # (a client that sent a renegotiation ClientHello); with rehandshaking compiled out no real session reaches that
            # combination - it is produced here by overwriting hsState - and the C01 theorem lists it in deliver_state
            if meta[si][3].startswith("gate:") and st.pre["v"] == 0 and st.pre["hs"] == 2 and st.pre["R"]:
                ck.count("gate_sweep_rehandshake_allowance"); legit = True
            # likewise WAIT_EOED (27) is entered by a real TLS 1.3 server only after it accepted early data; the sweep fabricates it
            if meta[si][3].startswith("gate:") and st.pre["v"] == 1 and st.pre["hs"] == 27 and st.pre["R"]:
                ck.count("gate_sweep_wait_eoed_allowance"); legit = True
            if not legit:
                ck.spec_violation("appdata:%s:v%d:hs%d:R%d:%s" % (st.kind, st.pre["v"], st.pre["hs"], st.pre["R"], d.get("prot")),
                                  "application data %s reported to the %s application from a %s record in hsState %d (handshake complete=%d, read protection=%d)" % (
                                      st.appdata, "server" if st.side == "s" else "client", "genuine" if st.kind == "step" else "attacker-injected/replayed",
                                      st.pre["hs"], st.pre["done"], st.pre["R"]),
                                  {"harness": "h_sess", "script": scripts[si], "observed": st.body, "scenario": meta[si]})
    # datagram-level deliveries and attacker datagrams with several records are not steps of the model: spec oracle only
    for si, out in enumerate(outs):
        if meta[si][3] == "datagram_handshake" or meta[si][3].startswith("multi_record_datagram"):
            for m in sesslib.re.finditer(r"(stepdg|inj):([cs]) pre=(\S+) (.*?)post=(\S+)", out):
                pre = sesslib.parse_snap(m.group(3)); body = m.group(4)
                got = sesslib.re.findall(r"APPDATA:([0-9a-f-]+)", body)
                if got and (m.group(1) == "inj" or not (pre and pre["done"])):
                    ck.spec_violation("dtls-datagram-delivery:%s:hs%s" % (m.group(1), pre["hs"] if pre else "?"),
                                      "application data %s delivered from %s" % (got, "an attacker-made datagram" if m.group(1) == "inj" else "a datagram received before the handshake completed"),
                                      {"harness": "h_sess", "script": scripts[si], "observed": body[:400], "scenario": meta[si]})
                elif got:
                    ck.count("dtls_datagram_delivery_ok")
                elif m.group(1) == "inj":
                    ck.count("dtls_attacker_datagram_nothing_delivered")
    # DTLS liveness sanity of the harness scenarios (not a C01 obligation, but a dead scenario would prove nothing): whole-datagram
    # handshakes and handshakes that lost one flight complete and carry data both ways
    for si, out in enumerate(outs):
        if meta[si][3] in ("datagram_handshake", "lost_flight"):
            segs = out.split(" | ")
            data = "".join(re_app for re_app in sesslib.re.findall(r"APPDATA:([0-9a-f]+)", out))
            fin = sesslib.re.search(r"st:c=(\S+) s=(\S+)$", out.strip())
            cdone = fin and (sesslib.parse_snap(fin.group(1)) or {}).get("done")
            sdone = fin and (sesslib.parse_snap(fin.group(2)) or {}).get("done")
            if cdone and sdone and "68656c6c6f" in data and "776f726c64" in data:
                ck.count("dtls_%s_completed" % meta[si][3])
            else:
                ck.count("dtls_%s_incomplete" % meta[si][3])
                ck.count("dtls_%s_incomplete:%s:k=%d" % (meta[si][3], meta[si][0], meta[si][1]))
    # delivered bytes = submitted bytes, in order (legal data exchange scripts)
    for si, out in enumerate(outs):
        if meta[si][3] != "data_then_replay":
            continue
        got_s = "".join(a for seg in out.split(" | ") for st in parse_steps(seg) if st.side == "s" for a in st.appdata if a != "-")
        got_c = "".join(a for seg in out.split(" | ") for st in parse_steps(seg) if st.side == "c" for a in st.appdata if a != "-")
        if got_s != "68656c6c6f" or got_c != "776f726c64":
            ck.spec_violation("data-exchange:%s" % meta[si][0], "delivered bytes differ from submitted bytes (server got %s, client got %s)" % (got_s, got_c),
                              {"harness": "h_sess", "script": scripts[si], "observed": out[-600:]})
        else:
            ck.count("legal_data_exchange_ok")
    # key-less attackers (nullsh / nullfin): nothing is ever delivered, and a handshake that was not complete does not become so
    for si, out in enumerate(outs):
        if not meta[si][3].startswith("keyless:"):
            continue
        for m in sesslib.re.finditer(r"(nullsh|nullfin):([cs]) pre=(\S+) (.*?)post=(\S+)", out):
            pre, post, body = sesslib.parse_snap(m.group(3)), sesslib.parse_snap(m.group(5)), m.group(4)
            got = sesslib.re.findall(r"APPDATA:([0-9a-f-]+)", body)
            if "skip:" in body:
                ck.count("keyless_skipped_suite"); continue
            ck.count("keyless:%s:%s" % (m.group(1), "dead" if post and (post["E"] or post["C"]) else "alive"))
            if got or (pre and post and not pre["done"] and post["done"]) or "HSDONE" in body:
                ck.spec_violation("keyless-attacker:%s:hs%s:%s" % (m.group(1), pre["hs"] if pre else "?", "delivered" if got else "completed"),
                                  "an attacker holding no key at all (ChangeCipherSpec + Finished computed from an all-zero master secret%s) %s" % (
                                      ", after a ServerHello of its own" if "nullsh" in scripts[si] else "",
                                      ("made the %s deliver %s as application data" % ("server" if m.group(2) == "s" else "client", got)) if got else "completed the victim's handshake"),
                                  {"harness": "h_sess", "script": scripts[si], "observed": out[-700:], "scenario": meta[si]})
    # exact delivery, every script: each chunk handed to an application is byte for byte a chunk the peer application submitted
    # (`app`) or a misbehaving authenticated peer sealed (`forge` of an application record) in that script
    for si, out in enumerate(outs):
        sub = set()
        for c in scripts[si].split(" ; "):
            w = c.split()
            if len(w) >= 3 and w[0] == "app":
                sub.add("" if w[2] == "-" else w[2])
            if len(w) >= 4 and w[0] == "forge" and w[2] == "23":
                sub.add("" if (len(w) < 5 or w[4] == "-") else w[4])
        for a in sesslib.re.findall(r"APPDATA:([0-9a-f]*)", out):
            if a in sub:
                ck.count("delivered_chunk_equals_submitted")
            elif meta[si][3].startswith("keyless:"):
                pass        # reported above
            else:
                ck.spec_violation("delivered-bytes-never-submitted:%s" % meta[si][3].split(":")[0],
                                  "the application was handed %s, which no application submitted in this session (submitted: %s)" % (a[:80], sorted(sub)[:4]),
                                  {"harness": "h_sess", "script": scripts[si], "observed": out[-700:], "scenario": meta[si]})
        if meta[si][3].startswith("coalesced:"):
            ck.count("coalesced:%s" % ("delivered" if "APPDATA:" in out else "nothing_delivered"))
    # application send only when complete
    enc_cases, enc_obs = [], []
    for si, out in enumerate(outs):
        if meta[si][3] != "appsend":
            continue
        m = sesslib.re.search(r"app:([cs]) pre=(\S+) rc=(\S+)", out)
        if not m:
            continue
        pre = sesslib.parse_snap(m.group(2)); ok = m.group(3) == "OK"
        enc_cases.append("enc " + sesslib.st_fields(pre)); enc_obs.append("ok=%d" % ok)
        if ok and not pre["done"] and not (pre["ce"] or pre["se"]):
            ck.spec_violation("seal-before-done:v%d:hs%d" % (pre["v"], pre["hs"]), "application data encrypted before the handshake completed",
                              {"harness": "h_sess", "script": scripts[si], "observed": out[-300:]})
        sent_ok += ok
    if sr.drv and enc_cases:
        rc, model, err = ck.run_lines(sr.drv, enc_cases)
        ck.correspond("encode gate: encode_app_ok(model) vs matrixSslEncodeToOutdata(impl)", enc_cases, enc_obs, model)
    ck.cov["scenarios"] = len(scripts)
    ck.cov["app_sends_accepted"] = sent_ok
    ck.cov["exhaustive"] = False


def replay(ck, path):
    rp = json.load(open(path))["replay"]
    sr = sesslib.SessRun(ck)
    out = sr.run([rp["script"]])
    print("script:", rp["script"]); print("observed now:", out[0] if out else None)
