"""C12 - hashes, MACs, KDFs, ciphers, AEADs exact for every length and call pattern.

Theorems: coq/Properties/Properties_C12.v (specs coq/Crypto/CryptoSpec.v + CryptoSym.v, code-shaped models
CryptoModel.v + CryptoSym.v, shared primitives CryptoPrims.v, standards' KATs CryptoKAT.v).
Tie: harness/h_crypto.c drives the real psSha*/psMd5*/psHmac*/psHkdf*/psPkcs5Pbkdf2/psAes*CBC/psAes*GCM/
psChacha20Poly1305Ietf* of the freshly built library on the same generated case lines as the extracted
spec+model (ocaml/drv_c12.ml); every harness case runs in a forked child so a crash is a result.
Search oracle (Impl vs Spec, independent of the Gallina text): Python hashlib / hmac / pbkdf2_hmac, a
pure-Python HKDF, GCM (GF(2^128) on Python ints) and ChaCha20-Poly1305, with AES blocks from the
`openssl` CLI when it is installed; 3DES-EDE-CBC by the pure-Python FIPS 46-3 reference tools/c12/des_ref.py
(openssl `-des-ede3-cbc` as a second opinion on a sample).  The evidence lists which primitives this
configuration builds and how each is covered (coverage.primitive_inventory).
"""
import hashlib, hmac as pyhmac, itertools, json, os, shutil, subprocess, threading, time
import vlib
import sys
sys.path.insert(0, os.path.join(vlib.VERIF, "tools", "c12"))
import des_ref                     # pure-Python FIPS 46-3 / SP 800-67 reference (self-tested against published vectors and openssl)

HASH = {"sha256": hashlib.sha256, "sha1": hashlib.sha1, "sha384": hashlib.sha384, "sha512": hashlib.sha512, "md5": hashlib.md5}
BLOCK = {"sha256": 64, "sha1": 64, "md5": 64, "sha384": 128, "sha512": 128}
HLEN = {"sha256": 32, "sha1": 20, "md5": 16, "sha384": 48, "sha512": 64}
PS_ARG_FAIL, PS_LIMIT_FAIL, PS_UNSUPPORTED_FAIL = 6, 9, 10
hx = vlib.hexs
un = vlib.unhex


# ---------------------------------------------------------------- independent oracles
def o_hkdf_expand(alg, prk, info, L):
    if len(info) > 80: return "rc=%d" % PS_LIMIT_FAIL
    if len(prk) < HLEN[alg] or L > 255 * HLEN[alg]: return "rc=%d" % PS_ARG_FAIL
    t, okm, i = b"", b"", 1
    while len(okm) < L:
        t = pyhmac.new(prk, t + info + bytes([i]), HASH[alg]).digest(); okm += t; i += 1
    return hx(okm[:L])

OPENSSL = shutil.which("openssl")
_aes_cache = {}
def aes_ecb(key, data, decrypt=False):
    """AES-ECB of whole blocks through the openssl CLI (None when not available)."""
    if not OPENSSL: return None
    k = (key, data, decrypt)
    if k not in _aes_cache:
        p = subprocess.run([OPENSSL, "enc", "-aes-%d-ecb" % (8 * len(key)), "-K", key.hex(), "-nopad"] + (["-d"] if decrypt else []),
                           input=data, capture_output=True, timeout=60)
        _aes_cache[k] = p.stdout if p.returncode == 0 and len(p.stdout) == len(data) else None
    return _aes_cache[k]

def xor(a, b): return bytes(x ^ y for x, y in zip(a, b))

def o_cbc(enc, key, iv, data):
    if not OPENSSL: return None
    p = subprocess.run([OPENSSL, "enc", "-aes-%d-cbc" % (8 * len(key)), "-K", key.hex(), "-iv", iv.hex(), "-nopad"] + ([] if enc else ["-d"]),
                       input=data, capture_output=True, timeout=60)
    return hx(p.stdout) if p.returncode == 0 and len(p.stdout) == len(data) else None

def gf_mul(x, y):                       # SP 800-38D 6.3, blocks as 128-bit ints (bit 0 of the block = msb)
    R = 0xE1 << 120; z = 0; v = y
    for i in range(128):
        if (x >> (127 - i)) & 1: z ^= v
        v = (v >> 1) ^ R if v & 1 else v >> 1
    return z

def o_gcm(key, iv, aad, data, decrypt):
    """returns (output, full 16-byte tag) or None"""
    nblk = (len(data) + 15) // 16
    j0 = iv + b"\x00\x00\x00\x01"
    ctrs = b"".join(iv + (2 + i).to_bytes(4, "big") for i in range(nblk))
    ks = aes_ecb(key, bytes(16) + j0 + ctrs)
    if ks is None: return None
    H, ej0, stream = int.from_bytes(ks[:16], "big"), ks[16:32], ks[32:]
    out = xor(data, stream)
    ct = data if decrypt else out
    y = 0
    for part in (aad, ct):
        for i in range(0, len(part), 16):
            y = gf_mul(y ^ int.from_bytes(part[i:i + 16].ljust(16, b"\0"), "big"), H)
    y = gf_mul(y ^ ((8 * len(aad)) << 64 | (8 * len(ct))), H)
    return out, xor(y.to_bytes(16, "big"), ej0)

def chacha_block(key, counter, nonce):
    def rotl(v, c): return ((v << c) & 0xffffffff) | (v >> (32 - c))
    st = [0x61707865, 0x3320646e, 0x79622d32, 0x6b206574] + [int.from_bytes(key[4 * i:4 * i + 4], "little") for i in range(8)] + \
         [counter] + [int.from_bytes(nonce[4 * i:4 * i + 4], "little") for i in range(3)]
    w = st[:]
    def qr(a, b, c, d):
        w[a] = (w[a] + w[b]) & 0xffffffff; w[d] = rotl(w[d] ^ w[a], 16)
        w[c] = (w[c] + w[d]) & 0xffffffff; w[b] = rotl(w[b] ^ w[c], 12)
        w[a] = (w[a] + w[b]) & 0xffffffff; w[d] = rotl(w[d] ^ w[a], 8)
        w[c] = (w[c] + w[d]) & 0xffffffff; w[b] = rotl(w[b] ^ w[c], 7)
    for _ in range(10):
        qr(0, 4, 8, 12); qr(1, 5, 9, 13); qr(2, 6, 10, 14); qr(3, 7, 11, 15)
        qr(0, 5, 10, 15); qr(1, 6, 11, 12); qr(2, 7, 8, 13); qr(3, 4, 9, 14)
    return b"".join(((w[i] + st[i]) & 0xffffffff).to_bytes(4, "little") for i in range(16))

def poly1305(key, msg):
    r = int.from_bytes(key[:16], "little") & 0x0ffffffc0ffffffc0ffffffc0fffffff
    s = int.from_bytes(key[16:], "little"); a = 0; p = (1 << 130) - 5
    for i in range(0, len(msg), 16):
        a = ((a + int.from_bytes(msg[i:i + 16] + b"\x01", "little")) * r) % p
    return ((a + s) & ((1 << 128) - 1)).to_bytes(16, "little")

def o_chp(key, nonce, aad, data, decrypt):
    otk = chacha_block(key, 0, nonce)[:32]
    ks = b"".join(chacha_block(key, 1 + i, nonce) for i in range((len(data) + 63) // 64))
    out = xor(data, ks)
    ct = data if decrypt else out
    pad = lambda b: b + bytes((16 - len(b) % 16) % 16)
    tag = poly1305(otk, pad(aad) + pad(ct) + len(aad).to_bytes(8, "little") + len(ct).to_bytes(8, "little"))
    return out, tag

def oracle(line):
    """expected canonical result line by the standards, or None when no independent oracle applies"""
    t = line.split()
    op = t[0]
    if op == "dg": return HASH[t[1]](un(t[2])).hexdigest()
    if op in ("hms", "hmg"): return pyhmac.new(un(t[2]), un(t[3]), HASH[t[1]]).hexdigest()
    if op == "hm1":
        k = un(t[2])
        return pyhmac.new(k, un(t[3]), HASH[t[1]]).hexdigest() + " %d" % (HLEN[t[1]] if len(k) > BLOCK[t[1]] else len(k))
    if op == "hkx": return pyhmac.new(un(t[2]), un(t[3]), HASH[t[1]]).hexdigest()
    if op == "hke": return o_hkdf_expand(t[1], un(t[2]), un(t[3]), int(t[4]))
    if op == "pb2":
        it = int(t[3])
        return hx(hashlib.pbkdf2_hmac("sha1", un(t[1]), un(t[2]), max(it, 1), int(t[4])))
    if op == "cbc": return o_cbc(t[1] == "e", un(t[2]), un(t[3]), un(t[4]))
    if op == "gcm":
        key, iv, aad, data = un(t[2]), un(t[3]), un(t[4]), un(t[5])
        if t[1] == "e":
            r = o_gcm(key, iv, aad, data, False)
            return None if r is None else hx(r[0]) + " " + hx(r[1][:int(t[6])])
        tag = un(t[6])
        r = o_gcm(key, iv, aad, data, True)
        if r is None: return None
        if t[1] == "d" and len(tag) == 0: return "rc=%d" % PS_ARG_FAIL
        return "ok " + hx(r[0]) if r[1][:len(tag)] == tag else "authfail"
    if op == "gcmr":                                                        # second message of a reused context = a fresh encryption
        r = o_gcm(un(t[1]), un(t[5]), un(t[6]), un(t[7]), False)
        return None if r is None else hx(r[0]) + " " + hx(r[1])
    if op == "gcmz":                                                        # zero ciphertext, no AAD: GHASH stays 0 until the length block
        key, iv, n = un(t[1]), un(t[2]), int(t[3])
        ks = aes_ecb(key, bytes(16) + iv + b"\x00\x00\x00\x01")
        if ks is None: return None
        s_ = gf_mul((8 * n) & ((1 << 64) - 1), int.from_bytes(ks[:16], "big"))
        return hx(xor(s_.to_bytes(16, "big"), ks[16:]))
    if op == "des3": return hx(des_ref.des3_cbc(un(t[2]), un(t[3]), un(t[4]), decrypt=(t[1] == "d")))
    if op == "m5s1": return hashlib.md5(un(t[1])).hexdigest() + hashlib.sha1(un(t[1])).hexdigest()
    if op == "aesb":
        if len(un(t[2])) not in (16, 24, 32): return "rc=badkey"
        r = aes_ecb(un(t[2]), un(t[3]), decrypt=(t[1] == "d"))
        return None if r is None else hx(r)
    if op == "pb1":
        pw, salt = un(t[1]), un(t[2])
        d1 = hashlib.md5(pw + salt).digest(); d2 = hashlib.md5(d1 + pw + salt).digest()
        return hx((d1 + d2)[:24])
    if op == "sa2": return hashlib.sha256(un(t[1])).hexdigest()
    if op == "s5s": return hashlib.sha512(un(t[1])).hexdigest()
    if op == "hsg": return HASH[t[1]](un(t[2])).hexdigest() if t[1] in ("sha256", "sha384", "sha512") else "rc=%d" % PS_UNSUPPORTED_FAIL
    if op == "hm0": return pyhmac.new(un(t[2]), un(t[3]), HASH[t[1]]).hexdigest()
    if op == "chpd":
        key, nonce, aad, data = un(t[2]), un(t[3]), un(t[4]), un(t[5])
        if t[1] == "e":
            out, tag = o_chp(key, nonce, aad, data, False); return hx(out) + " " + hx(tag)
        out, tag = o_chp(key, nonce, aad, data, True)
        return "ok " + hx(out) if tag == un(t[6]) else "authfail"
    if op == "chp":
        key, nonce, aad, data = un(t[2]), un(t[3]), un(t[4]), un(t[5])
        if t[1] == "e":
            out, tag = o_chp(key, nonce, aad, data, False)
            return hx(out + tag)
        if len(data) < 16: return "rc=%d" % PS_ARG_FAIL
        out, tag = o_chp(key, nonce, aad, data[:-16], True)
        return "ok " + hx(out) if tag == data[-16:] else "authfail"
    return None


# ---------------------------------------------------------------- cost model (compression-function calls on the model side)
def nblocks(alg, n): return (n + (9 if BLOCK[alg] == 64 else 17) + BLOCK[alg] - 1) // BLOCK[alg]
def hmac_cost(alg, klen, mlen):
    return (nblocks(alg, klen) if klen > BLOCK[alg] else 0) + nblocks(alg, BLOCK[alg] + mlen) + nblocks(alg, BLOCK[alg] + HLEN[alg])
def cost(line):
    t = line.split(); op = t[0]
    L = lambda h: 0 if h == "-" else len(h) // 2
    if op == "dg": return 2 * nblocks(t[1], L(t[2]))
    if op in ("hms", "hmg", "hm1", "hkx"): return 2 * hmac_cost(t[1], L(t[2]), L(t[3])) + (nblocks(t[1], L(t[2])) if op == "hm1" else 0)
    if op == "hke":
        a = t[1]; n = int(t[4]) // HLEN[a] + 1
        return 2 * n * hmac_cost(a, L(t[2]), HLEN[a] + L(t[3]) + 1) if L(t[3]) <= 80 and L(t[2]) >= HLEN[a] and int(t[4]) <= 255 * HLEN[a] else 1
    if op == "pb2":
        nb = (int(t[4]) + 19) // 20
        return 2 * nb * max(int(t[3]), 1) * hmac_cost("sha1", L(t[1]), 20 + L(t[2]))
    if op == "cbc": return 2 * (L(t[4]) // 16 + 1)
    if op == "gcm": return 6 * ((L(t[5]) + 15) // 16 + (L(t[4]) + 15) // 16 + 4)      # AES block + GHASH multiplication
    if op == "gcmr": return 6 * ((L(t[3]) + L(t[7]) + 30) // 16 + (L(t[6]) + 15) // 16 + 8)
    if op in ("chp", "chpd"): return 4 * ((L(t[5]) + 63) // 64 + 2) + (L(t[5]) + L(t[4])) // 8
    if op == "des3": return L(t[4]) // 8 + 2
    if op == "m5s1": return 2 * (nblocks("md5", L(t[1])) + nblocks("sha1", L(t[1])))
    if op == "aesb": return 2
    if op == "pb1": return 4 * nblocks("md5", L(t[1]) + 24)
    if op == "sa2": return nblocks("sha256", L(t[1]))
    if op == "s5s": return nblocks("sha512", L(t[1]))
    if op == "hsg": return 2 * nblocks(t[1], L(t[2])) if t[1] in BLOCK else 1
    if op == "hm0": return 2 * hmac_cost(t[1], L(t[2]), L(t[3]))
    return 1


# ---------------------------------------------------------------- generators
def pat(r, n):
    """deterministic non-trivial message bytes"""
    return bytes(r.getrandbits(8) for _ in range(n))

def boundary_lengths(B, full):
    if full: return list(range(0, 4 * B + 2))
    s = set([0, 1, 2, 3])
    for k in (1, 2, 3, 4):
        s.update(range(k * B - (B // 8) - 3, k * B - (B // 8) + 3))      # 55/56.. and 111/112.. (+ 119/120 via the next line)
        s.update(range(k * B - 10, k * B + 3))
    return sorted(x for x in s if 0 <= x <= 4 * B + 1)

def compositions(n):
    """all 2^(n-1) ways to write n as an ordered sum of positive integers"""
    for mask in range(1 << (n - 1)):
        parts, run = [], 1
        for i in range(n - 1):
            if mask >> i & 1: parts.append(run); run = 1
            else: run += 1
        parts.append(run)
        yield parts

def spl(parts): return ",".join(str(x) for x in parts) if parts else "-"

def gen_digest(ck, r):
    thorough = ck.tier == "thorough"
    out = []
    for alg in ("sha256", "sha1", "sha384", "sha512", "md5"):
        B = BLOCK[alg]
        # (a) every length around the block / padding boundaries, one call
        for n in boundary_lengths(B, thorough):
            out.append("dg %s %s - 0" % (alg, hx(pat(r, n)))); ck.count("dg:len-sweep")
        # (b) all partitions of short messages
        nmax = 10 if thorough else (7 if alg in ("sha256", "sha512") else 5)
        for n in range(1, nmax + 1):
            m = hx(pat(r, n))
            for parts in compositions(n):
                out.append("dg %s %s %s 0" % (alg, m, spl(parts))); ck.count("dg:all-partitions")
        # partitions of the bytes around the first block boundary: prefix B-4, then all compositions of 8 bytes
        m = pat(r, B + 4)
        for parts in compositions(8 if thorough or alg == "sha256" else 5):
            out.append("dg %s %s %s 0" % (alg, hx(m), spl([B - 4] + parts))); ck.count("dg:partitions-across-boundary")
        # (c) <= 3-way splits at every cut point of a message of 2 blocks + 2
        n = 2 * B + 2; m = hx(pat(r, n))
        cuts2 = range(0, n + 1) if (thorough or alg in ("sha256", "sha512")) else [c for c in range(0, n + 1) if c % B in (0, 1, 2, B - 9, B - 8, B - 1) or c < 3]
        for i in cuts2:
            out.append("dg %s %s %s 0" % (alg, m, spl([i]))); ck.count("dg:2-way-split")
        edge = sorted(set([0, 1, B - 9, B - 8, B - 1, B, B + 1, 2 * B - 1, 2 * B, 2 * B + 1, n]))
        pairs = set((i, j) for i in edge for j in edge if i <= j)
        if thorough and B == 64:
            pairs.update((i, j) for i in range(0, n + 1) for j in range(i, n + 1))
        else:
            for _ in range(800 if thorough else 60):
                i = r.randrange(0, n + 1); j = r.randrange(i, n + 1); pairs.add((i, j))
        for (i, j) in sorted(pairs):
            out.append("dg %s %s %s 0" % (alg, m, spl([i, j - i]))); ck.count("dg:3-way-split")
        # zero-length updates interleaved
        out.append("dg %s %s 0,5,0,0,%d,0 0" % (alg, hx(pat(r, B + 9)), B)); ck.count("dg:empty-updates")
        # (d) alignments 0..15 (invisible to the model: evaluated there once per distinct message)
        for n in (B - 1, B + 1, 3 * B + 5):
            m = hx(pat(r, n))
            for al in range(16):
                out.append("dg %s %s %s %d" % (alg, m, spl([al + 1, B]), al)); ck.count("dg:alignment")
        # random lengths up to 64 KiB (thorough) / 2 KiB (quick)
        for _ in range(6 if thorough else 1):
            n = r.randrange(1, 65536 if thorough else 2048)
            k = r.randrange(1, 6)
            out.append("dg %s %s %s %d" % (alg, hx(pat(r, n)), spl([r.randrange(0, n + 1) for _ in range(k)]), r.randrange(16))); ck.count("dg:random-long")
    return out

def gen_hmac(ck, r):
    thorough = ck.tier == "thorough"
    out = []
    for alg in ("sha256", "sha1", "sha384", "md5"):
        B, H = BLOCK[alg], HLEN[alg]
        klens = sorted(set([0, 1, H, 63, 64, 65, 127, 128, 129, B - 1, B, B + 1, 2 * B + 1] + ([2, 16, 3 * B, 1000] if thorough else [])))
        mlens = [0, 1, B - 9, B - 8, B, 2 * B + 3] if thorough else [0, 3, B - 8, B + 1]
        for kl in klens:
            key = hx(pat(r, kl))
            for ml in mlens:
                m = pat(r, ml)
                splits = ["-"] + ([spl([1]), spl([ml // 2, 1])] if ml > 1 else [])
                for s in splits:
                    out.append("hms %s %s %s %s %d" % (alg, key, hx(m), s, r.randrange(16)))
                    ck.count("hmac-stream:key%sblock" % ("<" if kl < B else "=" if kl == B else ">"))
                out.append("hm1 %s %s %s %d" % (alg, key, hx(m), r.randrange(16)))
                ck.count("hmac-oneshot:key%sblock" % ("<" if kl < B else "=" if kl == B else ">"))
            out.append("hmg %s %s %s %s" % (alg, key, hx(pat(r, 20)), spl([7]))); ck.count("hmac-generic")
        # every 2-way split of a message spanning the block boundary, key of block size
        m = pat(r, B + 2); key = hx(pat(r, B))
        for i in (range(0, B + 3) if thorough else (0, 1, B - 9, B - 8, B - 1, B, B + 1)):
            out.append("hms %s %s %s %s 0" % (alg, key, hx(m), spl([i]))); ck.count("hmac-stream:2-way-split")
    return out

def gen_hkdf(ck, r):
    thorough = ck.tier == "thorough"
    out = []
    for alg in ("sha256", "sha384", "sha1"):
        H, B = HLEN[alg], BLOCK[alg]
        for sl in (0, 1, H, B - 1, B, B + 1, 2 * B + 1):
            for il in (0, 1, H, 100):
                out.append("hkx %s %s %s" % (alg, hx(pat(r, sl)), hx(pat(r, il)))); ck.count("hkdf-extract")
        Ls = [0, 1, H - 1, H, H + 1, 2 * H - 1, 2 * H, 2 * H + 1, 3 * H + 7]
        if alg == "sha256" or thorough: Ls += [255 * H - 1, 255 * H, 255 * H + 1]
        if thorough: Ls += [10 * H, 100 * H + 3, 254 * H, 254 * H + 1]
        for L in Ls:
            for infol in ((0, 10, 80) if L < 4 * H or thorough else (5,)):
                out.append("hke %s %s %s %d" % (alg, hx(pat(r, H)), hx(pat(r, infol)), L))
                ck.count("hkdf-expand:L%%H=%s" % ("0" if L % H == 0 else "x"))
        for pl in (0, H - 1, H + 1, B, B + 1, 2 * B + 1):                      # prk shorter than the hash -> PS_ARG_FAIL; longer than the block -> hashed
            out.append("hke %s %s %s %d" % (alg, hx(pat(r, pl)), hx(pat(r, 7)), H + 3)); ck.count("hkdf-expand:prk-length")
        for infol in (79, 81, 200):
            out.append("hke %s %s %s %d" % (alg, hx(pat(r, H)), hx(pat(r, infol)), 2 * H)); ck.count("hkdf-expand:info-limit")
    return out

def gen_pbkdf2(ck, r):
    thorough = ck.tier == "thorough"
    out = []
    pls = [1, 8, 20, 63, 64, 65, 66, 92, 93, 127, 128, 129, 200] + ([2, 100, 500] if thorough else [])
    for pl in pls:
        pw = hx(pat(r, pl))
        for (sl, it, dk) in ([(8, 1, 20), (8, 2, 25), (0, 3, 1), (16, 2, 41)] + ([(60, 10, 64), (8, 100, 20), (8, 1, 200)] if thorough else [])):
            out.append("pb2 %s %s %d %d" % (pw, hx(pat(r, sl)), it, dk)); ck.count("pbkdf2:pw%s64" % ("<=" if pl <= 64 else ">"))
    for dk in (1, 19, 20, 21, 39, 40, 41, 60, 61):
        out.append("pb2 %s %s 2 %d" % (hx(b"password"), hx(b"salt"), dk)); ck.count("pbkdf2:dklen-sweep")
    out.append("pb2 %s %s 0 20" % (hx(b"password"), hx(b"salt"))); ck.count("pbkdf2:rounds<=0")
    out.append("pb2 %s %s -3 20" % (hx(b"password"), hx(b"salt"))); ck.count("pbkdf2:rounds<=0")
    return out

def flip(b, bit):
    a = bytearray(b); a[bit // 8] ^= 1 << (bit % 8); return bytes(a)

def gen_cbc(ck, r):
    thorough = ck.tier == "thorough"
    out = []
    for kl in (16, 32) + ((24,) if thorough else ()):
        key = pat(r, kl); iv = pat(r, 16)
        for nb in ((0, 1, 2, 3, 5, 9) if thorough else (0, 1, 2, 4)):
            data = pat(r, 16 * nb)
            ct = None
            for ip in (0, 1):
                for al in ((0, 1, 7, 8, 15) if nb in (1, 2) else (0,)):
                    out.append("cbc e %s %s %s - %d %d" % (hx(key), hx(iv), hx(data), al, ip)); ck.count("cbc:enc")
                    out.append("cbc d %s %s %s - %d %d" % (hx(key), hx(iv), hx(data), al, ip)); ck.count("cbc:dec")
            # every way of cutting nb blocks into successive calls
            if 1 <= nb <= (5 if thorough else 4):
                for parts in compositions(nb):
                    s = spl([16 * p for p in parts])
                    for ip in (0, 1):
                        out.append("cbc e %s %s %s %s 0 %d" % (hx(key), hx(iv), hx(data), s, ip)); ck.count("cbc:all-block-partitions")
                        out.append("cbc d %s %s %s %s 3 %d" % (hx(key), hx(iv), hx(data), s, ip)); ck.count("cbc:all-block-partitions")
    return out

def gen_gcm(ck, r, oracle_gcm):
    thorough = ck.tier == "thorough"
    out = []
    for kl in (16, 32):
        key = pat(r, kl)
        for (al_, pl) in ([(0, 0), (0, 1), (1, 0), (13, 16), (16, 15), (17, 17), (20, 33), (64, 48), (0, 64), (32, 31)] +
                          ([(a, p) for a in (0, 1, 15, 16, 17, 31, 32, 33, 63, 64) for p in (0, 1, 15, 16, 17, 32, 47, 48)] if thorough else [])):
            iv, aad, pt = pat(r, 12), pat(r, al_), pat(r, pl)
            for tl in ((16, 12, 8, 4, 1) if pl in (16, 17) or thorough else (16,)):
                out.append("gcm e %s %s %s %s %d - %d 0" % (hx(key), hx(iv), hx(aad), hx(pt), tl, r.randrange(16))); ck.count("gcm:enc")
            out.append("gcm e %s %s %s %s 16 - %d 1" % (hx(key), hx(iv), hx(aad), hx(pt), r.randrange(16))); ck.count("gcm:enc-inplace")
            # update-call splits of the plaintext
            if pl >= 2:
                for cut in sorted(set([1, pl // 2, pl - 1, min(pl, 15), min(pl, 16), min(pl, 17)])):
                    out.append("gcm e %s %s %s %s 16 %s 0 %d" % (hx(key), hx(iv), hx(aad), hx(pt), spl([cut]), cut & 1)); ck.count("gcm:enc-split")
            res = oracle_gcm(key, iv, aad, pt)
            if res is None: continue
            ct, tag = res
            for mode in ("d", "d2"):
                out.append("gcm %s %s %s %s %s %s - %d 0" % (mode, hx(key), hx(iv), hx(aad), hx(ct), hx(tag), r.randrange(16))); ck.count("gcm:dec-genuine")
                out.append("gcm %s %s %s %s %s %s - 0 1" % (mode, hx(key), hx(iv), hx(aad), hx(ct), hx(tag))); ck.count("gcm:dec-genuine")
                if pl >= 2:
                    out.append("gcm d2 %s %s %s %s %s %s 0 0" % (hx(key), hx(iv), hx(aad), hx(ct), hx(tag), spl([1, pl // 2]))); ck.count("gcm:dec-split")
            # truncated tags: the caller asks for tl bytes; a genuine prefix is accepted, one with a flipped bit is not
            for tl in (15, 12, 8, 1):
                out.append("gcm d %s %s %s %s %s - 0 0" % (hx(key), hx(iv), hx(aad), hx(ct), hx(tag[:tl]))); ck.count("gcm:dec-truncated-tag")
                out.append("gcm d %s %s %s %s %s - 0 0" % (hx(key), hx(iv), hx(aad), hx(ct), hx(flip(tag[:tl], 8 * tl - 1)))); ck.count("gcm:dec-truncated-tag-corrupt")
            # every single-bit corruption of ct / tag / nonce / aad for small sizes
            if pl + al_ <= (48 if thorough else 34) and kl == 16 or (pl, al_) in ((16, 13), (1, 0)):
                for b in range(8 * len(ct)):
                    out.append("gcm d %s %s %s %s %s - 0 0" % (hx(key), hx(iv), hx(aad), hx(flip(ct, b)), hx(tag))); ck.count("gcm:bitflip-ct")
                for b in range(128):
                    out.append("gcm d %s %s %s %s %s - 0 0" % (hx(key), hx(iv), hx(aad), hx(ct), hx(flip(tag, b)))); ck.count("gcm:bitflip-tag")
                for b in range(96):
                    out.append("gcm d %s %s %s %s %s - 0 0" % (hx(key), hx(flip(iv, b)), hx(aad), hx(ct), hx(tag))); ck.count("gcm:bitflip-nonce")
                for b in range(8 * len(aad)):
                    out.append("gcm d %s %s %s %s %s - 0 0" % (hx(key), hx(iv), hx(flip(aad, b)), hx(ct), hx(tag))); ck.count("gcm:bitflip-aad")
    return out

def gen_long_stream(ck, r):
    """messages long enough for the block counter to carry out of its low byte (GCM: block 254, ChaCha20: block 255)"""
    out = []
    key, iv, aad, pt = pat(r, 16), pat(r, 12), pat(r, 5), pat(r, 4112)
    out.append("gcm e %s %s %s %s 16 %s 0 0" % (hx(key), hx(iv), hx(aad), hx(pt), spl([4000, 100]))); ck.count("gcm:counter-carry")
    key, nonce, pt = pat(r, 32), pat(r, 12), pat(r, 16448)
    out.append("chp e %s %s %s %s 0 1" % (hx(key), hx(nonce), hx(aad), hx(pt))); ck.count("chacha:counter-carry")
    return out

def gen_gcm_reuse(ck, r):
    """one context, two messages: the first ends inside a counter block and/or with a tag shorter than 16 bytes"""
    out = []
    key = pat(r, 16)
    for l1 in (0, 5, 16, 21):
        for tl1 in (16, 12, 8, 1, 0):
            for (al2, l2) in ((0, 20), (13, 3)):
                out.append("gcmr %s %s %s %d %s %s %s" % (hx(key), hx(pat(r, 12)), hx(pat(r, l1)), tl1, hx(pat(r, 12)), hx(pat(r, al2)), hx(pat(r, l2))))
                ck.count("gcm:context-reuse:first-tag%s16" % ("=" if tl1 == 16 else "<"))
    return out

# library only (the extracted model cannot walk 2^28 bytes): total lengths around 2^31 bits, fed as zero ciphertext
BIG = [("gcmz %s %s 268435456 1048576", "2^28 bytes in 1 MiB calls"), ("gcmz %s %s 268435472 268435472", "2^28+16 bytes in one call")]

def o_des3_openssl(key, iv, data, decrypt):
    """second opinion for 3DES-CBC when the openssl CLI is installed"""
    if not OPENSSL: return None
    p = subprocess.run([OPENSSL, "enc", "-des-ede3-cbc", "-K", key.hex(), "-iv", iv.hex(), "-nopad"] + (["-d"] if decrypt else []),
                       input=data, capture_output=True, timeout=60)
    return p.stdout if p.returncode == 0 and len(p.stdout) == len(data) else None

WEAK_DES = [bytes.fromhex(x) for x in ("0101010101010101", "FEFEFEFEFEFEFEFE", "E0E0E0E0F1F1F1F1", "1F1F1F1F0E0E0E0E",
                                       "01FE01FE01FE01FE", "FE01FE01FE01FE01", "1FE01FE00EF10EF1", "E01FE01FF10EF10E")]
def set_parity(k, odd):
    """force the 8 parity bits (lsb of each byte) to odd parity / flip them all (the DES result must not depend on them)"""
    return bytes((b & 0xFE) | ((bin(b >> 1).count("1") + (1 if odd else 0)) & 1) for b in k)

def gen_des3(ck, r):
    thorough = ck.tier == "thorough"
    out = []
    def keys():
        k1, k2, k3 = pat(r, 8), pat(r, 8), pat(r, 8)
        yield "K1=K2=K3", k1 + k1 + k1
        yield "K1=K3!=K2", k1 + k2 + k1
        yield "K1=K2!=K3", k1 + k1 + k3
        yield "K2=K3!=K1", k1 + k3 + k3
        for _ in range(10 if thorough else 5): yield "three-key", pat(r, 24)
        yield "three-key:SP800-67-B1", bytes.fromhex("0123456789ABCDEF23456789ABCDEF01456789ABCDEF0123")
        w = WEAK_DES
        yield "weak-keys", w[0] + w[1] + w[2]
        yield "weak-keys", w[3] + pat(r, 8) + w[0]
        yield "semi-weak-keys", w[4] + w[5] + w[6]
        yield "semi-weak-keys", pat(r, 8) + w[7] + w[4]
        k = pat(r, 24)
        yield "parity-odd", set_parity(k, True)
        yield "parity-even", set_parity(k, False)
        yield "parity-all-clear", bytes(b & 0xFE for b in k)
        yield "parity-all-set", bytes(b | 1 for b in k)
    for kind, key in keys():
        iv = pat(r, 8)
        for nb in ((1, 2, 3, 5, 9) if thorough else (1, 3)):
            data = pat(r, 8 * nb)
            for d in ("e", "d"):
                for ip in (0, 1):
                    out.append("des3 %s %s %s %s - %d %d" % (d, hx(key), hx(iv), hx(data), r.randrange(16), ip)); ck.count("des3:%s:%s" % (d, kind))
            # decrypt what the reference encrypted (a genuine ciphertext), cut into two calls, in place
            ct = des_ref.des3_cbc(key, iv, data)
            out.append("des3 d %s %s %s %s %d 1" % (hx(key), hx(iv), hx(ct), spl([8]), r.randrange(16))); ck.count("des3:d:%s" % kind)
    # every way of cutting 4 (thorough: 5) blocks into calls: IV carried from call to call, both directions, in place and not
    key, iv = pat(r, 24), pat(r, 8)
    nb = 5 if thorough else 4
    data = pat(r, 8 * nb)
    for parts in compositions(nb):
        s_ = spl([8 * p_ for p_ in parts])
        for d in ("e", "d"):
            for ip in (0, 1):
                out.append("des3 %s %s %s %s %s %d %d" % (d, hx(key), hx(iv), hx(data), s_, (len(parts) * 3 + ip) & 15, ip)); ck.count("des3:all-block-partitions")
    # alignments 0..15
    data = pat(r, 24)
    for al in range(16):
        for d in ("e", "d"):
            out.append("des3 %s %s %s %s %s %d %d" % (d, hx(key), hx(iv), hx(data), spl([8]), al, al & 1)); ck.count("des3:alignment")
    # lengths up to 4096 bytes
    for n in ((64, 512, 1024, 4096) if thorough else (64, 4096)):
        data = pat(r, n); k = pat(r, 24)
        out.append("des3 e %s %s %s %s %d 1" % (hx(k), hx(iv), hx(data), spl([8, n // 2]), r.randrange(16))); ck.count("des3:long")
        out.append("des3 d %s %s %s %s %d 0" % (hx(k), hx(iv), hx(data), spl([n // 2, 8]), r.randrange(16))); ck.count("des3:long")
    return out

def gen_legacy(ck, r):
    """the other primitives built in this configuration that have a standard definition"""
    thorough = ck.tier == "thorough"
    out = []
    # MD5||SHA1 (TLS < 1.2 handshake hash)
    for n in (boundary_lengths(64, False) if thorough else (0, 1, 55, 56, 63, 64, 65, 119, 120, 128, 200)):
        out.append("m5s1 %s - %d" % (hx(pat(r, n)), r.randrange(16))); ck.count("md5sha1:len-sweep")
    m = pat(r, 130)
    for i in (range(0, 131) if thorough else (0, 1, 55, 56, 63, 64, 65, 127, 128, 129, 130)):
        out.append("m5s1 %s %s 0" % (hx(m), spl([i]))); ck.count("md5sha1:2-way-split")
    for parts in compositions(6):
        out.append("m5s1 %s %s 0" % (hx(m[:66]), spl([60] + parts))); ck.count("md5sha1:partitions-across-boundary")
    # AES single block, both directions, all key sizes, alignments, in place
    for kl in (16, 24, 32):
        for _ in range(6 if thorough else 3):
            key, blk = pat(r, kl), pat(r, 16)
            for d in ("e", "d"):
                out.append("aesb %s %s %s %d %d" % (d, hx(key), hx(blk), r.randrange(16), r.randrange(2))); ck.count("aes-block:%s:%d" % (d, 8 * kl))
        key, blk = pat(r, kl), pat(r, 16)
        for al in range(16):
            out.append("aesb %s %s %s %d %d" % ("e" if al & 1 else "d", hx(key), hx(blk), al, (al >> 1) & 1)); ck.count("aes-block:alignment")
    out.append("aesb e %s %s 0 0" % (hx(pat(r, 20)), hx(pat(r, 16)))); ck.count("aes-block:bad-key-length")
    # FIPS 197 / SP 800-38A single blocks
    out.append("aesb e 000102030405060708090a0b0c0d0e0f 00112233445566778899aabbccddeeff 0 0"); ck.count("aes-block:fips197")
    out.append("aesb d 000102030405060708090a0b0c0d0e0f101112131415161718191a1b1c1d1e1f 8ea2b7ca516745bfeafc49904b496089 0 1"); ck.count("aes-block:fips197")
    # PBKDF1-style MD5 key derivation (PEM DEK-Info: DES-EDE3-CBC)
    for pl in (0, 1, 8, 39, 40, 47, 48, 55, 56, 63, 64, 65, 100) + ((120, 200) if thorough else ()):
        out.append("pb1 %s %s" % (hx(pat(r, pl)), hx(pat(r, 8)))); ck.count("pbkdf1")
    # one-call wrappers
    for n in (0, 1, 55, 56, 63, 64, 65, 119, 120, 200) + ((1000,) if thorough else ()):
        out.append("sa2 %s %d" % (hx(pat(r, n)), r.randrange(16))); ck.count("sha256-standalone")
    for n in (0, 1, 111, 112, 119, 120, 127, 128, 129, 300):
        out.append("s5s %s %d" % (hx(pat(r, n)), r.randrange(16))); ck.count("sha512-single")
    for alg in ("sha256", "sha384", "sha512", "md5"):
        for n in (0, 3, BLOCK[alg] - 9 if alg != "md5" else 55, BLOCK[alg] + 1):
            out.append("hsg %s %s %s" % (alg, hx(pat(r, n)), spl([1]) if n > 1 else "-")); ck.count("psHash:" + alg)
    for alg in ("sha256", "sha1", "sha384", "md5"):
        for kl in (0, 20, BLOCK[alg], BLOCK[alg] + 1, 2 * BLOCK[alg] + 1):
            out.append("hm0 %s %s %s" % (alg, hx(pat(r, kl)), hx(pat(r, 50)))); ck.count("psHmacSingle")
    # ChaCha20-Poly1305 detached API
    key = pat(r, 32)
    for (al_, pl) in ((0, 0), (5, 1), (16, 64), (13, 130)):
        nonce, aad, pt = pat(r, 12), pat(r, al_), pat(r, pl)
        for ip in (0, 1):
            out.append("chpd e %s %s %s %s %d %d" % (hx(key), hx(nonce), hx(aad), hx(pt), r.randrange(16), ip)); ck.count("chacha-detached:enc")
        ct, tag = o_chp(key, nonce, aad, pt, False)
        out.append("chpd d %s %s %s %s %s %d 1" % (hx(key), hx(nonce), hx(aad), hx(ct), hx(tag), r.randrange(16))); ck.count("chacha-detached:dec-genuine")
        for b in (0, 64, 127):
            out.append("chpd d %s %s %s %s %s 0 0" % (hx(key), hx(nonce), hx(aad), hx(ct), hx(flip(tag, b)))); ck.count("chacha-detached:bitflip-tag")
        if pl: out.append("chpd d %s %s %s %s %s 0 0" % (hx(key), hx(nonce), hx(aad), hx(flip(ct, 3)), hx(tag))); ck.count("chacha-detached:bitflip-ct")
    return out

def gen_chp(ck, r):
    thorough = ck.tier == "thorough"
    out = []
    key = pat(r, 32)
    for (al_, pl) in ([(0, 0), (0, 1), (12, 16), (1, 63), (16, 64), (17, 65), (64, 130)] +
                      ([(a, p) for a in (0, 1, 15, 16, 17, 64) for p in (0, 1, 15, 16, 17, 63, 64, 65, 127, 128, 129, 257)] if thorough else [])):
        nonce, aad, pt = pat(r, 12), pat(r, al_), pat(r, pl)
        for ip in (0, 1):
            out.append("chp e %s %s %s %s %d %d" % (hx(key), hx(nonce), hx(aad), hx(pt), r.randrange(16), ip)); ck.count("chacha:enc")
        ct, tag = o_chp(key, nonce, aad, pt, False)
        sealed = ct + tag
        for ip in (0, 1):
            out.append("chp d %s %s %s %s %d %d" % (hx(key), hx(nonce), hx(aad), hx(sealed), r.randrange(16), ip)); ck.count("chacha:dec-genuine")
        for cutlen in (0, 15):
            out.append("chp d %s %s %s %s 0 0" % (hx(key), hx(nonce), hx(aad), hx(sealed[:cutlen]))); ck.count("chacha:dec-too-short")
        out.append("chp d %s %s %s %s 0 0" % (hx(key), hx(nonce), hx(aad), hx(sealed[:-1]))); ck.count("chacha:dec-truncated")
        if pl + al_ <= (48 if thorough else 28):
            for b in range(8 * len(sealed)):
                out.append("chp d %s %s %s %s 0 0" % (hx(key), hx(nonce), hx(aad), hx(flip(sealed, b)))); ck.count("chacha:bitflip-ct-tag")
            for b in range(96):
                out.append("chp d %s %s %s %s 0 0" % (hx(key), hx(flip(nonce, b)), hx(aad), hx(sealed))); ck.count("chacha:bitflip-nonce")
            for b in range(8 * len(aad)):
                out.append("chp d %s %s %s %s 0 0" % (hx(key), hx(nonce), hx(flip(aad, b)), hx(sealed))); ck.count("chacha:bitflip-aad")
    return out


# ---------------------------------------------------------------- plumbing
AL_IP_FIELDS = {"dg": (4,), "hms": (5,), "hm1": (4,), "cbc": (6, 7), "gcm": (8, 9), "chp": (6, 7), "des3": (6,), "m5s1": (3,),
                "aesb": (4, 5), "sa2": (2,), "s5s": (2,)}
def model_key(line):
    """alignment and in-place flags are invisible to the model: evaluate it once per distinct rest"""
    t = line.split()
    for i in AL_IP_FIELDS.get(t[0], ()):
        if i < len(t): t[i] = "0"
    return " ".join(t)

def corpus_cases():
    out = []
    p = os.path.join(vlib.VERIF, "corpus", "C12")
    if os.path.isdir(p):
        for f in sorted(os.listdir(p)):
            for l in open(os.path.join(p, f)):
                l = l.strip()
                if l and not l.startswith("#"):
                    out.append(l)
    return out

def run_model(ck, drv, lines, nproc=6, env=None):
    """the extracted model on the distinct model lines, sharded over a few processes (cores are shared)"""
    keys = []; seen = {}
    for l in lines:
        k = model_key(l)
        if k not in seen: seen[k] = None; keys.append(k)
    order = sorted(range(len(keys)), key=lambda i: -cost(keys[i]))          # longest first, round-robin
    shards = [[] for _ in range(nproc)]
    load = [0] * nproc
    for i in order:
        j = load.index(min(load)); shards[j].append(i); load[j] += cost(keys[i]) + 1
    res = {}
    def work(ids):
        if not ids: return
        rc, out, err = ck.run_lines(drv, [keys[i] for i in ids], env=env)
        for n, i in enumerate(ids):
            res[i] = out[n] if n < len(out) else "NOOUTPUT"
    th = [threading.Thread(target=work, args=(s,)) for s in shards]
    for t in th: t.start()
    for t in th: t.join()
    for i, k in enumerate(keys): seen[k] = res.get(i, "NOOUTPUT")
    return [seen[model_key(l)] for l in lines], len(keys), sum(load)

def classify(line):
    t = line.split(); op = t[0]
    L = lambda h: 0 if h == "-" else len(h) // 2
    if op in ("hms", "hmg") and L(t[2]) > BLOCK[t[1]]: return "hmac-stream-long-key:" + t[1]
    if op == "pb2" and L(t[1]) > 64: return "pbkdf2-long-password"
    if op == "gcmr": return "gcm-context-reuse:first-tag-%s" % ("16" if t[4] == "16" else "short")
    if op == "gcmz": return "gcm-length-counter:2^31-bits"
    if op in ("gcm", "chp", "chpd") and t[1] != "e": return op + ":decrypt"
    if op == "des3":
        k = un(t[2]); kind = "one-key" if k[:8] == k[8:16] == k[16:] else "two-key(K1=K3)" if k[:8] == k[16:] else "three-key"
        return "des3:%s:%s" % ("encrypt" if t[1] == "e" else "decrypt", kind)
    if op in ("pb1", "sa2", "s5s", "m5s1"): return op
    return op + ":" + (t[1] if op not in ("pb2",) else "sha1")

GROUPS = [("digests (Init/Update*/Final)", ("dg",)), ("HMAC streaming / one-shot / generic", ("hms", "hm1", "hmg")),
          ("HKDF extract / expand", ("hkx", "hke")), ("PBKDF2", ("pb2",)), ("AES-CBC", ("cbc",)), ("AES-GCM", ("gcm", "gcmr")),
          ("ChaCha20-Poly1305", ("chp", "chpd")), ("3DES-EDE-CBC", ("des3",)),
          ("legacy / wrapper entry points (MD5||SHA1, AES block, PBKDF1, psSha256Standalone, psSha512Single, psHash*, psHmacSingle)",
           ("m5s1", "aesb", "pb1", "sa2", "s5s", "hsg", "hm0"))]

# what this configuration builds (crypto/cryptoConfig.h, cryptolib.h; checked against the exported symbols of libcrypt_s.a) and what C12 covers
INVENTORY = {
    "built_and_covered": {
        "SHA-256 / SHA-1 / SHA-384 / SHA-512 / MD5 (Init/Update/Final)": "theorem (all chunkings) + KAT + differential",
        "psSha256Standalone, psSha512Single, psHashInit/Update/Final": "KAT (shared spec) + differential vs hashlib",
        "MD5||SHA1 (psMd5Sha1*)": "theorem c12_md5sha1_chunks + differential",
        "HMAC-MD5/SHA1/SHA256/SHA384 streaming, one-shot, psHmacInit/psHmacSingle": "theorems + KAT + differential",
        "HKDF extract/expand": "theorems + KAT + differential", "PBKDF2-HMAC-SHA1 (psPkcs5Pbkdf2)": "theorem + KAT + differential",
        "PBKDF1/EVP_BytesToKey-MD5 (psPkcs5Pbkdf1)": "theorem c12_pbkdf1_eq + differential",
        "AES-128/192/256 block (psAesEncryptBlock/psAesDecryptBlock)": "FIPS 197 KAT both directions + differential vs openssl",
        "AES-CBC": "theorems (chunks, in place, inverse) + KAT + differential", "AES-GCM": "theorems (chunks, tag, counters) + KAT + differential; model = SP 800-38D by run only",
        "3DES-EDE-CBC (psDes3*)": "theorems (key order, CBC calls, spec inverse; model = TDEA given single-DES = FIPS 46-3) + 156-row KAT both directions + differential vs Python DES and openssl",
        "ChaCha20-Poly1305 (combined and detached API)": "RFC 8439 KAT + differential (no code-shaped model)"},
    "not_built_in_this_configuration": ["DES single-key API", "RC2", "ARC4", "SEED", "IDEA", "MD2", "MD4", "SHA-224", "AES-CTR/CMAC/key-wrap"],
    "built_but_outside_C12": ["psHkdfExpandLabel / TLS PRF (C10)", "RSA/ECC/DH/Ed25519 (C11, C13)"]}

def run(ck):
    ck.trusted += ["Coq 8.16.1 kernel (coqc; vm_compute only in the KAT Examples of Crypto/CryptoKAT.v)",
                   "the compression functions, AES rounds, GF(2^128) multiplication, ChaCha20 block and Poly1305 are Gallina transcriptions of the standards' pseudo-code, shared by spec and model and validated by the standards' known answers (CryptoKAT.v) and by this run against the library; they are not derived from the C",
                   "extraction (ExtrOcamlBasic only) + ocaml/drv_c12.ml + harness/h_crypto.c correspondence",
                   "modelled, not verified: the digest contexts, HMAC, HKDF, PBKDF2, CBC and GCM drivers are hand-written Gallina (coq/Crypto/CryptoModel.v, CryptoSym.v) compared with the library on every run",
                   "Python hashlib/hmac (OpenSSL) and the openssl CLI as the independent oracle of the Impl-vs-Spec search"]
    ck.assumptions += ["messages shorter than 2^61 bytes (the specs write the length field as 8*len mod 2^64, the standards' value below that)",
                       "key / info / salt lengths below 2^16 and update lengths below 2^32 (the C prototypes' psSize_t / uint32_t)",
                       "buffer alignment and in-place operation are invisible to the model: covered by the differential run only",
                       "c12_hmac_eq / c12_pbkdf2_eq are about the FIXED psHmac*Init (pending-fixes/C12-hmac-long-key.patch)",
                       "GCM: 96-bit IVs only (the only form psAesReadyGCM accepts); fewer than 2^32 blocks per IV",
                       "'AEAD decrypt fails on every single-bit change' is established by exhaustive single-bit sweeps on small sizes, not by a theorem",
                       "3DES: c12_des3_eq_spec_partial / c12_des3_roundtrip_partial assume single_des_is_fips46 (des3.c's deskey+cookey+desfunc, modelled from the source's own tables, compute FIPS 46-3 DES): tied by 156 known answers in both directions (CryptoKAT.v) and by this run, not by a symbolic proof of the SP-box network; key order, EDE direction, CBC chaining / IV carry / in-place and the inverse property of the FIPS 46-3 / SP 800-67 specification are proved without it",
                       "byte lists hold values below 256 (hypothesis `good` of the DES inverse theorems)"]
    ck.build_repo()
    ck.regen([("consts.sh",)])
    ck.coq_properties()
    drv = ck.ocaml_driver("drv_c12", extract_vo="Extract/Extract_C12.vo", gen_ml=["m_c12"])
    h = ck.cc("h_crypto.c")
    if drv is None:
        return
    r = ck.rng("gen")
    only = os.environ.get("VERIF_C12_OPS")                                   # development aid: restrict to some ops
    cases = corpus_cases()
    gens = [gen_digest(ck, r), gen_hmac(ck, r), gen_hkdf(ck, r), gen_pbkdf2(ck, r), gen_cbc(ck, r)]
    def gcm_enc(key, iv, aad, pt):
        res = o_gcm(key, iv, aad, pt, False)
        if res is not None: return res
        rc, out, _ = ck.run_lines(h, ["gcm e %s %s %s %s 16 - 0 0" % (hx(key), hx(iv), hx(aad), hx(pt))])   # no openssl: genuine ct/tag from the library itself
        t = out[0].split() if out else []
        return (un(t[0]), un(t[1])) if len(t) == 2 else None
    gens += [gen_gcm(ck, r, gcm_enc), gen_gcm_reuse(ck, r), gen_chp(ck, r), gen_long_stream(ck, r), gen_des3(ck, r), gen_legacy(ck, r)]
    seen = set(cases)
    for g in gens:
        for c in g:
            if c not in seen: seen.add(c); cases.append(c)
    if only:
        cases = [c for c in cases if c.split()[0] in only.split(",")]
    t0 = time.time()
    big = []
    if OPENSSL and not only and os.environ.get("VERIF_C12_NOBIG") != "1":
        zkey, ziv = hx(pat(r, 16)), hx(pat(r, 12))
        big = [(l % (zkey, ziv), what, []) for l, what in BIG]
        def bigrun(item):
            rc_, o_, _ = ck.run_lines(h, [item[0]], timeout=900); item[2].append(o_[0] if o_ else "NOOUTPUT")
        bigth = [threading.Thread(target=bigrun, args=(b,)) for b in big]
        for t_ in bigth: t_.start()
    rc, impl, err = ck.run_lines(h, cases)
    t1 = time.time()
    model, nkeys, load = run_model(ck, drv, cases, env=dict(os.environ, VERIF_C12_NOSPEC="1") if ck.tier == "thorough" and os.environ.get("VERIF_C12_SPEC_TOO") != "1" else None)
    ck.log("impl %.1fs on %d cases; model %.1fs on %d distinct lines (~%d compression-equivalents)" % (t1 - t0, len(cases), time.time() - t1, nkeys, load))
    ck.rules.append("boundary-aimed: digest lengths around 55/56/63/64 (and 111/112/119/120/127/128) in each of the first 4 blocks (every length 0..4B+1 in thorough), "
                    "all 2^(n-1) partitions of short messages and of the 8 bytes across the first block boundary, every 2-way cut and edge/random (thorough: all) 3-way cuts of a 2-block+2 message, "
                    "empty updates, alignments 0..15, random lengths; HMAC key lengths 0/1/hlen/63/64/65/127/128/129/2B+1 x message lengths around the block x splits, streaming + one-shot + generic entry points; "
                    "HKDF L around multiples of HashLen up to 255*HashLen(+1), info 0..81, prk below/above HashLen and the block; PBKDF2 password lengths around 64/128, dkLen around 20/40, rounds 1..3 (and <= 0); "
                    "CBC all partitions of the blocks into calls, in-place, alignments; GCM AAD 0..64 x PT sizes, tag lengths, splits, in-place, genuine/truncated tags, every single-bit flip of ct/tag/nonce/aad for small sizes; same for ChaCha20-Poly1305. "
                    "A case is non-trivial when the library returned a value (not an rc).")
    nontriv = lambda c, o: not (o.startswith("rc=") or o in ("BADCASE", "CRASH", "HANG", "authfail"))
    for name, ops in GROUPS:
        idx = [i for i, c in enumerate(cases) if c.split()[0] in ops]
        if not idx: continue
        ck.correspond(name + ": model vs library", [cases[i] for i in idx], [impl[i] if i < len(impl) else "NOOUTPUT" for i in idx],
                      [model[i] for i in idx], nontrivial=(lambda c, o: o == "authfail" or nontriv(c, o)) if ops[0] in ("gcm", "chp") else nontriv)
    # Impl vs Spec: independent oracle
    nspec = 0; nskip = 0
    for i, c in enumerate(cases):
        if i >= len(impl): break
        want = oracle(c)
        if want is None: nskip += 1; continue
        nspec += 1
        if impl[i].strip() != want:
            cls = classify(c)
            kind = "crash" if impl[i].strip() in ("CRASH", "HANG", "OVERRUN") else "wrong-output"
            if cls.endswith(":decrypt") and impl[i].startswith("ok") and want == "authfail": kind = "forgery-accepted"
            ck.spec_violation("%s:%s" % (cls, kind),
                              "%s: the library returns %s where the standard gives %s" % (cls, impl[i][:80], want[:80]),
                              {"harness": "h_crypto", "case": c, "observed": impl[i], "expected_by_spec": want, "model": model[i]})
    if big:
        for t_ in bigth: t_.join()
        for line, what, got in big:
            want = oracle(line); nspec += 1; ck.count("gcm:length-counter-2^31-bits"); ck.cov["evaluations"] += 1
            ck.sample({"library_only": line, "impl": got[0], "spec": want})
            if got[0].strip() != want:
                ck.spec_violation("gcm-length-counter:2^31-bits:wrong-output",
                                  "AES-GCM tag over %s of ciphertext: the library returns %s where SP 800-38D gives %s" % (what, got[0], want),
                                  {"harness": "h_crypto", "case": line, "observed": got[0], "expected_by_spec": want})
    # 3DES second opinion: the openssl CLI on a sample (the pure-Python reference is the oracle of every case)
    n2 = 0
    for i, c in enumerate(cases):
        t = c.split()
        if t[0] != "des3" or n2 >= ck.budget(40, 400) or i >= len(impl): continue
        ref = o_des3_openssl(un(t[2]), un(t[3]), un(t[4]), t[1] == "d")
        if ref is None: continue
        n2 += 1
        if hx(ref) != impl[i].strip():
            ck.spec_violation(classify(c) + ":wrong-output-vs-openssl", "3DES-CBC: the library returns %s where openssl gives %s" % (impl[i][:60], hx(ref)[:60]),
                              {"harness": "h_crypto", "case": c, "observed": impl[i], "expected_by_spec": hx(ref)})
    ck.cov["des3_openssl_second_opinion_cases"] = n2
    ck.cov["primitive_inventory"] = INVENTORY
    ck.cov["spec_oracle_cases"] = nspec
    ck.cov["spec_oracle_skipped_no_independent_oracle"] = nskip
    ck.cov["openssl_cli"] = bool(OPENSSL)
    ck.cov["exhaustive"] = False


def replay(ck, path):
    rp = json.load(open(path))["replay"]
    h = ck.cc("h_crypto.c")
    cs = rp.get("cases") or [rp["case"]]
    rc, out, err = ck.run_lines(h, cs)
    for c, o in zip(cs, out):
        print("case:", c[:300]); print("  impl:", o[:200]); print("  spec:", (oracle(c) or "n/a")[:200])
