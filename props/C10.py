"""C10 - wire behaviour conforms to the RFCs (partial: derived values and record layouts, not message encodings).

Theorems: coq/Properties/Properties_C10.v - the code-shaped models of prf.c / tls.c / hsHash.c / hkdf.c /
tls13KeySchedule.c / nonce+AAD makers (coq/Tls/TlsModel.v, labels and tables regenerated from the source) equal the
Gallina transcription of RFC 5246/4346/7627/5288/7905/8446 (coq/Tls/TlsSpec.v, pinned to RFC 8448 and PRF vectors).
Tie: harness/h_tlskeys.c runs live MatrixSSL<->MatrixSSL handshakes in every mode of the build and dumps the primary
inputs (PSK, (EC)DHE / RSA premaster, the bytes fed to the transcript hashes, the wire) and the library's derived values
BY ROLE (destination field), the extracted SPEC (ocaml/drv_c10.ml) recomputes everything from the inputs:
master / extended master secret, key block partition, both Finished, the whole TLS 1.3 schedule, traffic keys, binder,
resumption PSK, CertificateVerify / ServerKeyExchange signed content, and re-seals (AEAD) or opens (CBC) the Finished
and first application records bit-exactly.  A symmetric error on both ends is therefore visible."""
import os, re, shutil, subprocess, threading, time, hashlib
import vlib, sesslib

hx = vlib.hexs
WRAPS = sesslib.WRAPS + ["psSha256Init", "psSha256Update", "psSha384Init", "psSha384Update", "psMd5Sha1Init", "psMd5Sha1Update", "prf", "prf2",
                         "psHkdfExtract", "psHkdfExpandLabel", "psSign", "psVerify", "psVerifySig", "matrixSslNewClientSession",
                         "matrixSslNewServerSession", "matrixSslLoadTls13Psk", "tls13ParseExtensions", "matrixSslReceivedData", "matrixSslProcessedData", "matrixSslEncodeToOutdata", "matrixSslGetOutdata"]

# suite -> (cipher, keylen, maclen, prf hash): only used to ORGANISE the runs (which hash context to read, CBC vs AEAD
# tokens); every value that is compared comes from the extracted spec
SUITES = {}
for ids, c, k, m, h in (((0x2f, 0xc013, 0xc009), "cbc", 16, 20, "sha256"), ((0x35, 0xc014, 0xc00a), "cbc", 32, 20, "sha256"),
                        ((0x3c, 0xc027, 0xc023), "cbc", 16, 32, "sha256"), ((0x3d,), "cbc", 32, 32, "sha256"), ((0xc028, 0xc024), "cbc", 32, 48, "sha384"),
                        ((0x9c, 0xc02f, 0xc02b), "gcm", 16, 0, "sha256"), ((0x9d, 0xc030, 0xc02c), "gcm", 32, 0, "sha384"),
                        ((0xcca8, 0xcca9), "chacha", 32, 0, "sha256"), ((0x1301,), "gcm", 16, 0, "sha256"), ((0x1302,), "gcm", 32, 0, "sha384"),
                        ((0x1303,), "chacha", 32, 0, "sha256")):
    for i in ids: SUITES[i] = (c, k, m, h)
EC_SUITES = {0xc009, 0xc00a, 0xc023, 0xc024, 0xc02b, 0xc02c, 0xcca9}
RSA_KX = {0x2f, 0x35, 0x3c, 0x3d, 0x9c, 0x9d}
REQUIRED = [0x2f, 0x3c, 0x9c, 0xc013, 0xc027, 0xc02f, 0xc030, 0xc02b, 0x1301, 0x1302, 0x1303]     # must complete in the default build
TLS13_SIGHASH = {0x0804: "sha256", 0x0805: "sha384", 0x0806: "sha512", 0x0809: "sha256", 0x080a: "sha384", 0x080b: "sha512",
                 0x0403: "sha256", 0x0503: "sha384", 0x0603: "sha512", 0x0401: "sha256", 0x0501: "sha384", 0x0601: "sha512"}
TLS12_HASH = {1: "md5", 2: "sha1", 4: "sha256", 5: "sha384", 6: "sha512"}


# ---------------------------------------------------------------- scenarios
def build_suites(ck):
    """identifiers of the build's cipher table (coq/Gen/ConstsTls.v, regenerated from the source)"""
    txt = open(os.path.join(vlib.COQ, "Gen/ConstsTls.v")).read()
    return [int(x) for x in re.findall(r"\((\d+)%N, \(", txt)]

def scenarios(ck, table):
    S = []   # (name, [new-args of each session in order], kind)
    def add(name, *sessions): S.append((name, list(sessions)))
    have = lambda s: s in table
    seed = ck.seed % 1000 + 1
    # corpus first: past defect witnesses ("name :: new-args [|| new-args of the resuming session]")
    cdir = os.path.join(vlib.VERIF, "corpus", "C10")
    for f in sorted(os.listdir(cdir)) if os.path.isdir(cdir) else []:
        for l in open(os.path.join(cdir, f)):
            l = l.strip()
            if l and not l.startswith("#") and " :: " in l:
                nm, a = l.split(" :: ", 1); add(nm, *[x.strip() for x in a.split("||")])
    t12 = [s for s in (0x2f, 0x35, 0x3c, 0x3d, 0x9c, 0x9d, 0xc013, 0xc014, 0xc027, 0xc028, 0xc02f, 0xc030, 0xc009, 0xc00a, 0xc023, 0xc024, 0xc02b, 0xc02c, 0xcca8, 0xcca9)
           if have(s) or s in REQUIRED]
    for s in t12:
        add("tls12/%04x" % s, "cv=3 sv=3 suite=%04x%s" % (s, " key=ec" if s in EC_SUITES else ""))
    for s in (0x2f, 0x35, 0xc013, 0xc014, 0xc009, 0xc00a):
        if have(s): add("tls11/%04x" % s, "cv=2 sv=2 suite=%04x%s" % (s, " key=ec" if s in EC_SUITES else ""))
    # extended master secret off, client authentication, curves, signature algorithms, version fallback
    add("tls12/c02f/noems", "cv=3 sv=3 suite=c02f ems=-1")
    add("tls12/003c/noems", "cv=3 sv=3 suite=003c ems=-1")
    add("tls11/c013/noems", "cv=2 sv=2 suite=c013 ems=-1")
    add("tls12/c02f/cauth", "cv=3 sv=3 suite=c02f cauth=1 scb=1")
    add("tls12/c02b/cauth", "cv=3 sv=3 suite=c02b key=ec cauth=1 scb=1")
    add("tls12/c030/cauth", "cv=3 sv=3 suite=c030 cauth=1 scb=1")
    add("tls11/c013/cauth", "cv=2 sv=2 suite=c013 cauth=1 scb=1")
    add("tls12/c02f/p384", "cv=3 sv=3 suite=c02f ec=384")
    add("tls12/c027/p384", "cv=3 sv=3 suite=c027 ec=384")
    add("tls12/c02f/sig0401", "cv=3 sv=3 suite=c02f sig=0401")        # (the TLS 1.2 server signs with SHA-256 whatever else is offered)
    add("tls12/c02b/sig0503", "cv=3 sv=3 suite=c02b key=ec sig=0503,0403")
    add("tls12/fallback-c13", "cv=3,4 sv=3")
    add("tls12/fallback-s13", "cv=3 sv=3,4")
    # resumption: session id, ticket (with and without extended master secret)
    add("tls12/c02f/resume-id", "cv=3 sv=3 suite=c02f", "cv=3 sv=3 suite=c02f resume=1 keepkeys=1")
    add("tls12/c027/resume-id", "cv=3 sv=3 suite=c027", "cv=3 sv=3 suite=c027 resume=1 keepkeys=1")
    add("tls12/009c/resume-ticket", "cv=3 sv=3 suite=009c ticket=1", "cv=3 sv=3 suite=009c ticket=1 resume=1 keepkeys=1")
    add("tls12/c030/resume-ticket", "cv=3 sv=3 suite=c030 ticket=1", "cv=3 sv=3 suite=c030 ticket=1 resume=1 keepkeys=1")
    add("tls12/c02f/resume-id-noems", "cv=3 sv=3 suite=c02f ems=-1", "cv=3 sv=3 suite=c02f ems=-1 resume=1 keepkeys=1")
    add("tls11/002f/resume-id", "cv=2 sv=2 suite=002f", "cv=2 sv=2 suite=002f resume=1 keepkeys=1")
    # TLS 1.3: suite x group, key type, client auth, signature schemes, padding, HelloRetryRequest, PSK resumption
    for s in (0x1301, 0x1302, 0x1303):
        for g in (23, 24, 29):
            add("tls13/%04x/g%d" % (s, g), "cv=4 sv=4 suite=%04x grp=%d" % (s, g))
    add("tls13/1301/ec", "cv=4 sv=4 suite=1301 key=ec")
    add("tls13/1302/ec", "cv=4 sv=4 suite=1302 key=ec")
    add("tls13/1301/cauth", "cv=4 sv=4 suite=1301 cauth=1 scb=1")
    add("tls13/1302/cauth-ec", "cv=4 sv=4 suite=1302 key=ec cauth=1 scb=1")
    add("tls13/1303/cauth", "cv=4 sv=4 suite=1303 cauth=1 scb=1")
    for sg in ("0805", "0806"):
        add("tls13/1301/sig%s" % sg, "cv=4 sv=4 suite=1301 sig=%s" % sg)
    add("tls13/1301/pad", "cv=4 sv=4 suite=1301 pad=64")
    add("tls13/1301/hrr", "cv=4 sv=4 suite=1301 grp=24,23 shares=1 sgrp=23")
    add("tls13/1302/hrr", "cv=4 sv=4 suite=1302 grp=23,29 shares=1 sgrp=29")
    add("tls13/1303/hrr", "cv=4 sv=4 suite=1303 grp=29,24 shares=1 sgrp=24")
    add("tls13/1301/psk", "cv=4 sv=4 suite=1301 ticket=1", "cv=4 sv=4 suite=1301 ticket=1 resume=1 keepkeys=1")
    add("tls13/1302/psk", "cv=4 sv=4 suite=1302 ticket=1", "cv=4 sv=4 suite=1302 ticket=1 resume=1 keepkeys=1")
    add("tls13/1303/psk", "cv=4 sv=4 suite=1303 ticket=1 grp=29", "cv=4 sv=4 suite=1303 ticket=1 grp=29 resume=1 keepkeys=1")
    add("tls13/1301/psk-hrr", "cv=4 sv=4 suite=1301 ticket=1", "cv=4 sv=4 suite=1301 ticket=1 resume=1 keepkeys=1 grp=24,23 shares=1 sgrp=23")
    add("tls13/1302/psk-hrr", "cv=4 sv=4 suite=1302 ticket=1", "cv=4 sv=4 suite=1302 ticket=1 resume=1 keepkeys=1 grp=24,23 shares=1 sgrp=23")
    # PSK offered but not selected, external PSKs (psk_dhe_ke; psk_ke is never chosen between two MatrixSSL peers), both hash sizes.
    # spsk=0: the server has no PSK, spsk=2: another one; rotate=1: the server replaced its ticket keys -> resumption PSK declined
    for s_, kl in ((0x1301, ""), (0x1302, " psklen=48"), (0x1303, "")):
        add("tls13/%04x/extpsk" % s_, "cv=4 sv=4 suite=%04x psk=1%s" % (s_, kl))
        add("tls13/%04x/extpsk-declined" % s_, "cv=4 sv=4 suite=%04x psk=1 spsk=0%s" % (s_, kl))
        add("tls13/%04x/psk-declined" % s_, "cv=4 sv=4 suite=%04x ticket=1" % s_, "cv=4 sv=4 suite=%04x ticket=1 resume=1 keepkeys=1 rotate=1" % s_)
    add("tls13/1301/extpsk-declined-other", "cv=4 sv=4 suite=1301 psk=1 spsk=2")
    add("tls13/1302/extpsk-declined-other", "cv=4 sv=4 suite=1302 psk=1 spsk=2 psklen=48")
    add("tls13/1301/extpsk-hrr", "cv=4 sv=4 suite=1301 psk=1 grp=24,23 shares=1 sgrp=23")
    add("tls13/1302/extpsk-hrr", "cv=4 sv=4 suite=1302 psk=1 psklen=48 grp=23,29 shares=1 sgrp=29")
    add("tls13/1301/extpsk-declined-hrr", "cv=4 sv=4 suite=1301 psk=1 spsk=0 grp=24,23 shares=1 sgrp=23")
    add("tls13/1302/extpsk-declined-hrr", "cv=4 sv=4 suite=1302 psk=1 spsk=0 psklen=48 grp=24,23 shares=1 sgrp=23")
    add("tls13/1301/psk-declined-hrr", "cv=4 sv=4 suite=1301 ticket=1", "cv=4 sv=4 suite=1301 ticket=1 resume=1 keepkeys=1 rotate=1 grp=24,23 shares=1 sgrp=23")
    add("tls13/1301/extpsk-cauth-declined", "cv=4 sv=4 suite=1301 psk=1 spsk=0 cauth=1 scb=1")
    # a PSK whose length is not the hash length of its suite: MatrixSSL treats it as incompatible -> must be declined cleanly
    add("tls13/1302/extpsk-len32", "cv=4 sv=4 suite=1302 psk=1")
    add("tls13/1301/extpsk-len48", "cv=4 sv=4 suite=1301 psk=1 psklen=48")
    # PSK-only key establishment: the harness's server selects psk_ke (the client offers both modes), no key_share, (EC)DHE = 0
    for s_, kl in ((0x1301, ""), (0x1302, " psklen=48"), (0x1303, "")):
        add("tls13/%04x/extpsk-pskke" % s_, "cv=4 sv=4 suite=%04x psk=1 pskke=1%s" % (s_, kl))
        add("tls13/%04x/psk-pskke" % s_, "cv=4 sv=4 suite=%04x ticket=1" % s_, "cv=4 sv=4 suite=%04x ticket=1 resume=1 keepkeys=1 pskke=1" % s_)
    add("tls13/1301/extpsk-pskke-declined", "cv=4 sv=4 suite=1301 psk=1 spsk=0 pskke=1")
    add("tls12/c02f/ticket-declined", "cv=3 sv=3 suite=c02f ticket=1", "cv=3 sv=3 suite=c02f ticket=1 resume=1 keepkeys=1 rotate=1")
    if ck.tier == "thorough":
        for sd in range(2, 7):
            for s in t12: add("tls12/%04x/seed%d" % (s, sd), "cv=3 sv=3 suite=%04x%s seed=%d" % (s, " key=ec" if s in EC_SUITES else "", seed + sd))
            for s in (0x1301, 0x1302, 0x1303):
                for g in (23, 24, 29): add("tls13/%04x/g%d/seed%d" % (s, g, sd), "cv=4 sv=4 suite=%04x grp=%d seed=%d" % (s, g, seed + sd))
                add("tls13/%04x/cauth/seed%d" % (s, sd), "cv=4 sv=4 suite=%04x cauth=1 scb=1 seed=%d" % (s, seed + sd))
                add("tls13/%04x/extpsk-declined/seed%d" % (s, sd), "cv=4 sv=4 suite=%04x psk=1 spsk=0%s seed=%d" % (s, " psklen=48" if s == 0x1302 else "", seed + sd))
                add("tls13/%04x/extpsk/seed%d" % (s, sd), "cv=4 sv=4 suite=%04x psk=1%s seed=%d" % (s, " psklen=48" if s == 0x1302 else "", seed + sd))
                add("tls13/%04x/psk/seed%d" % (s, sd), "cv=4 sv=4 suite=%04x ticket=1 seed=%d" % (s, seed + sd), "cv=4 sv=4 suite=%04x ticket=1 resume=1 keepkeys=1 seed=%d" % (s, seed + sd + 50))
    out = []
    for name, sess in S:
        cmds = []; apps = []
        for i, a in enumerate(sess):
            if "seed=" not in a: a += " seed=%d" % (seed + 7 * i)
            cmds += ["new " + a, "hs", "app c 33 %d" % (65 + i), "app s 49 %d" % (97 + i), "dump"]
            apps.append([("c", 33, 65 + i), ("s", 49, 97 + i)])
        out.append((name, " ; ".join(cmds), apps))
    return out

PAYLOADS = [0, 1, 16383, 16384, 16385, 40000]
def payload_scenarios(ck, table):
    """application payloads across record / fragment boundaries, both directions; every record is logged in full and
    re-sealed / opened by the spec (quick: one configuration per record protection kind, thorough: all)"""
    cfgs = [("tls13/1301", "cv=4 sv=4 suite=1301"), ("tls13/1303", "cv=4 sv=4 suite=1303"), ("tls12/c02f", "cv=3 sv=3 suite=c02f"),
            ("tls12/c027", "cv=3 sv=3 suite=c027"), ("tls11/002f", "cv=2 sv=2 suite=002f"), ("tls13/1301/pad", "cv=4 sv=4 suite=1301 pad=256"),
            ("tls12/c02f/resumed", None), ("tls13/1302", "cv=4 sv=4 suite=1302"), ("tls12/c030", "cv=3 sv=3 suite=c030"),
            ("tls12/c013", "cv=3 sv=3 suite=c013"), ("tls12/c028", "cv=3 sv=3 suite=c028"), ("tls12/003c", "cv=3 sv=3 suite=003c")]
    exact_quick = {"tls13/1301/c", "tls13/1301/s", "tls13/1303/c", "tls12/c02f/c", "tls12/c027/c", "tls13/1301/pad/c", "tls12/c02f/resumed/c"}
    out = []
    for ci, (name, a) in enumerate(cfgs):
        # one session per direction (the extracted spec then works on the directions in parallel).  The record-length layout
        # and the intact round trip are checked for all of them; the bit-exact recomputation of every record by the spec is
        # done for all in the thorough tier and for one configuration per record-protection kind in the quick tier
        for di, sd in enumerate("cs"):
            exact = ck.tier == "thorough" or ("%s/%s" % (name, sd)) in exact_quick
            al = [(sd, n, (n * 7 + di) & 255) for n in PAYLOADS]
            apps = " ; ".join("app %s %d %d" % x for x in al)
            if a is None:
                out.append(("payload/%s/%s" % (name, sd), "new cv=3 sv=3 suite=c02f seed=3 ; hs ; dump ; new cv=3 sv=3 suite=c02f resume=1 keepkeys=1 seed=4 ; hs ; %s%s ; dump" % ("" if exact else "quiet 1 ; ", apps), [[], al] if exact else None))
            else:
                out.append(("payload/%s/%s" % (name, sd), "new %s seed=3 ; hs ; %s%s ; dump" % (a, "" if exact else "quiet 1 ; ", apps), [al] if exact else None))
    return out


# ---------------------------------------------------------------- parsing the dump
class Dump:
    def __init__(self, seg):
        self.kv = {}; self.ev = []; self.recs = []
        for tok in seg.split():
            if "=" not in tok: continue
            k, v = tok.split("=", 1)
            if k == "ev": self.ev.append(v.split(":"))
            elif k == "rec":
                d, inner, ln, b = v.split(":"); self.recs.append((int(d), int(inner), int(ln), b))
            else: self.kv[k] = v
    def stream(self, ctx):
        """segments (split at every Init) of the bytes fed to a transcript hash context"""
        segs = [b""]; last = None
        for e in self.ev:
            if e[0] == "I" and e[1] == ctx + "+0":
                if segs[-1]: segs.append(b"")
            elif e[0] == "U":
                data = last if e[2] == "=" else e[2]
                last = data
                if e[1] == ctx + "+0": segs[-1] += vlib.unhex(data)
        return [s for s in segs if s]
    def events(self, kind): return [e for e in self.ev if e[0] == kind]

def split_msgs(b):
    out = []; off = 0
    while off + 4 <= len(b):
        l = int.from_bytes(b[off + 1:off + 4], "big")
        if off + 4 + l > len(b): return None
        out.append(b[off:off + 4 + l]); off += 4 + l
    return out if off == len(b) else None

def hello_exts(m):
    """extension types (and raw map) of a ClientHello / ServerHello message; None on a malformed one"""
    try:
        p = 4 + 2 + 32
        sl = m[p]; p += 1 + sl
        if m[0] == 1:
            cl = int.from_bytes(m[p:p + 2], "big"); p += 2 + cl
            ml = m[p]; p += 1 + ml
        else:
            p += 2 + 1
        if p >= len(m): return {}
        el = int.from_bytes(m[p:p + 2], "big"); p += 2; end = p + el; ex = {}
        while p + 4 <= end:
            t = int.from_bytes(m[p:p + 2], "big"); l = int.from_bytes(m[p + 2:p + 4], "big"); ex[t] = m[p + 4:p + 4 + l]; p += 4 + l
        return ex
    except Exception:
        return None

def ev_out(e):
    """output of a logged derivation (L: ... secret label ctx out in-role; X/P: ... out)"""
    return e[7] if e[0] == "L" else e[6]

# destination field -> derivation site (the site names of tools/srcgen/gen_tls_labels.py and of the spec's rfc_labels)
OUT_SITE = {"tls13HsTrafficSecretClient": "c_hs_traffic", "tls13HsTrafficSecretServer": "s_hs_traffic", "tls13AppTrafficSecretClient": "c_ap_traffic",
            "tls13AppTrafficSecretServer": "s_ap_traffic", "tls13ResumptionMasterSecret": "res_master", "tls13EarlyTrafficSecretClient": "c_e_traffic",
            "tls13FinishedKey": "finished", "tls13ExtBinderKey": "finished"}
def field(role): return role.split("+")[0].split(".")[-1]
def site_of_expand(e, isres):
    """derivation site of a psHkdfExpandLabel call, from where its output goes / where its input secret lives"""
    o, i = field(e[3]), field(e[8]) if len(e) > 8 else "-"
    if o in OUT_SITE: return OUT_SITE[o]
    if o == "tls13ExtBinderSecret": return "res_binder" if isres else "ext_binder"
    if re.search(r"(Read|Write|Data)Key$", o): return "key"
    if re.search(r"(Read|Write|Data)Iv$", o): return "iv"
    if o == "-":
        if i == "tls13ResumptionMasterSecret": return "resumption"
        if i in ("tls13EarlySecret", "tls13EarlySecretSha384", "tls13HandshakeSecret"): return "derived"
        if i == "tls13ExtBinderSecret": return "finished"
    return None

HRR_RANDOM = bytes.fromhex("CF21AD74E59A6111BE1D8C021E65B891C2A211167ABB8C5E079E09E2C8A8339C")
joinm = lambda ms: ",".join(m.hex() for m in ms) if ms else "-"


# ---------------------------------------------------------------- one session -> spec line + expectations
class Sess:
    """analysis of one dumped session: the driver line (primary inputs only) and the list of
    (what, library value, key of the spec output) comparisons"""
    def __init__(self, name, d, prev, thorough=False, script="", apps=(), inject=False):
        self.name, self.d, self.prev, self.thorough, self.script, self.apps, self.inject = name, d, prev, thorough, script, list(apps), inject
        # what each application sent, in order (byte i of a payload = (b0 + i) & 255)
        self.stream = {sd: b"".join(bytes((b0 + i) & 255 for i in range(n)) for (x, n, b0) in self.apps if x == sd) for sd in "cs"}
        self.problems = []       # structural problems found before any spec evaluation (e.g. peers hashed different bytes)
        self.cmp = []            # (what, impl hex, spec key)
        self.line = None; self.prims = []
        self.recs_expect = []    # (index, what, expected spec result)
        kv = d.kv
        self.ver = int(kv.get("c.ver", "0")); self.suite = int(kv.get("c.suite", "0"), 16)
        self.done = kv.get("c.done") == "1" and kv.get("s.done") == "1"
        if not self.done: return
        if kv.get("s.ver") != kv.get("c.ver") or kv.get("s.suite") != kv.get("c.suite"):
            self.problems.append("peers disagree on version/suite"); return
        if self.suite not in SUITES: self.problems.append("suite %04x has no RFC entry in the check" % self.suite); return
        self.cipher, self.keylen, self.maclen, self.hash = SUITES[self.suite]
        (self.build13 if self.ver == 4 else self.build12)()

    # -- helpers
    def transcript(self, side, ctx):
        segs = self.d.stream("%s.%s" % (side, ctx))
        return segs
    def role_vals(self, kinds, role):
        """outputs of the logged derivations whose destination is ssl->sec.<role> (either peer)"""
        out = []
        for e in self.d.ev:
            if e[0] in kinds and e[3].split("+")[0].split(".")[-1] == role and e[3].endswith("+0"):
                out.append((e[3][0], e))
        return out
    def wire(self, direction=None):
        return [r for r in self.d.recs if direction is None or r[0] == direction]

    def zero_sites(self):
        """(site, hash length, length passed) of the all-zero inputs of the TLS 1.3 schedule seen in this session"""
        out = set()
        if self.ver != 4 or not self.done or self.problems or not hasattr(self, "msgs"): return out
        hl = 48 if self.hash == "sha384" else 32
        sh = [m for m in self.msgs if m[0] == 2 and m[6:38] != HRR_RANDOM]
        dhe = bool(sh) and 51 in (hello_exts(sh[0]) or {})
        for e in self.d.events("X"):
            f_ = field(e[3]); L = lambda x: 0 if x == "-" else len(x) // 2
            if f_ in ("tls13EarlySecret", "tls13EarlySecretSha384"):
                out.add(("early_salt", hl, L(e[4])))
                if not e[5].strip("0"): out.add(("dummy_psk", hl, L(e[5])))
            elif f_ == "tls13HandshakeSecret" and not dhe: out.add(("pskke_ikm", hl, L(e[5])))
            elif f_ == "tls13MasterSecret": out.add(("master_ikm", hl, L(e[5])))
        return out

    def plan_inject(self, toks, exp, nextseq):
        """the extracted spec as an independent PEER: records it seals under its own keys with choices a conforming but
        different implementation may make - TLS 1.2 GCM explicit nonces that are not the sequence number (random, all ones,
        a counter from a random start), CBC explicit IVs and non-minimal padding, TLS 1.3 record padding, and a write cut
        into several records (1, 15, 16, 17 bytes, rest) - to be fed to the receiving MatrixSSL side, which must deliver
        exactly the bytes"""
        if not self.inject: return
        import random
        r = random.Random(int(hashlib.sha256(self.name.encode()).hexdigest()[:12], 16))
        self.inj = {}
        for sender in "cs":
            payload = bytes(r.randrange(256) for _ in range(97))
            frags = []; o = 0
            for c in (1, 15, 16, 17): frags.append(payload[o:o + c]); o += c
            frags.append(payload[o:])
            seq = nextseq[sender]; ctr = r.getrandbits(64); idxs = []
            for j, fr in enumerate(frags):
                if self.ver == 4:
                    tok = "S:%s:a:%d:23:%s:%d" % (sender, seq, fr.hex(), (0, 1, 17, 255, 3)[j]); kind = "tls13-padding-fragmentation"
                elif self.cipher == "gcm":
                    explicit = (bytes(r.randrange(256) for _ in range(8)) if j == 0 else b"\xff" * 8 if j == 1 else ((ctr + j) % (1 << 64)).to_bytes(8, "big"))
                    tok = "S:%s:%d:23:%s:%s" % (sender, seq, fr.hex(), explicit.hex()); kind = "gcm-explicit-nonce"
                elif self.cipher == "cbc":
                    m = len(fr) + self.maclen; p0 = (-(m + 1)) % 16
                    padlen = (p0, p0 + 16, p0 + 48, p0 + 16 * ((255 - p0) // 16), p0)[j]
                    tok = "C:%s:%d:23:%s:%s:%d" % (sender, seq, fr.hex(), bytes(r.randrange(256) for _ in range(16)).hex(), padlen); kind = "cbc-explicit-iv-padding"
                else:
                    tok = "S:%s:%d:23:%s:-" % (sender, seq, fr.hex()); kind = "chacha-fragmentation"
                idxs.append(len(toks)); toks.append(tok); exp.append(("record sealed by the spec as %s's peer (%s)" % ("server" if sender == "c" else "client", kind), "INJECT", sender))
                seq += 1
            self.inj[sender] = (payload, idxs, kind)

    def label_sites(self):
        """{site: set of label byte strings (hex) the library passed there in this session}; sites are identified by the
        destination / source of the derivation and by the seed's tail, never by the label"""
        out = {}
        def add(site, lab):
            if site: out.setdefault(site, set()).add(lab)
        if not self.done or self.problems or not hasattr(self, "msgs"): return out
        if self.ver == 4:
            hl = 48 if self.hash == "sha384" else 32
            for e in self.d.ev:
                if e[0] == "L" and len(e) > 8: add(site_of_expand(e, bool(getattr(self, "isres", 1))), "" if e[5] == "-" else e[5])
            # psVerify input: 64 x 0x20, context string, 0, transcript hash; which CertificateVerify it belongs to is read off
            # the transcript hash (each side also re-verifies the signature it has just made)
            Hf = hashlib.sha384 if hl == 48 else hashlib.sha256
            pre = (lambda i: (self.reinit_msg + b"".join(self.msgs[1:i])) if getattr(self, "hrr", False) else b"".join(self.msgs[:i]))
            fins = [i for i, m in enumerate(self.msgs) if m[0] == 20]
            tails = {}
            for i, m in enumerate(self.msgs):
                if m[0] == 15 and fins: tails[Hf(pre(i)).digest()] = "cv_server" if i < fins[0] else "cv_client"
            for e in self.d.events("V"):
                b = vlib.unhex(e[4])
                if len(b) > 64 + 1 + hl and b[:64] == b" " * 64 and b[-hl - 1] == 0 and b[-hl:] in tails:
                    add(tails[b[-hl:]], b[64:-hl - 1].hex())
        else:
            H = (lambda b: hashlib.md5(b).digest() + hashlib.sha1(b).digest()) if self.ver < 3 else (hashlib.sha384 if self.hash == "sha384" else hashlib.sha256)
            hh = (lambda b: H(b)) if self.ver < 3 else (lambda b: H(b).digest())
            fidx = [i for i, m in enumerate(self.msgs) if m[0] == 20]
            tails = {}
            if len(fidx) == 2:
                first, second = hh(b"".join(self.msgs[:fidx[0]])), hh(b"".join(self.msgs[:fidx[1]]))
                tails = {first.hex(): "client_finished" if self.full else "server_finished", second.hex(): "server_finished" if self.full else "client_finished"}
            for e in self.d.events("P"):
                dest, seed = field(e[3]), e[5]
                if dest == "masterSecret":           # seed = label + session_hash  /  label + client_random + server_random
                    if getattr(self, "ems", False): add("ext_master", seed[:len(seed) - 2 * len(hh(b""))])
                    else: add("master", seed[:-128])
                elif dest == "keyBlock": add("key_block", seed[:-128])
                elif dest == "-":
                    for t, site in tails.items():
                        if seed.endswith(t): add(site, seed[:-len(t)])
        return out

    # -- TLS 1.1 / 1.2
    def build12(self):
        kv, d = self.d.kv, self.d
        ctx = "msgHashMd5Sha1" if self.ver < 3 else ("msgHashSha384" if self.hash == "sha384" else "msgHashSha256")
        tc, ts = self.transcript("c", ctx), self.transcript("s", ctx)
        if len(tc) != 1 or len(ts) != 1 or tc != ts:
            # a TLS 1.3 capable client hashes its ClientHello through the 1.3 context first: same bytes, compare on content only
            if b"".join(tc) != b"".join(ts) or not tc:
                self.problems.append("client and server fed different bytes to their handshake hash (%d/%d bytes)" % (len(b"".join(tc)), len(b"".join(ts)))); return
        msgs = split_msgs(b"".join(tc))
        if not msgs: self.problems.append("the hashed handshake bytes are not a sequence of handshake messages"); return
        self.msgs = msgs
        types = [m[0] for m in msgs]
        if types[0] != 1 or types[1] != 2: self.problems.append("transcript does not start with ClientHello, ServerHello"); return
        ch, sh = msgs[0], msgs[1]
        cr, sr = ch[6:38], sh[6:38]
        for side in "cs":
            if kv["%s.cr" % side] != cr.hex() or kv["%s.sr" % side] != sr.hex(): self.problems.append("%s: randoms in ssl->sec differ from the hellos" % side)
        exc, exs = hello_exts(ch), hello_exts(sh)
        ems = bool(exc is not None and exs is not None and 23 in exc and 23 in exs)
        self.full = 16 in types
        # wire: plaintext handshake records (before each direction's ChangeCipherSpec) = the transcript without the Finished messages
        plain = b""; seen_ccs = {0: False, 1: False}; sealed = {0: [], 1: []}
        for (dr, inner, ln, b) in self.wire():
            rb = bytes.fromhex(b)
            if seen_ccs[dr]: sealed[dr].append(rb); continue
            if rb[0] == 20: seen_ccs[dr] = True
            elif rb[0] == 22: plain += rb[5:]
        nofin = b"".join(m for m in msgs if m[0] != 20)
        if plain != nofin: self.problems.append("handshake bytes on the wire (%d) differ from the hashed transcript without Finished (%d)" % (len(plain), len(nofin)))
        self.sealed = sealed
        # primary secret: the premaster (input of the PRF call that wrote masterSecret) or the resumed session's master secret
        pm = {}
        for side, e in self.role_vals(("P",), "masterSecret"): pm[side] = e[4]
        if self.full:
            if set(pm) != {"c", "s"} or pm["c"] != pm["s"]: self.problems.append("premaster secrets of the peers differ / not captured"); return
            secret = pm["c"]
        else:
            if pm: self.problems.append("abbreviated handshake derived a master secret")
            if not self.prev or "master" not in self.prev.spec: self.problems.append("resumed session without a checked predecessor"); return
            secret = self.prev.spec["master"]
        # record tokens
        toks = []; exp = []
        verb = bytes([3, self.ver])
        cfin_first = self.full
        for dr, side in ((0, "c"), (1, "s")):
            recs = sealed[dr]
            if not recs: self.problems.append("no protected record from %s" % side); continue
            fin = recs[0]
            if self.cipher == "cbc":
                toks.append("O:%s:0:22:%s" % (side, fin.hex())); exp.append(("%s Finished record (CBC open)" % side, "FIN", side))
            else:
                explicit = fin[5:13].hex() if self.cipher == "gcm" else "-"
                toks.append("F:%s:0:%s" % (side, explicit)); exp.append(("%s Finished record (sealed by the spec)" % side, fin.hex(), None))
            # every application record of this direction: AEAD records are re-sealed by the spec from the bytes the application
            # handed over (the fragment length is read off the record length), CBC records are opened by the spec
            off = 0
            for j, a in enumerate(recs[1:]):
                seq = 1 + j
                if a[0] != 23: continue
                if self.cipher == "cbc":
                    toks.append("O:%s:%d:23:%s" % (side, seq, a.hex())); exp.append(("%s application record (CBC open)" % side, "APPCBC", side))
                else:
                    n = len(a) - 5 - (24 if self.cipher == "gcm" else 16)
                    content = self.stream[side][off:off + n]; off += n
                    explicit = a[5:13].hex() if self.cipher == "gcm" else "-"
                    toks.append("S:%s:%d:23:%s:%s" % (side, seq, vlib.hexs(content), explicit)); exp.append(("%s application record (sealed by the spec)" % side, a.hex(), None))
            if self.cipher != "cbc" and off != len(self.stream[side]): self.problems.append("%s: application records carry %d bytes, the application sent %d" % (side, off, len(self.stream[side])))
            if not recs[1:] and self.stream[side]: self.problems.append("no application record from %s" % side)
        self.plan_inject(toks, exp, {"c": len(sealed[0]), "s": len(sealed[1])})
        self.recs_expect = exp
        self.line = "hs12 %d %04x %d %s %s %s %s %s" % (self.ver, self.suite, 1 if ems else 0, secret, cr.hex(), sr.hex(), joinm(msgs), " ".join(toks))
        self.ems = ems
        # comparisons by role
        C = self.cmp
        for side in "cs":
            C.append(("%s master secret" % side, kv["%s.ms" % side], "master"))
            w, r = ("c", "s") if side == "c" else ("s", "c")
            for fld, nm in (("mac", "MAC key"), ("key", "key")):
                if fld == "mac" and self.maclen == 0: continue
                C.append(("%s write %s (key block pointer)" % (side, nm), kv["%s.w%s" % (side, fld)], w + fld))
                C.append(("%s read %s (key block pointer)" % (side, nm), kv["%s.r%s" % (side, fld)], r + fld))
                C.append(("%s write %s (activated)" % (side, nm), kv["%s.act.w%s" % (side, fld)], w + fld))
                C.append(("%s read %s (activated)" % (side, nm), kv["%s.act.r%s" % (side, fld)], r + fld))
            if self.cipher != "cbc":
                C.append(("%s write IV (key block pointer)" % side, kv["%s.wiv" % side], w + "iv"))
                C.append(("%s read IV (key block pointer)" % side, kv["%s.riv" % side], r + "iv"))
                C.append(("%s write IV (activated)" % side, kv["%s.act.wiv" % side], w + "iv"))
                C.append(("%s read IV (activated)" % side, kv["%s.act.riv" % side], r + "iv"))
        fins = [m for m in msgs if m[0] == 20]
        if len(fins) != 2: self.problems.append("expected two Finished messages in the transcript, found %d" % len(fins)); return
        cf, sf = (fins[0], fins[1]) if self.full else (fins[1], fins[0])
        C.append(("client Finished verify_data (in the transcript)", cf[4:].hex(), "cfin"))
        C.append(("server Finished verify_data (in the transcript)", sf[4:].hex(), "sfin"))
        if self.full and ems:
            for side, e in self.role_vals(("P",), "masterSecret"):
                C.append(("%s session_hash fed to the extended master secret PRF" % side, e[5][44:], "sh"))
        # signed contents: ServerKeyExchange and CertificateVerify (what psSign / psVerifySig were given)
        self.sig12(msgs, cr, sr)

    def sig12(self, msgs, cr, sr):
        signed = [e[4] for e in self.d.events("S")]; verified = [e[4] for e in self.d.events("W")] + [e[4] for e in self.d.events("V")]
        self.sigchecks = []
        for m in msgs:
            if m[0] == 12 and self.suite not in RSA_KX:
                b = m[4:]
                if b[0] != 3: continue
                pl = 4 + b[3]; params = b[:pl]
                if self.ver == 3: hn = TLS12_HASH.get(b[pl]); salg = b[pl + 1]
                else: hn = "sha1" if self.suite in EC_SUITES else "md5sha1"; salg = 0
                if hn: self.sigchecks.append(("ServerKeyExchange signed content (client_random + server_random + params, %s)" % hn,
                                              "skh %s %s %s %s" % (hn, cr.hex(), sr.hex(), params.hex()), signed, verified))
            if m[0] == 15:
                b = m[4:]
                idx = [i for i, x in enumerate(msgs) if x is m][0]
                if self.ver == 3: hn = TLS12_HASH.get(b[0])
                else: hn = "sha1" if self.kvkey() == "ec" else "md5sha1"
                if hn: self.sigchecks.append(("CertificateVerify signed content (handshake messages so far, %s)" % hn,
                                              "dg %s %s" % (hn, joinm(msgs[:idx])), signed, verified))
    def kvkey(self):
        return "ec" if self.suite in EC_SUITES else "rsa"

    # -- TLS 1.3
    def build13(self):
        kv, d = self.d.kv, self.d
        ctx = "tls13msgHashSha384" if self.hash == "sha384" else "tls13msgHashSha256"
        hl = 48 if self.hash == "sha384" else 32
        tc, ts = self.transcript("c", ctx), self.transcript("s", ctx)
        if tc != ts: self.problems.append("client and server fed different bytes to the transcript hash"); return
        if len(tc) == 1: msgs = split_msgs(tc[0]); hrr = False
        elif len(tc) == 2:
            m2 = split_msgs(tc[1]); ch1 = split_msgs(tc[0])
            if not m2 or not ch1 or len(ch1) != 1 or m2[0][0] != 254: self.problems.append("transcript after the re-initialisation does not start with message_hash"); return
            msgs = ch1 + m2[1:]; hrr = True
            self.reinit_msg = m2[0]
        else: self.problems.append("unexpected number of transcript hash initialisations"); return
        if not msgs: self.problems.append("the hashed handshake bytes are not a sequence of handshake messages"); return
        self.msgs = msgs; self.hrr = hrr
        types = [m[0] for m in msgs]
        # the hellos are in the clear: the transcript must start with what was on the wire
        plain = b"".join(bytes.fromhex(b)[5:] for (dr, inner, ln, b) in self.wire() if b[:2] == "16")
        shi = [i for i, m in enumerate(msgs) if m[0] == 2 and m[6:38] != HRR_RANDOM]
        if not shi: self.problems.append("no ServerHello in the transcript"); return
        shi = shi[0]
        if plain != b"".join(msgs[:shi + 1]): self.problems.append("plaintext handshake records differ from the hashed hellos")
        if hrr != (msgs[1][0] == 2 and msgs[1][6:38] == HRR_RANDOM): self.problems.append("HelloRetryRequest / re-initialisation mismatch")
        ch = msgs[shi - 1]
        exc = hello_exts(ch) or {}
        # PSK: the input key material of the Early Secret extraction; (EC)DHE: that of the Handshake Secret extraction
        # OFFERED = the last ClientHello carries pre_shared_key; its value is the input key material of the client's first
        # Early Secret extraction.  Whether it is SELECTED is read off the ServerHello by the spec (and here, for bookkeeping)
        psk = None; isres = 0; blen = 0
        esrole = "tls13EarlySecretSha384" if hl == 48 else "tls13EarlySecret"
        news = re.findall(r"new ([^;|]*)", self.script); depth = 0; pv = self.prev
        while pv is not None: depth += 1; pv = pv.prev
        cfg = news[depth] if depth < len(news) else ""
        self.offered = 41 in exc
        self.selected = 41 in (hello_exts(msgs[shi]) or {})
        if self.offered:
            vals = [e[5] for side, e in self.role_vals(("X",), esrole) if side == "c" and e[5].strip("0")]
            if not vals or len(set(vals)) != 1: self.problems.append("the client offered a PSK but its value was not captured (%d values)" % len(set(vals))); return
            psk = vals[0]; isres = 1 if ("resume=1" in cfg and "psk=1" not in cfg) else 0
            svals = set(e[5] for side, e in self.role_vals(("X",), esrole) if side == "s" and e[5].strip("0"))
            if self.selected and svals != {psk}: self.problems.append("the server selected a PSK but extracted its Early Secret from %s" % (sorted(svals) or "zeros"))
            e41 = exc[41]; il = int.from_bytes(e41[:2], "big"); blen = 2 + int.from_bytes(e41[2 + il:4 + il], "big")
            if not ch.endswith(e41): self.problems.append("pre_shared_key is not the last extension")
            self.binder_wire = ch[-hl:].hex()
        elif self.selected: self.problems.append("ServerHello selects a PSK that was not offered"); return
        if (kv.get("c.psk") == "1") != self.selected or (kv.get("s.psk") == "1") != self.selected:
            self.problems.append("tls13UsingPsk (client %s, server %s) disagrees with the ServerHello (pre_shared_key %s)" % (kv.get("c.psk"), kv.get("s.psk"), "present" if self.selected else "absent"))
        ecd = set(e[5] for side, e in self.role_vals(("X",), "tls13HandshakeSecret"))
        if len(ecd) != 1: self.problems.append("(EC)DHE shared secrets of the peers differ / not captured"); return
        ecdhe = ecd.pop()
        # records
        toks, exp = [], []
        fin_idx = [i for i, t in enumerate(types) if t == 20]
        if len(fin_idx) != 2: self.problems.append("expected two Finished messages"); return
        flights = {1: msgs[shi + 1:fin_idx[0] + 1], 0: msgs[fin_idx[0] + 1:fin_idx[1] + 1]}
        pad_cfg = "pad=" in self.name or "/pad" in self.name
        nextseq = {"c": 0, "s": 0}
        for dr, side in ((1, "s"), (0, "c")):
            recs = [bytes.fromhex(b) for (x, inner, ln, b) in self.wire(dr) if b[:2] == "17"]
            inners = [inner for (x, inner, ln, b) in self.wire(dr) if b[:2] == "17"]
            fl = b"".join(flights[dr]); off = 0; i = 0
            finmsg = flights[dr][-1]
            # handshake epoch: the records that carry this side's flight
            if pad_cfg:
                # padded records hide the content length: MatrixSSL puts one handshake message into each record
                for j, m in enumerate(flights[dr]):
                    if j < len(recs):
                        toks.append("O:%s:h:%d:%s" % (side, j, recs[j].hex())); exp.append(("%s padded handshake record %d (opened by the spec)" % (side, j), "ok:%s/22" % m.hex(), None))
                i = len(flights[dr]); off = len(fl)
            while off < len(fl) and i < len(recs):
                r = recs[i]
                n = len(r) - 5 - 17
                chunk = fl[off:off + n]
                if chunk == finmsg and off + n == len(fl):
                    toks.append("F:%s:%d:0" % (side, i)); exp.append(("%s Finished record (sealed by the spec)" % side, r.hex(), None))
                else:
                    toks.append("S:%s:h:%d:22:%s:0" % (side, i, chunk.hex())); exp.append(("%s handshake record %d (sealed by the spec)" % (side, i), r.hex(), None))
                off += n; i += 1
            if off != len(fl): self.problems.append("%s: handshake-epoch records do not add up to the flight" % side)
            # application epoch: NewSessionTicket records are opened, application records re-sealed (opened when padded)
            seq = 0; off = 0; napp = 0
            for r, inner in zip(recs[i:], inners[i:]):
                if inner == 22:
                    toks.append("O:%s:a:%d:%s" % (side, seq, r.hex())); exp.append(("%s NewSessionTicket record (opened by the spec)" % side, "NST", None))
                elif inner == 23:
                    napp += 1
                    if pad_cfg:
                        toks.append("O:%s:a:%d:%s" % (side, seq, r.hex())); exp.append(("%s padded application record (opened by the spec)" % side, "APP13", side))
                    else:
                        n = len(r) - 5 - 17
                        content = self.stream[side][off:off + n]; off += n
                        toks.append("S:%s:a:%d:23:%s:0" % (side, seq, vlib.hexs(content))); exp.append(("%s application record (sealed by the spec)" % side, r.hex(), None))
                seq += 1
            nextseq[side] = seq
            if not pad_cfg and off != len(self.stream[side]): self.problems.append("%s: application records carry %d bytes, the application sent %d" % (side, off, len(self.stream[side])))
            if napp == 0 and self.stream[side]: self.problems.append("no application record from %s" % side)
        self.plan_inject(toks, exp, nextseq)
        self.recs_expect = exp
        self.line = "hs13 %04x %s %d %s %d %s %s" % (self.suite, psk or "-", isres, ecdhe, blen, joinm(msgs), " ".join(toks))
        self.psk = psk; self.isres = isres
        # comparisons by role (destination field of each logged derivation, both peers)
        C = self.cmp
        def role(name, key, kinds=("L", "X")):
            vs = self.role_vals(kinds, name)
            if not vs and key not in ("binder_key", "c_e", "c_e_key", "c_e_iv"): self.problems.append("no derivation into %s was logged" % name)
            for side, e in vs: C.append(("%s %s" % (side, name), ev_out(e), key))
        # Early Secret: what each side holds LAST (when it extracts the Handshake Secret) is Early(selected PSK or 0); what it
        # held before may also be Early(offered PSK) (binders, early data)
        for sd in "cs":
            vs = [e for side, e in self.role_vals(("X",), esrole) if side == sd]
            if not vs: self.problems.append("%s: no Early Secret extraction was logged" % sd)
            for e in vs[:-1]: C.append(("%s %s (before the ServerHello)" % (sd, esrole), ev_out(e), "early|early_off"))
            for e in vs[-1:]: C.append(("%s %s (the one in force for the Handshake Secret)" % (sd, esrole), ev_out(e), "early", "derive:tls13/%04x/early-secret" % self.suite))
        # ... and the salt actually fed to the Handshake Secret extraction is Derive-Secret(that Early Secret, "derived", "")
        for side, e in self.role_vals(("X",), "tls13HandshakeSecret"):
            C.append(("%s salt of the Handshake Secret extraction = Derive-Secret(Early Secret of the selected PSK, \"derived\")" % side, e[4], "hs_salt",
                      "derive:tls13/%04x/early-secret-for-handshake-secret" % self.suite))
        if psk:
            role("tls13ExtBinderSecret", "binder_key")
            C.append(("PSK binder in the ClientHello", self.binder_wire, "binder"))
        role("tls13HandshakeSecret", "hs"); role("tls13HsTrafficSecretClient", "c_hs"); role("tls13HsTrafficSecretServer", "s_hs")
        role("tls13MasterSecret", "master"); role("tls13AppTrafficSecretClient", "c_ap"); role("tls13AppTrafficSecretServer", "s_ap")
        role("tls13ResumptionMasterSecret", "res")
        # client_early_traffic_secret is defined over the first ClientHello; after a HelloRetryRequest 0-RTT is off (RFC 8446 4.2.10)
        # and whatever the server still derives into that field is never used
        early_ok = not hrr
        for side, e in (self.role_vals(("L",), "tls13EarlyTrafficSecretClient") if early_ok else []): C.append(("%s tls13EarlyTrafficSecretClient" % side, ev_out(e), "c_e"))
        for fld, ck_, sk_ in (("tls13HsWriteKey", "c_hs_key", "s_hs_key"), ("tls13HsWriteIv", "c_hs_iv", "s_hs_iv"), ("tls13HsReadKey", "s_hs_key", "c_hs_key"),
                              ("tls13HsReadIv", "s_hs_iv", "c_hs_iv"), ("tls13AppWriteKey", "c_ap_key", "s_ap_key"), ("tls13AppWriteIv", "c_ap_iv", "s_ap_iv"),
                              ("tls13AppReadKey", "s_ap_key", "c_ap_key"), ("tls13AppReadIv", "s_ap_iv", "c_ap_iv")):
            vs = self.role_vals(("L",), fld)
            if not vs: self.problems.append("no derivation into %s was logged" % fld)
            for side, e in vs: C.append(("%s %s" % (side, fld), ev_out(e), ck_ if side == "c" else sk_))
        for side, e in (self.role_vals(("L",), "tls13EarlyDataKey") if early_ok else []): C.append(("%s tls13EarlyDataKey" % side, ev_out(e), "c_e_key"))
        for side, e in (self.role_vals(("L",), "tls13EarlyDataIv") if early_ok else []): C.append(("%s tls13EarlyDataIv" % side, ev_out(e), "c_e_iv"))
        # the keys the record layer holds at the end
        for side in "cs":
            w, r = ("c", "s") if side == "c" else ("s", "c")
            C.append(("%s active write key" % side, kv["%s.act.wkey" % side], w + "_ap_key")); C.append(("%s active read key" % side, kv["%s.act.rkey" % side], r + "_ap_key"))
            C.append(("%s active write IV" % side, kv["%s.act.wiv" % side], w + "_ap_iv")); C.append(("%s active read IV" % side, kv["%s.act.riv" % side], r + "_ap_iv"))
        C.append(("server Finished verify_data (in the transcript)", msgs[fin_idx[0]][4:].hex(), "sfin"))
        C.append(("client Finished verify_data (in the transcript)", msgs[fin_idx[1]][4:].hex(), "cfin"))
        # CertificateVerify: what psVerify checked (the content) and what psSign signed (its hash under the scheme's hash)
        self.sigchecks = []
        cvs = [i for i, t in enumerate(types) if t == 15]
        for i in cvs:
            server = i < fin_idx[0]
            scheme = int.from_bytes(msgs[i][4:6], "big")
            key = "scv" if server else "ccv"
            verified = [e[4] for e in self.d.events("V") if e[1] == ("0" if server else "1")]
            signed = [e[4] for e in self.d.events("S") if e[1] == ("1" if server else "0")]
            self.sigchecks.append(("%s CertificateVerify content" % ("server" if server else "client"), key, verified, signed, TLS13_SIGHASH.get(scheme)))
        if hrr:
            C.append(("message_hash message hashed in place of ClientHello1", self.reinit_msg.hex(), "@reinit"))


def run_sharded(ck, drv, lines, cost, nproc=6):
    """the extracted spec on the lines, spread over a few processes (longest first)"""
    order = sorted(range(len(lines)), key=lambda i: -cost[i])
    shards = [[] for _ in range(nproc)]; load = [0] * nproc
    for i in order:
        j = load.index(min(load)); shards[j].append(i); load[j] += cost[i] + 1
    res = {}
    def work(ids):
        if not ids: return
        rc, out, err = ck.run_lines(drv, [lines[i] for i in ids], timeout=3000)
        for n, i in enumerate(ids): res[i] = out[n] if n < len(out) else "NOOUTPUT"
    th = [threading.Thread(target=work, args=(s,)) for s in shards]
    for t in th: t.start()
    for t in th: t.join()
    return [res.get(i, "NOOUTPUT") for i in range(len(lines))]


def parse_out(line):
    d = {}
    for tok in line.split():
        if "=" in tok:
            k, v = tok.split("=", 1); d[k] = v
    return d


def openssl_smoke(ck):
    """supporting information only (gates nothing): if an openssl binary and a previously built apps/ssl/client of the
    repository exist, four loopback handshakes MatrixSSL client -> `openssl s_server` (TLS 1.2 ECDHE-RSA-GCM, TLS 1.3
    AES-128-GCM, TLS 1.3 + HelloRetryRequest with SHA-256 and with SHA-384).  The client binary is whatever was last built
    in the repository (the scratch build makes the libraries only), so this is a smoke signal, not a check of this tree."""
    o = shutil.which("openssl"); cli = os.path.join(vlib.REPO, "apps/ssl/client"); kd = os.path.join(vlib.REPO, "testkeys/RSA")
    if not o: return "openssl not installed"
    if not os.access(cli, os.X_OK): return "openssl present, no built apps/ssl/client in the repository: no cross-stack run"
    res = []
    base = 20000 + os.getpid() % 20000
    runs = [("TLS1.2 c02f", ["-tls1_2", "-cipher", "ECDHE-RSA-AES128-GCM-SHA256"], ["-V", "3", "-c", "49199"]),
            ("TLS1.3 1301", ["-tls1_3", "-ciphersuites", "TLS_AES_128_GCM_SHA256"], ["-V", "4", "-c", "4865"]),
            ("TLS1.3 1301 HelloRetryRequest", ["-tls1_3", "-ciphersuites", "TLS_AES_128_GCM_SHA256", "-groups", "P-256"],
             ["-V", "4", "-c", "4865", "--groups", "secp384r1:secp256r1", "--num-key-shares", "1"]),
            ("TLS1.3 1302 HelloRetryRequest", ["-tls1_3", "-ciphersuites", "TLS_AES_256_GCM_SHA384", "-groups", "P-256"],
             ["-V", "4", "-c", "4866", "--groups", "secp384r1:secp256r1", "--num-key-shares", "1"])]
    for i, (nm, so, co) in enumerate(runs):
        srv = None
        try:
            port = str(base + i)
            srv = subprocess.Popen([o, "s_server", "-accept", port, "-cert", kd + "/2048_RSA.pem", "-key", kd + "/2048_RSA_KEY.pem", "-www", "-naccept", "1"] + so,
                                   stdout=subprocess.DEVNULL, stderr=subprocess.DEVNULL)
            time.sleep(0.6)
            p = subprocess.run([cli, "-s", "127.0.0.1", "-p", port, "-d", "-C", kd + "/2048_RSA_CA.pem"] + co, capture_output=True, timeout=15)
            res.append("%s: %s" % (nm, "completed" if b"TLS handshake complete" in p.stdout + p.stderr else "NOT completed"))
        except Exception as e:
            res.append("%s: not run (%s)" % (nm, type(e).__name__))
        finally:
            if srv:
                try: srv.kill(); srv.wait(timeout=5)
                except Exception: pass
    return "MatrixSSL apps/ssl/client (last build in the repository) -> openssl s_server: " + "; ".join(res)


CAPTURE_SCEN = ["cv=3 sv=3 suite=c02f", "cv=3 sv=3 suite=c02f ems=-1", "cv=2 sv=2 suite=c013", "cv=4 sv=4 suite=1301 cauth=1 scb=1",
                "cv=4 sv=4 suite=1302 ticket=1 | cv=4 sv=4 suite=1302 ticket=1 resume=1 keepkeys=1", "cv=4 sv=4 suite=1301 psk=1", "cv=4 sv=4 suite=1301 psk=1 pskke=1", "cv=4 sv=4 suite=1302 psk=1 psklen=48 pskke=1"]
def capture_labels(ck, h):
    """{site: [label hex]} observed on a handful of sessions, written to a JSON file for tools/srcgen/gen_tls_labels.py"""
    import json
    scripts = [" ; ".join("new %s seed=%d ; hs ; dump" % (a.strip(), 11 + i) for i, a in enumerate(c.split("|"))) for c in CAPTURE_SCEN]
    rc, outs, err = ck.run_lines(h, scripts, timeout=600)
    sites = {}; zl = {}
    for o in outs:
        prev = None
        for ds in [x for x in o.split(" | ") if x.startswith("dump:")]:
            try:
                s = Sess("capture", Dump(ds), prev, False, "", ())
                for k, v in s.label_sites().items(): sites.setdefault(k, set()).update(v)
                for (zs, hl_, ln_) in s.zero_sites(): zl.setdefault("zlen_" + zs, {}).setdefault(str(hl_), set()).add(ln_)
                s.spec = {"master": s.d.kv.get("c.ms", "")}; prev = s
            except Exception:
                pass
    path = os.path.join(ck.scratch, "label-capture.json")
    cap = {k: sorted(v) for k, v in sites.items()}
    cap.update({k: {hl_: sorted(x) for hl_, x in v.items()} for k, v in zl.items()})
    json.dump(cap, open(path, "w"))
    return path


def run(ck):
    ck.trusted += ["Coq 8.16.1 kernel (vm_compute in the RFC 8448 / PRF / label Examples)",
                   "the Gallina transcription of RFC 5246/4346/7627/5288/7905/8446 in coq/Tls/TlsSpec.v is the reference; it is pinned to the RFC 8448 simple 1-RTT trace, the TLS 1.2 PRF vector and (through coq/Crypto) to the hash/HMAC/HKDF/AES-GCM/ChaCha20-Poly1305 KATs",
                   "extraction (ExtrOcamlBasic only) + ocaml/drv_c10.ml; harness/h_tlskeys.c + sess.h with link-time wraps (entropy, clock, transcript hashes, prf/prf2, psHkdf*, psSign/psVerify*)",
                   "tools/srcgen/gen_tls_labels.py + consts_tls.c: label strings, sizes and the cipher table of the models are regenerated from the source",
                   "message ENCODINGS are not specified: hello randoms, extension presence (extended_master_secret, pre_shared_key binders length), ServerKeyExchange params and ticket nonce are parsed from the wire by this script / small Gallina accessors"]
    ck.trusted += ["the peer-injection step re-runs a scenario in a second harness process and relies on the harness being deterministic (entropy / clock pinned); a divergence is reported as a failed obligation, not as a violation"]
    ck.assumptions += ["both peers are MatrixSSL: the premaster / (EC)DHE secret and PSK are taken as inputs (what the two peers agree on), the certificate signatures themselves are C11's subject",
                       "DTLS, TLS 1.0, SSLv3, the TLS <= 1.2 PSK / DHE / static-ECDH key exchanges and 0-RTT application data are not exercised (not in the default build's mutually supported modes, or outside sess.h)",
                       "TLS 1.3 PSK modes exercised: external and resumption PSK, selected / offered-but-declined (server without it, with another one, with a PSK whose length does not fit its suite, rotated ticket keys), with and without HelloRetryRequest, SHA-256 and SHA-384; psk_ke (PSK-only, no key_share): MatrixSSL servers always prefer psk_dhe_ke, so the harness's server is made to select psk_ke (it forgets that psk_dhe_ke was offered; nothing on the wire is altered) - both roles then run the psk_ke schedule live; the schedule stages are also called directly in the psk_ke state (ks13)",
                       "note (not a finding): a TLS 1.3 server that receives an EXPIRED ticket aborts with handshake_failure instead of falling back to a full handshake (RFC 8446 4.2.11: SHOULD); 'resumption PSK declined' is therefore exercised through rotated ticket keys"]
    ck.build_repo()
    h = ck.cc("h_tlskeys.c", wraps=WRAPS)
    # run-time capture of the label bytes per derivation site on a few live sessions: the translator's fallback for
    # sites it cannot resolve statically (the full tie of the table against ALL sessions is in process())
    cap = capture_labels(ck, h)
    ck.regen([("consts.sh",), ("gen_tls_labels.py", cap)])
    ck.coq_properties()
    drv = ck.ocaml_driver("drv_c10", extract_vo="Extract/Extract_C10.vo", gen_ml=["m_c10"])
    if drv is None:
        return
    table = build_suites(ck)
    process(ck, h, drv, table, scenarios(ck, table), payload_scenarios(ck, table))
    ck.notes.append("supporting information (gates nothing): " + openssl_smoke(ck))
    ck.rules.append("every mutually supported mode of the default build: TLS 1.1/1.2/1.3 x the build's cipher table (RSA, ECDHE-RSA, ECDHE-ECDSA; CBC-SHA1/SHA256/SHA384, GCM, ChaCha20) x "
                    "P-256/P-384/X25519 x extended master secret on/off x client auth x signature schemes x resumption by id / ticket / TLS 1.3 PSK (+HelloRetryRequest) x version fallback; "
                    "entropy pinned per seed; a case is one derived value / record / signed content compared between library (by destination role) and extracted spec")


def partial13_check(ck, drv, s, name, script, applist):
    """a TLS 1.3 session that did not complete: if both hellos were exchanged, the Early Secret each side fed into its
    Handshake Secret must still be the one of the PSK the ServerHello selects (all-zero PSK when it selects none)"""
    d = s.d
    for ctx, sha3, hl in (("tls13msgHashSha256", 0, 32), ("tls13msgHashSha384", 1, 48)):
        segs = d.stream("c." + ctx)
        if not segs: continue
        msgs = split_msgs(segs[-1]) if len(segs) == 1 else None
        if len(segs) == 2:
            m2 = split_msgs(segs[1]); ch1 = split_msgs(segs[0])
            msgs = (ch1 + m2[1:]) if m2 and ch1 and m2[0][0] == 254 else None
        if not msgs: continue
        shi = [i for i, m in enumerate(msgs) if m[0] == 2 and m[6:38] != HRR_RANDOM]
        if not shi: continue
        sh = msgs[shi[0]]; suite = int.from_bytes(sh[39 + sh[38]:41 + sh[38]], "big")
        if (SUITES.get(suite, ("", 0, 0, ""))[3] == "sha384") != bool(sha3): continue
        esrole = "tls13EarlySecretSha384" if hl == 48 else "tls13EarlySecret"
        offered = [e[5] for e in d.ev if e[0] == "X" and field(e[3]) == esrole and e[3][0] == "c" and e[5].strip("0")]
        out = parse_out(ck.run_lines(drv, ["es13 %d %s %s" % (sha3, offered[0] if offered else "-", joinm(msgs[:shi[0] + 1]))])[1][0])
        for e in d.ev:
            if e[0] == "X" and field(e[3]) == "tls13HandshakeSecret" and e[4] != out.get("hs_salt"):
                ck.spec_violation("derive:tls13/%04x/early-secret-for-handshake-secret" % suite,
                                  "%s: the %s salted its Handshake Secret with %s; for the PSK the ServerHello selects (%s) RFC 8446 7.1 gives Derive-Secret(Early Secret, \"derived\") = %s" % (
                                      name, "client" if e[3][0] == "c" else "server", e[4], "the offered one" if out.get("sel") == "1" else "none: all-zero PSK", out.get("hs_salt")),
                                  {"harness": "h_tlskeys", "script": script, "scenario": [name, script, applist], "observed": e[4], "expected_by_spec": out.get("hs_salt"),
                                   "what": "Early Secret in force for the Handshake Secret"})
        return


def process(ck, h, drv, table, scen, pay):
    t0 = time.time()
    rc, outs, err = ck.run_lines(h, [x[1] for x in scen] + [x[1] for x in pay], timeout=3000)
    ck.log("h_tlskeys: %d scenarios in %.1fs" % (len(scen) + len(pay), time.time() - t0))
    if len(outs) != len(scen) + len(pay):
        ck.violation("harness h_tlskeys produced %d lines for %d scenarios (crash?)" % (len(outs), len(scen) + len(pay)),
                     {"harness": "h_tlskeys", "stderr": err[-1500:], "last_script": (scen + pay)[min(len(outs), len(scen) + len(pay) - 1)][1]}, found_input=True)
        return
    # ---- analyse the sessions
    sessions = []           # (scenario index, Sess)
    for si, (name, script, applist) in enumerate(scen + pay):
        if applist is None: continue          # layout-only payload scenario
        segs = outs[si].split(" | ")
        dumps = [s for s in segs if s.startswith("dump:")]
        news = [s for s in segs if s.startswith("new:")]
        prev = None
        if any(n != "new:0" for n in news):
            suite = int(re.search(r"suite=([0-9a-f]{4})", script).group(1), 16) if "suite=" in script else 0
            if suite in table or suite in REQUIRED:
                ck.spec_violation("setup:%s" % name, "session creation failed for a mode of this build (%s)" % name, {"harness": "h_tlskeys", "script": script, "scenario": [name, script, applist], "observed": " ".join(news)})
            else: ck.count("suite-not-in-build")
            continue
        for k, ds in enumerate(dumps):
            d = Dump(ds)
            s = Sess(name + ("#%d" % k if len(dumps) > 1 else ""), d, prev, ck.tier == "thorough", script, applist[k] if k < len(applist) else (), k == len(dumps) - 1)
            s.scen = [name, script, applist]
            if not s.done:
                partial13_check(ck, drv, s, name, script, applist)
                suite = int(re.search(r"suite=([0-9a-f]{4})", script).group(1), 16) if "suite=" in script else 0
                if suite in table or suite in REQUIRED or "suite=" not in script:
                    ck.spec_violation("incomplete:%s" % s.name, "MatrixSSL<->MatrixSSL handshake did not complete in a mode both support (%s): client err %s, server err %s" % (
                        s.name, d.kv.get("c.err"), d.kv.get("s.err")), {"harness": "h_tlskeys", "script": script, "scenario": [name, script, applist], "observed": outs[si][:300]})
                else: ck.count("suite-not-in-build")
                break
            sessions.append((si, s)); prev = s
            s.spec = {}
    # the spec needs the predecessor's spec master secret for abbreviated TLS <= 1.2 handshakes: two rounds
    def evaluate(todo):
        lines = [s.line for s in todo]
        cost = [len(l) for l in lines]
        res = run_sharded(ck, drv, lines, cost)
        for s, r in zip(todo, res):
            s.raw = r; s.spec = parse_out(r)
    for _, s in sessions:
        if s.ver != 4 and s.prev is not None and s.line is None and not s.problems:
            pass
    first = [s for _, s in sessions if s.line and not s.problems and not (s.prev and s.ver != 4 and not getattr(s, "full", True))]
    t0 = time.time(); evaluate(first)
    # abbreviated handshakes were built with prev.spec empty -> rebuild now
    second = []
    for idx, (si, s) in enumerate(sessions):
        if s.prev is not None and s.ver != 4 and (s.line is None or not getattr(s, "full", True)):
            s2 = Sess(s.name, s.d, s.prev, s.thorough, s.script, s.apps, s.inject); s2.spec = {}; s2.scen = s.scen
            sessions[idx] = (si, s2)
            if s2.line and not s2.problems: second.append(s2)
    if second: evaluate(second)
    ck.log("extracted spec: %d handshakes recomputed in %.1fs" % (len(first) + len(second), time.time() - t0))

    import json
    try: gen = json.load(open(os.path.join(vlib.COQ, "Gen/TlsLabels.json")))
    except Exception: gen = {}
    # ---- all-zero inputs of the TLS 1.3 schedule: the length each side passed (run time) must be Hash.length
    zc, zi, zm = [], [], []
    seenz = {}
    for si, s in sessions:
        for (site, hl, ln) in s.zero_sites(): seenz.setdefault((site, hl, ln), s)
    for (site, hl, ln), s in sorted(seenz.items(), key=lambda x: x[0]):
        zc.append("length of the all-zero %s with a %d-byte hash (first seen in %s)" % (site, hl, s.name)); zi.append(str(ln)); zm.append(str(hl))
        tv = gen.get("zlen_" + site)
        tl = hl if tv == "h" else (tv.get(str(hl), hl) if isinstance(tv, dict) else tv)
        if tl != ln: ck.obligation("zero-input length table of the models = lengths passed at run time: %s" % site, False, detail="run time %d, table %s" % (ln, tv))
        if ln != hl:
            ck.spec_violation("derive:tls13/%04x/%s-length" % (s.suite, site.replace("_", "-")),
                              "%s: the all-zero %s is passed with %d bytes; RFC 8446 7.1 requires Hash.length = %d zero bytes" % (s.name, site, ln, hl),
                              {"harness": "h_tlskeys", "script": s.script, "scenario": s.scen, "observed": ln, "expected_by_spec": hl})
    ck.correspond("lengths of the all-zero inputs of the TLS 1.3 key schedule (run time) vs Hash.length", zc, zi, zm)

    # ---- compare: library values by role vs spec; records; signatures
    cases, impl, model = [], [], []
    prim_lines = {}
    extra_lines = []            # (session, what, driver line, expected-from-library candidates, mode)
    modes = {}
    for si, s in sessions:
        for p in s.problems:
            ck.spec_violation("structure:%s:%s" % (s.name, p[:40]), "%s: %s" % (s.name, p), {"harness": "h_tlskeys", "script": s.script, "scenario": s.scen, "observed": p})
        if not s.line or s.problems: continue
        if s.raw.startswith("EXC") or s.raw in ("NOOUTPUT", "UNKNOWN-SUITE", "BADCASE"):
            ck.obligation("extracted spec evaluates on %s" % s.name, False, detail=s.raw[-300:]); continue
        if "MODEL<>SPEC" in s.raw:      # the theorems say this cannot happen; the library is still compared with the SPEC below
            ck.obligation("extracted model = extracted spec on %s" % s.name, False, detail=s.raw[s.raw.index("MODEL<>SPEC"):][:300])
        sp = s.spec
        mode = "%s %04x%s%s%s%s%s" % ({2: "TLS1.1", 3: "TLS1.2", 4: "TLS1.3"}[s.ver], s.suite, "" if getattr(s, "full", True) else " abbreviated",
                                  (" psk-%s-%s" % ("res" if getattr(s, "isres", 0) else "ext", "selected" if getattr(s, "selected", False) else "declined")) if getattr(s, "psk", None) else "", " hrr" if getattr(s, "hrr", False) else "", " psk_ke" if (s.ver == 4 and s.spec.get("dhe") == "0") else "", " ems" if getattr(s, "ems", False) else "")
        modes[mode] = modes.get(mode, 0) + 1
        for item in s.cmp:
            what, lib, key = item[:3]; sig_override = item[3] if len(item) > 3 else None
            if key == "@reinit":
                hl = 48 if s.hash == "sha384" else 32
                extra_lines.append((s, what, "dg %s %s" % (s.hash, s.msgs[0].hex()), lib, "reinit:%d" % hl)); continue
            alts = [sp.get(k) for k in key.split("|")]
            exp = lib if lib in alts else alts[0]
            cases.append("%s :: %s" % (s.name, what)); impl.append(lib); model.append(exp if exp is not None else "MISSING")
            ck.count("value:" + re.sub(r"^[cs] ", "", what).split(" (")[0])
            if exp != lib:
                ck.spec_violation(sig_override or "value:%s:%s" % (mode, re.sub(r"^[cs] ", "", what)),
                                  "%s: %s is %s in the library, the RFC transcription derives %s from the same inputs" % (s.name, what, lib, exp),
                                  {"harness": "h_tlskeys", "script": s.script, "scenario": s.scen, "driver_line": s.line[:4000], "observed": lib, "expected_by_spec": exp, "what": what})
        for i, (what, expect, aux) in enumerate(s.recs_expect):
            got = sp.get("r%d" % i, "MISSING")
            ok = True; shown = expect
            if expect == "FIN":
                fin = "ok:1400000c" + sp.get("cfin" if aux == "c" else "sfin", "?"); ok = got == fin; shown = fin
            elif expect == "NST":
                ok = got.startswith("ok:04") and "/22/" in got
                if ok: s.spec.setdefault("psks", []).append(got.rsplit("/", 1)[1])
                shown = "a NewSessionTicket that opens under the spec's server application key"
            elif expect == "INJECT":
                ok = re.fullmatch(r"[0-9a-f]+", got) is not None; shown = got
                s.__dict__.setdefault("inj_recs", {"c": [], "s": []})[aux].append(got if ok else "")
                if ok: continue
            elif expect in ("APPCBC", "APP13"):
                ok = got.startswith("ok:") and (expect == "APPCBC" or got.endswith("/23"))
                if ok:
                    body = got[3:].split("/")[0]; acc = s.__dict__.setdefault("opened", {"c": b"", "s": b""})
                    piece = vlib.unhex(body); ok = len(piece) <= 16384
                    acc[aux] += piece
                shown = "a record that opens under the spec's keys with a fragment of at most 2^14 bytes"
            else: ok = got == expect
            cases.append("%s :: %s" % (s.name, what)); impl.append(shown if not ok else got); model.append(got)
            ck.count("record:" + re.sub(r"^[cs] ", "", what))
            if not ok:
                ck.spec_violation("record:%s:%s" % (mode, re.sub(r"^[cs] ", "", what)),
                                  "%s: %s - the wire has %s, the RFC transcription gives %s" % (s.name, what, shown[:120], got[:120]),
                                  {"harness": "h_tlskeys", "script": s.script, "scenario": s.scen, "driver_line": s.line[:4000], "observed": shown, "expected_by_spec": got, "what": what})
        for sd, acc in getattr(s, "opened", {}).items():
            cases.append("%s :: %s application bytes recovered by the spec = bytes sent" % (s.name, sd)); impl.append(hashlib.sha256(s.stream[sd]).hexdigest()); model.append(hashlib.sha256(acc).hexdigest())
            if acc != s.stream[sd]:
                ck.spec_violation("record:%s:application bytes" % mode, "%s: the %d application bytes %s sent are not what the spec recovers from the records (%d bytes)" % (s.name, len(s.stream[sd]), sd, len(acc)),
                                  {"harness": "h_tlskeys", "script": s.script, "scenario": s.scen, "observed": len(acc), "expected_by_spec": len(s.stream[sd])})
        # PSK chain: the PSK of a resumed TLS 1.3 session must be the one the spec derives from the predecessor's tickets
        if s.ver == 4 and getattr(s, "psk", None) and getattr(s, "isres", 0):
            cand = s.prev.spec.get("psks", []) if s.prev else []
            cases.append("%s :: resumption PSK = HKDF-Expand-Label(res_master, \"resumption\", ticket_nonce)" % s.name); impl.append(s.psk); model.append(s.psk if s.psk in cand else ",".join(cand) or "none")
            if s.psk not in cand:
                ck.spec_violation("derive:tls13/%04x/resumption-psk" % s.suite, "%s: the PSK both peers used (%s) is not derived by RFC 8446 4.6.1 from the previous session's resumption master secret and ticket nonces (%s)" % (s.name, s.psk, cand),
                                  {"harness": "h_tlskeys", "script": s.script, "scenario": s.scen, "observed": s.psk, "expected_by_spec": cand})
        # signed contents
        for chk in getattr(s, "sigchecks", []):
            if s.ver == 4:
                what, key, verified, signed, hn = chk
                content = sp.get(key, "")
                cases.append("%s :: %s (psVerify input)" % (s.name, what)); impl.append(content if content in verified else (verified[-1] if verified else "none")); model.append(content)
                if content not in verified:
                    ck.spec_violation("sig:%s:%s" % (mode, what), "%s: %s verified by the peer differs from RFC 8446 4.4.3 (64 x 0x20 + context + 0 + transcript hash)" % (s.name, what),
                                      {"harness": "h_tlskeys", "script": s.script, "scenario": s.scen, "observed": verified[:2], "expected_by_spec": content})
                if hn: extra_lines.append((s, what + " (psSign input = %s of the content)" % hn, "dg %s %s" % (hn, content), signed, "member"))
            else:
                what, line, signed, verified = chk
                extra_lines.append((s, what + " (psSign input)", line, signed, "member"))
                extra_lines.append((s, what + " (psVerifySig input)", line, verified, "member"))
        # every PRF / HKDF call the library made: model = library (and = spec, checked in the driver)
        for e in s.d.ev:
            if e[0] == "P": prim_lines.setdefault("prf %d %d %s %s %d" % (1 if e[2] != "0" else 0, 1 if e[2] == "384" else 0, e[4], e[5], len(e[6]) // 2), e[6])
            elif e[0] == "X": prim_lines.setdefault("hkx %d %s %s" % (1 if e[2] == "384" else 0, e[4], e[5]), e[6])
            elif e[0] == "L": prim_lines.setdefault("hel %d %s %s %s %d" % (1 if e[2] == "384" else 0, e[4], e[5], e[6], 0 if e[7] == "-" else len(e[7]) // 2), e[7])
    ck.correspond("handshakes: library values by role / wire records vs the extracted RFC spec on the same inputs", cases, impl, model)
    # ---- labels: the bytes the library passed at every derivation site (run time, all sessions) against
    #      (a) the table the models are built from (tools/srcgen/gen_tls_labels.py) and (b) the label the RFC gives that role
    import json
    rfc = parse_out(ck.run_lines(drv, ["labels"])[1][0])
    seen = {}
    for si, s in sessions:
        for site, labs in s.label_sites().items():
            for l in labs: seen.setdefault((site, l or "-"), s)
    lc, li, lm = [], [], []
    for (site, l), s in sorted(seen.items(), key=lambda x: x[0]):
        lc.append("label passed at derivation site %s (first seen in %s)" % (site, s.name)); li.append(l); lm.append(rfc.get(site, "NO-RFC-LABEL"))
        ck.count("label-site:" + site)
        if l not in gen.get(site, []):
            ck.obligation("label table of the models = labels passed at run time: site %s" % site, False,
                          detail="run time %s (%r), coq/Gen/TlsLabels.v has %s" % (l, vlib.unhex(l), gen.get(site)))
        if l != rfc.get(site):
            ck.spec_violation("derive:tls1%d/%04x/%s-label" % (s.ver - 1 if s.ver < 4 else 3, s.suite, site.replace("_", "-")),
                              "%s: the label passed where the %s value is derived is %r, the RFC's is %r" % (s.name, site, vlib.unhex(l), vlib.unhex(rfc.get(site, "-"))),
                              {"harness": "h_tlskeys", "script": s.script, "scenario": s.scen, "observed": l, "expected_by_spec": rfc.get(site), "what": "label at site " + site})
    missing = [k for k in gen if k not in ("hkdf_prefix", "ext_binder") and not any(site == k for (site, _) in seen)]
    if missing and len(sessions) > 20: ck.notes.append("derivation sites of the label table not exercised at run time: " + ", ".join(missing))
    ck.correspond("label bytes passed at each derivation site (run time) vs the RFC label of that role", lc, li, lm)
    # ---- the extracted spec as an independent PEER on the record layer: the records it sealed (plan_inject) are fed to the
    #      receiving side of a re-run of the same (deterministic) session; exactly the bytes must come out
    todo = [s for si, s in sessions if getattr(s, "inj", None) and getattr(s, "inj_recs", None) and not s.problems and s.script.endswith(" ; dump")
            and all(s.inj_recs[x] and all(s.inj_recs[x]) for x in "cs")]
    scripts_b = [s.script[:-len(" ; dump")] + " ; inj s %s ; inj c %s ; dump" % ("".join(s.inj_recs["c"]), "".join(s.inj_recs["s"])) for s in todo]
    t0 = time.time()
    outs_b = ck.run_lines(h, scripts_b, timeout=3000)[1] if scripts_b else []
    pc_, pi_, pm_ = [], [], []
    for s, sb, ob in zip(todo, scripts_b, outs_b + ["NOOUTPUT"] * (len(scripts_b) - len(outs_b))):
        segs = ob.split(" | ")
        dumps = [Dump(x) for x in segs if x.startswith("dump:")]
        if not dumps or dumps[-1].kv.get("c.cr") != s.d.kv.get("c.cr") or dumps[-1].kv.get("c.sr") != s.d.kv.get("c.sr"):
            ck.obligation("the harness replays %s deterministically (peer injection)" % s.name, False, detail=ob[-200:]); continue
        mode = "%s/%04x" % ({2: "tls11", 3: "tls12", 4: "tls13"}[s.ver], s.suite)
        for recv, sender in (("s", "c"), ("c", "s")):
            payload, idxs, kind = s.inj[sender]
            m = [re.match(r"inj:%s rc=(-?\d+) alerts=(\d+) err=(-?\d+) got=([0-9a-f-]+)" % recv, x) for x in segs]
            m = [x for x in m if x]
            got = m[-1].group(4) if m else "NO-INJ-OUTPUT"; rc_ = m[-1].group(1) if m else "?"; al = m[-1].group(2) if m else "?"
            pc_.append("%s :: records sealed by the spec (%s) delivered by the %s" % (s.name, kind, "server" if recv == "s" else "client"))
            pi_.append("rc=%s alerts=%s %s" % (rc_, al, got)); pm_.append("rc=0 alerts=0 %s" % payload.hex())
            ck.count("peer:" + kind)
            if pi_[-1] != pm_[-1]:
                ck.spec_violation("peer:%s/%s" % (mode, kind),
                                  "%s: records sealed by the RFC transcription acting as the %s (%s: a conforming sender's choices) were not delivered intact by the MatrixSSL %s: rc=%s alerts=%s, got %d of %d bytes" % (
                                      s.name, "client" if sender == "c" else "server", kind, "server" if recv == "s" else "client", rc_, al, 0 if got in ("-", "NO-INJ-OUTPUT") else len(got) // 2, len(payload)),
                                  {"harness": "h_tlskeys", "script": sb, "scenario": s.scen, "observed": pi_[-1][:300], "expected_by_spec": pm_[-1][:300], "what": "spec-sealed records (%s)" % kind})
    ck.log("peer injection: %d sessions re-run in %.1fs" % (len(scripts_b), time.time() - t0))
    ck.correspond("records sealed by the extracted spec as the peer (GCM explicit nonce != sequence number, CBC IV / padding, TLS 1.3 padding, fragmentation) are delivered exactly", pc_, pi_, pm_)

    # ---- direct calls of the key schedule stages in the psk_ke state (no key_share) vs the spec on the same hashes
    r = ck.rng("ks13"); kh, kd = [], []
    for suite, hl in ((0x1301, 32), (0x1302, 48), (0x1303, 32)):
        for pl in (hl, 32, 48, 20):
            for role in "cs":
                for _ in range(ck.budget(1, 4)):
                    psk = bytes(r.randrange(256) for _ in range(pl)); th = [bytes(r.randrange(256) for _ in range(hl)) for _ in range(3)]
                    kh.append("ks13 %04x %s %s ke %s %s %s" % (suite, role, psk.hex(), th[0].hex(), th[1].hex(), th[2].hex()))
                    kd.append("ks13 %04x %s - %s %s %s %s" % (suite, psk.hex(), th[0].hex(), th[0].hex(), th[1].hex(), th[2].hex()))
    ko = ck.run_lines(h, kh)[1]; km = ck.run_lines(drv, kd)[1]
    ki, kmm = [], []
    for a, b, line in zip(ko, km, kh):
        da, db = parse_out(a.replace("ks13:", "")), parse_out(b)
        keys = sorted(k for k in da if not k.startswith("rc"))
        rcs = " ".join("%s=%s" % (k, da[k]) for k in sorted(da) if k.startswith("rc"))
        ki.append(rcs + " " + " ".join("%s=%s" % (k, da[k]) for k in keys)); kmm.append("rc1=0 rc2=0 rc3=0 rc4=0 rc5=0 " + " ".join("%s=%s" % (k, db.get(k)) for k in keys))
        if ki[-1] != kmm[-1]:
            bad = [k for k in keys if da[k] != db.get(k)]
            ck.spec_violation("derive:tls13/%s/psk-ke-direct:%s" % (line.split()[1], bad[0] if bad else "rc"),
                              "direct call of the TLS 1.3 key schedule in the psk_ke state (suite %s, %d-byte PSK, %s): %s differ from RFC 8446 7.1 with (EC)DHE = Hash.length zeros" % (
                                  line.split()[1], len(line.split()[3]) // 2, "server" if line.split()[2] == "s" else "client", bad[:4] or rcs),
                              {"harness": "h_tlskeys", "script": line, "scenario": ["ks13-direct", line, None], "observed": ki[-1][:400], "expected_by_spec": kmm[-1][:400]})
    ck.correspond("tls13Derive{HandshakeTrafficSecrets,HandshakeKeys,AppTrafficSecrets,AppKeys,ResumptionMasterSecret} called directly in the psk_ke state vs the spec", kh, ki, kmm)

    # ---- primitives and signature digests
    pl = list(prim_lines)
    if ck.tier == "quick" and len(pl) > 900:
        r = ck.rng("prims"); pl = r.sample(pl, 900)
    xl = [x[2] for x in extra_lines]
    t0 = time.time()
    res = run_sharded(ck, drv, pl + xl, [len(l) for l in pl + xl])
    ck.log("extracted models on %d PRF/HKDF calls + %d digests in %.1fs" % (len(pl), len(xl), time.time() - t0))
    ck.correspond("every prf()/prf2()/psHkdfExtract()/psHkdfExpandLabel() call of the handshakes: library vs extracted model (= spec)",
                  pl, [prim_lines[l] for l in pl], res[:len(pl)])
    for l, r in zip(pl, res[:len(pl)]):
        if r != prim_lines[l]:
            ck.spec_violation("prim:%s" % l.split()[0], "a %s call of the library returned %s, the model/spec %s" % (l.split()[0], prim_lines[l][:80], r[:80]),
                              {"harness": "h_tlskeys", "driver_line": l, "observed": prim_lines[l], "expected_by_spec": r})
    xc, xi, xm = [], [], []
    for (s, what, line, libvals, mode), r in zip(extra_lines, res[len(pl):]):
        if mode.startswith("reinit"):
            hl = int(mode.split(":")[1]); exp = "fe0000%02x" % hl + r; ok = exp == libvals; shown = libvals
        else:
            exp = r; ok = r in libvals; shown = r if ok else (libvals[0] if libvals else "none")
        xc.append("%s :: %s" % (s.name, what)); xi.append(shown); xm.append(exp)
        ck.count("signed-content:" + what.split(" (")[0])
        if not ok:
            ck.spec_violation("sig:%s:%s" % (s.name.split("#")[0], what.split(" (")[0]), "%s: %s - the library used %s, the RFC gives %s" % (s.name, what, [v[:64] for v in libvals[:3]], exp[:64]),
                              {"harness": "h_tlskeys", "script": s.script, "scenario": s.scen, "driver_line": line[:3000], "observed": libvals[:3], "expected_by_spec": exp})
    ck.correspond("signed / verified contents (ServerKeyExchange, CertificateVerify) and HelloRetryRequest message_hash vs the spec", xc, xi, xm)

    # ---- payload sizes across record boundaries
    plines = []; pmeta = []
    for pi, (name, script, _apps) in enumerate(pay):
        out = outs[len(scen) + pi]
        is13 = "/tls13/" in name; pad = 256 if "/pad" in name else 0
        suite = name.split("/")[2] if "resumed" not in name else "c02f"
        for seg in out.split(" | "):
            m = re.match(r"app:([cs]) len=(\d+) rc=(-?\d+) recs=([\d:,]*) got=(\d+) ok=(\d) bad=(-?\d+)", seg)
            if not m: continue
            side, n, rc_, recs, got, ok, bad = m.group(1), int(m.group(2)), int(m.group(3)), m.group(4), int(m.group(5)), int(m.group(6)), int(m.group(7))
            lens = [int(x.split(":")[1]) for x in recs.split(",") if x]
            types = [int(x.split(":")[0]) for x in recs.split(",") if x]
            ck.count("payload:%d" % n)
            pmeta.append((name, script, side, n, rc_, lens, types, ok, bad, is13, pad, suite))
    # fragment sizes the RFC allows: each <= 2^14; the library's choice is read off the record lengths through the spec's length function
    for (name, script, side, n, rc_, lens, types, ok, bad, is13, pad, suite) in pmeta:
        frs = []; rem = n
        for L in lens:
            f = min(rem, 16384); frs.append(f); rem -= f
        if is13:
            for f in frs: plines.append("len13 %d %d" % (f, 0))
        else:
            for f in frs: plines.append("len12 %s %d" % (suite, f))
    pres = ck.run_lines(drv, plines)[1] if plines else []
    k = 0; pc, pi_, pm = [], [], []
    for (name, script, side, n, rc_, lens, types, ok, bad, is13, pad, suite) in pmeta:
        frs = []; rem = n
        for L in lens:
            f = min(rem, 16384); frs.append(f); rem -= f
        exp = [int(x) for x in pres[k:k + len(lens)]]; k += len(lens)
        if is13 and pad:   # padded to a multiple of the block size: content + type + zeros, the spec admits any amount of padding
            good = all(e <= L <= 16384 + 1 + 16 for L, e in zip(lens, exp))
        else:
            good = lens == exp
        if n == 0:
            # RFC 5246 6.2.1 / RFC 8446 5.1: zero-length application data fragments MAY be sent; refusing to send one is not a violation
            good = (rc_ < 0 and not lens) or (lens == exp and ok == 1) or (not lens and ok == 1)
        else:
            good = good and rem == 0 and ok == 1 and bad == 0 and all(t == 23 for t in types) and rc_ == 0
        pc.append("%s %s len=%d" % (name, side, n)); pi_.append("records=%s ok=%d" % (lens, ok)); pm.append("records=%s ok=1" % (lens if good else exp))
        if not good:
            ck.spec_violation("payload:%s:%d" % (name, n), "%s: %d application bytes from %s: records %s (spec layout %s), received intact=%d, rc=%d bad=%d" % (name, n, side, lens, exp, ok, rc_, bad),
                              {"harness": "h_tlskeys", "script": script, "scenario": [name, script, None], "observed": lens, "expected_by_spec": exp})
    ck.correspond("application payloads 0/1/16383/16384/16385/40000 bytes: record count and protected lengths vs the spec layout, reassembled plaintext intact", pc, pi_, pm)

    ck.cov["modes"] = modes
    ck.notes.append("modes recomputed by the spec (mode: sessions): " + "; ".join("%s: %d" % kv for kv in sorted(modes.items())))


def replay(ck, path):
    """re-run the recorded scenario through the whole comparison (library build, harness, extracted spec)"""
    import json
    r = json.load(open(path))["replay"]
    sc = r.get("scenario")
    if not sc:
        print("replay: no scenario recorded in %s (stage %s)" % (path, r.get("stage"))); return
    ck.build_repo()
    h = ck.cc("h_tlskeys.c", wraps=WRAPS)
    ck.regen([("consts.sh",), ("gen_tls_labels.py", capture_labels(ck, h))])
    drv = ck.ocaml_driver("drv_c10", extract_vo="Extract/Extract_C10.vo", gen_ml=["m_c10"])
    if drv is None: return
    name, script, applist = sc
    print("replaying scenario %s: %s" % (name, script[:300]))
    print("recorded: %s" % str(r.get("what") or r.get("observed"))[:300])
    if applist is None: process(ck, h, drv, build_suites(ck), [], [(name, script, None)])
    else: process(ck, h, drv, build_suites(ck), [(name, script, [[tuple(a) for a in al] for al in applist])], [])
