"""C07 helper: TLS hello parsing / rebuilding for the man-in-the-middle rewrites and the live-session oracles.
(Private to props/C07.py; no check of its own.)"""
import struct

V = {"ssl3": 1, "tls10": 2, "tls11": 4, "dtls10": 8, "tls12": 16, "dtls12": 32, "d22": 64, "d23": 128, "d24": 256,
     "d26": 512, "d28": 1024, "tls13": 2048}
ENC = {0x0300: 1, 0x0301: 2, 0x0302: 4, 0x0303: 16, 0x0304: 2048, 0x7f16: 64, 0x7f17: 128, 0x7f18: 256, 0x7f1a: 512,
       0x7f1c: 1024, 0xfeff: 8, 0xfefd: 32}
DEC = {v: k for k, v in ENC.items()}
MINOR = {2: 4, 3: 16, 4: 2048}           # `new cv=` digits -> version bit
SENT12 = bytes.fromhex("444f574e47524401")
SENT11 = bytes.fromhex("444f574e47524400")
EXT_EMS, EXT_SV, EXT_KS, EXT_GROUPS, EXT_SIGALGS, EXT_RENEG = 23, 43, 51, 10, 13, 0xff01


class Hello:
    """ClientHello or ServerHello taken from the first handshake message of a plaintext record."""
    def __init__(self, rec):
        self.rec_type, self.rec_ver = rec[0], rec[1:3]
        body = rec[5:5 + struct.unpack(">H", rec[3:5])[0]]
        self.hs_type = body[0]
        hl = int.from_bytes(body[1:4], "big")
        m = body[4:4 + hl]
        self.rest = body[4 + hl:]              # further handshake messages in the same record
        self.tail = rec[5 + len(body):]
        p = 0
        self.version = m[p:p + 2]; p += 2
        self.random = m[p:p + 32]; p += 32
        sl = m[p]; p += 1
        self.session_id = m[p:p + sl]; p += sl
        if self.hs_type == 1:
            cl = struct.unpack(">H", m[p:p + 2])[0]; p += 2
            self.suites = [struct.unpack(">H", m[p + i:p + i + 2])[0] for i in range(0, cl, 2)]; p += cl
            ml = m[p]; p += 1
            self.compression = m[p:p + ml]; p += ml
        else:
            self.suite = struct.unpack(">H", m[p:p + 2])[0]; p += 2
            self.compression = m[p:p + 1]; p += 1
        self.exts = None                       # None: no extension block at all
        if p < len(m):
            el = struct.unpack(">H", m[p:p + 2])[0]; p += 2
            end = p + el
            self.exts = []
            while p + 4 <= end:
                t, l = struct.unpack(">HH", m[p:p + 4]); p += 4
                self.exts.append((t, m[p:p + l])); p += l

    def ext(self, t):
        for (x, d) in (self.exts or []):
            if x == t:
                return d
        return None

    def set_ext(self, t, d):
        self.exts = [(x, (d if x == t else y)) for (x, y) in (self.exts or [])]

    def del_ext(self, t):
        self.exts = [(x, y) for (x, y) in (self.exts or []) if x != t]

    def body(self):
        m = bytes(self.version) + bytes(self.random) + bytes([len(self.session_id)]) + bytes(self.session_id)
        if self.hs_type == 1:
            m += struct.pack(">H", 2 * len(self.suites)) + b"".join(struct.pack(">H", s) for s in self.suites)
            m += bytes([len(self.compression)]) + bytes(self.compression)
        else:
            m += struct.pack(">H", self.suite) + bytes(self.compression)
        if self.exts is not None:
            e = b"".join(struct.pack(">HH", t, len(d)) + d for (t, d) in self.exts)
            m += struct.pack(">H", len(e)) + e
        return m

    def record(self):
        m = self.body()
        hs = bytes([self.hs_type]) + len(m).to_bytes(3, "big") + m + self.rest
        return bytes([self.rec_type]) + bytes(self.rec_ver) + struct.pack(">H", len(hs)) + hs + self.tail

    # decoded views
    def sv_list(self):
        d = self.ext(EXT_SV)
        if d is None:
            return None
        if self.hs_type == 1:
            n = (min(d[0], len(d) - 1) // 2) * 2 if d else 0           # tolerate a tampered length byte
            return [struct.unpack(">H", d[1 + i:3 + i])[0] for i in range(0, n, 2)]
        return [struct.unpack(">H", d[:2])[0]] if len(d) >= 2 else []

    @staticmethod
    def _u16list(d):
        if d is None: return None
        if len(d) < 2: return []
        n = (min(struct.unpack(">H", d[:2])[0], len(d) - 2) // 2) * 2          # tolerate a tampered length
        return [struct.unpack(">H", d[2 + i:4 + i])[0] for i in range(0, n, 2)]

    def groups(self):
        return self._u16list(self.ext(EXT_GROUPS))

    def sigalgs(self):
        return self._u16list(self.ext(EXT_SIGALGS))

    def key_share_groups(self):
        d = self.ext(EXT_KS)
        if d is None:
            return None
        if self.hs_type != 1:
            return [struct.unpack(">H", d[:2])[0]]
        out, p, end = [], 2, 2 + struct.unpack(">H", d[:2])[0]
        while p + 4 <= end:
            g, l = struct.unpack(">HH", d[p:p + 4]); out.append(g); p += 4 + l
        return out


def fields(h):
    """names of the single fields a man in the middle can rewrite"""
    f = ["version", "random", "session_id", "compression"]
    f += ["suites"] if h.hs_type == 1 else ["suite"]
    f += ["ext:%d" % t for (t, _) in (h.exts or [])]
    return f
