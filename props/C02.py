"""C02 - delivered stream is an exact prefix of what the peer sent, under any attack on the ciphertext.

Theorems: coq/Properties/Properties_C02.v (model coq/Rec/RecModel.v = byte-level open_*/seal_* of the CBC+HMAC,
TLS 1.2 AEAD and TLS 1.3 record protection, WITH pending-fixes/C02-*.patch; spec Rec/RecSpec.v).
Tie: harness/h_rec.c establishes live sessions per family x version, captures the receiver's read key / MAC key /
IV / sequence number and the genuine application records; the extracted model (ocaml/drv_c02.ml, primitives =
the Gallina AES/HMAC/GCM/ChaCha20-Poly1305 of coq/Crypto) runs on the SAME state and the SAME edited bytes:
events (data delivered, fatal alert, partial) and the final sequence number must agree.
Search oracle (Impl vs Spec, independent of the model): the concatenation of delivered data is a prefix of what
the peer submitted; a modified record yields a fatal alert, no data from it or after it, and a dead session;
genuine in-order records are delivered; records built by a key holder are judged by the RFC rules re-implemented
here (hashlib HMAC, padding rules); a crash of the receiver is a violation.
"""
import hashlib, hmac as pyhmac, json, os, re, threading, time
import vlib

WRAPS = ["psGetBrokenDownGMTime", "psGetEntropy", "psGetPrngLocked", "psGetTime", "csAesGcmEncryptTls13", "csChacha20Poly1305IetfEncryptTls13"]

# name -> (session options, tier)
CONFIGS = [
    ("tls12-aes128-cbc-sha1", "cv=3 sv=3 suite=002f", "quick"),
    ("tls12-aes128-cbc-sha256", "cv=3 sv=3 suite=003c", "quick"),
    ("tls12-ecdhe-aes128-cbc-sha256", "cv=3 sv=3 suite=c027", "quick"),
    ("tls11-aes128-cbc-sha1", "cv=2 sv=2 suite=002f", "quick"),
    ("tls12-aes128-gcm", "cv=3 sv=3 suite=009c", "quick"),
    ("tls12-ecdhe-aes128-gcm", "cv=3 sv=3 suite=c02f", "quick"),
    ("tls13-aes128-gcm", "cv=4 sv=4 suite=1301", "quick"),
    ("tls13-chacha20", "cv=4 sv=4 suite=1303", "quick"),
    ("tls12-aes256-cbc-sha1", "cv=3 sv=3 suite=0035", "thorough"),
    ("tls12-aes256-cbc-sha256", "cv=3 sv=3 suite=003d", "thorough"),
    ("tls12-ecdhe-aes256-cbc-sha384", "cv=3 sv=3 suite=c028", "thorough"),
    ("tls11-aes256-cbc-sha1", "cv=2 sv=2 suite=0035", "thorough"),
    ("tls12-ecdhe-aes256-gcm", "cv=3 sv=3 suite=c030", "thorough"),
    ("tls13-aes256-gcm", "cv=4 sv=4 suite=1302", "quick"),
]

PAD_BLOCKS = [64, 200, 256, 512, 4096]
TLS13_PADS = [0, 1, 15, 16, 17, 255, 256, 257, 300, 511, 512, 513, 1000, 4095]
HASH = {20: hashlib.sha1, 32: hashlib.sha256, 48: hashlib.sha384}
FATAL_BAD_MAC, FATAL_DECRYPT, FATAL_OVERFLOW, FATAL_UNEXPECTED, FATAL_ILLEGAL = 20, 51, 22, 10, 47


def pat(n, seed):
    return bytes((seed + 13 * i) & 255 for i in range(n))


class State:
    """<fam> <msz> <key> <mackey> <iv> <seq> <maj> <min> <expl> <maxfrag>"""
    def __init__(self, s):
        t = s.split()
        self.text = s
        self.fam, self.msz = t[0], int(t[1])
        self.key, self.mk, self.iv = vlib.unhex(t[2]), vlib.unhex(t[3]), vlib.unhex(t[4])
        self.seq, self.maj, self.min, self.expl, self.maxfrag = int(t[5], 16), int(t[6]), int(t[7]), int(t[8]), int(t[9])

    def with_(self, **kw):
        t = self.text.split()
        if "seq" in kw: t[5] = "%x" % kw["seq"]
        if "expl" in kw: t[8] = "%d" % kw["expl"]
        if "iv" in kw: t[4] = vlib.hexs(kw["iv"])
        return State(" ".join(t))


class Sess:
    def __init__(self, name, opts, seed, msgs, pad=None):
        self.name, self.opts, self.seed, self.msgs, self.pad = name, opts, seed, msgs, pad
        self.key = "%s seed=%d %smsgs=%s" % (opts, seed, ("pad=c:%d,s:%d " % (pad["c"], pad["s"])) if pad else "", ",".join("%s:%s" % (s, m.hex() if len(m) <= 600 else "@%d:%02x" % (len(m), m[0])) for s, m in msgs))
        self.ok = False

    def load(self, capline):
        f = [x.strip() for x in capline.split("|")]
        if not f[0].startswith("cap ok"):
            return False
        d = dict(x.split("=", 1) for x in f[1:])
        self.rd = {"s": State(d["rs"]), "c": State(d["rc"])}
        self.wr = {"s": State(d["ws"]), "c": State(d["wc"])}
        self.recs = {"s": [vlib.unhex(x) for x in d["c2s"].split(",")] if d["c2s"] != "-" else [],     # records TOWARDS the server
                     "c": [vlib.unhex(x) for x in d["s2c"].split(",")] if d["s2c"] != "-" else []}
        self.pts = {"s": [m for s, m in self.msgs if s == "c"], "c": [m for s, m in self.msgs if s == "s"]}
        self.fam = self.rd["s"].fam
        self.ok = True
        return True

    def run_line(self, to, wire, st=None):
        return "run %s to=%s | %s | %s" % (self.key, to, (st or self.rd[to]).text, vlib.hexs(wire))


def hdr(t, maj, mi, n):
    return bytes([t & 255, maj & 255, mi & 255, (n >> 8) & 255, n & 255])


def flip(b, bit):
    x = bytearray(b); x[bit // 8] ^= 1 << (bit % 8); return bytes(x)


# ------------------------------------------------------------------ attacker edits (no keys)
def attacker_edits(ck, se, to, thorough):
    """yield (label, wire): byte strings an on-path attacker can build from the genuine records towards `to` (and the reflected ones)"""
    G = se.recs[to]
    other = "c" if to == "s" else "s"
    r0, r1, r2 = G[0], G[1], G[2]
    out = [("identity", b"".join(G))]
    # every bit of the first record (header included); the next genuine record follows, it must not be delivered
    for b in range(8 * len(r0)):
        out.append(("bitflip:first-record", flip(r0, b) + r1))
    # bits of the second record after a genuine first one (every bit in thorough, every 5th in quick)
    for b in range(0, 8 * len(r1), 1 if thorough else 5):
        out.append(("bitflip:second-record", r0 + flip(r1, b) + r2))
    if thorough:
        for b in range(8 * len(r2)):
            out.append(("bitflip:third-record", r0 + r1 + flip(r2, b)))
        for r in G[3:]:
            for b in range(8 * len(r)):
                out.append(("bitflip:long-record", flip(r, b) + r0))
    # truncation at every length, alone and with the next record spliced on
    for k in range(len(r0)):
        out.append(("truncate", r0[:k]))
        if k >= 1:
            out.append(("truncate+next", r0[:k] + r1))
    # delete bytes inside, keeping the header length / fixing it
    for k in (5, 6, len(r0) // 2, len(r0) - 1):
        cut = r0[:k] + r0[k + 1:]
        out.append(("delete-byte", cut + r1))
        out.append(("delete-byte:len-fixed", hdr(cut[0], cut[1], cut[2], len(cut) - 5) + cut[5:] + r1))
    # extension
    for d in (1, 15, 16, 32):
        ext = r0 + bytes(d)
        out.append(("extend:trailing-bytes", ext))
        out.append(("extend:len-fixed", hdr(r0[0], r0[1], r0[2], len(ext) - 5) + ext[5:] + r1))
        out.append(("extend:prefix-bytes", hdr(r0[0], r0[1], r0[2], len(ext) - 5) + bytes(d) + r0[5:] + r1))
    # splice of two records
    h = (min(len(r0), len(r1)) - 5) // 2
    out.append(("splice:head0-body1", r0[:5] + r1[5:] + r2))
    out.append(("splice:hdr-len-fixed", hdr(r0[0], r0[1], r0[2], len(r1) - 5) + r1[5:] + r2))
    out.append(("splice:half-half", hdr(r0[0], r0[1], r0[2], len(r0) - 5) + r0[5:5 + h] + r1[5 + h:5 + h + (len(r0) - 5 - h)]))
    out.append(("splice:concatenated-bodies", hdr(r0[0], r0[1], r0[2], len(r0) + len(r1) - 10) + r0[5:] + r1[5:]))
    if se.fam == "cbc":      # block-wise cut and paste
        b0, b1 = r0[5:], r1[5:]
        out.append(("splice:cbc-blocks", r0[:5] + b0[:16] + b1[16:32] + b0[32:] + r1))
        out.append(("splice:cbc-swap-blocks", r0[:5] + b0[16:32] + b0[:16] + b0[32:] + r1))
        out.append(("splice:cbc-drop-last-block", hdr(r0[0], r0[1], r0[2], len(b0) - 16) + b0[:-16] + r1))
        out.append(("splice:cbc-append-block", hdr(r0[0], r0[1], r0[2], len(b0) + 16) + b0 + b0[-16:] + r1))
    # reorder, drop, replay
    out.append(("swap", r1 + r0 + r2))
    out.append(("drop-first", r1 + r2))
    out.append(("drop-middle", r0 + r2))
    out.append(("replay:immediately", r0 + r0 + r1))
    out.append(("replay:later", r0 + r1 + r0))
    out.append(("replay:last-twice", r0 + r1 + r2 + r2))
    # cross-direction reflection: records this side itself produced
    for i, r in enumerate(se.recs[other][:2]):
        out.append(("reflect", r + r0))
        out.append(("reflect:after-genuine", r0 + r))
    # header rewrites
    for t in (0, 20, 21, 22, 24, 25, 128, 255):
        out.append(("header:type", bytes([t]) + r0[1:] + r1))
    for (ma, mi) in ((3, 0), (3, 1), (3, 2), (3, 3), (3, 4), (2, 0), (254, 253), (254, 255), (0, 0), (255, 255)):
        if (ma, mi) != (r0[1], r0[2]):
            out.append(("header:version", bytes([r0[0], ma, mi]) + r0[3:] + r1))
    L = len(r0) - 5
    for n in (0, 1, L - 1, L + 1, L + 16, 16384, 16385, 18432, 18433, 16640, 16641, 65535):
        if n != L:
            out.append(("header:length", hdr(r0[0], r0[1], r0[2], n) + r0[5:] + r1))
            out.append(("header:length+padding", hdr(r0[0], r0[1], r0[2], n) + r0[5:] + r1 + bytes(max(0, n - L))))
    # unprotected records pushed into the protected stream
    out.append(("inject:plaintext-appdata", hdr(23, r0[1], r0[2], 5) + b"hello" + r0))
    out.append(("inject:plaintext-appdata-after", r0 + hdr(23, r0[1], r0[2], 5) + b"hello" + r1))
    out.append(("inject:ccs", hdr(20, r0[1], r0[2], 1) + b"\x01" + r0 + r1))
    out.append(("inject:ccs-bad", hdr(20, r0[1], r0[2], 1) + b"\x02" + r0 + r1))
    out.append(("inject:plain-alert-close", hdr(21, r0[1], r0[2], 2) + b"\x01\x00" + r0))
    out.append(("inject:plain-alert-fatal", hdr(21, r0[1], r0[2], 2) + b"\x02\x28" + r0))
    out.append(("inject:garbage-record", hdr(23, r0[1], r0[2], 64) + pat(64, 0x55) + r0))
    r = ck.rng("rand-" + se.name + to)
    for _ in range(ck.budget(40, 400)):           # random multi-byte corruption of the stream
        w = bytearray(b"".join(G))
        for _ in range(r.randrange(1, 4)):
            w[r.randrange(len(w))] ^= r.randrange(1, 256)
        out.append(("random-corruption", bytes(w)))
    return out


def padded_edits(ck, se, to, thorough):
    """sessions with block padding: everything in order, then edits aimed at the padding region"""
    G = se.recs[to]
    out = [("padded:identity", b"".join(G)), ("padded:first-two", G[0] + G[1]), ("padded:swap", G[1] + G[0] + G[2]), ("padded:replay", G[0] + G[0] + G[1])]
    r0 = G[0]
    for b in range(0, 8 * len(r0), 1 if (thorough and len(r0) <= 300) else max(1, (8 * len(r0)) // (160 if len(r0) <= 600 else 24))):
        out.append(("padded:bitflip", flip(r0, b) + G[1]))
    for cut in (1, 16, len(r0) // 2):          # shorten the padded record (drop padding bytes), length fixed up
        body = r0[5:-cut]
        out.append(("padded:shortened", hdr(23, 3, 3, len(body)) + body + G[1]))
    out.append(("padded:extended", hdr(23, 3, 3, len(r0) - 5 + 16) + r0[5:] + bytes(16) + G[1]))
    return out


# ------------------------------------------------------------------ records a key holder can build (exercise pad / MAC / length logic)
class Forger:
    """collects `enc` requests for the harness, then assembles wires"""
    def __init__(self):
        self.req, self.idx = [], {}

    def want(self, line):
        if line not in self.idx:
            self.idx[line] = len(self.req); self.req.append(line)
        return line

    def resolve(self, ck, h):
        rc, out, err = ck.run_lines(h, self.req) if self.req else (0, [], "")
        self.ans = {l: (vlib.unhex(out[i]) if i < len(out) and all(c in "0123456789abcdef-" for c in out[i]) else None) for l, i in self.idx.items()}

    def get(self, line):
        return self.ans.get(line)


def mac_input(st, typ, data, seq=None, ver=None):
    ma, mi = ver or (st.maj, st.min)
    return (st.seq if seq is None else seq).to_bytes(8, "big") + bytes([typ, ma, mi]) + len(data).to_bytes(2, "big") + data


def cbc_plain(st, typ, data, padlen=None, pad=None, mac=None, seq=None):
    """IV-block || data || MAC || padding; padlen = value of the length byte (None: minimal)"""
    m = pyhmac.new(st.mk, mac_input(st, typ, data, seq), HASH[st.msz]).digest() if mac is None else mac
    body = (b"\xA5" * 16 if st.expl else b"") + data + m
    if pad is None:
        if padlen is None:
            padlen = 15 - (len(body) % 16)
        pad = bytes([padlen]) * (padlen + 1)
    return body + pad


def forged_cases(ck, se, to, fg, thorough):
    """returns list of (label, builder) ; builder(fg) -> (wire, expect) with expect = ('deliver', data) | ('fatal',) | ('any',)"""
    st = se.rd[to]            # the sender's write half equals the receiver's read half
    cases = []
    ver = (st.maj, st.min)
    if st.fam == "cbc":
        def enc(plain):
            return fg.want("enc aescbc %s %s %s" % (vlib.hexs(st.key), vlib.hexs(b"\x00" * 16 if st.expl else st.iv), vlib.hexs(plain)))
        def add(label, plain, expect, typ=23):
            if len(plain) % 16 or not plain:
                return
            l = enc(plain)
            cases.append((label, lambda l=l, typ=typ: (None if fg.get(l) is None else hdr(typ, ver[0], ver[1], len(fg.get(l))) + fg.get(l)), expect))
        data = b"hello"
        ivl = 16 if st.expl else 0
        add("forged:cbc-genuine-shape", cbc_plain(st, 23, data), ("deliver", data))
        add("forged:cbc-empty-plaintext", cbc_plain(st, 23, b""), ("deliver", b""))
        # padding length byte 0..255: the record is made as long as that padding needs, all bytes correct -> must be accepted
        for p in range(256):
            if (ivl + len(data) + st.msz + p + 1) % 16 == 0:
                add("forged:cbc-long-padding-valid", cbc_plain(st, 23, data, padlen=p), ("deliver", data))
        # ... and at every block boundary: for every p two data lengths that make  IV + data + MAC + p + 1  a block multiple
        for p in range(256):
            d0 = (-(ivl + st.msz + p + 1)) % 16
            for dl in ((d0, d0 + 16) if thorough else ((d0 + 16,) if (p % 2 or d0 == 0) else (d0,))):
                if dl == 0: continue
                dd = pat(dl, p)
                add("forged:cbc-every-padlen:%d" % p, cbc_plain(st, 23, dd, padlen=p), ("deliver", dd))
        # padding length byte sweep on a record of FIXED length (valid MAC where a MAC position exists)
        base = cbc_plain(st, 23, data)
        for p in range(256):
            room = len(base) - ivl - st.msz - 1            # largest pad length byte this record can hold
            if p <= room:
                d2 = pat(room - p, 0x41)
                pl = cbc_plain(st, 23, d2, padlen=p)
                add("forged:cbc-padlen-sweep:consistent", pl, ("deliver", d2))
                if p >= 1:
                    for pos in sorted({0, p // 2, p - 1}):       # one wrong padding byte, MAC valid for the implied split
                        bad = bytearray(pl); bad[len(pl) - 1 - p + pos] ^= 0x01 if pos else 0x80
                        add("forged:cbc-wrong-pad-byte:valid-mac", bytes(bad), ("fatal",))
            else:
                # length byte larger than the record allows; a VALID MAC for "everything before the last macSize bytes" sits at the
                # fake MAC position only if its own last byte happens to be p - tried below separately
                bad = bytearray(base); bad[-1] = p
                add("forged:cbc-padlen-too-large", bytes(bad), ("fatal",))
        # fake MAC position: data' = all bytes before the last macSize bytes, MAC over data' placed last, its final byte acts as padLen
        for k in range(64):
            d3 = pat(16 * 2 - st.msz % 16 if st.msz % 16 else 16, k)[: (16 - st.msz % 16) % 16 + 16]
            m = pyhmac.new(st.mk, mac_input(st, 23, d3), HASH[st.msz]).digest()
            pl = (b"\xA5" * 16 if st.expl else b"") + d3 + m
            if len(pl) % 16 == 0 and len(pl) < st.msz + m[-1] + 1 + ivl:
                add("forged:cbc-valid-mac-at-fake-position", pl, ("fatal",))
                break
        # every bit of the MAC wrong, padding right
        good = cbc_plain(st, 23, data)
        mpos = ivl + len(data)
        for b in range(8 * st.msz):
            x = bytearray(good); x[mpos + b // 8] ^= 1 << (b % 8)
            add("forged:cbc-mac-bit-flipped", bytes(x), ("fatal",))
        # MAC computed over other header fields
        add("forged:cbc-mac-wrong-seq", cbc_plain(st, 23, data, seq=st.seq + 1), ("fatal",))
        add("forged:cbc-mac-seq-minus-1", cbc_plain(st, 23, data, seq=(st.seq - 1) % 2 ** 64), ("fatal",))
        add("forged:cbc-mac-wrong-type", cbc_plain(st, 23, data, mac=pyhmac.new(st.mk, mac_input(st, 22, data), HASH[st.msz]).digest()), ("fatal",))
        add("forged:cbc-mac-wrong-version", cbc_plain(st, 23, data, mac=pyhmac.new(st.mk, mac_input(st, 23, data, ver=(3, 1)), HASH[st.msz]).digest()), ("fatal",))
        add("forged:cbc-mac-wrong-length", cbc_plain(st, 23, data, mac=pyhmac.new(st.mk, mac_input(st, 23, data + b"\x00")[:-1], HASH[st.msz]).digest()), ("fatal",))
        add("forged:cbc-mac-truncated-data", cbc_plain(st, 23, data, mac=pyhmac.new(st.mk, mac_input(st, 23, data[:-1]), HASH[st.msz]).digest()), ("fatal",))
        # size limits
        for n in ((16384, 16385) if thorough else ()):
            d4 = pat(n, 7)
            add("forged:cbc-size-%d" % n, cbc_plain(st, 23, d4), ("deliver", d4) if n <= 16384 else ("fatal",))
    else:
        aead = "gcm" if "gcm" in st.fam else "chacha"
        v13 = st.fam.endswith("13")
        def nonce(seq, explicit=None):
            if st.fam == "gcm12":
                return st.iv + (explicit if explicit is not None else seq.to_bytes(8, "big"))
            return bytes(a ^ b for a, b in zip(st.iv, b"\x00" * 4 + seq.to_bytes(8, "big")))
        def add(label, typ, inner, expect, seq=None, aad=None, outer=None, explicit=None, hver=None):
            seq = st.seq if seq is None else seq
            if v13:
                o = 23 if outer is None else outer
                hv = hver or (3, 3)
                a = aad if aad is not None else hdr(o, hv[0], hv[1], len(inner) + 16)
            else:
                o = typ if outer is None else outer
                hv = hver or ver
                a = aad if aad is not None else seq.to_bytes(8, "big") + bytes([typ, ver[0], ver[1]]) + len(inner).to_bytes(2, "big")
            ex = (explicit if explicit is not None else seq.to_bytes(8, "big")) if st.fam == "gcm12" else b""
            l = fg.want("enc %s %s %s %s %s" % (aead, vlib.hexs(st.key), vlib.hexs(nonce(seq, explicit)), vlib.hexs(a), vlib.hexs(inner)))
            cases.append((label, lambda l=l, o=o, hv=hv, ex=ex: (None if fg.get(l) is None else hdr(o, hv[0], hv[1], len(ex) + len(fg.get(l))) + ex + fg.get(l)), expect))
        data = b"hello"
        if not v13:
            add("forged:aead-genuine-shape", 23, data, ("deliver", data))
            add("forged:aead-empty-plaintext", 23, b"", ("any",))
            add("forged:aead-one-byte", 23, b"x", ("deliver", b"x"))
            add("forged:aead-aad-wrong-seq", 23, data, ("fatal",), seq=st.seq + 1)
            add("forged:aead-aad-seq-minus-1", 23, data, ("fatal",), seq=(st.seq - 1) % 2 ** 64)
            if st.fam == "gcm12":
                add("forged:gcm-other-explicit-nonce", 23, data, ("deliver", data), explicit=b"\xde\xad\xbe\xef\x00\x00\x00\x01")
            add("forged:aead-aad-wrong-type", 23, data, ("fatal",), aad=st.seq.to_bytes(8, "big") + bytes([22, ver[0], ver[1], 0, 5]))
            add("forged:aead-aad-wrong-version", 23, data, ("fatal",), aad=st.seq.to_bytes(8, "big") + bytes([23, 3, 1, 0, 5]))
            add("forged:aead-aad-wrong-length", 23, data, ("fatal",), aad=st.seq.to_bytes(8, "big") + bytes([23, ver[0], ver[1], 0, 6]))
            add("forged:aead-aad-without-seq", 23, data, ("fatal",), aad=bytes([23, ver[0], ver[1], 0, 5]))
            for n in ((16384, 16385) if thorough else ()):
                d4 = pat(n, 9)
                add("forged:aead-size-%d" % n, 23, d4, ("deliver", d4) if n <= 16384 else ("fatal",))
        else:
            add("forged:tls13-genuine-shape", 23, data + b"\x17", ("deliver", data))
            for z in (1, 2, 15, 100, 255):
                add("forged:tls13-zero-padding", 23, data + b"\x17" + bytes(z), ("deliver", data))
            # RFC 8446 5.4 record padding: every length class of the zero run (8-bit / 16-bit wrap points, block multiples), for
            # application data, alerts and handshake content; results must not depend on the amount of padding (judged in run())
            long = pat(300, 0x21)
            for z in TLS13_PADS:
                add("forged:tls13-pad:app-short:%d" % z, 23, data + b"\x17" + bytes(z), ("deliver", data))
                add("forged:tls13-pad:app-long:%d" % z, 23, long + b"\x17" + bytes(z), ("deliver", long))
                add("forged:tls13-pad:app-zeros-inside:%d" % z, 23, b"\x00a\x00\x00" + b"\x17" + bytes(z), ("deliver", b"\x00a\x00\x00"))
                add("forged:tls13-pad:alert-close:%d" % z, 23, b"\x01\x00" + b"\x15" + bytes(z), ("meta",))
                add("forged:tls13-pad:alert-fatal:%d" % z, 23, b"\x02\x28" + b"\x15" + bytes(z), ("meta",))
                add("forged:tls13-pad:handshake:%d" % z, 23, b"\x63\x00\x00\x00" + b"\x16" + bytes(z), ("meta",))
                add("forged:tls13-pad:empty-content:%d" % z, 23, b"\x17" + bytes(z), ("meta",))
            for n in (1, 2, 17, 255, 256, 257, 300, 512, 4096):
                add("forged:tls13-all-zero-inner:%d" % n, 23, bytes(n), ("fatal",))
            if thorough or st.fam == "gcm13":
                big = pat(16384, 11)
                add("forged:tls13-limit:content-16384-pad-239", 23, big + b"\x17" + bytes(239), ("deliver", big))          # ciphertext 16640: the maximum
                add("forged:tls13-limit:content-16384-pad-240", 23, big + b"\x17" + bytes(240), ("fatal",))               # ciphertext 16641
                add("forged:tls13-limit:content-1-pad-16383", 23, b"x\x17" + bytes(16383), ("deliver", b"x"))               # inner 2^14 + 1
                add("forged:tls13-limit:content-1-pad-16384", 23, b"x\x17" + bytes(16384), ("deliver-or-fatal", b"x"))      # inner 2^14 + 2 (RFC: too long; fits the record)
                add("forged:tls13-limit:content-5-pad-16618", 23, data + b"\x17" + bytes(16618), ("deliver-or-fatal", data))
                add("forged:tls13-limit:content-16385", 23, big + b"y\x17", ("fatal",))
                add("forged:tls13-limit:all-zero-16624", 23, bytes(16624), ("fatal",))
            add("forged:tls13-all-zero-inner", 23, bytes(6), ("fatal",))
            add("forged:tls13-empty-content", 23, b"\x17", ("any",))
            add("forged:tls13-empty-content-padded", 23, b"\x17" + bytes(7), ("any",))
            add("forged:tls13-content-with-zeros", 23, b"\x00\x00hello\x00" + b"\x17" + bytes(3), ("deliver", b"\x00\x00hello\x00"))
            add("forged:tls13-nonce-wrong-seq", 23, data + b"\x17", ("fatal",), seq=st.seq + 1)
            add("forged:tls13-aad-wrong-length", 23, data + b"\x17", ("fatal",), aad=hdr(23, 3, 3, 23))
            add("forged:tls13-aad-none", 23, data + b"\x17", ("fatal",), aad=b"")
            add("forged:tls13-aad-outer-type-mismatch", 23, data + b"\x17", ("fatal",), aad=hdr(22, 3, 3, 22))
            add("forged:tls13-aad-version-mismatch", 23, data + b"\x17", ("fatal",), aad=hdr(23, 3, 1, 22))
            add("forged:tls13-unknown-inner-type", 23, data + b"\x63", ("nodata",))
            for n in ((16384, 16385) if thorough else ()):
                d4 = pat(n, 11)
                add("forged:tls13-size-%d" % n, 23, d4 + b"\x17", ("deliver", d4) if n <= 16384 else ("fatal",))
                if n == 16384:
                    add("forged:tls13-size-16384+padding", 23, d4 + b"\x17" + bytes(200), ("deliver", d4))
    return cases


# ------------------------------------------------------------------ result parsing
def parse_result(line):
    """-> dict(events=[...], seq, dead, probe, crash)"""
    r = {"events": [], "seq": None, "dead": None, "probe": None, "crash": None, "raw": line}
    if line.startswith("CRASH") or line.startswith("CHILD-FAIL"):
        r["crash"] = line; return r
    main, _, tail = line.partition(" ; ")
    for t in main.split():
        if t.startswith("seq="): r["seq"] = t[4:]
        else: r["events"].append(t)
    for t in tail.split():
        if t.startswith("dead="): r["dead"] = int(t[5:])
        if t.startswith("probe="): r["probe"] = t[6:]
    return r


def canon_model(line):
    """the model prints S for a skipped TLS 1.3 change_cipher_spec (invisible at the API), R for an unprotected alert and
    T<typ> for verified content of a type the TLS 1.3 dispatcher ignores silently (not 21/22/23)"""
    out = []
    for t in line.split():
        if t == "S": continue
        if t[0] == "T" and ":" in t and t[1:t.index(":")].isdigit():
            ty = int(t[1:t.index(":")])
            if ty not in (20, 21, 22, 23): continue
            if ty == 21: t = "R"              # a verified alert: handed to the application like an unprotected one
        out.append(t)
    return " ".join(out)


def canon_impl(line):
    """an alert received is R; API errors reported while the loop drains bytes that follow the killing record are dropped"""
    main = line.partition(" ; ")[0]
    out, dead = [], False
    for t in main.split():
        if t.startswith("A:"): out.append("R"); dead = True; continue
        if t.startswith("F:"): dead = True
        if dead and t.startswith("E-"): continue
        out.append(t)
    return " ".join(out)


def delivered(r):
    return [vlib.unhex(e[2:]) for e in r["events"] if e.startswith("D:")]


# ------------------------------------------------------------------ the independent spec oracle for attacker edits
def judge_edit(ck, se, to, label, wire, res, line):
    G, pts = se.recs[to], se.pts[to]
    v13 = se.fam.endswith("13")
    sig = "%s:%s" % (se.fam, label.split(":")[0])
    rep = {"harness": "h_rec", "case": line[:70000], "observed": res["raw"][:600], "config": se.name}
    if res["crash"]:
        ck.spec_violation("crash:%s" % sig, "the receiver crashed (%s) on an edited record stream [%s, %s]" % (res["crash"], se.name, label),
                          dict(rep, expected_by_spec="fatal alert or data, never a fault")); return
    got = delivered(res)
    # leading genuine records (TLS 1.3: an interleaved `14 03 03 00 01 01` is skipped by design and not counted as an edit)
    k, rest, ccs = 0, wire, False
    while True:
        if v13 and rest[:6] == b"\x14\x03\x03\x00\x01\x01" and label.startswith("inject:ccs"):
            rest = rest[6:]; ccs = True; continue
        if k < len(G) and rest.startswith(G[k]):
            rest = rest[len(G[k]):]; k += 1; continue
        break
    conc_sent = b"".join(pts)
    if not conc_sent.startswith(b"".join(got)) or got != pts[:len(got)]:
        ck.spec_violation("not-a-prefix:%s" % sig, "delivered data is not an in-order prefix of what the peer submitted [%s, %s]: delivered %s" % (
                          se.name, label, [g.hex() for g in got][:6]), dict(rep, expected_by_spec="prefix of %s" % [p.hex()[:40] for p in pts])); return
    if ccs and len(got) <= k:      # an injected change_cipher_spec is itself an edit: what follows may or may not be delivered
        ck.count("oracle:tls13-ccs-injected-%s" % ("all-delivered" if len(got) == k else "session-ended")); return
    if len(got) < k:
        ck.spec_violation("genuine-not-delivered:%s" % sig, "a genuine in-order record was not delivered [%s, %s]: %d of %d" % (se.name, label, len(got), k),
                          dict(rep, expected_by_spec="first %d records delivered" % k)); return
    if len(got) > k:
        ck.spec_violation("data-from-modified-record:%s" % sig, "data delivered from / after a record that is not the next genuine one [%s, %s]" % (se.name, label),
                          dict(rep, expected_by_spec="exactly %d records delivered, then a fatal alert" % k)); return
    if not rest:
        if res["dead"]:
            ck.spec_violation("genuine-stream-killed:%s" % sig, "an unmodified stream ended the session [%s]" % se.name, dict(rep, expected_by_spec="session alive")); return
        ck.count("oracle:unmodified-delivered"); return
    incomplete = len(rest) < 5 or 5 + rest[3] * 256 + rest[4] > len(rest)
    truncation = k < len(G) and G[k].startswith(rest)
    killed = any(e.startswith("F:") or e.startswith("A:") for e in res["events"]) and res["dead"] == 1
    if incomplete or truncation:
        ck.count("oracle:incomplete-record-%s" % ("killed" if killed else "waits")); return
    if not killed:
        ck.spec_violation("modified-record-not-fatal:%s" % sig, "a modified record did not end the session with a fatal alert [%s, %s]: %s" % (se.name, label, res["raw"][:80]),
                          dict(rep, expected_by_spec="fatal alert, session dead")); return
    if res["probe"] == "accepted":
        ck.spec_violation("alive-after-fatal:%s" % sig, "the session accepted a record after the fatal alert [%s, %s]" % (se.name, label), dict(rep, expected_by_spec="dead")); return
    ck.count("oracle:modified-record-fatal")


def judge_forged(ck, se, to, label, expect, res, line):
    sig = "%s:%s" % (se.fam, label)
    rep = {"harness": "h_rec", "case": line[:70000], "observed": res["raw"][:600], "config": se.name, "expected_by_spec": str(expect)[:200]}
    if res["crash"]:
        ck.spec_violation("crash:%s" % sig, "the receiver crashed (%s) on a record built with the session keys [%s, %s]" % (res["crash"], se.name, label), rep); return
    got = delivered(res)
    killed = any(e.startswith("F:") for e in res["events"]) and res["dead"] == 1
    if expect[0] == "deliver":
        if got and got != [expect[1]]:
            ck.spec_violation("wrong-data-delivered:%s" % sig, "the bytes delivered differ from the content the record carries - %d bytes delivered, %d sent, common prefix %d [%s, %s]" % (
                              len(b"".join(got)), len(expect[1]), len(os.path.commonprefix([b"".join(got), expect[1]])), se.name, label), rep)
        elif got != [expect[1]] or res["dead"]:
            ck.spec_violation("valid-record-rejected:%s" % sig, "a well-formed record (RFC 5246 6.2.3 / RFC 8446 5.2) was not delivered [%s, %s]: %s" % (se.name, label, res["raw"][:80]), rep)
        else: ck.count("oracle:forged-valid-delivered")
    elif expect[0] == "fatal":
        if got or not killed:
            ck.spec_violation("invalid-record-accepted:%s" % sig, "a record with an invalid padding / MAC / tag / length was not rejected fatally [%s, %s]: %s" % (se.name, label, res["raw"][:80]), rep)
        else: ck.count("oracle:forged-invalid-fatal")
    elif expect[0] == "deliver-or-fatal":
        if got not in ([], [expect[1]]) or (not got and not killed):
            ck.spec_violation("invalid-record-accepted:%s" % sig, "an over-long padded record delivered something else than its content [%s, %s]: %s" % (se.name, label, res["raw"][:80]), rep)
        else: ck.count("oracle:forged-overlong-%s" % ("delivered" if got else "fatal"))
    elif expect[0] == "meta":
        if got: ck.spec_violation("invalid-record-accepted:%s" % sig, "application data delivered from a record whose inner type is not application_data / has no content [%s, %s]: %s" % (se.name, label, res["raw"][:80]), rep)
        else: ck.count("oracle:forged-non-appdata")
    elif expect[0] == "nodata":
        if got: ck.spec_violation("invalid-record-accepted:%s" % sig, "data delivered from a record of unknown content type [%s]" % se.name, rep)
        else: ck.count("oracle:forged-nodata")
    else:
        ck.count("oracle:forged-empty-record-%s" % ("delivered" if got else ("fatal" if killed else "ignored")))


# ------------------------------------------------------------------ sharded model run
def run_model(ck, drv, lines, nproc=6):
    order = sorted(range(len(lines)), key=lambda i: -len(lines[i]))
    shards, load = [[] for _ in range(nproc)], [0] * nproc
    for i in order:
        j = load.index(min(load)); shards[j].append(i); load[j] += len(lines[i]) + 400
    res = {}
    def work(ids):
        if not ids: return
        rc, out, err = ck.run_lines(drv, [lines[i] for i in ids], timeout=3000)
        for n, i in enumerate(ids):
            res[i] = out[n] if n < len(out) else "NOOUTPUT"
    th = [threading.Thread(target=work, args=(s,)) for s in shards]
    for t in th: t.start()
    for t in th: t.join()
    return [res.get(i, "NOOUTPUT") for i in range(len(lines))]


def corpus_cases(sessions):
    """corpus/C02/*.case: `<config-name> <to> <op>+<op>+...` with op = rec<i> | flip<i>.<bit> | type<i>.<hexbyte> | ver<i>.<4 hex>
    (i = index of a genuine record towards <to>) | cut<i>.<n> (last n bytes dropped, length field fixed); resolved against the records of this run"""
    out = []
    p = os.path.join(vlib.VERIF, "corpus", "C02")
    by = {s.name: s for s in sessions}
    if os.path.isdir(p):
        for f in sorted(os.listdir(p)):
            for l in open(os.path.join(p, f)):
                l = l.strip()
                if not l or l.startswith("#"): continue
                t = l.split()
                if len(t) != 3 or t[0] not in by: continue
                se, to, wire = by[t[0]], t[1], b""
                for op in t[2].split("+"):
                    kind, _, arg = op.partition(".")
                    name = kind.rstrip("0123456789"); i = int(kind[len(name):] or 0)
                    r = se.recs[to][i]
                    if name == "flip": r = flip(r, 8 * len(r) - 1 if arg == "last" else int(arg) % (8 * len(r)))
                    elif name == "type": r = bytes([int(arg, 16)]) + r[1:]
                    elif name == "ver": r = r[:1] + bytes.fromhex(arg) + r[3:]
                    elif name == "cut": r = hdr(r[0], r[1], r[2], len(r) - 5 - int(arg)) + r[5:len(r) - int(arg)]
                    wire += r
                out.append((se, to, "corpus:" + t[2], wire, None))
    return out


def messages(thorough):
    m = [("c", b"hello"), ("c", b"hi"), ("c", pat(32, 0x30)), ("s", b"yyy"), ("s", b"reply"), ("s", pat(32, 0x60))]
    if thorough:
        m += [("c", pat(256, 0x11)), ("s", pat(256, 0x22))]
    return m


def run(ck):
    ck.trusted += ["Coq 8.16.1 kernel", "tools/srcgen translators (consts.c, consts_rec.c: record-layer lengths and limits)",
                   "extraction (ExtrOcamlBasic only) + ocaml/drv_c02.ml; harness/h_rec.c + sess.h (reads ssl->sec through matrixsslImpl.h)",
                   "modelled, not verified: open_*/seal_* of coq/Rec/RecModel.v are hand-written after sslDecode.c / cipherSuite.c / tls13CipherSuite.c / tls13Decode.c / sslEncode.c and compared with the library on the same keys and bytes on every run",
                   "the Gallina AES / HMAC / GCM / ChaCha20-Poly1305 of coq/Crypto that instantiate the primitives (tied to the library by C12)",
                   "Hunf (no forgery occurs in the run): the only place cryptographic hardness enters c02_prefix / c02_dtls_identical",
                   "Python hashlib HMAC as the independent oracle for key-holder records"]
    ck.assumptions += ["Hunf / no_forgery: whenever a presented record verifies under the receiver's current (key, sequence number), its authenticated tuple (nonce, header fields, plaintext) was sealed by the honest peer",
                       "primitive contracts of the roundtrip theorems: cbc_dec inverts cbc_enc and preserves length; |mac| = macSize; aead_open inverts aead_seal; |aead_seal p| = |p| + 16",
                       "fewer than 2^64 records per key (no sequence-number wrap)",
                       "established session, no renegotiation / KeyUpdate / early data; no truncated_hmac; compression off",
                       "timing (Lucky13 blinding) is not modelled: c02_pad_mac_uniform is about alert, data and state only",
                       "TLS 1.2 ChaCha20-Poly1305 is not in the default build: its decrypt function is tied by direct calls only",
                       "DTLS 1.2: every datagram is delivered in order during the handshake; loss / retransmission schedules and the replay window are C16's"]
    ck.build_repo()
    ck.regen([("consts.sh",)])
    ck.coq_properties()
    drv = ck.ocaml_driver("drv_c02", extract_vo="Extract/Extract_C02.vo", gen_ml=["m_c02"])
    h = ck.cc("h_rec.c", wraps=WRAPS)
    if drv is None:
        return
    thorough = ck.tier == "thorough"
    t0 = time.time()
    sessions = [Sess(n, o, ck.seed % 1000 + 1, messages(thorough)) for n, o, tier in CONFIGS if thorough or tier == "quick"]
    # live RFC 8446 5.4 padding: matrixSslSetTls13BlockPadding(side, N) on both sides, short and long writes
    pmsgs = [("c", b"hello"), ("c", b"hi"), ("c", pat(1000, 0x31)), ("c", pat(5000, 0x32)), ("s", b"yyy"), ("s", b"reply"), ("s", pat(1000, 0x61)), ("s", pat(5000, 0x62))]
    suites13 = [("tls13-aes128-gcm", "1301"), ("tls13-aes256-gcm", "1302"), ("tls13-chacha20", "1303")]
    for i, n in enumerate(PAD_BLOCKS):
        for j, (sn, su) in enumerate(suites13):
            if thorough or j == i % 3:
                sessions.append(Sess("%s-blockpad-%d" % (sn, n), "cv=4 sv=4 suite=%s" % su, ck.seed % 1000 + 1, pmsgs, pad={"c": n, "s": n}))
    if thorough:
        sessions.append(Sess("tls13-aes128-gcm-blockpad-c16384-s1", "cv=4 sv=4 suite=1301", ck.seed % 1000 + 1, pmsgs, pad={"c": 16384, "s": 1}))
        sessions.append(Sess("tls13-chacha20-blockpad-c300-s4096", "cv=4 sv=4 suite=1303", ck.seed % 1000 + 1, pmsgs, pad={"c": 300, "s": 4096}))
    rc, caps, err = ck.run_lines(h, ["cap %s |" % s.key for s in sessions], timeout=600)
    for s, c in zip(sessions, caps + [""] * len(sessions)):
        if not s.load(c):
            ck.log("session %s could not be established: %s" % (s.name, c[:120]))
            ck.obligation("session:" + s.name, False, detail="handshake for this suite/version did not complete: %s" % c[:200])
    sessions = [s for s in sessions if s.ok]
    # ---- cases
    fg = Forger()
    plan = []     # (session, to, label, wire-or-builder, expect-or-None)
    for se in sessions:
        for to in ("s", "c"):
            if to == "c" and not thorough and not se.pad and se.name not in ("tls12-aes128-cbc-sha1", "tls12-aes128-gcm", "tls13-aes128-gcm"):
                continue
            if se.pad:
                for label, wire in padded_edits(ck, se, to, thorough):
                    plan.append((se, to, label, wire, None))
                continue
            for label, wire in attacker_edits(ck, se, to, thorough):
                plan.append((se, to, label, wire, None))
            for label, builder, expect in forged_cases(ck, se, to, fg, thorough):
                plan.append((se, to, label, builder, expect))
    fg.resolve(ck, h)
    lines, meta, seen = [], [], set()
    for se, to, label, w, expect in corpus_cases(sessions) + plan:
        wire = w() if callable(w) else w
        if wire is None:
            ck.count("forge-failed"); continue
        l = se.run_line(to, wire)
        if l in seen: continue
        seen.add(l); lines.append(l); meta.append((se, to, label, wire, expect))
        ck.count("%s:%s" % (se.fam, re.sub(r":\d+$", "", label)))
    ck.log("%d sessions, %d cases (%d forged-record requests) built in %.1fs" % (len(sessions), len(lines), len(fg.req), time.time() - t0))
    t1 = time.time()
    rc, impl, err = ck.run_lines(h, lines, timeout=3000)
    t2 = time.time()
    model = run_model(ck, drv, lines)
    ck.log("impl %.1fs, model %.1fs" % (t2 - t1, time.time() - t2))
    if len(impl) != len(lines):
        ck.log("h_rec produced %d lines for %d cases; stderr: %s" % (len(impl), len(lines), err[-300:]))
    impl += ["NOOUTPUT"] * (len(lines) - len(impl))
    # ---- Impl ~ Model per family
    ci, cm = [canon_impl(x) for x in impl], [canon_model(x) for x in model]
    for fam in sorted({m[0].fam for m in meta if m}):
        # TLS 1.3 change_cipher_spec skipping lives in the API buffer loop (C18's model), not in the record model: judged by the oracle only
        idx = [i for i, m in enumerate(meta) if (m and m[0].fam == fam and not (fam.endswith("13") and (m[2] == "inject:ccs" or m[2].startswith("forged:tls13-pad:handshake")))) or (m is None and (" | %s " % fam) in lines[i])]
        ck.correspond("record layer %s: run_wire(model) vs matrixSslReceivedData(impl) on captured keys" % fam, [lines[i] for i in idx], [ci[i] for i in idx], [cm[i] for i in idx],
                      nontrivial=lambda c, o: not o.startswith("P"))
    ck.rules.append("per suite family x version: a live session is established, 3+ application records per direction are captured with the receiver's read state; "
                    "attacker edits = every bit of the first record (and a stride of the later ones; all in thorough, up to 256-byte plaintexts), truncation at every length (alone / spliced onto the next record), "
                    "byte deletion, extension, splices (header/body, half/half, CBC block cut-and-paste), swap, drop, replay, cross-direction reflection, type/version/length rewrites, injected unprotected records, random corruption; "
                    "key-holder records = padding-length byte sweep 0..255 (valid long padding, one wrong pad byte with a valid MAC, length byte beyond the record, valid MAC at the fake MAC position), every MAC bit flipped, "
                    "MAC/AAD over wrong seq/type/version/length, empty / 16384 / 16385-byte plaintexts, TLS 1.3 zero padding and inner-type variants. Non-trivial = the receiver processed a complete record.")
    # ---- Impl vs Spec
    ntrouble = []
    for i, m in enumerate(meta):
        res = parse_result(impl[i])
        if m is None:
            if res["crash"]:
                ck.spec_violation("crash:corpus", "corpus case crashes the receiver: %s" % res["crash"], {"harness": "h_rec", "case": lines[i][:70000], "observed": impl[i]})
            continue
        se, to, label, wire, expect = m
        if impl[i].startswith(("STATE-MISMATCH", "SETUP-FAIL", "BADCASE", "NOOUTPUT")):
            ck.count("harness-trouble:" + impl[i].split()[0]); ntrouble.append(lines[i][:200]); continue
        if expect is None: judge_edit(ck, se, to, label, wire, res, lines[i])
        else: judge_forged(ck, se, to, label, expect, res, lines[i])
    if ntrouble:
        ck.obligation("harness:sessions-reproducible", False, detail="%d cases could not be run on the captured state, e.g. %s" % (len(ntrouble), ntrouble[0]))
    # padding vs MAC failure: same alert, same final sequence number (no oracle in the result)
    for se in sessions:
        if se.fam != "cbc": continue
        outs = {}
        for i, m in enumerate(meta):
            if m and m[0] is se and m[4] == ("fatal",) and m[2].startswith("forged:cbc") and "size" not in m[2]:
                outs.setdefault(canon_impl(impl[i]), []).append(m[2])
        if len(outs) > 1:
            ck.spec_violation("padding-oracle-in-result:%s" % se.name, "padding failures and MAC failures are answered differently: %s" % {k: v[:2] for k, v in outs.items()},
                              {"harness": "h_rec", "observed": str({k: len(v) for k, v in outs.items()}), "config": se.name, "expected_by_spec": "one alert, one state for every padding / MAC failure"})
        else: ck.count("oracle:pad-mac-uniform")
    # TLS 1.3 record padding must be invisible: the same inner content gives the same events whatever the number of zeros
    groups = {}
    for i, m in enumerate(meta):
        if m and m[2].startswith("forged:tls13-pad:"):
            kind = m[2].rsplit(":", 1)[0]
            groups.setdefault((m[0].name, m[1], kind), {}).setdefault(canon_impl(impl[i]), []).append((int(m[2].rsplit(":", 1)[1]), i))
    for (name, to, kind), outs in groups.items():
        if len(outs) > 1:
            ref = max(outs.items(), key=lambda kv: len(kv[1]))[0]
            odd = sorted((z, i) for o, v in outs.items() if o != ref for z, i in v)
            z, i = odd[0]
            ck.spec_violation("tls13-padding-changes-outcome:%s:%s" % (meta[i][0].fam, kind.split(":")[-1]),
                              "TLS 1.3 record with %d bytes of zero padding is treated differently from the same content with other padding lengths [%s, %s]: %s instead of %s (padding lengths affected: %s)" % (
                              z, name, kind, canon_impl(impl[i])[:80], ref[:80], [x for x, _ in odd][:12]),
                              {"harness": "h_rec", "case": lines[i][:70000], "observed": impl[i][:400], "config": name, "expected_by_spec": ref[:200]})
        else: ck.count("oracle:tls13-padding-invisible")
    # sending side of block padding: the record on the wire has the padded length (the zeros themselves: seal correspondence below)
    for se in sessions:
        if not se.pad: continue
        for to in ("s", "c"):
            n = se.pad["c" if to == "s" else "s"]
            for rec, pt in zip(se.recs[to], se.pts[to]):
                inner = min(-(-(len(pt) + 1) // n) * n, 16385)
                if rec[:3] != b"\x17\x03\x03" or len(rec) - 5 != inner + 16:
                    ck.spec_violation("tls13-sender-padding:%s" % se.fam, "record sent with block padding %d for a %d-byte write has %d body bytes, expected %d [%s]" % (n, len(pt), len(rec) - 5, inner + 16, se.name),
                                      {"harness": "h_rec", "case": "cap %s |" % se.key, "observed": rec[:5].hex(), "config": se.name, "expected_by_spec": "17 03 03 + length %d" % (inner + 16)})
                else: ck.count("oracle:tls13-sender-padded-length")
    # ---- seal: the sender's bytes are the model's bytes (genuine records against seal_* of the model)
    seal_cases, want = [], []
    for se in sessions:
        for to in ("s", "c"):
            st = se.wr["c" if to == "s" else "s"]          # sender's write half AFTER sealing: seq advanced by the number of records
            n = len(se.recs[to])
            for j, (rec, pt) in enumerate(zip(se.recs[to], se.pts[to])):
                seq = st.seq - n + j
                body = rec[5:]
                if se.fam == "cbc":
                    if not st.expl: continue
                    s2 = st.with_(seq=seq, expl=0, iv=body[:16]); exp = body[16:]
                else:
                    s2 = st.with_(seq=seq); exp = body
                seal_cases.append("seal %s | %s | 23 %s %s" % (se.name, s2.text, vlib.hexs(pt), ("b%d" % se.pad["c" if to == "s" else "s"]) if se.pad else "0")); want.append(vlib.hexs(exp))
    if seal_cases:
        got = run_model(ck, drv, seal_cases)
        ck.correspond("seal_*(model) reproduces the bytes the library put on the wire", seal_cases, want, got)
    # ---- TLS 1.2 ChaCha20-Poly1305 decrypt function by direct calls (suite not in the default build)
    cc = chacha12_cases(ck, h)
    if cc:
        rc, ci2, _ = ck.run_lines(h, cc)
        cm2 = run_model(ck, drv, [c.replace("cc12 |", "run x |", 1).rsplit(" | ", 1)[0] + " | " + cc12_wire(c) for c in cc])
        ck.correspond("csChacha20Poly1305IetfDecrypt (direct call) vs open_chacha12", cc, ci2, cm2,
                      nontrivial=lambda c, o: o.startswith("D:"))
    dtls_part(ck, h, drv, thorough)
    if ck.violations:
        cls = {}
        for v in ck.violations: cls[str(v["key"]).split(":")[0]] = cls.get(str(v["key"]).split(":")[0], 0) + 1
        ck.log("violation classes: %s" % cls)
    ck.cov["sessions"] = [s.name for s in sessions]
    ck.cov["exhaustive"] = False
    ck.cov["bounded_exhaustive"] = "every single-bit flip of the first application record (5-byte plaintext; %s) for each family x version" % ("and of the 2-, 32- and 256-byte ones" if thorough else "thorough tier: also 2-, 32- and 256-byte plaintexts")



# ------------------------------------------------------------------ DTLS 1.2 (c02_dtls_identical)
DTLS_CONFIGS = [("dtls12-ecdhe-aes128-gcm", "c02f", "quick"), ("dtls12-ecdhe-aes128-cbc-sha256", "c027", "quick"), ("dtls12-aes128-cbc-sha1", "002f", "quick"),
                ("dtls12-aes128-cbc-sha256", "003c", "thorough"), ("dtls12-aes128-gcm", "009c", "thorough"), ("dtls12-ecdhe-aes256-cbc-sha384", "c028", "thorough")]


def dtls_to_tls(dg):
    """the DTLS record as the TLS-framed record the model reads, and its epoch||sequence number"""
    return dg[:3] + dg[11:13] + dg[13:], int.from_bytes(dg[3:11], "big")


def dtls_part(ck, h, drv, thorough):
    msgs = [("c", b"hello"), ("c", b"hi"), ("c", pat(32, 0x30)), ("s", b"yyy"), ("s", b"reply"), ("s", pat(32, 0x60))]
    cfgs = [(n, su) for n, su, tier in DTLS_CONFIGS if thorough or tier == "quick"]
    keys = ["suite=%s seed=%d msgs=%s" % (su, ck.seed % 1000 + 1, ",".join("%s:%s" % (a, m.hex()) for a, m in msgs)) for n, su in cfgs]
    rc, caps, _ = ck.run_lines(h, ["dcap %s |" % k for k in keys], timeout=600)
    cases, meta = [], []
    fg, forged, forged_key = Forger(), [], {}
    for (name, su), key, cap in zip(cfgs, keys, caps + [""] * len(keys)):
        f = [x.strip() for x in cap.split("|")]
        if not f[0].startswith("dcap ok"):
            ck.obligation("session:" + name, False, detail="DTLS handshake did not complete: %s" % cap[:200]); continue
        d = dict(x.split("=", 1) for x in f[1:])
        for to, other in (("s", "c"), ("c", "s")):
            st = State(d["r" + to])
            G = [vlib.unhex(x) for x in d["c2s" if to == "s" else "s2c"].split(",")]
            R = [vlib.unhex(x) for x in d["s2c" if to == "s" else "c2s"].split(",")]
            pts = [m for a, m in msgs if a == other]
            if to == "c" and not thorough: continue
            ed = [("identity", G, None), ("reorder", [G[1], G[0]] + G[2:], None), ("replay", [G[0], G[0], G[1], G[0]], None), ("drop", G[1:], None),
                  ("reflect", [R[0], G[0]], None), ("reflect-after", [G[0], R[0], G[1]], None)]
            d0 = G[0]
            for b in range(8 * len(d0)):
                byte = b // 8
                kind = "bitflip:body" if byte >= 13 else ("bitflip:type-version" if byte < 3 else ("bitflip:epoch-seq" if byte < 11 else "bitflip:length"))
                ed.append((kind, [flip(d0, b), G[1]], 0))
            for b in range(0, 8 * len(G[1]), 1 if thorough else 7):
                ed.append(("bitflip:second", [G[0], flip(G[1], b), G[2]], 1))
            for k in range(1, len(d0)):
                ed.append(("truncate", [d0[:k], G[1]], 0))
            for x in (1, 16):
                ed.append(("extend", [d0 + bytes(x), G[1]], 0))
                ed.append(("extend:len-fixed", [d0[:11] + (len(d0) - 13 + x).to_bytes(2, "big") + d0[13:] + bytes(x), G[1]], 0))
            ed.append(("splice:header0-body1", [d0[:13] + G[1][13:], G[1]], 0))
            ed.append(("splice:seq-of-next", [d0[:3] + G[1][3:11] + d0[11:], G[1]], 0))
            ed.append(("two-records-one-datagram", [G[0] + G[1], G[2]], None))
            ed.append(("two-records-second-modified", [G[0] + flip(G[1], 8 * len(G[1]) - 1), G[2]], 0))
            if st.fam == "cbc":
                # records a key holder can build: every padding length byte 0..255 on a record that holds it exactly (valid), and
                # the same with one padding byte wrong; fresh sequence number inside the replay window
                ep_rsn = G[0][3:5] + (1000).to_bytes(6, "big")
                def dplain(data, p, wrong=None):
                    m = pyhmac.new(st.mk, ep_rsn + bytes([23, st.maj, st.min]) + len(data).to_bytes(2, "big") + data, HASH[st.msz]).digest()
                    pad = bytearray([p]) * (p + 1)
                    if wrong is not None: pad[wrong] ^= 0x40
                    return b"\xA5" * 16 + data + m + bytes(pad)
                for pv in range(256):
                    dl = (-(16 + st.msz + pv + 1)) % 16 or 16
                    dd = pat(dl, pv)
                    forged.append((to, "forged-padlen-valid", fg.want("enc aescbc %s %s %s" % (vlib.hexs(st.key), "00" * 16, vlib.hexs(dplain(dd, pv)))), ep_rsn, dd, G, pts + [dd], st))
                    if pv in (1, 15, 16, 17, 100, 255):
                        for wpos in sorted({0, pv // 2, pv - 1}):
                            forged.append((to, "forged-pad-byte-wrong", fg.want("enc aescbc %s %s %s" % (vlib.hexs(st.key), "00" * 16, vlib.hexs(dplain(dd, pv, wpos)))), ep_rsn, None, G, pts, st))
                forged_key[(name, to)] = key
            for label, dgs, mod in ed:
                cases.append("drun %s to=%s | %s | %s" % (key, to, ",".join(vlib.hexs(x) for x in dgs), st.text))
                meta.append((name, to, "dtls:" + label, dgs, mod, G, pts, st))
                ck.count("dtls:%s:%s" % (st.fam, label))
            forged[:] = [x + (name, key) if len(x) == 8 else x for x in forged]
    fg.resolve(ck, h)
    for to, label, req, ep_rsn, dd, G, pts2, st, name, key in forged:
        ct = fg.get(req)
        if ct is None: ck.count("forge-failed"); continue
        dg = b"\x17" + bytes([st.maj, st.min]) + ep_rsn + len(ct).to_bytes(2, "big") + ct
        cases.append("drun %s to=%s | %s,%s | %s" % (key, to, vlib.hexs(dg), vlib.hexs(G[0]), st.text))
        # a valid key-holder record counts as "sent" for the identity oracle: G + [dg], pts + [dd]
        meta.append((name, to, "dtls:" + label, [dg, G[0]], 0, (G + [dg]) if dd is not None else G, pts2, st))
        ck.count("dtls:%s:%s" % (st.fam, label))
    if not cases:
        return
    order = sorted(range(len(cases)), key=lambda i: (keys.index(cases[i].split(" to=")[0][5:]), i))     # one establishment per session
    cases, meta = [cases[i] for i in order], [meta[i] for i in order]
    rc, out, err = ck.run_lines(h, cases, timeout=3000)
    out += ["NOOUTPUT"] * (len(cases) - len(out))
    mcases, mimpl, mlines, trouble = [], [], [], []
    for c, o, (name, to, label, dgs, mod, G, pts, st) in zip(cases, out, meta):
        rep = {"harness": "h_rec", "case": c[:70000], "observed": o[:400], "config": name}
        sig = "%s:%s" % (st.fam, label)
        if o.startswith(("CRASH", "CHILD-FAIL")):
            ck.spec_violation("crash:" + sig, "the DTLS receiver crashed (%s) [%s, %s]" % (o, name, label), rep); continue
        if o.startswith(("SETUP-FAIL", "BADCASE", "NOOUTPUT", "STATE-MISMATCH")):
            ck.count("harness-trouble:" + o.split()[0]); trouble.append(c[:200]); continue
        slots = [x.split() for x in o.split(" / ")[:-1]]
        seen, bad = [], False
        for i, (dg, sl) in enumerate(zip(dgs, slots)):
            got = [vlib.unhex(t[2:]) for t in sl if t.startswith("D:")]
            # records at the front of the datagram that are byte-identical to records the peer sent may be delivered; nothing else
            allowed, rest = [], dg
            while True:
                j = next((j for j, g in enumerate(G) if rest.startswith(g)), None)
                if j is None: break
                allowed.append(pts[j]); rest = rest[len(G[j]):]
            for g in got:
                if g not in pts:
                    ck.spec_violation("dtls-not-identical:" + sig, "a delivered datagram is not one the peer sent [%s, %s]: %s" % (name, label, g.hex()[:60]), dict(rep, expected_by_spec="one of %s" % [p.hex() for p in pts])); bad = True
                elif g in seen:
                    ck.spec_violation("dtls-delivered-twice:" + sig, "an application datagram was delivered twice [%s, %s]" % (name, label), rep); bad = True
                seen.append(g)
            if any(g not in allowed for g in got):
                ck.spec_violation("dtls-data-from-modified:" + sig, "data delivered from a modified record [%s, %s]" % (name, label), dict(rep, expected_by_spec="discarded or fatal")); bad = True
            if rest and not got and not any(t.startswith(("F:", "N", "E", "X")) for t in sl):
                ck.spec_violation("dtls-modified-unclear:" + sig, "modified datagram neither discarded nor rejected [%s, %s]" % (name, label), rep); bad = True
        if label == "dtls:forged-padlen-valid" and not any(t == "D:" + vlib.hexs(pts[-1]) for t in (slots[0] if slots else [])):
            ck.spec_violation("valid-record-rejected:" + sig, "a DTLS record with a valid MAC and %d bytes of correct padding was not delivered [%s]: %s" % (dgs[0][-1] if False else len(pts[-1]), name, o[:80]), rep); bad = True
        if not bad: ck.count("oracle:dtls-ok")
        # model tie: first modified datagram whose epoch/sequence field is intact and whose length field matches its size
        if mod is not None and label in ("dtls:bitflip:body", "dtls:bitflip:type-version", "dtls:bitflip:second", "dtls:splice:header0-body1", "dtls:forged-padlen-valid", "dtls:forged-pad-byte-wrong") and mod < len(slots):
            dg = dgs[mod]
            if len(dg) >= 13 and int.from_bytes(dg[11:13], "big") == len(dg) - 13 and (label.startswith("dtls:forged") or dg[3:11] == G[mod][3:11]):
                wire, seq = dtls_to_tls(dg)
                mlines.append("run dtls | %s | %s" % (st.with_(seq=seq).text, vlib.hexs(wire)))
                mcases.append(c); mimpl.append(" ".join(t for t in slots[mod] if t != "N"))
    if mlines and drv:
        mm = run_model(ck, drv, mlines)
        ck.correspond("DTLS 1.2 record vs open_dtls (sequence number from the record header)", mcases, mimpl, [" ".join(t for t in x.split() if not t.startswith("seq=")) for x in mm],
                      nontrivial=lambda c, o: True)
    if trouble:
        ck.obligation("harness:dtls-sessions-reproducible", False, detail="%d DTLS cases could not be run on the captured state, e.g. %s" % (len(trouble), trouble[0]))
    ck.cov["dtls_sessions"] = [n for n, su in cfgs]


def cc12_wire(case):
    st, rest = case.split(" | ")[1], case.split(" | ")[2]
    t = st.split(); typ, body = rest.split()
    b = vlib.unhex(body)
    return vlib.hexs(hdr(int(typ), int(t[6]), int(t[7]), len(b)) + b)


def chacha12_cases(ck, h):
    """records sealed with the library's own ChaCha20-Poly1305 under a made-up TLS 1.2 state, then edited"""
    r = ck.rng("chacha12")
    key, iv = pat(32, 3), pat(12, 9)
    out, reqs, shapes = [], [], []
    for seq in (0, 1, 255, 2 ** 32 - 1, 2 ** 64 - 2):
        for n in (1, 5, 16, 33):
            data = pat(n, seq & 255)
            nonce = bytes(a ^ b for a, b in zip(iv, b"\x00" * 4 + seq.to_bytes(8, "big")))
            aad = seq.to_bytes(8, "big") + bytes([23, 3, 3]) + n.to_bytes(2, "big")
            reqs.append("enc chacha %s %s %s %s" % (key.hex(), nonce.hex(), aad.hex(), data.hex())); shapes.append((seq, n))
    rc, enc, _ = ck.run_lines(h, reqs)
    for (seq, n), e in zip(shapes, enc):
        if not e or any(c not in "0123456789abcdef" for c in e): continue
        body = bytes.fromhex(e)
        mk = lambda q: "chacha12 0 %s - %s %x 3 3 1 16384" % (key.hex(), iv.hex(), q)
        st = mk(seq)
        out.append("cc12 | %s | 23 %s" % (st, body.hex()))
        out.append("cc12 | %s | 22 %s" % (st, body.hex()))
        out.append("cc12 | %s | 23 %s" % (mk((seq + 1) % 2 ** 64), body.hex()))
        for b in sorted({0, 7, 8 * n - 1, 8 * n, 8 * len(body) - 1} | {r.randrange(8 * len(body)) for _ in range(6)}):
            out.append("cc12 | %s | 23 %s" % (st, flip(body, b).hex()))
        out.append("cc12 | %s | 23 %s" % (st, body[:-1].hex()))
        out.append("cc12 | %s | 23 %s" % (st, body[:15].hex()))
    return out


def replay(ck, path):
    rp = json.load(open(path))["replay"]
    h = ck.cc("h_rec.c", wraps=WRAPS)
    case = rp.get("case")
    if not case:
        print("no case recorded:", json.dumps(rp)[:400]); return
    rc, out, err = ck.run_lines(h, [case])
    print("case:", case[:400]); print("observed now:", out[0] if out else None); print("expected by spec:", rp.get("expected_by_spec"))
