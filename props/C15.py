"""C15 - after a fatal error or closure a session stays dead.

Theorems: coq/Properties/Properties_C15.v (same session machine as C01).
Tie: live sessions; at every point of a session's life a killing event (each fatal attacker record, a
corrupted genuine record, a received fatal alert / close_notify, a local closure) is followed by every
continuation (the valid next records, the original of the corrupted record, garbage, application send,
closure); each step must agree with the extracted model.
Search oracle (Impl vs Spec): once a side has sent or received a fatal alert / hit an error / seen
close_notify it never reports APPDATA, never accepts an application send, and every later receive fails.
"""
import json
import vlib, sesslib
from sesslib import CONFIGS, DTLS_CONFIGS, attacker_records, prefix_script, parse_steps

KILLERS = ["plain_app", "plain_alert_fatal", "plain_alert_fatal_noreneg", "plain_close_notify", "long_alert", "ccs_bad", "bad_type", "bad_len_big", "garbage_sealed", "garbage_hs", "plain_alert_warn"]


# DTLS: events at every point of a session's life.  The first group kills (a fatal alert goes out or comes in, or close_notify
# comes in) when the record is taken: expected epoch, fresh sequence number.  The second group are records DTLS drops without
# decrypting them (other epoch / replayed sequence number): by the reading stated in run() they must NOT harm the session.
DTLS_KILLERS = ["plain_app@ecur/fresh", "plain_alert_fatal@ecur/fresh", "plain_alert_fatal_noreneg@ecur/fresh", "plain_close_notify@ecur/fresh", "long_alert@ecur/fresh", "ccs_bad@ecur/fresh",
                "bad_type@ecur/fresh", "bad_len_big@ecur/fresh", "garbage_sealed@ecur/fresh", "garbage_hs@ecur/fresh", "plain_alert_warn@ecur/fresh",
                "truncated@ecur/fresh"]
DTLS_DROPPED = ["plain_alert_fatal@e0/fresh", "plain_alert_fatal@ecur/replayed", "plain_alert_fatal@enext/fresh", "plain_close_notify@e0/far",
                "garbage_sealed@ecur/replayed", "garbage_sealed@enext/fresh", "plain_app@e0/fresh", "ccs@enext/fresh", "ccs@e0/fresh", "garbage_hs@enext/far"]


def build_dtls(ck, sr, cfgs, seeds, scripts, inj_desc, meta):
    for name in cfgs:
        cfg = DTLS_CONFIGS[name]
        for seed in seeds:
            trace, tout = sr.legal_trace(cfg, seed)
            if not trace:
                continue
            states = sesslib.side_states(tout, cfg)
            n = len(trace)
            for k in range(n + 1):
                base = prefix_script(cfg, seed, trace, k)
                rest = trace[k:]
                for side in ("c", "s"):
                    stt = states[k][side] if k < len(states) else None
                    xe, lr = (stt["xe"], stt["lr"]) if stt else (0, 0)
                    atk = {a[0]: a for a in sesslib.dtls_attacker_records(cfg, xe, lr, True)}
                    other = "s" if side == "c" else "c"; din = "c2s" if side == "s" else "s2c"
                    cont_steps = "".join(" ; step %s" % d for d in rest[:3])
                    g2 = sesslib.drec_bytes(23, bytes((7 * i + 3) & 255 for i in range(40)), sesslib.wire_version(cfg), xe, lr + 2)
                    p2 = sesslib.drec_bytes(23, b"hello", sesslib.wire_version(cfg), xe, lr + 3)
                    d_g2 = dict(hdr="ok", outer=23, prot="bad", inner=23, l=40, ep=xe, sq=lr + 2)
                    d_p2 = dict(hdr="ok", outer=23, prot="plain", inner=23, l=5, ep=xe, sq=lr + 3)
                    for kn in DTLS_KILLERS + DTLS_DROPPED:
                        if kn not in atk:
                            continue        # (epoch 0 is the expected epoch early in the handshake: the variant does not exist there)
                        an, raw, d = atk[kn]
                        for cont, cdesc in ((cont_steps + " ; app %s 6869 ; app %s 6869 ; step %s ; step %s" % (other, side, din, din), []),
                                            (" ; inj %s %s ; closure %s ; inj %s %s" % (side, g2.hex(), side, side, p2.hex()), [d_g2, d_p2]),
                                            # the application's retransmission timer after the event, then the valid next records
                                            (" ; resend %s ; resend %s" % (side, side) + cont_steps + " ; app %s 6869 ; st" % side, [])):
                            i = len(scripts)
                            scripts.append(base + " ; inj %s %s" % (side, raw.hex()) + cont + " ; st")
                            inj_desc[i] = [d] + cdesc; meta.append((name, k, side, ("dropped:" if kn in DTLS_DROPPED else "") + kn))
                if k < n:
                    d0 = trace[k]; to = "s" if d0 == "c2s" else "c"
                    for off in (13, -1):
                        i = len(scripts)
                        offs = "13" if off == 13 else "LAST"
                        scripts.append(base + " ; save %s 3 ; xor %s %s 01 ; step %s ; replay %s 3 ; app %s 6869 ; resend %s ; st" % (d0, d0, offs, d0, to, to, to)
                                       + "".join(" ; step %s" % d for d in rest[1:3]))
                        inj_desc[i] = [None]; meta.append((name, k, to, "corrupt@%s" % offs))
            full = prefix_script(cfg, seed, trace, n) + " ; app c 61 ; step c2s ; app s 62 ; step s2c"
            fullnd = prefix_script(cfg, seed, trace, n)        # established, no application data received yet: flight resends still possible
            for side in ("c", "s"):
                other = "s" if side == "c" else "c"; din = "c2s" if side == "s" else "s2c"
                stt = states[n][side] if n < len(states) else None
                xe, lr = (stt["xe"], stt["lr"]) if stt else (1, 0)
                for (fb, tag, lrx) in ((full, "est", lr + 1), (fullnd, "est0", lr)):      # (est: one data record has been received since the handshake)
                    atk = {a[0]: a for a in sesslib.dtls_attacker_records(cfg, xe, lrx, True)}
                    for kn in DTLS_KILLERS + DTLS_DROPPED:
                        if kn not in atk:
                            continue
                        an, raw, d = atk[kn]
                        i = len(scripts)
                        scripts.append(fb + " ; app %s 63 ; save %s 4 ; inj %s %s ; resend %s ; step %s ; replay %s 4 ; app %s 64 ; resend %s ; st" % (
                            other, din, side, raw.hex(), side, din, side, side, side))
                        inj_desc[i] = [d, None]; meta.append((name, n, side, tag + ":" + ("dropped:" if kn in DTLS_DROPPED else "") + kn))
                i = len(scripts)
                scripts.append(full + " ; app %s 63 ; save %s 4 ; xor %s LAST 80 ; step %s ; replay %s 4 ; app %s 64 ; app %s 65 ; step %s ; st" % (other, din, din, din, side, side, other, din))
                inj_desc[i] = [None]; meta.append((name, n, side, "est:corrupt"))
                # a misbehaving authenticated peer (a late ChangeCipherSpec is legal under DTLS - retransmitted flights - and ignored)
                for (rt, ht, body, nm, must_die) in ((22, 0, "-", "HelloRequest", side == "s"), (22, 1, "0303" + "00" * 32 + "00", "ClientHello", side == "c"),
                                                     (22, 20, "00" * 12, "Finished", True), (22, 14, "-", "ServerHelloDone", True), (22, 11, "000000", "Certificate", True),
                                                     (21, 0, "0228", "fatal-alert-handshake_failure", True), (21, 0, "0264", "fatal-alert-no_renegotiation", True),
                                                     (21, 0, "025a", "fatal-alert-user_canceled", True), (21, 0, "0100", "close_notify", True)):
                    for fb in (full, fullnd):
                        i = len(scripts)
                        scripts.append(fb + " ; forge %s %d %d %s ; step %s ; resend %s ; step %s 3 ; app %s 6869 ; step %s ; app %s 6a ; resend %s ; st" % (
                            other, rt, ht, body, din, side, "s2c" if din == "c2s" else "c2s", other, din, side, side))
                        meta.append((name, n, side, "illegal:%s:%s" % (nm, "must-die" if must_die else "may-refuse")))
                i = len(scripts)
                scripts.append(full + " ; closure %s ; step %s ; app %s 66 ; app %s 67 ; step %s ; resend %s ; st" % (other, din, side, other, din, side))
                meta.append((name, n, side, "est:close_notify"))
    return scripts, inj_desc, meta


def load_corpus(scripts, inj_desc, meta):
    """corpus/C15/*.case: one script per line (`#` comments); kept defect witnesses, always run"""
    import os, glob
    for f in sorted(glob.glob(os.path.join(vlib.VERIF, "corpus", "C15", "*.case"))):
        for line in open(f):
            line = line.strip()
            if not line or line.startswith("#"):
                continue
            desc = None
            if " ## " in line:
                line, dj = line.split(" ## ", 1); desc = json.loads(dj)
            i = len(scripts)
            scripts.append(line.strip())
            if desc is not None:
                inj_desc[i] = desc
            meta.append(("corpus", 0, "-", "corpus:" + os.path.basename(f)))


def build(ck, sr, cfgs, seeds):
    scripts, inj_desc, meta = [], {}, []
    for name in cfgs:
        cfg = CONFIGS[name]
        atk = {a[0]: a for a in attacker_records(cfg)}
        for seed in seeds:
            trace, _ = sr.legal_trace(cfg, seed)
            if not trace:
                continue
            n = len(trace)
            if "smaxed" in cfg:
                # a TLS 1.3 server rejecting 0-RTT tolerates undecryptable records only up to its configured limit; beyond it the
                # session must die like after any other decryption failure
                pump = "".join(" ; step c2s 9 ; step s2c 9" for _ in range(4))
                for sizes in ((600,), (600, 300), (600, 600), (999, 1), (999, 1, 1), (1000, 600), (400, 400, 400), (1,) * 6):
                    i = len(scripts)
                    scripts.append(sesslib.newcmd(cfg, seed) + "".join(" ; app c %s" % ("%02x" % (0x41 + j) * sz) for j, sz in enumerate(sizes)) + pump
                                   + " ; app c 6c61746572 ; step c2s 9 ; app s 7265706c79 ; step s2c 9 ; st")
                    meta.append((name, 0, "s", "earlydata:" + "+".join(str(x) for x in sizes)))
            # points of a session's life: every handshake prefix, plus established with data flowing
            for k in range(n + 1):
                base = prefix_script(cfg, seed, trace, k)
                rest = trace[k:]
                for side in ("c", "s"):
                    cont_steps = "".join(" ; step %s" % d for d in rest[:3])
                    other = "s" if side == "c" else "c"
                    for kn in KILLERS:
                        an, raw, d = atk[kn]
                        for cont, cdesc in ((cont_steps + " ; app %s 6869 ; app %s 6869 ; step %s ; step %s" % (other, side, "c2s" if side == "s" else "s2c", "c2s" if side == "s" else "s2c"), []),
                                            (" ; inj %s %s ; closure %s ; inj %s %s" % (side, atk["garbage_sealed"][1].hex(), side, side, atk["plain_app"][1].hex()),
                                             [atk["garbage_sealed"][2], atk["plain_app"][2]])):
                            i = len(scripts)
                            scripts.append(base + " ; inj %s %s" % (side, raw.hex()) + cont + " ; st")
                            inj_desc[i] = [d] + cdesc; meta.append((name, k, side, kn))
                # the network (or an attacker) shows an EARLIER genuine record again at this point of the handshake: in TLS every repeated
                # record is illegal (a repeated handshake message, or a sealed record whose sequence number has moved on) and must kill
                if k >= 1 and "smaxed" not in cfg and "psk=1" not in cfg:
                    for j in range(k):
                        dj = trace[j]; toj = "s" if dj == "c2s" else "c"
                        i = len(scripts)
                        scripts.append(prefix_script(cfg, seed, trace, j) + " ; save %s 1" % dj + "".join(" ; step %s" % d for d in trace[j:k])
                                       + " ; replay %s 1" % toj + "".join(" ; step %s" % d for d in rest) + " ; app c 6869 ; step c2s ; app s 6a6b ; step s2c ; st")
                        inj_desc[i] = [None]; meta.append((name, k, toj, "replay-earlier:%d" % j))
                # corrupt the next genuine record (first payload byte and last byte), then offer the original again
                if k < n and "psk=1" not in cfg:   # (a server skipping rejected 0-RTT also skips a corrupted record and accepts its original later: by design)
                    d0 = trace[k]; to = "s" if d0 == "c2s" else "c"
                    for off in (5, -1):
                        i = len(scripts)
                        offs = "5" if off == 5 else "LAST"
                        scripts.append(base + " ; save %s 3 ; xor %s %s 01 ; step %s ; replay %s 3 ; app %s 6869 ; st" % (d0, d0, offs, d0, to, to)
                                       + "".join(" ; step %s" % d for d in rest[1:3]))
                        inj_desc[i] = [None]; meta.append((name, k, to, "corrupt@%s" % offs))
            # established session: data, then each killing event, then valid data from the peer and a replayed data record
            full = prefix_script(cfg, seed, trace, n) + " ; app c 61 ; step c2s ; app s 62 ; step s2c"
            for side in ("c", "s"):
                other = "s" if side == "c" else "c"; din = "c2s" if side == "s" else "s2c"
                for kn in KILLERS:
                    an, raw, d = atk[kn]
                    i = len(scripts)
                    scripts.append(full + " ; app %s 63 ; save %s 4 ; inj %s %s ; step %s ; replay %s 4 ; app %s 64 ; st" % (other, din, side, raw.hex(), din, side, side))
                    inj_desc[i] = [d, None]; meta.append((name, n, side, "est:" + kn))
                # corrupted data record, then its original
                i = len(scripts)
                scripts.append(full + " ; app %s 63 ; save %s 4 ; xor %s LAST 80 ; step %s ; replay %s 4 ; app %s 64 ; app %s 65 ; step %s ; st" % (other, din, din, din, side, side, other, din))
                inj_desc[i] = [None]; meta.append((name, n, side, "est:corrupt"))
                # a misbehaving authenticated peer: correctly protected but illegal messages on an established session
                for (rt, ht, body, nm, must_die) in ((22, 0, "-", "HelloRequest", side == "s"),          # only servers send it
                                                     (22, 1, "0303" + "00" * 32 + "00", "ClientHello", side == "c"),   # only clients send it
                                                     (22, 20, "00" * 12, "Finished", True), (22, 14, "-", "ServerHelloDone", True),
                                                     (22, 11, "000000", "Certificate", True), (20, 0, "01", "ChangeCipherSpec", True),
                                                     # alerts the authenticated peer may send: every fatal one and close_notify end the session
                                                     (21, 0, "0228", "fatal-alert-handshake_failure", True), (21, 0, "0264", "fatal-alert-no_renegotiation", True),
                                                     (21, 0, "025a", "fatal-alert-user_canceled", True), (21, 0, "0100", "close_notify", True)):
                    if "cv=4" in cfg and rt == 20:
                        continue        # TLS 1.3 ignores CCS records by design
                    i = len(scripts)
                    scripts.append(full + " ; forge %s %d %d %s ; step %s ; step %s 3 ; app %s 6869 ; step %s ; app %s 6a ; st" % (
                        other, rt, ht, body, din, "s2c" if din == "c2s" else "c2s", other, din, side))
                    meta.append((name, n, side, "illegal:%s:%s" % (nm, "must-die" if must_die else "may-refuse")))
                # orderly closure from the peer, then more data
                i = len(scripts)
                scripts.append(full + " ; closure %s ; step %s ; app %s 66 ; app %s 67 ; step %s ; st" % (other, din, side, other, din))
                meta.append((name, n, side, "est:close_notify"))
                # the killing record arrives while the application still has unsent data queued in the out buffer: the fatal alert is
                # appended behind it, and flushing must still end in a close request
                for kn in ("garbage_sealed", "bad_type", "plain_app", "bad_len_big"):
                    an, raw, d = atk[kn]
                    i = len(scripts)
                    scripts.append(full + " ; appq %s 717565756564 ; inj %s %s ; app %s 6869 ; st" % (side, side, raw.hex(), side))
                    inj_desc[i] = [d]; meta.append((name, n, side, "queued-output:" + kn))
    return scripts, inj_desc, meta


def fix_xor_last(scripts, sr):
    """resolve LAST offsets: needs the record length, obtained from a dry run up to the save"""
    need = [i for i, s in enumerate(scripts) if " LAST " in s]
    if not need:
        return scripts
    dry = [scripts[i].split(" ; xor ")[0] for i in need]
    outs = sr.run(dry)
    for i, o in zip(need, outs):
        m = sesslib.re.findall(r"save:(\d+)", o)
        ln = int(m[-1]) if m else 6
        scripts[i] = scripts[i].replace(" LAST ", " %d " % (ln - 1))
    return scripts


def run(ck):
    ck.trusted += ["Coq 8.16.1 kernel", "tools/srcgen translators (consts.c, gen_defines.py)",
                   "extraction (ExtrOcamlBasic only) + ocaml/drv_sess.ml; harness/h_sess.c + sess.h",
                   "modelled, not verified: record-layer control flow of matrixSslDecode* and the encode gates (coq/Sess/SessModel.v), compared step by step with the library on every run; handshake processing is an oracle"]
    ck.assumptions += ["DTLS reading of C15: DTLS drops records of another epoch and replayed sequence numbers WITHOUT decrypting them (RFC 6347 4.1.2.1 / 4.1.2.6), "
                       "silently or with a retransmission request. Such a discard is not 'an error the session hit': no alert is sent or received and no error is "
                       "reported, so the session may live on (theorem c15_dtls_not_accepted_dropped: the drop changes nothing but the expected epoch; checked on the "
                       "implementation: flags and ssl->err unchanged). Once a DTLS session HAS sent or received a fatal alert, flagged an error or received close_notify it "
                       "must stay dead exactly as in TLS - including the DTLS-only way of encrypting: matrixDtlsGetOutdata's flight retransmission",
                       "DTLS: a record that is taken to decryption and fails is fatal in MatrixSSL (RFC 6347 4.1.2.7 would allow discarding it): modelled and checked as fatal",
                       "the harness follows a DTLS retransmission request / timeout only on flight boundaries (sess.h dtls_resend_safe: the states in which canResend allows "
                       "a rebuild since /repo eb793e2; before that repair a rebuild in other states dereferenced NULL or used the freed flight list)"]
    ck.build_repo()
    ck.regen([("consts.sh",), ("gen_defines.py",)])
    ck.coq_properties()
    sr = sesslib.SessRun(ck)
    cfgs = ["tls12", "tls13", "tls12_cbc", "tls13_cauth", "tls12_resumed_id", "tls13_extpsk"] if ck.tier == "quick" else list(CONFIGS)
    seeds = [ck.seed] if ck.tier == "quick" else [ck.seed, ck.seed + 1]
    scripts, inj_desc, meta = build(ck, sr, cfgs, seeds)
    dcfgs = ["dtls12", "dtls12_cbc", "dtls12_cauth", "dtls12_resumed_id", "dtls10"] if ck.tier == "quick" else list(DTLS_CONFIGS)
    ntls = len(scripts)
    build_dtls(ck, sr, dcfgs, seeds[:1] if ck.tier == "quick" else seeds, scripts, inj_desc, meta)
    load_corpus(scripts, inj_desc, meta)
    ck.cov["dtls_scenarios"] = len(scripts) - ntls
    scripts = fix_xor_last(scripts, sr)
    outs = sr.run(scripts)
    import C01
    C01.fill_replay_desc(scripts, outs, inj_desc)
    # multi-inj scripts with a replay slot in second position
    for si, dl in list(inj_desc.items()):
        if len(dl) == 2 and dl[1] is None:
            tmp = {si: [None]}
            C01.fill_replay_desc(scripts, outs, tmp)
            inj_desc[si] = [dl[0]] + (tmp[si] if tmp[si] else [])
    back = sesslib.analyse(ck, sr, scripts, outs, "session machine after fatal events: decode(model) vs matrixSslReceivedData(impl)", inj_desc)
    ck.rules.append("DTLS 1.2 (GCM, CBC, client auth, resumed) and DTLS 1.0: 12 killing records (expected epoch, fresh sequence number; incl. fatal alerts of two descriptions and a truncated datagram) and 10 "
                    "records DTLS drops unread (epoch 0 / next epoch / replayed sequence number) at every handshake prefix x both sides and in the established state "
                    "(before and after application data), each followed by the TLS continuations plus the application's retransmission timeout "
                    "(matrixDtlsGetOutdata with nothing pending) and the valid next records; corruption of each genuine record at first payload / last byte; "
                    "correctly protected illegal messages, fatal alert and close_notify from the peer, each followed by a timeout")
    ck.rules.append("killing events (11 attacker records incl. fatal alerts of two descriptions, corruption of each genuine record at first/last byte, peer closure) at every handshake prefix and in the "
                    "established state, each followed by continuations (valid next records, original of the corrupted record, garbage, app send both ways, closure); "
                    "non-trivial = step not refused by the dead-session guard")
    # ---- Impl vs Spec, per script and per side: after death nothing is delivered, nothing is sealed, receives fail
    for si, out in enumerate(outs):
        if meta[si][3].startswith("illegal:") and meta[si][3].endswith("must-die"):
            x = meta[si][2]
            segs = out.split(" | ")
            k = max(i for i, sg in enumerate(segs) if sg.strip().startswith("forge:"))
            later = " | ".join(segs[k + 2:])            # after the delivery of the forged record
            got = [a for st in parse_steps(later) if st.side == x for a in st.appdata]
            sent = sesslib.re.search(r"app:%s pre=\S+ rc=OK" % x, later)
            if got or sent:
                ck.spec_violation("illegal-message-survived:%s:%s" % (meta[si][3].split(":")[1], "v13" if "cv=4" in scripts[si] else "v12"),
                                  "a correctly protected but illegal %s left the %s session usable (delivered %s, send accepted: %s)" % (
                                      meta[si][3].split(":")[1], "server" if x == "s" else "client", got, bool(sent)),
                                  {"harness": "h_sess", "script": scripts[si], "observed": out[-900:], "scenario": meta[si]})
            else:
                ck.count("illegal_message_killed_session")
        if meta[si][3].startswith("replay-earlier:"):
            x = meta[si][2]
            segs = out.split(" | ")
            ks = [i for i, sg in enumerate(segs) if sg.strip().startswith("replay:")]
            if ks:
                rst = parse_steps(segs[ks[-1]])
                later = " | ".join(segs[ks[-1] + 1:])
                got = [a for st in parse_steps(later) if st.side == x for a in st.appdata]
                fin = sesslib.re.search(r"st:c=(\S+) s=(\S+)$", out.strip())
                snap = sesslib.parse_snap(fin.group(1 if x == "c" else 2)) if fin else None
                alive = snap is not None and not (snap["E"] or snap["C"])
                if rst and rst[0].post and (alive or got):
                    ck.spec_violation("replayed-record-survived:%s:hs%d" % ("v13" if rst[0].pre["v"] else "v12", rst[0].pre["hs"]),
                                      "an earlier genuine record shown again to the %s in hsState %d did not end the session (flagged: %s, delivered afterwards: %s)" % (
                                          "server" if x == "s" else "client", rst[0].pre["hs"], not alive, got),
                                      {"harness": "h_sess", "script": scripts[si], "observed": out[-900:], "scenario": meta[si]})
                else:
                    ck.count("replayed_earlier_record_killed_session")
        if meta[si][3].startswith("earlydata:") and "psk=1" in scripts[si]:
            sizes = [int(x) for x in meta[si][3].split(":")[1].split("+")]
            limit = int(sesslib.re.search(r"smaxed=(\d+)", scripts[si]).group(1))
            allsteps = [st for sg in out.split(" | ") for st in parse_steps(sg)]
            srv_done = any(st.side == "s" and st.post and st.post["done"] for st in allsteps)
            srv_data = [a for st in allsteps if st.side == "s" for a in st.appdata]
            if sum(sizes) > limit and (srv_done or srv_data):
                ck.spec_violation("early-data-skip-over-limit:%d>%d" % (sum(sizes), limit),
                                  "a TLS 1.3 server rejecting early data skipped %d bytes of undecryptable records (limit %d) and the session survived" % (sum(sizes), limit),
                                  {"harness": "h_sess", "script": scripts[si][:300] + " ...", "observed": out[-700:], "scenario": meta[si]})
            elif sum(sizes) <= limit and not srv_done:
                ck.spec_violation("early-data-skip-under-limit-failed:%d<=%d" % (sum(sizes), limit),
                                  "a TLS 1.3 server rejecting early data did not complete although only %d bytes (limit %d) had to be skipped" % (sum(sizes), limit),
                                  {"harness": "h_sess", "script": scripts[si][:300] + " ...", "observed": out[-700:], "scenario": meta[si]})
            else:
                ck.count("early_data_limit_respected")
        dead = {"c": None, "s": None}
        segs = out.split(" | ")
        cmds = scripts[si].split(" ; ")
        for ci, seg in enumerate(segs):
            for st in parse_steps(seg):
                if st.pre is None or st.post is None:
                    continue
                x = st.side
                if dead[x]:
                    if st.appdata:
                        ck.spec_violation("deliver-after-%s:v%d" % (dead[x], st.pre["v"]), "application data delivered after the session had %s" % dead[x],
                                          {"harness": "h_sess", "script": scripts[si], "observed": out[-800:], "scenario": meta[si]})
                    elif not st.errs:
                        ck.spec_violation("no-error-after-%s:v%d" % (dead[x], st.pre["v"]), "receive call on a dead session (%s) did not report an error: %s" % (dead[x], st.body[:120]),
                                          {"harness": "h_sess", "script": scripts[si], "observed": out[-800:], "scenario": meta[si]})
                    else:
                        ck.count("refused_after_death")
                # DTLS: a record dropped silently (no alert either way, no error reported) must not have flagged the session
                if st.pre["dt"] and not dead[x] and not st.alerts_in and not st.errs and st.post["err"] == st.pre["err"] and not st.appdata:
                    if (st.post["E"], st.post["C"]) != (st.pre["E"], st.pre["C"]):
                        ck.spec_violation("dtls-silent-discard-flagged:hs%d" % st.pre["hs"], "a DTLS record that produced neither an alert nor an error left the session flagged",
                                          {"harness": "h_sess", "script": scripts[si], "observed": st.body, "scenario": meta[si]})
                    elif st.kind != "step":
                        ck.count("dtls_injected_record_without_effect_on_flags")
                # does this step kill side x?
                ob = st.observed() or ""
                # a fatal alert going out: ssl->err is set (warning alerts such as the no_renegotiation refusal clear it again)
                fatal_out = ob.startswith("AlertOut")
                fatal_in = any((st.pre["v"] == 1 and d != 0) or l == 2 for l, d in st.alerts_in)
                close_in = any(d == 0 for l, d in st.alerts_in)
                if fatal_out and not st.pre["dt"] and "out=[" in st.body and "[sent:CLOSE]" not in st.body and not st.errs:
                    ck.spec_violation("no-close-request-after-fatal-alert:v%d:%s" % (st.pre["v"], meta[si][3].split(":")[0]),
                                      "a fatal alert was sent (%s) but flushing the output did not end in MATRIXSSL_REQUEST_CLOSE: %s" % (ob, st.body[:160]),
                                      {"harness": "h_sess", "script": scripts[si], "observed": out[-800:], "scenario": meta[si]})
                elif fatal_out and "[sent:CLOSE]" in st.body:
                    ck.count("close_requested_after_fatal_alert")
                if (fatal_out or fatal_in or (st.errs and not st.appdata)) and not dead[x]:
                    dead[x] = "sent a fatal alert" if fatal_out else ("received a fatal alert" if fatal_in else "hit an error")
                    if not (st.post["E"] or st.post["C"]):
                        ck.spec_violation("not-flagged:v%d:%s" % (st.pre["v"], ob.split(":")[0]), "session not flagged after it %s (%s)" % (dead[x], ob),
                                          {"harness": "h_sess", "script": scripts[si], "observed": out[-800:], "scenario": meta[si]})
                elif close_in and not dead[x]:
                    dead[x] = "received close_notify"
                # the peer's view: whoever sent a fatal-level alert (as decoded by the receiver) must be dead too
                y = "s" if x == "c" else "c"
                # (not when the alert was sealed by the harness on the peer's behalf - `forge`: the peer's library never sent it)
                forged = ci > 0 and ci - 1 < len(cmds) and cmds[ci - 1].startswith("forge ")
                if fatal_in and st.kind == "step" and not dead[y] and not forged:
                    dead[y] = "sent a fatal alert"
            for r in sesslib.parse_resends(seg):
                # DTLS: the application's retransmission timeout on a dead session must not put anything but the pending alert on the wire
                x = r["side"]
                emitted = [t for t in r["recs"] if t[0] != 21]
                if dead[x] and (emitted or "HSDONE" in r["body"]):
                    ck.spec_violation("dtls-flight-resent-after-%s:hs%d" % (dead[x].replace(" ", "-"), r["pre"]["hs"]),
                                      "matrixDtlsGetOutdata encoded and handed out the last handshake flight again (records %s%s) after the session had %s" % (
                                          emitted, ", matrixDtlsSentData reported HANDSHAKE_COMPLETE" if "HSDONE" in r["body"] else "", dead[x]),
                                      {"harness": "h_sess", "script": scripts[si], "observed": out[-900:], "scenario": meta[si]})
                elif dead[x]:
                    ck.count("dtls_resend_refused_after_death" if "[getout:E" in r["body"] else "dtls_resend_nothing_after_death")
                elif emitted:
                    ck.count("dtls_resend_on_live_session")
            m = sesslib.re.match(r"app:([cs]) pre=(\S+) rc=(\S+)", seg)
            if m:
                x, ok = m.group(1), m.group(3) == "OK"
                if dead[x] and ok:
                    ck.spec_violation("seal-after-%s" % dead[x], "application data encrypted after the session had %s" % dead[x],
                                      {"harness": "h_sess", "script": scripts[si], "observed": out[-800:], "scenario": meta[si]})
                elif dead[x]:
                    ck.count("send_refused_after_death")
    ck.cov["scenarios"] = len(scripts)
    ck.cov["exhaustive"] = False


def replay(ck, path):
    rp = json.load(open(path))["replay"]
    sr = sesslib.SessRun(ck)
    out = sr.run([rp["script"]])
    print("script:", rp["script"]); print("observed now:", out[0] if out else None)
