"""C09 - credential and PKI parsers are memory-safe and total on arbitrary bytes (PARTIAL claim).

Theorems: coq/Properties/Properties_C09.v over coq/Asn/AsnModel.v (ASN.1 primitives of asn1.c,
parseGeneralNames, psX509GetDNAttributes, psBase64decode, PEM framing incl. the Proc-Type / DEK-Info headers of encrypted PEM), for ALL byte strings.
Tie: harness/h_asn.c (AddressSanitizer+UBSan build AND plain build of /repo's working tree) and the
extracted model ocaml/drv_c09.ml on the same structure-aware cases; a model `Fault` must coincide
with a sanitizer abort of the library (result line FAULT) and vice versa.
Exploration only (no theorem): the whole parsers psX509ParseCert/CertData, psX509ParseCRL,
psOcspParseResponse, psPkcs8ParsePrivBin, psPkcs12ParseMem, psPkcs3ParseDhParamBin,
psParseUnknownPubKeyMem/PrivKeyMem, matrixSslLoadKeysMem / LoadRsaKeysMem / LoadEcKeysMem (own, foreign and
mismatched certificate/key pairs, chains, CA bundles), the file-based encrypted-key entry points, on ASN.1-aware mutations of every sample
credential under /repo/testkeys, under the sanitizers, with an object-consistency walker.
"""
import json, os, re, sys, threading, time
import vlib
sys.path.insert(0, os.path.join(vlib.VERIF, "tools"))
import der

WRAPS = ["malloc", "calloc", "realloc", "free", "psGetBrokenDownGMTime", "psDes3Init", "psAesInitCBC"]
ASAN_ENV = dict(os.environ, ASAN_OPTIONS="detect_leaks=0:allocator_may_return_null=1:abort_on_error=0:symbolize=1",
                UBSAN_OPTIONS="print_stacktrace=0:halt_on_error=1")
EXPLORED_ONLY = [
    "psX509ParseCert / parse_single_cert outer length bookkeeping (x509.c 680-1440)", "getExplicitExtensions and every extension body parser except subjectAltName GeneralNames (x509.c 3200-4880)",
    "psX509ParseCertData / psPemCertBufToList callers", "psOcspParseResponse / ocspParseBasicResponse (x509.c 6231-6990)",
    "psPkcs8ParsePrivBin, PBES2 / PKCS#5 decryption (pkcs.c)", "psPkcs12ParseMem (pkcs.c)", "psPkcs3ParseDhParamBin (dh_params.c)",
    "psRsaParsePkcs1PrivKey, psRsaParseAsnPubKey, psEccParsePrivKey, getEcPubKey, psEd25519 parsers (pubkey/*_parse_mem.c)",
    "psParseUnknownPubKeyMem / psParseUnknownPrivKeyMem / psRsaParsePubKeyMem (DER and PEM forms)", "psX509ParseCRL outside its revoked-entry loop (the loop IS modelled: crl_revoked), CRL cache management (psCRL_Insert/Update/Remove/RemoveAll/DeleteAll)", "matrixSslLoadKeysMem / matrixSslLoadRsaKeysMem / matrixSslLoadEcKeysMem identity and trust-anchor loading (matrixsslKeys.c): scenario runs, no model",
    "PBKDF1 key derivation and 3DES/AES decryption of an encrypted PEM body (the header / IV / framing part IS modelled: pem_decode_pw)", "psPkcs1ParsePrivFile / psPkcs1DecodePrivFile / psPemFileToDer (file entry points)",
    "psParseBuf readers (core/src/psbuf.c) - not modelled, reached only through the parsers above",
    "time/validity parsers (getTimeValidity, psBrokenDownTimeImport)", "OID database lookup (checkAsnOidDatabase): *oi is not compared", "allocation failure paths (C19)",
]


# ------------------------------------------------------------------------------------------- running with faults
def run_faulting(ck, exe, cases, env=None, label=""):
    """Feed cases; when the process dies (sanitizer abort / signal) before answering case k, record
    FAULT <summary> for k and restart after it.  Returns (outputs, [(index, summary)])."""
    out, faults, i, restarts = [], [], 0, 0
    while i < len(cases):
        chunk = cases[i:]
        rc, so, e = vlib.sh([exe], inp="\n".join(chunk) + "\n", timeout=1800, env=env)
        o = so.split("\n")
        o = o[:-1]                      # drop the text after the last newline (empty, or a partial line of the dying case)
        if len(o) > len(chunk):
            o = o[:len(chunk)]
        # a partial last line (no newline) cannot occur: the harness prints whole lines and flushes
        out += o
        i += len(o)
        if i < len(cases):
            m = re.search(r"SUMMARY: \w+Sanitizer: (\S+) (\S+?)(?::\d+)* in (\S+)", e)
            m2 = re.search(r"([\w./]+):(\d+):\d+: runtime error: ([^\n]*)", e)
            if "VERIF-TIMEOUT" in e:
                summ = "timeout"
            elif m:
                summ = "%s:%s:%s" % (m.group(1), os.path.basename(m.group(2)), m.group(3))
            elif m2:
                summ = "ubsan:%s:%s" % (os.path.basename(m2.group(1)), re.sub(r"\d+", "N", m2.group(3))[:60].replace(" ", "_"))
            else:
                summ = "died:rc=%d:%s" % (rc, (e.strip().split("\n") or [""])[-1][:80].replace(" ", "_"))
            faults.append((i, summ))
            out.append("FAULT " + summ)
            i += 1
            restarts += 1
            if restarts > 400:
                ck.notes.append("%s: more than 400 faulting cases; remaining %d cases not run" % (label, len(cases) - i))
                out += ["NOTRUN"] * (len(cases) - i)
                break
    return out, faults


def hx(b):
    return bytes(b).hex() if b else "-"


# ------------------------------------------------------------------------------------------- generators: primitives
LENVALS = [0, 1, 2, 3, 4, 5, 0x7E, 0x7F, 0x80, 0x81, 0xFF, 0x100, 0x101, 0x7FFF, 0x8000, 0xFFFE, 0xFFFF, 0x10000, 0x10005,
           0xFFFFFF, 0x1000000, 0x7FFFFFFF, 0x80000000, 0xFFFFFFFF]

def len_encodings(n):
    """(label, bytes) encodings of length n: minimal, every long form 1..5 (leading zeros), short-form-forced"""
    out = [("min", der.enc_len(n))]
    for k in (1, 2, 3, 4, 5):
        if n < (1 << (8 * k)):
            out.append(("long%d" % k, der.enc_len(n, k)))
    return out

def gen_prims(ck, r, budget):
    cases = []
    def add(c, kind):
        cases.append(c); ck.count("prim:" + kind)
    # 1. every boundary length x every encoding x content present = n-1, n, n+1 (small n) / short content (huge n)
    big_done = 0
    for n in LENVALS:
        for lab, enc in len_encodings(n):
            if n <= 0x101:
                bodies = [max(0, n - 1), n, n + 1]
            elif n in (0xFFFF, 0x10000, 0x10005) and lab in ("min", "long4"):
                bodies = [n - 1, n, n + 3]
            else:
                bodies = [0, 3]
            for bl in bodies:
                body = bytes((i * 7 + 1) & 0xFF for i in range(bl))
                for indef in (0, 1):
                    add("len32 %d %s" % (indef, hx(enc + body)), "len32")
                add("len16 %s" % hx(enc + body), "len16")
                if bl <= 0x102 or big_done < 8:
                    big_done += (bl > 0x102)
                    for tag, ops in ((0x30, ("seq32", "seq16")), (0x31, ("set32", "set16"))):
                        add("%s 0 %s" % (ops[0], hx(bytes([tag]) + enc + body)), ops[0])
                        add("%s 1 %s" % (ops[0], hx(bytes([tag]) + enc + body)), ops[0])
                        add("%s %s" % (ops[1], hx(bytes([tag]) + enc + body)), ops[1])
    # indefinite, reserved 0xFF, more than 4 length bytes, truncated length bytes
    for enc in (b"\x80", b"\x85\x00\x00\x00\x00\x01", b"\x88" + bytes(8), b"\xff", b"\x84\x00\x00", b"\x82\x01", b"\x81", b"\x84\x80\x00\x00\x00",
                b"\x84\xff\xff\xff\xff", b"\x83\xff\xff\xff", b"\x84\x00\x00\x00\x00", b"\x81\x00", b"\x82\x00\x00"):
        for tail in (b"", b"\x00", b"\x01\x02\x03"):
            for indef in (0, 1):
                add("len32 %d %s" % (indef, hx(enc + tail)), "len32-odd")
                add("seq32 %d %s" % (indef, hx(b"\x30" + enc + tail)), "seq32-odd")
                add("set32 %d %s" % (indef, hx(b"\x31" + enc + tail)), "set32-odd")
            add("len16 %s" % hx(enc + tail), "len16-odd")
    for b in (b"", b"\x30", b"\x31", b"\x10\x00", b"\x11\x00", b"\x30\x00", b"\x31\x00", b"\x30\x01", b"\x31\x01\x00", b"\x30\x81", b"\x30\x03\x02\x01\x00"):
        for op in ("seq32 0", "seq32 1", "set32 0", "set32 1", "seq16", "set16", "len32 0", "len32 1", "len16"):
            add("%s %s" % (op, hx(b)), "tiny")
    # 2. integers / enumerated: lengths 0..6, sign bits, with and without following bytes, truncated
    for tag in (2, 10, 3):
        for vl in range(0, 7):
            for first in (0x00, 0x01, 0x7F, 0x80, 0xFF):
                val = bytes([first] + [(0xA5 + i) & 0xFF for i in range(max(0, vl - 1))])[:vl]
                for enc in (der.enc_len(vl), der.enc_len(vl, 1), der.enc_len(vl, 4)):
                    full = bytes([tag]) + enc + val
                    for cut in (len(full), len(full) - 1):
                        for tail in (b"", b"\x80", b"\x05\x00"):
                            if cut < 0: continue
                            b = full[:cut] + (tail if cut == len(full) else b"")
                            add("int %s" % hx(b), "int")
                            add("enum %s" % hx(b), "enum")
    # 3. OID / AlgorithmIdentifier
    oids = [der.oid_body(x) for x in ("1.2.840.113549.1.1.11", "1.2.840.113549.1.1.1", "1.2.840.10045.2.1", "2.5.4.3", "1.3.101.112", "2.5.29.17")] + \
           [b"", b"\x55", b"\x55\x04", bytes(range(1, 40)), b"\xff" * 9]
    for ob in oids:
        for params in (b"", b"\x05\x00", b"\x05", b"\x05\x01\x00", b"\x30\x00", b"\x06\x08\x2a\x86\x48\xce\x3d\x03\x01\x07", b"\x00", b"\x05\x00\x05\x00"):
            for form in (None, 1, 2):
                o = der.tlv(6, ob, form)
                for chk in (0, 1):
                    add("oid %d %s" % (chk, hx(o + params)), "oid")
                    if len(o) > 1:
                        add("oid %d %s" % (chk, hx(o[:-1])), "oid-trunc")
                for sform in (None, 1, 4):
                    a = der.tlv(0x30, o + params, sform)
                    add("algid %s" % hx(a), "algid")
                    add("algid %s" % hx(a + b"\x03\x02\x00\x01"), "algid")
                    add("algid %s" % hx(a[:-1]), "algid-trunc")
                    add("algid %s" % hx(der.tlv(0x30, o + params, sform, length=len(o + params) + 1)), "algid-len+1")
                    add("algid %s" % hx(der.tlv(0x30, o + params, sform, length=max(0, len(o + params) - 1))), "algid-len-1")
    # 4. getAsnTagLenUnsafe: header forms, truncated at every position
    for n in (0, 1, 0x7F, 0x80, 0xFF, 0x100, 0xFFFF, 0x10000, 0xFFFFFF, 0x1000000):
        for lab, enc in len_encodings(n) + [("indef", b"\x80")]:
            for tag in (0x30, 0x04, 0x00):
                h = bytes([tag]) + enc
                for cut in range(0, len(h) + 1):
                    add("taglen %s" % hx(h[:cut]), "taglen")
                add("taglen %s" % hx(h + b"\x00" * 4), "taglen")
    # 5. every prefix of well-formed nested structures and random byte strings
    nest = der.seq(der.seq(der.oid("1.2.840.113549.1.1.11"), der.null()), der.set_(der.seq(der.oid("2.5.4.3"), der.utf8("x"))), der.integer(-129), der.tlv(10, b"\x02"))
    for cut in range(len(nest) + 1):
        b = nest[:cut]
        for op in ("seq32 0", "seq16", "algid", "len32 1"):
            add("%s %s" % (op, hx(b)), "prefix")
    while len(cases) < budget:
        n = r.choice([1, 2, 3, 4, 5, 6, 8, 12, 20])
        b = bytes(r.choice([0, 1, 2, 3, 4, 5, 6, 10, 0x30, 0x31, 0x7F, 0x80, 0x81, 0x82, 0x83, 0x84, 0x85, 0xA0, 0xFF, r.randrange(256)]) for _ in range(n))
        op = r.choice(["len32 0", "len32 1", "len16", "seq32 0", "seq32 1", "seq16", "set32 0", "set32 1", "set16", "int", "enum", "oid 0", "oid 1", "algid", "taglen"])
        add("%s %s" % (op, hx(b)), "random")
    return cases


# ------------------------------------------------------------------------------------------- generators: integer-width boundaries
# Every length-consuming routine gets lengths on both sides of each width / table-size boundary the C code
# crosses (unsigned char 2^8, psSize_t 2^16, MAX_OID_BYTES - 2 = 30 and the same values + 256, + 512 as seen
# through a truncated octet), with that many octets ACTUALLY PRESENT.
W8 = sorted(set(list(range(0, 36)) + list(range(250, 292)) + list(range(508, 546)) + [767, 768, 769, 798, 799, 1023, 1024, 1054, 1055]))
W16 = [65534, 65535, 65536, 65537, 65536 + 29, 65536 + 30, 65536 + 31, 65536 + 255, 65536 + 256]

def oid_octets(n, bad_last=False):
    b = (b"\x2a\x86\x48" + b"\x03" * n)[:n]
    if n and bad_last: b = b[:-1] + b"\x83"
    return b

def gen_widths(ck, r):
    cases = []
    def add(c, kind):
        cases.append(c); ck.count("width:" + kind)
    # asnCopyOid directly: derlen 0..600 and around 2^16, content present (and one octet short), guarded 32-byte output
    for n in list(range(0, 601)) + W16:
        add("oidcopy %d %s" % (n, hx(oid_octets(n))), "oidcopy")
        if n in W8 or n in W16:
            add("oidcopy %d %s" % (n, hx(oid_octets(n, True))), "oidcopy-badlast")
            if n > 1: add("oidcopy %d %s" % (n, hx(oid_octets(n - 1))), "oidcopy-short")
    # OBJECT IDENTIFIER / AlgorithmIdentifier / INTEGER / ENUMERATED / generic TLV headers with such content lengths
    for n in W8 + W16:
        ob = oid_octets(n)
        for params in (b"", b"\x05\x00"):
            o = der.tlv(6, ob)
            add("oid 1 %s" % hx(o + params), "oid"); add("oid 0 %s" % hx(o + params), "oid")
            if n < 60000:
                add("algid %s" % hx(der.seq(o + params)), "algid")
        if n < 60000 or n in (65535, 65536, 65536 + 30):
            body = bytes((i * 11 + 3) & 0x7F for i in range(n))
            for op, tag in (("int", 2), ("enum", 10)):
                add("%s %s" % (op, hx(der.tlv(tag, body))), op)
            for tag, ops in ((0x30, ("seq32 0", "seq16")), (0x31, ("set32 0", "set16"))):
                for o in ops:
                    add("%s %s" % (o, hx(der.tlv(tag, body))), o.split()[0])
                    if n: add("%s %s" % (o, hx(der.tlv(tag, body)[:-1])), o.split()[0] + "-short")
            add("len16 %s" % hx(der.enc_len(n) + body), "len16"); add("len32 0 %s" % hx(der.enc_len(n) + body), "len32")
            add("taglen %s" % hx(der.tlv(0x30, body)), "taglen")
    # GeneralNames: name / otherName type-id / directoryName of those lengths (a certificate holds < 2^16 octets)
    for n in [x for x in W8 if x > 0] + [1023, 1024, 4096, 16384, 40000]:
        host = (b"abcdefghij." * (n // 11 + 1))[:n]
        add(gn_case(der.general_name(2, host)), "gn-name")
        add(gn_case(der.general_name(2, host[:-1] + b"\x00") + der.general_name(1, b"x@y.z")), "gn-name-nul")
        if n <= 2000:
            add(gn_case(der.general_name(0, der.tlv(6, oid_octets(n)) + der.ctx(0, der.utf8("v"))) + der.general_name(2, b"a.b")), "gn-othername-oid")
            add(gn_case(der.general_name(7, bytes(n))), "gn-ip")
    # DN: attribute value / attribute-type OID / number of attributes around the same boundaries
    for n in W8 + [1023, 1024, 4096, 16384, 32766, 32767, 32768, 60000]:
        v = (b"value-" * (n // 6 + 1))[:n]
        add("dn " + hx(der.name(der.attr("cn", v))), "dn-value")
        add("dn " + hx(der.name(der.attr("ou", v), der.attr("ou", b"second"), der.attr("dc", v[:n // 2], 0x16))), "dn-value")
        if n <= 2000:
            add("dn " + hx(der.name(der.set_(der.seq(der.tlv(6, oid_octets(n)), der.utf8("x"))), der.attr("cn", "after"))), "dn-type-oid")
            add("dn " + hx(der.name(der.set_(der.seq(der.tlv(6, b"\x55\x04" + oid_octets(n)), der.utf8("x"))))), "dn-type-oid")
    for k in (31, 32, 33, 34, 255, 256, 257):      # DN_NUM_ATTRIBUTES_MAX = 32 attributeOrder slots; 8-bit counters
        add("dn " + hx(der.name(*[der.attr(r.choice(["ou", "dc", "cn", "o", "c", "st", "serial", "dnq"]), "v%d" % i) for i in range(k)])), "dn-count")
        add("dn " + hx(der.name(*[der.attr("ou", "v%d" % i) for i in range(k)])), "dn-count")
    # base64: psSize_t input length and output capacity at 2^16
    # (the text is mostly skipped characters: the extracted model recurses once per decoded character)
    for n in ((65535, 65536, 65540) if ck.tier == "quick" else (65531, 65532, 65535, 65536, 65537, 65540, 65544)):
        for head, tail in ((b"QUJDREVG", b"R0hJSg=="), (b"", b"QQ==")):
            t = head + b"\n" * (n - len(head) - len(tail)) + tail
            for cap in (65535, 9, 0):
                add("b64 %d %s" % (cap, hx(t)), "b64-64k")
    return cases


# ------------------------------------------------------------------------------------------- generators: GeneralNames
HOSTS = [b"a.example.com", b"www.b.org", b"x", b"*.c.net", b"MAIL.d.com", b"e-f.g", b"1.2.3.4"]

def gen_gn_entry(r):
    k = r.randrange(20)
    host = r.choice(HOSTS)
    if k < 6:
        kind, data = r.choice([1, 2, 2, 2, 6]), host
        if kind == 1: data = b"bob@" + host
        if kind == 6: data = b"https://" + host + b"/p"
        m = r.randrange(12)
        if m == 0: data += b"\x00"                                   # accepted: single trailing NUL
        elif m == 1: data = data[:3] + b"\x00" + data[3:]             # hidden NUL
        elif m == 2: data += b"\x00\x00"
        elif m == 3: data = data[:2] + bytes([r.choice([0x1F, 0x7F, 0x80, 0xFF, 0x0A])]) + data[2:]
        elif m == 4: data = b"\x00"
        elif m == 5: data = b" " + data + b"~"
        return der.general_name(kind, data, r.choice([None, None, None, 1, 2])), "ia5"
    if k < 9:
        ip = bytes(r.randrange(256) for _ in range(r.choice([3, 4, 4, 4, 8, 16, 1])))
        return der.general_name(7, ip), "ip"
    if k < 12:
        val = r.choice([b"user@corp", b"u\x00x", b"", b"x"])
        oidb = r.choice([der.oid("1.3.6.1.4.1.311.20.2.3"), der.tlv(6, b""), der.tlv(6, b"\x2a"), der.tlv(6, bytes(40)), b"\x04\x01\x00"])
        inner = r.choice([der.ctx(0, der.tlv(0x0C, val)), der.ctx(0, b""), b"", der.tlv(0xA1, der.tlv(0x0C, val)), der.ctx(0, der.tlv(0x0C, val), form=1), b"\xa0"])
        return der.general_name(0, oidb + inner, r.choice([None, None, 1])), "other"
    if k < 14:
        return der.general_name(4, der.name(der.attr("cn", "dir"))), "dir"
    if k < 16:
        return der.general_name(r.choice([3, 5, 8, 9, 12, 15]), r.choice([b"\x2a\x03", b"abc", b"\x00"])), "misc"
    if k == 16:    # universal / odd class tags: only the low nibble is looked at
        return der.tlv(r.choice([0x02, 0x12, 0x16, 0x42, 0xC2, 0x22]), host), "oddclass"
    if k == 17:    # empty value
        return der.general_name(r.choice([1, 2, 6, 7, 0]), b""), "empty"
    if k == 18:    # declared length larger / smaller than present
        e = der.general_name(2, host)
        return bytes([e[0], max(0, e[1] + r.choice([-1, 1, 5, 100]))]) + e[2:], "badlen"
    return der.general_name(2, bytes(r.choice([0x41, 0x61, 0x2E, 0x2D]) for _ in range(r.choice([1, 127, 128, 255, 256, 300]))), r.choice([None, 2, 3])), "long"

def _fit(form, n):
    """a long form wide enough for n (enc_len would silently truncate the value otherwise)"""
    if form is None:
        return None
    while n >= (1 << (8 * form)):
        form += 1
    return form

def gn_case(names_bytes, declared_len=None, tail_exts=(), junk=b"", seqform=None, octform=None, inexact=False):
    """certificate whose LAST known extension is subjectAltName = SEQUENCE(declared_len){names_bytes} junk"""
    content = names_bytes
    dl = len(content) if declared_len is None else declared_len
    seqform = _fit(seqform, dl)
    sanseq = der.tlv(0x30, content, seqform, length=dl) + junk
    octform = _fit(octform, len(sanseq))
    ext = der.seq(der.oid(der.OID["san"]), der.tlv(0x04, sanseq, octform))
    tail = b"".join(tail_exts)
    c = der.cert(raw_extensions=der.ctx(3, der.seq(ext + tail)))
    # 1: when the names consume exactly the declared SEQUENCE, what follows is a well-formed extension list
    tailok = 1 if (not junk and dl == len(content) and not inexact) else 0
    return "gn %d %s %s %d" % (dl & 0xFFFF, hx(content + junk + tail), c.hex(), tailok)

def gen_gn(ck, r, budget):
    cases = []
    bc = der.extension("bc", der.seq(der.boolean(True)), True)
    ku = der.extension("ku", der.tlv(3, b"\x05\xa0"))
    def add(c, kind):
        cases.append(c); ck.count("gn:" + kind)
    # systematic: pairs/triples around the trailing-NUL entry, every position
    base = [der.general_name(2, b"a.example.com"), der.general_name(2, b"nul.example.com\x00"), der.general_name(1, b"bob@example.com"),
            der.general_name(7, bytes([10, 0, 0, 1])), der.general_name(6, b"http://x/\x00"), der.other_name("1.3.6.1.4.1.311.20.2.3", b"user@corp"),
            der.general_name(4, der.name(der.attr("cn", "d")))]
    for i in range(len(base)):
        for j in range(len(base)):
            add(gn_case(base[i] + base[j]), "pair")
            if i != j:
                add(gn_case(base[i] + base[j] + base[i]), "triple")
    for e in base:
        add(gn_case(e), "single"); add(gn_case(e, tail_exts=[bc]), "single+tail")
        for d in (-2, -1, 1, 2):
            add(gn_case(e, declared_len=max(0, len(e) + d), junk=b"" if d <= 0 else bytes(d)), "declared%+d" % d)
            add(gn_case(e, declared_len=max(0, len(e) + d), tail_exts=[bc]), "declared%+d+tail" % d)
        for cut in range(len(e)):
            add(gn_case(e[:cut]), "trunc")
    add(gn_case(b""), "empty"); add(gn_case(b"\x82"), "short"); add(gn_case(b"\x82\x00"), "short"); add(gn_case(b"\x82\x01"), "short")
    while len(cases) < budget:
        n = r.choice([1, 1, 2, 2, 3, 4, 6])
        parts, kinds = [], []
        for _ in range(n):
            e, k = gen_gn_entry(r); parts.append(e); kinds.append(k)
        nb = b"".join(parts)
        ix = "badlen" in kinds
        m = r.randrange(10)
        tails = r.choice([(), (), (bc,), (ku, bc)])
        if m == 0:   add(gn_case(nb, declared_len=max(0, len(nb) + r.choice([-3, -2, -1, 1, 2, 3])), tail_exts=tails), "rand-declared")
        elif m == 1: add(gn_case(nb, junk=bytes(r.randrange(256) for _ in range(r.choice([1, 2, 3]))), tail_exts=tails), "rand-junk")
        elif m == 2: add(gn_case(nb[:r.randrange(len(nb) + 1)], tail_exts=tails), "rand-trunc")
        elif m == 3: add(gn_case(nb, seqform=r.choice([1, 2, 3]), octform=r.choice([None, 2]), tail_exts=tails, inexact=ix), "rand-longform")
        else:        add(gn_case(nb, tail_exts=tails, inexact=ix), "rand:" + (kinds[0] if len(set(kinds)) == 1 else "mix"))
    return cases


# ------------------------------------------------------------------------------------------- generators: DN
STR_TYPES = [0x0C, 0x13, 0x16, 0x14, 0x03, 0x1E, 0x1C, 0x04, 0x17]

def gen_dn_attr(r):
    kind = r.choice(["cn", "cn", "c", "o", "ou", "ou", "st", "dnq", "serial", "l", "dc", "dc", "uid", "email", "2.5.4.25", "2.5.4.99", "1.2.3", "2.5.4"])
    val = r.choice([b"x", b"Org", b"host.example.com", b"", b"a\x00b", b"\x00", b"ab\x00", bytes(range(1, 60)), b"v" * 127, b"v" * 128, b"v" * 300])
    st = r.choice(STR_TYPES[:5] * 3 + STR_TYPES)
    return der.seq(der.oid(der.OID.get(kind, kind)), der.tlv(st, val, r.choice([None, None, None, 1, 2]))), kind

def gen_dn(ck, r, budget):
    cases = []
    def add(b, kind):
        cases.append("dn " + hx(b)); ck.count("dn:" + kind)
    std = der.name(der.attr("c", "FI", 0x13), der.attr("st", "Uusimaa"), der.attr("o", "Org"), der.attr("ou", "u1"), der.attr("ou", "u2"),
                   der.attr("dnq", "q"), der.attr("serial", "123", 0x13), der.attr("dc", "example", 0x16), der.attr("dc", "com", 0x16), der.attr("cn", "host.example.com"))
    add(std, "std")
    for cut in range(len(std)):
        add(std[:cut], "prefix")
    # re-encode std with the outer length claiming every prefix (content present in full)
    for cut in range(4, len(std), 3):
        add(der.tlv(0x30, std[4:], length=cut), "outer-short")
    # attribute that ends right after its OID (witness of the value-bound defect), for each OID family
    for k in ("dc", "cn", "uid", "email", "1.2.3"):
        add(der.name(der.attr("cn", "x"), der.set_(der.seq(der.oid(der.OID.get(k, k))))), "no-value")
        add(der.name(der.set_(der.seq(der.oid(der.OID.get(k, k))))), "no-value")
        add(der.name(der.set_(der.seq(der.oid(der.OID.get(k, k)), b"\x0c"))), "no-length")
    # multi-valued RDNs (moreInSet), empty sets, nested oddities
    a1, a2, a3 = der.seq(der.oid(der.OID["cn"]), der.utf8("a")), der.seq(der.oid(der.OID["o"]), der.utf8("b")), der.seq(der.oid("1.2.3"), der.utf8("c"))
    for parts in ([a1, a2], [a1, a2, a1], [a3, a1], [a1, a3], [a3, a3, a1], [a1, a3, a2]):
        add(der.name(der.set_(*parts)), "multi")
        add(der.name(der.set_(*parts), der.attr("cn", "z")), "multi")
        add(der.name(der.tlv(0x31, b"".join(parts), length=len(b"".join(parts)) - 2)), "multi-setlen-2")
        add(der.name(der.tlv(0x31, b"".join(parts) + b"\x30\x00", length=len(b"".join(parts)))), "multi-extra")
    add(der.name(der.set_()), "empty-set"); add(der.name(), "empty"); add(der.name(der.set_(der.seq())), "empty-attr")
    # long values (recorded-length arithmetic near 2^15 / 2^16)
    for n in (0x7FFB, 0x7FFC, 0x7FFD, 0x7FFE, 0x7FFF, 0x8000, 0xFF00, 0xFFD0, 0xFFE4, 0xFFE5, 0xFFE6):
        add(der.name(der.attr("cn", b"n" * n)), "long")
        add(der.name(der.attr("dc", b"n" * n, 0x16)), "long")
    while len(cases) < budget:
        rdns, kinds = [], []
        for _ in range(r.choice([1, 2, 3, 5])):
            k = r.choice([1, 1, 1, 2, 3])
            attrs = [gen_dn_attr(r) for _ in range(k)]
            kinds += [x[1] for x in attrs]
            rdns.append(der.set_(*[x[0] for x in attrs]))
        b = der.name(*rdns)
        m = r.randrange(8)
        if m == 0: b = b[:r.randrange(len(b) + 1)]; kinds = ["trunc"]
        elif m == 1:
            offs = der.offsets(b)
            km, b = der.mutate(r, b, offs); kinds = ["mut:" + km]
        add(b, "rand:" + (kinds[0] if len(kinds) == 1 else "mix"))
    return cases


# ------------------------------------------------------------------------------------------- generators: base64 / PEM
B64 = b"ABCDEFGHIJKLMNOPQRSTUVWXYZabcdefghijklmnopqrstuvwxyz0123456789+/"

def b64enc(b):
    import base64
    return base64.b64encode(b)

def gen_b64(ck, r, budget):
    cases = []
    def add(text, cap, kind):
        cases.append("b64 %d %s" % (cap, hx(text))); ck.count("b64:" + kind)
    for n in range(0, 13):
        raw = bytes((i * 37 + 5) & 0xFF for i in range(n))
        t = b64enc(raw)
        for cap in (n, n + 1, max(0, n - 1), 0, n + 2):
            add(t, cap, "valid")
        add(t.rstrip(b"="), n, "nopad")
        add(t + b"=", n, "extrapad"); add(t + b"==", n + 3, "extrapad")
        add(t[:-1], n, "short")
        add(t.replace(b"=", b"") + b"A", n + 3, "pad-then-data") if b"=" in t else None
        add(b"\n".join(t[i:i + 4] for i in range(0, len(t), 4)) + b"\r\n", n, "newlines")
    for t in (b"====", b"=", b"A===", b"AA=A", b"AAA=AAAA", b"AA==AAAA", b"A=A=", b"\x00\x00", b"AAAA\x00", b"\xff\xfe{|}~", b"AAAA" * 3 + b"AA=="):
        for cap in (0, 1, 2, 3, 12, 100):
            add(t, cap, "odd")
    while len(cases) < budget:
        n = r.choice([0, 1, 2, 3, 4, 5, 6, 30, 48, 100])
        raw = bytes(r.randrange(256) for _ in range(n))
        t = bytearray(b64enc(raw))
        for _ in range(r.choice([0, 0, 1, 2, 5])):
            pos = r.randrange(len(t) + 1)
            t[pos:pos] = bytes([r.choice([10, 13, 32, 9, 0, 61, 45, 123, 127, 128, 255, r.randrange(256)])])
        if r.random() < 0.2 and t: del t[r.randrange(len(t))]
        add(bytes(t), r.choice([n, n, n + 1, max(0, n - 1), max(0, n - 2), 0, n + 3]), "rand")
    return cases

def gen_pem(ck, r, budget, sample_cert):
    cases = []
    def add(op, b, kind):
        cases.append("%s %s" % (op, hx(b))); ck.count("pem:" + kind)
    small = der.seq(der.integer(1), der.utf8("pem body"))
    labels = ["CERTIFICATE", "RSA PRIVATE KEY", "PRIVATE KEY", "EC PRIVATE KEY", "PUBLIC KEY", "RSA PUBLIC KEY", "X509 CRL", "DH PARAMETERS"]
    texts = []
    for lab in labels:
        p = der.pem(lab, small)
        texts += [(p, "plain"), (p + b"\x00", "nul-terminated"), (p.replace(b"\n", b"\r\n"), "crlf"), (p.rstrip(b"\n"), "no-final-newline"),
                  (p.replace(b"-----END", b"-----EN"), "broken-end"), (p[:len(p) // 2], "half"), (p[:-6], "cut-tail"),
                  (b"junk\n" + p + b"trailer", "junk-around"), (p.replace(b"\n", b"\n\n"), "blank-lines"),
                  (b"-----BEGIN %s-----END %s-----" % (lab.encode(), lab.encode()), "end-overlaps-label"),
                  (b"-----BEGIN %s-----END %s-----\x00" % (lab.encode(), lab.encode()), "end-overlaps-label-nul"),
                  (b"-----BEGIN %s-----\n-----END %s-----\n" % (lab.encode(), lab.encode()), "empty-body"),
                  (p.replace(b"-----\n", b"-----\nProc-Type: 4,ENCRYPTED\nDEK-Info: DES-EDE3-CBC,0011223344556677\n\n", 1), "encrypted-hdr"),
                  (p[:40] + b"\x00" + p[40:], "nul-inside"), (p + p, "two"), (p + b"\n \t\r\n" + p + b"  \n", "two-ws")]
    texts += [(b"", "empty"), (b"\x00", "nul"), (b"-----BEGIN", "tiny"), (b"-----BEGIN CERTIFICATE-----", "tiny"), (b"CERTIFICATE-----", "tiny"),
              (b"-----BEGIN CERTIFICATE-----\nAAAA", "no-end"), (b"-----END CERTIFICATE-----\n-----BEGIN CERTIFICATE-----\n", "reversed"),
              (bytes([0x30, 3, 1, 1, 1]), "der-no-nul"), (b"-" * 64, "dashes"), (b"-----BEGIN CERTIFICATE-----\n" + b"QUJD" * 1200 + b"\n-----END CERTIFICATE-----\n", "5k-body")]
    if sample_cert:
        p = der.pem("CERTIFICATE", sample_cert)
        texts += [(p, "real-cert"), (p + p + p, "real-chain"), (p + b"\x00", "real-cert-nul")]
    for t, kind in texts:
        for ty in (0, 1, 2, 3, 4):
            add("pemchk %d" % ty, t, kind)
        add("pemdec", t, kind); add("pemlist", t, kind)
    while len(cases) < budget:
        t, kind = r.choice(texts)
        b = bytearray(t)
        for _ in range(r.choice([1, 1, 2, 4])):
            if not b: break
            k = r.randrange(4)
            pos = r.randrange(len(b))
            if k == 0: b[pos] = r.choice([0, 10, 13, 45, 61, 32, 255, r.randrange(256)])
            elif k == 1: del b[pos]
            elif k == 2: b[pos:pos] = r.choice([b"-----", b"\x00", b"\n", b"=", b"-----END", b"CERTIFICATE-----", b"KEY-----"])
            else: del b[pos:]
        add(r.choice(["pemchk %d" % r.randrange(5), "pemdec", "pemlist"]), bytes(b), "rand")
    return cases


# ------------------------------------------------------------------------------------------- generators: encrypted PEM headers
PW = ["NULL", "-", "7665726966", "77726f6e67"]

def enc_pem(cipher="DES-EDE3-CBC", iv="0011223344556677", body=16, nl=b"\n", order="pdb", label=b"RSA PRIVATE KEY", proc=b"Proc-Type: 4,ENCRYPTED",
            tail=b"", pre=b""):
    """order: sequence of p (Proc-Type line) d (DEK-Info line) b (blank line); tail / pre = bytes after END / before BEGIN"""
    import base64
    dek = b"DEK-Info: " + (cipher if isinstance(cipher, bytes) else cipher.encode()) + b"," + (iv if isinstance(iv, bytes) else iv.encode())
    raw = body if isinstance(body, bytes) else bytes((i * 29 + 7) & 0xFF for i in range(body))
    b64 = base64.b64encode(raw)
    lines = [b"-----BEGIN " + label + b"-----"]
    for o in order:
        lines.append({"p": proc, "d": dek, "b": b""}[o])
    lines += [b64[i:i + 64] for i in range(0, len(b64), 64)] or [b""]
    lines.append(b"-----END " + label + b"-----")
    return pre + nl.join(lines) + nl + tail

def gen_pempw(ck, r, budget, samples):
    cases = []
    def add(pw, t, kind):
        cases.append("pempw %s %s" % (pw, hx(t))); ck.count("pempw:" + kind)
    HEX = "0123456789abcdefABCDEF0011223344556677889900aabbccdd"
    ciphers = ["DES-EDE3-CBC", "AES-128-CBC", "AES-256-CBC", "DES-CBC", "AES-128-CBC ", "aes-128-cbc", ""]
    # IV digit counts 0..40 for both ciphers: in place, and as the LAST bytes of the buffer (DEK-Info after the END line,
    # nothing behind the digits) so that a bound that is too small reads past the block
    for cipher in ("DES-EDE3-CBC", "AES-128-CBC"):
        for k in range(0, 41):
            iv = HEX[:k]
            for pw in ("7665726966", "NULL"):
                add(pw, enc_pem(cipher, iv, 16), "iv-count")
                base = enc_pem(cipher, HEX[:32], 16, order="pb")      # Proc-Type only ...
                add(pw, base + b"DEK-Info: " + cipher.encode() + b"," + iv.encode(), "dek-after-end-exact")
            add("7665726966", enc_pem(cipher, iv, 16, order="pb", pre=b"DEK-Info: " + cipher.encode() + b"," + iv.encode()), "dek-before-begin")
            add("-", enc_pem(cipher, iv, 0, order="pd"), "iv-count-empty-body")
        for k in (0, 1, 7, 8, 15, 16, 17, 31):      # non-hex character inside the digits
            for ch in ("g", "G", " ", "\n", "-", "\x00", "/", ":", "@", "`"):
                iv = HEX[:k] + ch + HEX[k + 1:34]
                add("7665726966", enc_pem(cipher, iv, 16), "iv-nonhex")
    # cipher names, body sizes around the block sizes, newline styles, header orders, passwords
    for cipher in ciphers:
        for body in (0, 1, 7, 8, 9, 15, 16, 17, 24, 31, 32, 33, 48, 64):
            add("7665726966", enc_pem(cipher, HEX[:32], body), "cipher-x-body")
        for nl in (b"\n", b"\r\n", b"\r"):
            for order in ("pdb", "dpb", "pd", "dp", "db", "pb", "p", "d", "b", "", "pdd", "ppdb", "dbp", "bpd"):
                for pw in PW[:3]:
                    add(pw, enc_pem(cipher, HEX[:32], 16, nl=nl, order=order), "order")
    both = lambda a, b: enc_pem(a, HEX[:32], 16, order="pb", pre=b"DEK-Info: " + b.encode() + b"," + HEX[:32].encode() + b"\n")
    for a, b in (("DES-EDE3-CBC", "AES-128-CBC"), ("AES-128-CBC", "DES-EDE3-CBC")):
        add("7665726966", both(a, b), "two-dek"); add("7665726966", enc_pem(a, HEX[:32], 16) + b"DEK-Info: " + b.encode() + b"," + HEX[:20].encode(), "two-dek")
    for proc in (b"Proc-Type: 4,ENCRYPTE", b"Proc-Type:", b"4,ENCRYPTED", b"Proc-Type: 4,ENCRYPTED" * 2, b"proc-type: 4,encrypted", b"Proc-Type: 5,ENCRYPTED"):
        add("7665726966", enc_pem(proc=proc), "proc-variants"); add("NULL", enc_pem(proc=proc), "proc-variants")
    for label in (b"PRIVATE KEY", b"EC PRIVATE KEY", b"PUBLIC KEY", b"CERTIFICATE", b"X509 CRL"):
        add("7665726966", enc_pem(label=label), "label"); add("7665726966", enc_pem("AES-128-CBC", HEX[:32], 32, label=label), "label")
    # every truncation point of a complete file (both ciphers), and of the headers with the END trailer kept
    for cipher, iv in (("DES-EDE3-CBC", HEX[:16]), ("AES-128-CBC", HEX[:32])):
        full = enc_pem(cipher, iv, 24 if cipher[0] == "D" else 32)
        for cut in range(len(full) + 1):
            add("7665726966", full[:cut], "prefix")
        hdr_end = full.index(b"\n\n") + 2
        trailer = full[full.index(b"-----END"):]
        for cut in range(31, hdr_end + 1):
            add("7665726966", full[:cut] + trailer, "prefix+end")
            add("7665726966", full[:cut] + b"\n" + full[hdr_end:], "prefix+body")
    for nm, t in samples:
        for pw in PW:
            add(pw, t, "sample")
        add("7665726966", t + b"\x00", "sample-nul"); add("7665726966", t.replace(b"\n", b"\r\n"), "sample-crlf")
    seeds = [enc_pem(), enc_pem("AES-128-CBC", HEX[:32], 32), enc_pem("AES-128-CBC", HEX[:32], 32, nl=b"\r\n")] + [t for _, t in samples]
    while len(cases) < budget:
        b = bytearray(r.choice(seeds))
        if len(b) > 700:                         # keep the quadratic model search cheap: shorten the body of real keys
            i = b.find(b"\n\n"); j = b.find(b"-----END")
            if 0 < i < j: b = b[:i + 2 + 88] + b"\n" + b[j:]
        for _ in range(r.choice([1, 1, 2, 3])):
            if not b: b = bytearray(b"-")          # an earlier mutation emptied the buffer
            k = r.randrange(6); pos = r.randrange(len(b)) if b else 0
            hdr_zone = r.randrange(min(len(b), 120)) if b else 0
            if k == 0: b[hdr_zone] = r.choice([0, 10, 13, 44, 45, 58, 32, 71, 103, 255, r.randrange(256)])
            elif k == 1: del b[hdr_zone]
            elif k == 2: b[hdr_zone:hdr_zone] = r.choice([b",", b"\n", b"\r\n", b"\x00", b"DEK-Info: AES-128-CBC,", b"DEK-Info: DES-EDE3-CBC,", b"Proc-Type: 4,ENCRYPTED\n", b"0", b"F" * 16])
            elif k == 3: del b[pos:]
            elif k == 4: b += r.choice([b"DEK-Info: AES-128-CBC," + HEX[:r.randrange(40)].encode(), b"DEK-Info: DES-EDE3-CBC," + HEX[:r.randrange(24)].encode(), b"Proc-Type: 4,ENCRYPTED"])
            else: b[pos] = r.randrange(256)
        add(r.choice(PW), bytes(b), "rand")
    return cases


# ------------------------------------------------------------------------------------------- CRLs
TIMES_OK = ["190601000000Z", "20190601000000Z", "000229120000Z", "491231235959Z", "500101000000Z", "99991231235959Z", "160229235960Z",
            "190601000000", "19060100000000", "20190601000000+0100", "1906010000005"]
TIMES_BAD = ["", "1", "19060100000", "190001000000Z", "191301000000Z", "190632000000Z", "190230000000Z", "190229000000Z", "190601240000Z",
             "190601006000Z", "190601000061Z", "19060100000aZ", "18991231235959Z", "30000101000000Z", "2019060100000", "1" * 256, "1906010000\x0000Z"]

def crlrev_case(entries, declared=None, exts=None, junk=b"", inexact=False):
    c, off = der.crl_parts(entries, declared=declared, exts=exts, junk=junk)
    dl = len(entries) if declared is None else declared
    tailok = 1 if (not junk and dl == len(entries) and not inexact) else 0
    return "crlrev %d %s %s %d" % (dl & 0xFFFFFFFF, hx(c[off:]), c.hex(), tailok)

def gen_crlrev(ck, r, budget):
    """the revoked-certificates loop (modelled): serial / date / entry-length shapes, entry SEQUENCE lengths on both sides of
    their contents (the cursor underflow), declared list lengths +-k, 0..50 entries, entry extensions, truncations"""
    cases = []
    def add(c, kind):
        cases.append(c); ck.count("crlrev:" + kind)
    E = der.crl_entry
    exts = [der.CRL_EXTS["akid"](), der.CRL_EXTS["crlnumber"]()]
    good = [E(), E(b"\x05"), E(b"\x00\x81", "20190601000000Z"), E(bytes(range(1, 21)), ext=der.ENTRY_EXTS["reason"]()),
            E(b"\x00" + bytes(range(200, 220)), ext=der.ENTRY_EXTS["invalidity"]() + der.ENTRY_EXTS["issuer"]()), E(b"\x7f", serial_tag=0x82)]
    for n in (0, 1, 2, 3, 5, 50):
        ents = b"".join(good[i % len(good)] for i in range(n))
        add(crlrev_case(ents), "count"); add(crlrev_case(ents, exts=exts), "count+ext")
        for d in (-2, -1, 1, 2, 19):
            add(crlrev_case(ents, declared=max(0, len(ents) + d), exts=exts if d > 0 else None), "declared%+d" % d)
    # entry SEQUENCE length on both sides of what the entry holds: 0 .. real+3, in every length form
    for e0 in (E(), E(bytes(range(1, 21)), ext=der.ENTRY_EXTS["reason"]()), E(b"\x05", "20190601000000Z")):
        body = e0[2:] if e0[1] < 0x80 else e0[2 + (e0[1] & 0x7F):]
        for ln in list(range(0, len(body) + 4)):
            for form in (None, 1, 2, 4):
                e = der.tlv(0x30, body, form, length=ln)
                add(crlrev_case(e + E(b"\x09"), inexact=True), "entry-len"); add(crlrev_case(e, inexact=True), "entry-len-last")
                add(crlrev_case(E(b"\x07") + e + E(b"\x09"), exts=exts, inexact=True), "entry-len-middle")
    # serial shapes
    for sl in (0, 1, 2, 20, 21, 127, 128, 129, 255, 256, 257, 1000):
        for tag in (0x02, 0x82, 0x04, 0x30):
            sv = bytes((i * 5 + 1) & 0xFF for i in range(sl))
            add(crlrev_case(E(sv, serial_tag=tag) + E()), "serial")
        add(crlrev_case(der.tlv(0x30, der.tlv(0x02, sv, length=sl + 40) + der.anytime("190601000000Z"))), "serial-len-past-entry")
    # dates
    for t in TIMES_OK + TIMES_BAD:
        tb = t.encode("latin-1") if isinstance(t, str) else t
        for tag in (0x17, 0x18):
            add(crlrev_case(E(date=der.tlv(tag, tb)) + E()), "date")
    for tag in (0x16, 0x02, 0x00, 0x30):
        add(crlrev_case(E(date=der.tlv(0x17, b"190601000000Z")).replace(b"\x17\x0d", bytes([tag, 0x0d]), 1)), "date-tag")
    # every truncation point of a three-entry list (the CRL ends there) and of the list inside an otherwise complete CRL
    three = good[0] + good[3] + good[2]
    for cut in range(len(three) + 1):
        add(crlrev_case(three[:cut], inexact=True), "truncated-list")
        c, off = der.crl_parts(three)
        cc = c[:off + cut]
        add("crlrev %d %s %s 0" % (len(three), hx(cc[off:]), cc.hex()), "crl-ends-inside-list")
    while len(cases) < budget:
        n = r.choice([1, 2, 3, 6])
        ents = []
        for _ in range(n):
            sv = bytes(r.randrange(256) for _ in range(r.choice([0, 1, 1, 2, 8, 20, 21])))
            t = r.choice(TIMES_OK * 3 + TIMES_BAD)
            ex = r.choice([None, None, der.ENTRY_EXTS["reason"](), der.ENTRY_EXTS["invalidity"](), b"\x30\x00", b"\x05\x00"])
            e = E(sv, der.tlv(r.choice([0x17, 0x17, 0x18]), t.encode("latin-1")), ext=ex, serial_tag=r.choice([2, 2, 2, 0x82, 4]))
            k = r.randrange(8)
            if k == 0: e = bytes([e[0], max(0, e[1] + r.choice([-5, -2, -1, 1, 2, 30])) & 0x7F]) + e[2:] if e[1] < 0x80 else e
            elif k == 1: km, e = der.mutate(r, e)
            ents.append(e)
        eb = b"".join(ents)
        m = r.randrange(6)
        if m == 0: add(crlrev_case(eb, declared=max(0, len(eb) + r.choice([-3, -1, 1, 4])), inexact=True), "rand-declared")
        elif m == 1: add(crlrev_case(eb[:r.randrange(len(eb) + 1)], inexact=True), "rand-trunc")
        else: add(crlrev_case(eb, exts=r.choice([None, exts]), inexact=True), "rand")
    return cases

def gen_crl_whole(ck, r, budget):
    """whole CRLs (implementation only; parsed three times, walker + heap-baseline check; crlcache = cache management):
    every optional field, date orders, signed samples, consistent resize of every leaf, NON-consistent length edits of
    every constructed header"""
    cases, meta = [], []
    def add(b, kind, op="crl"):
        cases.append("%s %s" % (op, hx(b))); meta.append((op, kind, "generated-crl")); ck.count("crl:" + kind)
    E = der.crl_entry
    ents = E() + E(b"\x05", ext=der.ENTRY_EXTS["reason"]()) + E(bytes(range(1, 21)), "20190601000000Z", ext=der.ENTRY_EXTS["invalidity"]() + der.ENTRY_EXTS["issuer"]())
    allx = [der.CRL_EXTS[k]() for k in ("akid", "crlnumber", "idp", "ian", "unknown")]
    variants = {}
    for ver in (1, None, 0, 2):
        for nu in ("300101000000Z", None, "190101000000Z", "200101000000Z", "20300101000000Z", "99991231235959Z"):
            for tu in ("200101000000Z", "20200101000000Z"):
                for ne, eb in ((0, b""), (1, E()), (3, ents), (40, ents * 13 + E())):
                    for xs in (None, allx, [der.CRL_EXTS["delta"]()], [der.CRL_EXTS["akid"](), der.CRL_EXTS["akid"]()]):
                        if (ver, nu, tu, ne) not in ((1, "300101000000Z", "200101000000Z", 3),) and r.random() < 0.8 and xs is not None and ne == 40: continue
                        c, _ = der.crl_parts(eb, version=ver, next_update=nu, this_update=tu, exts=xs, revoked_present=(ne > 0 or r.random() < 0.5))
                        order = "none" if nu is None else "before" if nu[-13:] < tu[-13:] and len(nu) == len(tu) else "equal" if nu == tu else "after"
                        variants.setdefault("v=%s next=%s" % (ver, order), c)
                        add(c, "fields:next-" + order); add(c, "fields:next-" + order, "crlcache")
    # CRLs signed by the test CAs (tools/c03pki.py, read only)
    signed = []
    try:
        import c03pki
        for ca in ("RSA/1024_RSA_CA", "RSA/2048_RSA_CA"):
            cad = der.pem_blocks(open(os.path.join(vlib.REPO, "testkeys", ca + ".pem"), "rb").read())[0][1]
            tbs = der.tree(cad)[0].kids[0].kids
            subj = tbs[5].enc()
            hl = 2 if subj[1] < 0x80 else 2 + (subj[1] & 0x7F)
            key = c03pki.RsaKey(open(os.path.join(vlib.REPO, "testkeys", ca + "_KEY.pem")).read())
            for serials, nu, gt in (([b"\x10\x01", b"\x05"], (2030, 1, 1), False), ([], None, False), ([bytes(range(1, 21))], (2019, 1, 1), True)):
                signed.append(c03pki.make_crl(subj[hl:], key, serials, next_update=nu, gen_time=gt, crl_ext=der.CRL_EXTS["crlnumber"]()))
    except Exception as ex:
        ck.notes.append("c03pki signed CRL samples not available: %r" % (ex,))
    for c in signed:
        add(c, "signed-sample"); add(c, "signed-sample", "crlcache")
    bases = [der.crl_parts(ents, exts=allx)[0], der.crl_parts(E(), version=None, next_update=None)[0]] + signed[:2]
    for b in bases:
        ts = der.tree(b)
        if not ts: continue
        # length-consistent resize of every leaf
        for li, leaf in enumerate(der.leaves(ts)):
            for ni, n in enumerate([0, 1, 2, 3, 11, 12, 13, 14, 15, 16, 19, 20, 21, 31, 32, 33, 127, 128, 129, 255, 256, 257, 1024]):
                if ck.tier != "thorough" and (li + ni) % 2: continue
                add(der.resized(ts, leaf, n), "resize-leaf:%02x" % leaf.tag)
        # NON-consistent edits of every constructed header: the length octets alone change, contents stay
        for (st, h, n, tag, d) in der.offsets(b):
            if not (tag & 0x20): continue
            for ln in sorted(set([0, 1, 2, 3, 4, 5, max(0, n - 20), max(0, n - 2), max(0, n - 1), n + 1, n + 2, n + 20, 0x7F, 0x80, 0xFF, 0x100, 0xFFFF, 0x10000, 0xFFFFFFFF])):
                add(b[:st] + bytes([tag]) + der.enc_len(ln) + b[st + h:], "header-length")
            add(b[:st] + bytes([tag, 0x80]) + b[st + h:], "header-indefinite")
            add(b[:st + h], "cut-after-header"); add(b[:st + 1], "cut-after-tag")
        for cut in range(0, len(b), max(1, len(b) // 150)):
            add(b[:cut], "prefix")
    offs = {}
    while len(cases) < budget:
        b = r.choice(bases)
        if b not in offs: offs[b] = (der.offsets(b), der.tree(b))
        rz = der.mutate_resize(r, b, offs[b][1]) if r.random() < 0.3 else None
        k, m = rz if rz else der.mutate(r, b, offs[b][0])
        if r.random() < 0.2: k2, m = der.mutate(r, m)
        add(m, "mutated:" + k.split(":")[0], r.choice(["crl", "crl", "crl", "crlcache"]))
    return cases, meta


# ------------------------------------------------------------------------------------------- key-loading scenarios (implementation only)
def _pem_der(path):
    raw = open(os.path.join(vlib.REPO, "testkeys", path), "rb").read()
    blocks = der.pem_blocks(raw)
    return raw, [d for _, d in blocks]

def gen_keyload(ck, r, budget):
    """valid certificate x valid key of its own / of another pair, chains of 1-3 certificates in right and wrong order,
    chains that do not authenticate, CA bundles with broken members, PEM and concatenated-DER forms, through
    matrixSslLoadRsaKeysMem / matrixSslLoadEcKeysMem / matrixSslLoadKeysMem + matrixSslDeleteKeys; then mutated variants"""
    cases, meta = [], []
    def add(loader, cert, key, ca, kind):
        cases.append("kload %s %s %s %s" % (loader, hx(cert), hx(key), hx(ca))); meta.append(("kload", kind, loader)); ck.count("kload:" + kind)
    mat = {}
    for name, c, ca, k in (("rsa1024", "RSA/1024_RSA.pem", "RSA/1024_RSA_CA.pem", "RSA/1024_RSA_KEY.pem"), ("rsa2048", "RSA/2048_RSA.pem", "RSA/2048_RSA_CA.pem", "RSA/2048_RSA_KEY.pem"),
                           ("rsa3072", "RSA/3072_RSA.pem", "RSA/3072_RSA_CA.pem", "RSA/3072_RSA_KEY.pem"), ("ec256", "EC/256_EC.pem", "EC/256_EC_CA.pem", "EC/256_EC_KEY.pem"),
                           ("ec384", "EC/384_EC.pem", "EC/384_EC_CA.pem", "EC/384_EC_KEY.pem"), ("ecdhrsa", "ECDH_RSA/256_ECDH-RSA.pem", "ECDH_RSA/1024_ECDH-RSA_CA.pem", "ECDH_RSA/256_ECDH-RSA_KEY.pem")):
        try:
            cp, cd = _pem_der(c); ap, ad = _pem_der(ca); kp, kd = _pem_der(k)
            cakey = _pem_der(ca.replace("_CA.pem", "_CA_KEY.pem"))
            mat[name] = dict(cp=cp, cd=cd[0], ap=ap, ad=ad[0], kp=kp, kd=kd[-1], akp=cakey[0], akd=cakey[1][-1])
        except Exception:
            continue
    names = list(mat)
    loaders = ("rsa", "ec", "any")
    def forms(parts_pem, parts_der):
        return (b"".join(parts_pem), "pem"), (b"".join(parts_der), "der")
    for a in names:
        A = mat[a]
        for b in names:
            B = mat[b]
            for ld in loaders:
                if ld == "rsa" and not b.startswith("rsa"): continue
                if ld == "ec" and b.startswith("rsa"): continue
                rel = "own" if a == b else "foreign"
                # single certificate
                add(ld, A["cp"], B["kp"], A["ap"], "single-%s-key:pem" % rel)
                add(ld, A["cd"], B["kd"], A["ad"], "single-%s-key:der" % rel)
                # chain leaf + its CA, right and wrong order, own / foreign key
                for (cert, f) in forms([A["cp"], A["ap"]], [A["cd"], A["ad"]]):
                    add(ld, cert, B["kp"] if f == "pem" else B["kd"], b"", "chain2-%s-key:%s" % (rel, f))
                for (cert, f) in forms([A["ap"], A["cp"]], [A["ad"], A["cd"]]):
                    add(ld, cert, B["kp"] if f == "pem" else B["kd"], b"", "chain2-reversed-%s-key:%s" % (rel, f))
                # leaf + a CA that did not sign it (does not authenticate); three certificates
                if a != b:
                    for (cert, f) in forms([A["cp"], B["ap"]], [A["cd"], B["ad"]]):
                        add(ld, cert, A["kp"] if f == "pem" else A["kd"], b"", "chain2-unauthenticated:%s" % f)
                        add(ld, cert, B["akp"] if f == "pem" else B["akd"], b"", "chain2-unauthenticated-ca-key:%s" % f)
                    for (cert, f) in forms([A["cp"], A["ap"], B["ap"]], [A["cd"], A["ad"], B["ad"]]):
                        add(ld, cert, (A["kp"] if f == "pem" else A["kd"]), B["ap"] if f == "pem" else B["ad"], "chain3:%s" % f)
                        add(ld, cert, (B["kp"] if f == "pem" else B["kd"]), b"", "chain3-foreign-key:%s" % f)
                    for (cert, f) in forms([A["cp"], B["ap"], A["ap"]], [A["cd"], B["ad"], A["ad"]]):
                        add(ld, cert, (A["kp"] if f == "pem" else A["kd"]), b"", "chain3-broken-middle:%s" % f)
    # CA bundles with a broken member; certificate only / key only / CA only
    md4 = open(os.path.join(vlib.REPO, "testkeys", "RSA/1024_RSA_MD4.pem"), "rb").read()
    for a in names:
        A = mat[a]
        broken = der.pem("CERTIFICATE", A["ad"][:len(A["ad"]) // 2])
        flipped = der.pem("CERTIFICATE", A["ad"][:-20] + bytes(20))
        for bundle, kind in ((A["ap"] + broken, "ca-bundle-truncated-member"), (broken + A["ap"], "ca-bundle-truncated-first"), (A["ap"] + md4 + A["ap"], "ca-bundle-md4-member"),
                             (A["ap"] + flipped, "ca-bundle-bad-signature"), (A["ap"] * 3, "ca-bundle-duplicates")):
            add("any", A["cp"], A["kp"], bundle, kind); add("rsa" if a.startswith("rsa") else "ec", b"", b"", bundle, kind + ":ca-only")
        add("any", A["cp"], b"", b"", "cert-without-key"); add("any", b"", A["kp"], b"", "key-without-cert")
    # mutated variants of the scenarios above: one component mutated (ASN.1-aware), the others intact
    base = list(zip(cases, meta))
    ders = {}
    while len(cases) < budget and base:
        a, b = r.choice(names), r.choice(names)
        A, B = mat[a], mat[b]
        which = r.randrange(4)
        leaf, ca, key = A["cd"], A["ad"], (A["kd"] if r.random() < 0.5 else B["kd"])
        def mut(x):
            if x not in ders: ders[x] = (der.offsets(x), der.tree(x))
            rz = der.mutate_resize(r, x, ders[x][1]) if r.random() < 0.2 else None
            return (rz or der.mutate(r, x, ders[x][0]))
        if which == 0: k, leaf = mut(leaf)
        elif which == 1: k, ca = mut(ca)
        elif which == 2: k, key = mut(key)
        else:                                  # signature / key bytes flipped: parses, does not verify / match
            k = "sigflip"; ca = ca[:-8] + bytes(x ^ 0x55 for x in ca[-8:])
        form = r.random() < 0.5
        chain = r.choice([[leaf, ca], [leaf], [ca, leaf], [leaf, ca, B["ad"]], [leaf, B["ad"]]])
        cert = b"".join(chain) if form else b"".join(der.pem("CERTIFICATE", c) for c in chain)
        keyb = key if form else der.pem("EC PRIVATE KEY" if (key == A["kd"] and a.startswith("ec")) or (key == B["kd"] and b.startswith("ec")) else "RSA PRIVATE KEY", key)
        if len(cert) + len(keyb) > 40000: continue
        add(r.choice(loaders), cert, keyb, r.choice([b"", A["ap"], B["ad"]]), "mutated:" + k.split("+")[0].split(":")[0])
    return cases, meta


# ------------------------------------------------------------------------------------------- whole-parser seeds / mutations
def load_samples(ck):
    """[(name, op, der/pem bytes, extra token or None)] from /repo/testkeys (+ corpus/C09/samples)"""
    root = os.path.join(vlib.REPO, "testkeys")
    seeds = []
    for dp, dn, fn in sorted(os.walk(root)):
        dn.sort()
        for f in sorted(fn):
            p = os.path.join(dp, f); rel = os.path.relpath(p, root)
            if f.endswith((".h", ".txt", ".sequence")):
                continue
            raw = open(p, "rb").read()
            if f.endswith(".pem"):
                blocks = der.pem_blocks(raw)
                labs = set(l for l, _ in blocks)
                if "CERTIFICATE" in labs:
                    seeds.append((rel, "certdata", raw, None)); seeds.append((rel, "keys", raw, "- 5"))
                if labs & {"RSA PRIVATE KEY", "EC PRIVATE KEY", "PRIVATE KEY"}:
                    seeds.append((rel, "keys", raw, "- 2"))
                if b"ENCRYPTED" in raw:
                    seeds.append((rel, "keys", raw, "7665726966 2"))
                for i, (lab, d) in enumerate(blocks):
                    nm = "%s#%d" % (rel, i)
                    if lab == "CERTIFICATE":
                        seeds.append((nm, "cert", d, None))
                    elif lab in ("RSA PRIVATE KEY", "EC PRIVATE KEY", "DSA PRIVATE KEY"):
                        seeds.append((nm, "privkey", d, None))
                    elif lab == "PRIVATE KEY":
                        seeds.append((nm, "pkcs8", d, None)); seeds.append((nm, "privkey", d, None))
                    elif lab == "PUBLIC KEY":
                        seeds.append((nm, "pubkey", d, None)); seeds.append((nm, "rsapub", d, None))
                        seeds.append((rel + "#pem", "pubkey", raw, None)); seeds.append((rel + "#pem", "rsapub", raw, None))
                    elif lab == "DH PARAMETERS":
                        seeds.append((nm, "dhparams", d, None))
            elif f.endswith(".p8"):
                seeds.append((rel, "pkcs8", raw, "7665726966"))
            elif f.endswith(".der"):
                seeds.append((rel, "ocsp" if "OCSP" in rel else "privkey", raw, None))
    sd = os.path.join(vlib.VERIF, "corpus", "C09", "samples")
    if os.path.isdir(sd):
        for f in sorted(os.listdir(sd)):
            if f.endswith(".case"):
                for l in open(os.path.join(sd, f)):
                    t = l.split()
                    if len(t) >= 3 and t[0] == "pkfile":
                        seeds.append(("samples/" + f, "pkfile", bytes.fromhex(t[2]), t[1]))
                    elif len(t) >= 2 and not l.startswith("#"):
                        seeds.append(("samples/" + f, t[0], bytes.fromhex(t[1]), " ".join(t[2:]) or None))
    seeds.append(("generated-crl", "crl", der.crl(), None))
    seeds.append(("generated-crl-empty", "crl", der.crl(revoked=()), None))
    rsapk = der.seq(der.integer(der._MOD), der.integer(65537))
    for lab, body in (("PUBLIC KEY", der.bitstr(rsapk)), ("PUBLIC KEY", rsapk), ("RSA PUBLIC KEY", rsapk), ("PUBLIC KEY", der.SPKI_RSA)):
        seeds.append(("generated-pubkey-pem", "pubkey", der.pem(lab, body), None)); seeds.append(("generated-pubkey-pem", "rsapub", der.pem(lab, body), None))
    seeds.append(("generated-cert-ed25519-signed-rsa-key", "cert", der.cert([der.san_ext([der.general_name(2, b"a.b")])], sigalg=der.seq(der.oid("1.3.101.112")), sig=bytes(64)), None))
    seeds.append(("generated-cert-san", "cert", der.cert([der.san_ext([der.general_name(2, b"a.example.com"), der.general_name(7, bytes([10, 0, 0, 1]))]),
                                                          der.extension("bc", der.seq(der.boolean(True), der.integer(1)), True)]), None))
    return seeds

def gen_pkfile(ck, r, budget, samples):
    """file-based private-key entry points (they take the PEM password): encrypted samples with correct / wrong / empty /
    no password, and header-level mutations of them"""
    cases, meta = [], []
    def add(pw, t, kind):
        cases.append("pkfile %s %s" % (pw, hx(t))); meta.append(("pkfile", kind, "encrypted-sample")); ck.count("pkfile:" + kind)
    texts = [t for _, t in samples]
    plain = open(os.path.join(vlib.REPO, "testkeys", "RSA/1024_RSA_KEY.pem"), "rb").read()
    for t in texts + [plain]:
        for pw in PW:
            add(pw, t, "sample")
    for body in (0, 1, 8, 15, 16, 17, 24, 32, 33):
        for cipher, iv in (("DES-EDE3-CBC", "0011223344556677"), ("AES-128-CBC", "00112233445566778899aabbccddeeff")):
            add("7665726966", enc_pem(cipher, iv, body), "small-body")
    while len(cases) < budget and texts:
        b = bytearray(r.choice(texts))
        for _ in range(r.choice([1, 2, 3])):
            k = r.randrange(5); z = r.randrange(min(len(b), 140)) if b else 0; pos = r.randrange(len(b)) if b else 0
            if k == 0: b[z] = r.choice([0, 10, 44, 58, 71, 255, r.randrange(256)])
            elif k == 1: del b[z]
            elif k == 2: b[z:z] = r.choice([b",", b"\n", b"\x00", b"DEK-Info: AES-128-CBC,", b"F" * 16])
            elif k == 3: del b[pos:pos + r.choice([1, 3, 64])]
            else: b[pos] = r.randrange(256)
        add(r.choice(PW), bytes(b), "mutated")
    return cases, meta

def whole_line(op, b, extra):
    return "%s %s%s" % (op, hx(b), (" " + extra) if extra else "")

def gen_whole(ck, r, seeds, budget):
    seeds = [x for x in seeds if x[1] != "pkfile"]        # those are driven by gen_pkfile / gen_pempw
    cases, meta = [], []
    def add(op, b, extra, kind, name):
        cases.append(whole_line(op, b, extra)); meta.append((op, kind, name)); ck.count("whole:%s:%s" % (op, kind.split("+")[0]))
    for name, op, b, extra in seeds:
        add(op, b, extra, "seed", name)
    # every truncation point of a few small seeds (header boundaries for the others)
    small = sorted([s for s in seeds if s[1] in ("cert", "ocsp", "crl", "dhparams", "pubkey", "pkcs8", "privkey", "p12")], key=lambda s: len(s[2]))
    done = set()
    for name, op, b, extra in small:
        if op in done: continue
        done.add(op)
        offs = der.offsets(b)
        cuts = sorted(set([s for s, h, n, t, d in offs] + [s + h for s, h, n, t, d in offs] + [s + 1 for s, h, n, t, d in offs]))
        step = max(1, len(cuts) // ck.budget(60, 400))
        for c in cuts[::step]:
            add(op, b[:c], extra, "truncate-at-tlv", name)
    # length-CONSISTENT resize of every leaf of a certificate carrying every extension kind (and of a CRL, an OCSP
    # response) to each width-boundary length: the element really has 256+k / 512+k octets and all enclosing
    # lengths agree, so the parser reaches the code that stores it
    for name, op, b in (("all-extensions-cert", "cert", der.cert_all_extensions()),) + tuple((n, o, x) for n, o, x, e in seeds if o in ("crl", "ocsp"))[:3]:
        ts = der.tree(b)
        if not ts: continue
        ls = der.leaves(ts)
        lens = der.WIDTH_LENS if op == "cert" else [30, 31, 255, 256, 257, 286, 287, 512, 542]
        stride = 1 if ck.tier == "thorough" else 2
        for li, leaf in enumerate(ls):
            for ni, n in enumerate(lens):
                if leaf.tag != 0x06 and (li + ni) % stride: continue       # OIDs: every length; other leaves: every other one in quick
                add(op, der.resized(ts, leaf, n), None, "resize-leaf:%02x" % leaf.tag, name)
        if op == "crl":            # CRLs may exceed 2^16 octets: cross the psSize_t boundary too
            for leaf in ls[:: max(1, len(ls) // 6)]:
                for n in (65535, 65536, 65536 + 30):
                    add(op, der.resized(ts, leaf, n), None, "resize-leaf-64k", name)
    # PKCS#12 / PKCS#8 / PKCS#1 / EC keys: the same length-consistent resize of every leaf (always in the quick tier):
    # block sizes 8/16 +-1, digest/salt sizes 20/32/64 +-1, 8-bit and MAX_* boundaries
    klens = [0, 1, 3, 4, 7, 8, 9, 15, 16, 17, 19, 20, 21, 24, 31, 32, 33, 63, 64, 65, 127, 128, 129, 255, 256, 257, 288, 511, 512, 513, 540, 1024]
    kseen = {}
    for name, op, b, extra in sorted(seeds, key=lambda x: (0 if (x[3] and x[0].startswith("samples/")) else 1)):     # password-protected samples first
        if op not in ("p12", "pkcs8") and not (op == "privkey" and len(b) < 1300):
            continue
        kseen[op] = kseen.get(op, 0) + 1
        if kseen[op] > (8 if op == "p12" else 6) and ck.tier != "thorough":
            continue
        ts = der.tree(b)
        if not ts: continue
        ls = der.leaves(ts)
        if op == "privkey": ls = ls[:12]
        if op in ("p12", "pkcs8"):      # iteration counts (1-2 byte INTEGERs): largest 31-bit value and just above the accepted maximum
            for leaf in [l for l in ls if l.tag == 0x02 and 1 <= len(l.content) <= 2]:
                for v in (b"\x7f\xff\xff\xff", b"\x00\x98\x96\x81", b"\x00", b"\xff"):
                    old_c = leaf.content; leaf.content = v
                    add(op, b"".join(t.enc() for t in ts), extra, "iteration-count", name)
                    leaf.content = old_c
        for li, leaf in enumerate(ls):
            for ni, n in enumerate(klens):
                if ck.tier != "thorough" and (li + ni) % (4 if op == "p12" else 2): continue
                add(op, der.resized(ts, leaf, n), extra, "resize-leaf:%02x" % leaf.tag, name)
    # certificates whose encoding straddles 2^16 octets, kept with CERT_STORE_UNPARSED_BUFFER (16-bit binLen / DER offsets)
    for total in (65529, 65530, 65531, 65532, 65533, 65534, 65535, 65536):
        for pad in range(total - 1100, total - 900):
            c = der.cert([der.extension("1.2.3.4", der.octet(bytes(pad)))])
            if len(c) - 4 == total:
                add("cert", c, "1", "size-2^16", "generated-cert"); add("cert", c, "3", "size-2^16", "generated-cert"); break
    derseeds = [s for s in seeds if s[1] not in ("certdata", "keys")]
    pemseeds = [s for s in seeds if s[1] in ("certdata", "keys")]
    offcache = {}
    while len(cases) < budget:
        if r.random() < 0.85 or not pemseeds:
            name, op, b, extra = r.choice(derseeds)
            if name not in offcache: offcache[name] = (der.offsets(b), der.tree(b))
            rz = der.mutate_resize(r, b, offcache[name][1]) if r.random() < 0.25 else None
            kind, m = rz if rz else der.mutate(r, b, offcache[name][0])
            if r.random() < 0.15:
                kind2, m = der.mutate(r, m); kind += "+" + kind2
            if len(m) > 200000: continue
            add(op, m, extra, kind, name)
        else:
            name, op, raw, extra = r.choice(pemseeds)
            blocks = der.pem_blocks(raw)
            if not blocks: continue
            out = b""
            kinds = []
            for lab, d in blocks[:3]:
                if r.random() < 0.7:
                    k, d = der.mutate(r, d); kinds.append(k)
                out += der.pem(lab, d)
            if r.random() < 0.3: out += b"\x00"
            if len(out) > 200000: continue
            add(op, out, extra, "pem:" + "+".join(kinds[:2]), name)
    return cases, meta


# ------------------------------------------------------------------------------------------- corpus
def corpus_cases():
    out = []
    p = os.path.join(vlib.VERIF, "corpus", "C09")
    if os.path.isdir(p):
        for f in sorted(os.listdir(p)):
            if f.endswith(".case"):
                for l in open(os.path.join(p, f)):
                    l = l.strip()
                    if l and not l.startswith("#"):
                        out.append(l)
    return out

MODEL_OPS = ("len32", "len16", "seq32", "seq16", "set32", "set16", "int", "enum", "oid", "oidcopy", "algid", "taglen", "gn", "crlrev", "dn", "b64", "pemchk", "pemdec", "pemlist", "pempw")

def is_model_case(c):
    return c.split(" ", 1)[0] in MODEL_OPS


def compare(ck, name, cases, impl, model, asan):
    """Impl vs Model with the FAULT convention.  Returns number of disagreements."""
    impl2, model2 = [], []
    for c, i, m in zip(cases, impl, model):
        i, m = i.strip(), m.strip()
        if i.startswith("FAULT"):
            i = "FAULT"
        if m == "FAULT" and not asan:
            i = "FAULT"            # plain build: an out-of-bounds read is not observable; nothing to compare
        if m.startswith("LEFTOVER"):
            # GeneralNames consumed != declared extension value: certificate-level outcome depends on unmodelled code
            m = i if i in ("fail",) or i.startswith("ok") else m
        impl2.append(i); model2.append(m)
    n = min(len(impl2), len(model2))
    return ck.correspond(name, cases[:n] if len(cases) != n else cases, impl2, model2,
                         nontrivial=lambda c, o: not o.startswith("rc=-") and o != "fail" and o != "no")


def gn_postprocess(cases, model):
    """model line for gn cases: ok only when the names consumed exactly the declared SEQUENCE and what follows is well formed"""
    out = []
    for c, m in zip(cases, model):
        if (c.startswith("gn ") or c.startswith("crlrev ")) and m.startswith("ok"):
            t = c.split()
            mm = re.match(r"ok p=(\d+) (.*)$", m)
            if mm:
                p, rest = int(mm.group(1)), mm.group(2)
                if p == int(t[1]) and (len(t) < 5 or t[4] == "1"):
                    m = "ok " + rest
                else:
                    m = "LEFTOVER ok " + rest
        out.append(m)
    return out


def run(ck):
    ck.trusted += ["Coq 8.16.1 kernel (coqc; vm_compute only in Examples / refutation witnesses)",
                   "translators tools/srcgen/consts.c, consts_asn.c (C compiler evaluates header constants/config flags), gen_b64map.py (decode table read from base64.c)",
                   "extraction (ExtrOcamlBasic only) + ocaml/drv_c09.ml + harness/h_asn.c + tools/der.py (case construction: the gn cases state which bytes are the GeneralNames of the certificate)",
                   "AddressSanitizer/UBSan of the system compiler as the observer of out-of-bounds reads and undefined behaviour; exact-size heap input buffers",
                   "modelled, not verified: coq/Asn/AsnModel.v is a hand transcription of asn1.c primitives, parseGeneralNames, psX509GetDNAttributes, psBase64decode, psPemCheckOk/psPemDecode(unencrypted)/psPemCertBufToList, compared with the library on every run"]
    ck.assumptions += ["buffers are shorter than 2^31 bytes (the C code computes (uint32)/(int32) pointer differences)",
                       "allocation succeeds (failure paths are C19's subject)",
                       "psToUtf8String (BMPString DN attributes) is compiled out in the default configuration (f_USE_ASN_BMPSTRING_DN_ATTRIBS = false is checked by a generated constant)"]
    t0 = time.time()
    asan_thread = threading.Thread(target=lambda: ck.build_repo("asan"))
    ck.build_repo()
    asan_thread.start()
    ck.regen([("consts.sh",), ("gen_b64map.py",)])
    ck.coq_properties()
    drv = ck.ocaml_driver("drv_c09", extract_vo="Extract/Extract_C09.vo", gen_ml=["m_c09"])
    hp = ck.cc("h_asn.c", wraps=WRAPS, variant="plain")
    asan_thread.join()
    ha = ck.cc("h_asn.c", wraps=WRAPS, variant="asan")
    if drv is None:
        return
    ck.log("builds + proofs done in %.1fs" % (time.time() - t0))
    r = ck.rng("gen")
    corp = corpus_cases()
    seeds = load_samples(ck)
    sample_cert = next((b for n, op, b, e in seeds if op == "cert"), None)
    mcases = [c for c in corp if is_model_case(c)]
    ncorp = len(mcases)
    mcases += gen_prims(ck, r, ck.budget(9000, 60000))
    mcases += gen_widths(ck, ck.rng("widths"))
    mcases += gen_gn(ck, ck.rng("gn"), ck.budget(900, 12000))
    mcases += gen_dn(ck, ck.rng("dn"), ck.budget(1500, 20000))
    mcases += gen_b64(ck, ck.rng("b64"), ck.budget(700, 10000))
    mcases += gen_pem(ck, ck.rng("pem"), ck.budget(900, 8000), sample_cert)
    enc_samples = [(n, b) for n, op, b, e in seeds if op in ("keys", "pkfile") and b"ENCRYPTED" in b]
    mcases += gen_pempw(ck, ck.rng("pempw"), ck.budget(2600, 12000), enc_samples)
    mcases += gen_crlrev(ck, ck.rng("crlrev"), ck.budget(2600, 12000))
    seen, uniq = set(), []
    for c in mcases:
        if c not in seen:
            seen.add(c); uniq.append(c)
    mcases = uniq
    ck.rules.append("structure-aware: DER lengths at 0/1/0x7f/0x80/0xff/0x100/0xffff/0x10000/0x10005/2^24/2^31/2^32-1 in every long form incl. leading zeros and indefinite, "
                    "content present = declared -1/0/+1, truncation at every header position, every prefix of nested structures; GeneralNames lists built from 20 entry kinds "
                    "(trailing/hidden NUL, control bytes, iPAddress sizes, otherName well/ill-formed, odd tag classes, empty, bad lengths) with declared SEQUENCE length +-k, junk, following "
                    "extensions; DNs with every attribute family, string type, multi-valued SETs, missing values, lengths to 65510, ASN.1-aware mutations; base64 with padding/garbage/"
                    "capacity variations; PEM frames with label/END/NUL/CRLF/encryption-header variations; whole parsers: ASN.1-aware mutations (14 operators) of every /repo/testkeys credential. "
                    "Integer-width boundaries: every length-consuming routine (asnCopyOid 0..600 and 2^16+k into a guarded 32-byte block, OID/INTEGER/SEQUENCE/SET headers, GeneralName and otherName type-id, DN value / attribute-type OID / attribute count, base64 length) is driven with lengths 0..35, 250..291, 508..545, 2^16-2..2^16+256 whose octets are really present; whole certificates: every leaf of a certificate carrying every parsed extension kind is resized, with all enclosing lengths re-encoded consistently, to 29..33, 126..129, 253..259, 283..289, 510..514, 540..544, 1023..1025, 4095..4097 octets (OIDs: each length), CRL leaves also to 2^16+k. "
                    "Encrypted PEM (psPemDecode with a password argument): IV digit counts 0..40 for both ciphers in place, before BEGIN and as the very last bytes of the buffer after the END line, non-hex characters at each IV position, unknown cipher names, bodies of 0..64 bytes around the block sizes, LF/CRLF/CR, 14 header orders (DEK-Info before/after/without Proc-Type, doubled), two DEK-Info lines, Proc-Type variants, every truncation point, passwords none/empty/right/wrong, header-zone mutations of the encrypted samples. "
                    "Key loading: every certificate x every key (own, foreign, RSA/EC crossed), chains of 1-3 in right/wrong order, unauthenticated chains, CA bundles with truncated / MD4 / bad-signature members, PEM and concatenated DER, three loaders, then matrixSslDeleteKeys; plus ASN.1-aware mutations of one component. "
                    "PKCS#12 / PKCS#8 / small private keys (always in the quick tier): every leaf of the password-protected samples (3DES-encrypted, plaintext-bag and EC PKCS#12; PBES2 PKCS#8) resized length-consistently to 0,1,3,4,7..9,15..17,19..21,24,31..33,63..65,127..129,255..257,288,511..513,540,1024 octets; iteration counts set to 2^31-1 / max+1 / 0 / negative. "
                    "CRLs: modelled revoked-entry loop (serial shapes and tags, 28 date strings in both time types, entry SEQUENCE length 0..real+3 in four length forms - the cursor underflow -, declared list length +-k, 0..50 entries, entry extensions, every truncation point); whole CRLs parsed three times with the consistency walker and a heap-baseline check on success AND failure, plus cache management: versions absent/1/0/2, nextUpdate absent/before/equal/after thisUpdate/indefinite, UTCTime and GeneralizedTime, 0/1/3/40 entries, CRL extensions AKID/cRLNumber/IDP/IAN/delta/unknown/duplicated, CA-signed samples (tools/c03pki.py), consistent resize of every leaf, NON-consistent edits of every constructed header's length (19 values), indefinite form, cuts after tag/header, prefixes. "
                    "A modelled case is non-trivial when the library accepts it")
    # ---- modelled functions: model vs sanitizer build (authoritative) and vs plain build (run concurrently)
    res = {}
    def run_model():
        t1 = time.time()
        k = 3                                                   # three driver processes side by side
        parts = [mcases[i * len(mcases) // k:(i + 1) * len(mcases) // k] for i in range(k)]
        outs = [None] * k
        def one(i):
            outs[i] = ck.run_lines(drv, parts[i])[1] if parts[i] else []
        ts = [threading.Thread(target=one, args=(i,)) for i in range(k)]
        for t in ts: t.start()
        for t in ts: t.join()
        m = [x for o in outs for x in o]
        res["model"] = gn_postprocess(mcases, m)
        ck.log("model: %d cases in %.1fs" % (len(mcases), time.time() - t1))
    def run_asan():
        t1 = time.time()
        res["asan"] = run_faulting(ck, ha, mcases, env=ASAN_ENV, label="asan/modelled")
        ck.log("asan harness: %d modelled cases in %.1fs, %d faults" % (len(mcases), time.time() - t1, len(res["asan"][1])))
    wcorp = [c for c in corp if not is_model_case(c)]
    wcases, meta = gen_whole(ck, ck.rng("whole"), seeds, ck.budget(12000, 120000))
    kcases, kmeta = gen_keyload(ck, ck.rng("keyload"), ck.budget(1500, 12000))
    pcases, pmeta = gen_pkfile(ck, ck.rng("pkfile"), ck.budget(250, 3000), enc_samples)
    ccases, cmeta = gen_crl_whole(ck, ck.rng("crl"), ck.budget(6500, 30000))
    wcases = wcorp + wcases + kcases + pcases + ccases; meta = [(c.split(" ", 1)[0], "corpus", "corpus") for c in wcorp] + meta + kmeta + pmeta + cmeta
    def run_whole():
        t1 = time.time()
        res["whole"] = run_faulting(ck, ha, wcases, env=ASAN_ENV, label="asan/whole")
        ck.log("asan harness: %d whole-parser cases in %.1fs, %d faults" % (len(wcases), time.time() - t1, len(res["whole"][1])))
    wth = threading.Thread(target=run_whole)
    th = [threading.Thread(target=run_model), threading.Thread(target=run_asan)]
    for t in th: t.start()
    wth.start()
    t1 = time.time()
    impl_p, faults_p = run_faulting(ck, hp, mcases, label="plain/modelled")
    ck.log("plain harness: %d modelled cases in %.1fs" % (len(mcases), time.time() - t1))
    for t in th: t.join()
    model = res["model"]; impl_a, faults_a = res["asan"]
    for m in model:
        ck.count("model:" + ("FAULT" if m == "FAULT" else "leftover" if m.startswith("LEFTOVER") else "accept" if (m.startswith("ok") or m.startswith("rc=0") or m.startswith("rc=65533") or m.startswith("len=")) else "reject"))
    dis = compare(ck, "AsnModel vs h_asn (ASan+UBSan build): result tuple, FAULT <-> sanitizer abort", mcases, impl_a, model, True)
    compare(ck, "AsnModel vs h_asn (plain build)", mcases, impl_p, model, False)
    # Impl vs Spec directly on the modelled cases: no sanitizer report; accepted GeneralNames/DN strings terminated
    for idx, summ in faults_a:
        c = mcases[idx]
        op = c.split(" ", 1)[0]
        if op == "oidcopy" and idx < len(model) and model[idx] == "FAULT":
            # asnCopyOid(der, derlen, ..) called with fewer than derlen octets behind der: outside the caller's
            # contract (c09_oid_copy_bounded assumes p + derlen <= limit); the fault only has to coincide with the model's
            continue
        if op == "taglen":
            # getAsnTagLenUnsafe has no length argument: it is safe only under its call-site contract
            # (c09_taglen_unsafe_partial); outside it the fault must merely coincide with the model's Fault
            continue
        ck.spec_violation("fault:%s:%s" % (op, summ), "sanitizer abort in a modelled parser primitive (%s) on %s" % (summ, op),
                          {"harness": "h_asn (asan)", "case": c, "observed": "FAULT " + summ, "expected_by_spec": "an error code or success, no memory error / undefined behaviour",
                           "model": model[idx] if idx < len(model) else None})
    for i, (c, o) in enumerate(zip(mcases, impl_a)):
        if o.startswith("ok") and c.startswith("gn "):
            for ent in o.split()[2:]:
                f = ent.split(":")
                if len(f) >= 4 and f[3] == "T0":
                    ck.spec_violation("gn-unterminated:id=%s" % f[0], "psX509ParseCert returned a subjectAltName entry whose data is not NUL-terminated inside its allocation",
                                      {"harness": "h_asn", "case": c, "observed": o[:600], "expected_by_spec": "every entry T1"})
                if len(f) >= 6 and f[0] in ("1", "2", "6") and f[5] != "S" + f[1]:
                    ck.spec_violation("gn-len-mismatch:id=%s" % f[0], "recorded dataLen differs from the C-string length of a dNSName/rfc822Name/URI entry",
                                      {"harness": "h_asn", "case": c, "observed": o[:600], "expected_by_spec": "strlen(data) == dataLen"})
        if o.startswith("ok") and c.startswith("dn ") and ":T0:" in o:
            ck.spec_violation("dn-unterminated", "psX509GetDNAttributes stored an attribute string without its terminators / with a length outside its allocation",
                              {"harness": "h_asn", "case": c, "observed": o[:600], "expected_by_spec": "every attribute T1"})
    # ---- whole parsers: exploration under the sanitizers + consistency walker (run concurrently, see above)
    wth.join()
    wout, wfaults = res["whole"]
    ck.cov["evaluations"] += len(wcases)
    nacc = 0
    seedfail = []
    for (op, kind, name), c, o in zip(meta, wcases, wout):
        if o.startswith("FAULT"):
            ck.count("whole-out:FAULT")
            ck.spec_violation("fault:%s:%s" % (op, o.split(" ", 1)[1] if " " in o else "?"),
                              "sanitizer abort inside %s on a mutated credential (%s of %s)" % (op, kind, name),
                              {"harness": "h_asn (asan)", "case": c, "observed": o, "expected_by_spec": "an error code or success, no memory error / undefined behaviour"})
            continue
        m = re.match(r"rc=(ok|fail) C=(\d) L=(-?\d+)", o)
        if not m:
            ck.count("whole-out:other"); continue
        ck.count("whole-out:" + m.group(1))
        if m.group(1) == "ok":
            nacc += 1; ck.add_distinct("whole" + c[:200])
        if kind == "seed" and m.group(1) != "ok":
            seedfail.append("%s:%s" % (op, name))
        if m.group(2) != "1":
            ck.spec_violation("inconsistent:%s:%s" % (op, (re.search(r"why=(\S+)", o) or [None, "?"])[1]),
                              "%s returned an object with a length outside its buffer or an unterminated string" % op,
                              {"harness": "h_asn (asan)", "case": c, "observed": o, "expected_by_spec": "C=1"})
        if int(m.group(3)) > 0:
            ck.spec_violation("leak:%s:%s" % (op, m.group(1)), "%s leaves %s heap block(s) allocated after its result was freed" % (op, m.group(3)),
                              {"harness": "h_asn (asan)", "case": c, "observed": o, "expected_by_spec": "L=0"})
    ck.cov["explored_only"] = EXPLORED_ONLY
    ck.cov["whole_parser_cases"] = len(wcases)
    ck.cov["whole_parser_accepted"] = nacc
    ck.cov["seed_credentials"] = len(seeds)
    ck.cov["seeds_not_accepted"] = seedfail[:40]
    ck.cov["modelled_cases"] = len(mcases)
    ck.cov["model_faults_confirmed_by_sanitizer"] = sum(1 for m, i in zip(model, impl_a) if m == "FAULT" and i.startswith("FAULT"))
    ck.cov["exhaustive"] = False
    ck.notes.append("PARTIAL claim: theorems cover the modelled primitives only; the parsers listed under explored_only are covered by differential exploration under ASan/UBSan, not by proof")


def replay(ck, path):
    rp = json.load(open(path))["replay"]
    ha = ck.cc("h_asn.c", wraps=WRAPS, variant="asan")
    cs = rp.get("cases") or [rp["case"]]
    out, faults = run_faulting(ck, ha, cs, env=ASAN_ENV)
    for c, o in zip(cs, out):
        print("case:", c[:300]); print("  impl:", o[:300], " spec: an error code or success; no sanitizer report; consistent object")
