"""C08 - no memory fault, hang or leak on any network input in any state (claimed PARTIALLY).

Theorems: coq/Properties/Properties_C08.v over coq/Wire/WireModel.v (record header + DTLS epoch
skip, TLS 1.3 header/CCS loop, handshake header + TLS / TLS 1.3 / DTLS fragment reassembly, API
buffer arithmetic, CBC pad/MAC layout) and coq/Wire/PbufModel.v (psParseTlsVariableLengthVec and the psParseBuf
primitives of core/src/psbuf.c / psbuf.h) with the rd/wr/Fault discipline.
Tie (i): harness/h_wire.c `u` operations (ASan+UBSan build) against the extracted model
(ocaml/drv_c08.ml): result tuples must agree and a model Fault must coincide with a sanitizer report.
Tie (ii) / exploration: structure-aware mutations of real transcripts in every state reached by a
prefix of a legal handshake (h_wire `cap` / `x`), verdict = no sanitizer report, documented return
code, call returns, 0 <= inlen <= insize <= SSL_MAX_BUF_SIZE, LeakSanitizer clean after delete.
Uninitialised memory (no compiler flag, same ASan build): the exploration runs with the unused stack painted 0xfe
before every API call and at paint points inside the parsers (after psParseBufFromStaticData, psParseTlsVariableLengthVec,
psParseBufCopyN, sslUpdateHSHash, tls13TranscriptHashUpdate return) and fresh heap blocks filled 0xbe; the legal trace
of every configuration, every corpus / directed case and a deterministic sample of the exploration (all of it in
thorough) are run again in fresh children under other stack paints / heap fills and every observable (result line:
return codes, alert, hash and length of bytes queued and of plaintext delivered, state, expectedName, ALPN) must be
identical (`uninit:stack:*` / `uninit:heap:*`); one of the further runs leaves the stack unpainted (sStale: a value
that is only right because an earlier call left it in the same slot); `u paint` is the positive control of the painter.
The same harness built without sanitizers runs the legal traces, corpus, directed cases and a sample of the
exploration under valgrind memcheck when valgrind is installed (`uninit:memcheck:<function>`).  A length
argument handed to psParseBufCopyN that claims more room than the target object has is reported by the capacity audit
(`uninit:arg:*`): a slot the compiler re-uses inside the frame cannot be painted from outside.
Message-sequence and multi-connection scenarios (directed(), always-run: one case per variant in every tier):
DTLS client fed 1-4 HelloVerifyRequests with cookie lengths {0,1,16,32,255} (every ordered pair, same / different /
prefix-equal contents, message_seq 0/1, fresh / replayed record numbers) before (hvr-seq) and after (hvr-again) it holds
a cookie, then the genuine server flight; DTLS server fed ClientHello retransmissions without / with the right / with
wrong cookies of those lengths in three states (ch-retx); NewSessionTicket of any length / lifetime, duplicated, split
(nst-len), the same followed by the application's next connection on the session id object the ticket went into
(nst-reuse, harness flag r).  Configurations t12tk2 / t12tkrot / t12tk3 / t12rid / t13tk2 / d12rid capture and mutate the transcript of the
second or third connection on the same sslSessionId_t, server keys and session cache (resumption by ticket, ticket
renewal after the server rotated its ticket key, resumption with the renewed ticket, resumption by id, TLS 1.3 PSK);
the earlier connections run to completion in the harness first and everything is deleted at the end (LeakSanitizer).
ext-matrix (always-run): every extension-bearing message (ClientHello incl. the one after a HelloRetryRequest and the PSK
one, ServerHello, HelloRetryRequest, EncryptedExtensions, CertificateRequest, both Certificate messages (last entry),
NewSessionTicket, TLS 1.2 hellos) x every extension type that is a `case` label of the tree's extension parsers (read from
the source on every run, + unknown types) x {absent, empty, plausible bodies, body of another extension, duplicated,
last, first}: the recognised-but-forbidden cells of RFC 8446 4.2 in particular; sealed for the null-cipher receiver,
then session deletion under LeakSanitizer.
evidence: always_run_classes / sampled_classes give "run/generated" per class.
The message / extension parsers behind the modelled framing are explored only (EXPLORED_ONLY)."""
import json, os, re, subprocess, sys, time
import vlib

WRAPS = ["psGetBrokenDownGMTime", "psGetEntropy", "psGetPrngLocked", "psGetTime", "csAesGcmEncryptTls13",
         "csChacha20Poly1305IetfEncryptTls13", "sslUpdateHSHash",
         "psParseBufFromStaticData", "psParseTlsVariableLengthVec", "psParseBufCopyN", "tls13TranscriptHashUpdate"]   # paint points

CFGS = ["t11", "t12", "t12cbc", "t12rsa", "t12ca", "t12ec", "t13", "t13ca", "t13cha", "d12", "d12ca", "d12cbc", "d12f", "d10",
        # later connections on the same sslSessionId_t / server keys / session cache (h_wire.c CFGS: ticket, conn)
        "t12tk", "t12tk2", "t12tkrot", "t12tk3", "t12rid", "t13tk", "t13tk2", "d12rid", "t13hrr"]
DTLS = {"d12", "d12ca", "d12cbc", "d12f", "d10", "d12rid"}
MULTI_CONN = {"t12tk2": 2, "t12tkrot": 2, "t12tk3": 3, "t12rid": 2, "t13tk2": 2, "d12rid": 2}     # which connection the transcript is
# configurations explored for their special messages, and near-duplicates of another configuration (same code paths up to the
# cipher suite / key type): reduced sampling of the generic classes in the quick tier; the always-run classes are not affected
REDUCED = set(MULTI_CONN) | {"t12tk", "t13tk", "t13hrr"}
REDUCED_QUICK = set()       # (not needed since run_parallel uses short-lived harness processes)
# ext-matrix: the configuration that delivers the full grid for a handshake message (type, TLS 1.3?); the others get a sample
EXT_GRID = {("t13ca", 1), ("t13ca", 2), ("t13ca", 8), ("t13ca", 13), ("t13ca", 11), ("t13tk", 4), ("t13hrr", 2), ("t13hrr", 1), ("t13tk2", 1), ("t13tk2", 2),
            ("t12", 1), ("t12", 2)}
HVR_FULL_GRID = {"d12", "d10"}          # every ordered pair of cookie lengths; the other DTLS configurations get a sample
MACSZ = {"t11": 20, "t12cbc": 32, "t12rsa": 32, "d12cbc": 32, "d10": 20}

EXPLORED_ONLY = [
    "hsDecode.c: parseClientHello, parseServerHello, parseCertificate, parseServerKeyExchange, parseServerHelloDone, "
    "parseCertificateRequest, parseClientKeyExchange, parseCertificateVerify, parseFinished (body), NewSessionTicket / "
    "HelloVerifyRequest / CertificateStatus bodies in sslDecode.c parseSSLHandshake",
    "extDecode.c: parseClientHelloExtensions, parseServerHelloExtensions and every per-extension parser",
    "tls13Decode.c: tls13ParseClientHello, tls13ParseServerHello, tls13ParseEncryptedExtensions, tls13ParseCertificateRequest, "
    "tls13ParseCertificate, tls13ParseCertificateVerify, tls13ParseFinished, tls13ParseNewSessionTicket, alert handling, "
    "inner-plaintext padding scan",
    "tls13DecodeExt.c: every TLS 1.3 extension parser (key_share, supported_versions, pre_shared_key, signature_algorithms, ...)",
    "sslDecode.c: decrypt + MAC verification, alert / change_cipher_spec / application_data record bodies, encodeResponse",
    "dtls.c: dtlsChkReplayWindow (proved for C16), flight resend (matrixDtlsGetOutdata timeout path), HelloVerifyRequest cookie",
    "core/src/psbuf.c + core/include/psbuf.h: only the parse primitives used by tls13Decode*.c are modelled (coq/Wire/PbufModel.v); the psDynBuf / ASN.1 "
    "(psParseBufGetTagLen ...) parts are explored only",
    "x509.c certificate parsing reached through Certificate messages (subject of C09)",
]


DIRECTED_CLASSES = ("hvr-seq", "hvr-again", "ch-retx", "nst-len", "nst-reuse", "ext-matrix")     # message-sequence / multi-connection scenarios (directed())
ALWAYS_CLASSES = ("tail-over-split", "ext-last-split") + DIRECTED_CLASSES      # never sampled away: every (overclaim, nesting level) of every handshake message
RESEND_CLASSES = ("dup-newseq", "dup-newseq-timeout", "timeout", "resend-prev", "resend-prev-timeout")

# ------------------------------------------------------------------ transcript handling
class Unit:
    def __init__(self, cfg, tok):
        f = tok.split(":")
        self.cfg, self.i, self.to, self.hs, self.kind = cfg, int(f[0]), f[1], int(f[2]), int(f[3])
        self.wire = vlib.unhex(f[4]); self.pt = vlib.unhex(f[5])
        self.hl = 13 if cfg in DTLS else 5
        self.hdr, self.payload = self.wire[:self.hl], self.wire[self.hl:]

    def content(self):
        """(content type, plaintext content) of the record"""
        k = self.kind
        if k == 0:
            return self.wire[0], self.payload
        if k in (1, 2):
            return self.wire[0], self.pt
        if k == 3:
            p = self.pt.rstrip(b"\0")
            return (p[-1] if p else 0), p[:-1]
        mac = MACSZ.get(self.cfg, 20)
        pad = self.pt[-1]
        return self.wire[0], self.pt[16:len(self.pt) - 1 - pad - mac]

    def rec(self, content, ctype=None, hdr=None, seqadd=0, reclen=None):
        """wire bytes of a record with this unit's protection geometry carrying `content`"""
        k = self.kind
        hdr = bytearray(hdr if hdr is not None else self.hdr)
        if k == 0:
            body = content
            if ctype is not None: hdr[0] = ctype
        elif k == 1:
            body = self.payload[:8] + content + bytes(16)
            if ctype is not None: hdr[0] = ctype
        elif k == 2:
            body = content + bytes(16)
            if ctype is not None: hdr[0] = ctype
        elif k == 3:
            body = content + bytes([ctype if ctype is not None else self.content()[0]]) + bytes(16)
        else:
            mac = MACSZ.get(self.cfg, 20)
            n = 16 + len(content) + mac + 1
            pad = (-n) % 16
            body = self.pt[:16] + content + bytes(mac) + bytes([pad]) * (pad + 1)
            if ctype is not None: hdr[0] = ctype
        if self.hl == 13 and seqadd:
            s = int.from_bytes(hdr[5:11], "big") + seqadd
            hdr[5:11] = (s & 0xFFFFFFFFFFFF).to_bytes(6, "big")
        L = len(body) if reclen is None else reclen
        hdr[self.hl - 2:self.hl] = (L & 0xFFFF).to_bytes(2, "big")
        return bytes(hdr) + body

    @property
    def nullc(self):
        return self.kind != 0


def hs_msgs(cfg, content):
    """split handshake content into messages: (type, hslen, msn, off, flen, body, start, end)"""
    out, o, d = [], 0, cfg in DTLS
    hh = 12 if d else 4
    while o + hh <= len(content):
        t = content[o]; L = int.from_bytes(content[o + 1:o + 4], "big")
        if d:
            msn = int.from_bytes(content[o + 4:o + 6], "big"); off = int.from_bytes(content[o + 6:o + 9], "big")
            fl = int.from_bytes(content[o + 9:o + 12], "big")
        else:
            msn, off, fl = 0, 0, L
        e = min(len(content), o + hh + fl)
        out.append((t, L, msn, off, fl, content[o + hh:e], o, e))
        o = e
    return out


def hs_hdr(cfg, t, L, msn=0, off=0, fl=None):
    h = bytes([t & 0xFF]) + (L & 0xFFFFFF).to_bytes(3, "big")
    if cfg in DTLS:
        h += (msn & 0xFFFF).to_bytes(2, "big") + (off & 0xFFFFFF).to_bytes(3, "big") + ((L if fl is None else fl) & 0xFFFFFF).to_bytes(3, "big")
    return h


def capture(h, cfgs, env=None):
    rc, out, err = vlib.sh([h], inp="".join("cap %s\n" % c for c in cfgs), timeout=300, env=(dict(os.environ, **env) if env else None))
    capture.raw = dict(zip(cfgs, out.split("\n")))
    caps = {}
    for c, l in zip(cfgs, out.split("\n")):
        m = re.match(r"cap n=(\d+) rc=(-?\d+) done=(\d\d) \|(.*)", l)
        if not m:
            caps[c] = (None, l[:300] + err[-600:])
            continue
        caps[c] = ([Unit(c, t) for t in m.group(4).split()], m.group(3))
    return caps


# ------------------------------------------------------------------ mutation generator
LENVALS16 = [0, 1, 0x3FFF, 0x4000, 0x4001, 0x4800, 0x4801, 0x7FFF, 0x8000, 0xFFFF]


def around(v, mx):
    s = {0, 1, v - 1, v + 1, mx, mx - 1, v // 2, v * 2}
    return sorted(x for x in s if 0 <= x <= mx and x != v)


def offsets(n, r, dense=48):
    """cut positions 1..n-1: all when short, otherwise both ends + a sample"""
    if n <= 1: return []
    if n - 1 <= dense: return list(range(1, n))
    s = set(range(1, 13)) | set(range(n - 12, n)) | {n // 2}
    while len(s) < dense: s.add(r.randrange(1, n))
    return sorted(x for x in s if 0 < x < n)


def mutations(cfg, units, k, r):
    """yield (class, flags, [wire chunks]) for the state before unit k"""
    u = units[k]; d = cfg in DTLS; hl = u.hl
    ct, content = u.content()
    nf = "n" if u.nullc else ""
    W = u.wire
    # ---- wire level (no knowledge of keys needed)
    for i in offsets(len(W) + 1, r, 40):
        yield ("trunc-wire", "e", [W[:i]])
    for i in offsets(len(W), r, 16):
        yield ("split-call", "e", [W[:i], W[i:]])                # same bytes, two receive calls
    L = len(u.payload)
    for v in sorted(set(LENVALS16 + [L - 1, L + 1, L + 2, L + 16])):
        if 0 <= v <= 0xFFFF and v != L:
            h2 = bytearray(u.hdr); h2[hl - 2:hl] = v.to_bytes(2, "big")
            yield ("reclen", "e" + nf, [bytes(h2) + u.payload])
    for t in (0, 1, 19, 20, 21, 22, 23, 24, 25, 0x80, 0x16 | 0x80, 0xFF):
        if t != W[0]:
            yield ("rectype", "e" + nf, [bytes([t]) + W[1:]])
    for v in (b"\x03\x00", b"\x03\x01", b"\x03\x02", b"\x03\x03", b"\x03\x04", b"\xfe\xff", b"\xfe\xfd", b"\xfe\xfc", b"\x02\x00", b"\x00\x00", b"\xff\xff", b"\x7f\x1c"):
        if v != W[1:3]:
            yield ("recver", "e" + nf, [W[:1] + v + W[3:]])
    if d:
        ep = int.from_bytes(W[3:5], "big")
        for e2 in {0, 1, 2, ep + 1, ep - 1, 0xFFFF} - {ep}:
            if 0 <= e2 <= 0xFFFF:
                yield ("epoch", "e" + nf, [W[:3] + e2.to_bytes(2, "big") + W[5:]])
                # the epoch-skip path of sslDecode.c: CCS with a foreign epoch followed by something
                ccs = b"\x14" + W[1:3] + e2.to_bytes(2, "big") + bytes(6) + b"\x00\x01\x01"
                for tail in (b"", b"\x16", b"\x17", W[:12], W[:13], W[:13] + b"\x00", W, b"\x16" + W[1:11] + b"\xff\xff", ccs):
                    yield ("epoch-ccs", "e", [ccs + tail])
        for s2 in (0, 1, 0xFFFFFFFFFFFF):
            yield ("seq", "e" + nf, [W[:5] + s2.to_bytes(6, "big") + W[11:]])
        yield ("dup-datagram", "e" + nf, [W, W])
        # a retransmission by the peer: same message, fresh record sequence number; then our own flight is resent
        # (matrixDtlsGetOutdata on an empty outbuf), also after a plain timeout
        bump = lambda x, n: x[:5] + ((int.from_bytes(x[5:11], "big") + n) & 0xFFFFFFFFFFFF).to_bytes(6, "big") + x[11:]
        yield ("dup-newseq", "eo" + nf, [W, bump(W, 7)])
        yield ("dup-newseq-timeout", "eot" + nf, [W, bump(W, 7), bump(W, 9)])
        yield ("timeout", "et" + nf, [W])
        for back in (1, 2, 3):
            prev = [x for x in units[:k] if x.to == u.to][-back:]
            if prev:
                yield ("resend-prev", "eo" + ("n" if prev[0].nullc else ""), [bump(prev[0].wire, 11 + back)])
                yield ("resend-prev-timeout", "eot" + ("n" if prev[0].nullc else ""), [bump(prev[0].wire, 11 + back)])
    for i in range(min(12, len(W))):
        yield ("junk-record", "e", [bytes(r.randrange(256) for _ in range(r.choice([1, 5, 13, 40])))])
    yield ("coalesce-next", "e" + nf, [b"".join(x.wire for x in units[k:k + 3] if x.to == u.to)])
    if not d:
        ccs = b"\x14" + W[1:3] + b"\x00\x01\x01"
        for n in (1, 2, 3, 8):
            yield ("ccs-prefix", "e" + nf, [ccs * n + W])
            yield ("ccs-only", "e", [ccs * n])
            yield ("ccs-partial", "e", [ccs * n + W[:r.randrange(1, max(2, len(W)))]])
    def refrag(mc):
        """the same (mutated) handshake content delivered so that it is parsed out of an exact-size reassembly buffer"""
        if ct != 22 or len(mc) < 6: return None
        if not d:
            i = r.randrange(1, len(mc))
            return [u.rec(mc[:i]), u.rec(mc[i:])]
        ms = hs_msgs(cfg, mc)
        if not ms: return None
        (t_, L_, msn_, off_, fl_, body_, s_, e_) = ms[0]
        if off_ != 0 or fl_ != L_ or len(body_) != L_ or L_ < 2: return None
        i = r.randrange(1, L_)
        out_ = [u.rec(hs_hdr(cfg, t_, L_, msn_, 0, i) + body_[:i]), u.rec(hs_hdr(cfg, t_, L_, msn_, i, L_ - i) + body_[i:] + mc[e_:], seqadd=1)]
        return out_
    yield from directed(cfg, units, k, r)
    # ---- content level (chosen plaintext: the peer owns the keys)
    flips = content
    for _ in range(24):
        if not content: break
        b = bytearray(content); i = r.randrange(len(b)); b[i] ^= 1 << r.randrange(8)
        yield ("bitflip", "e" + nf, [u.rec(bytes(b))])
        rf = refrag(bytes(b))
        if rf: yield ("bitflip-split", "e" + nf, rf)
    for i in offsets(len(content) + 1, r, 24):
        yield ("trunc-content", "e" + nf, [u.rec(content[:i])])
    for n in (1, 3, 4, 12, 64):
        j = bytes(r.randrange(256) for _ in range(n))
        yield ("junk-after", "e" + nf, [u.rec(content + j)])
        yield ("junk-after-rec", "e" + nf, [u.rec(content), u.rec(j, seqadd=1)])
    # every plausible length field inside the content
    cands = []
    for o in range(len(content)):
        for w in (1, 2, 3):
            if o + w > len(content): continue
            v = int.from_bytes(content[o:o + w], "big"); rem = len(content) - o - w
            if v <= rem and (v > 0 or w > 1) and (w == 1 or v > 0 or rem < 4):
                cands.append((o, w, v, rem))
    r.shuffle(cands)
    for (o, w, v, rem) in cands[:40]:
        mx = (1 << (8 * w)) - 1
        for nv in r.sample(sorted({0, max(0, v - 1), min(mx, v + 1), min(mx, rem + 1), mx, min(mx, rem)} - {v}), 2):
            b = bytearray(content); b[o:o + w] = nv.to_bytes(w, "big")
            yield ("lenfield", "e" + nf, [u.rec(bytes(b))])
            rf = refrag(bytes(b))
            if rf: yield ("lenfield-split", "e" + nf, rf)
    if ct != 22:
        return
    msgs = hs_msgs(cfg, content)
    # the LAST element of a message claims 1..3 bytes more / less than there are, per nesting level: every length
    # field whose vector ends exactly at the end of the body forms a chain (outermost first); the enclosing ones up
    # to level j are kept consistent, the inner ones keep their old value.  Each variant is parsed out of the record
    # buffer and - re-fragmented - out of an exact-size reassembly buffer (TLS / TLS 1.3 split records, DTLS fragments)
    for (t, Lh, msn, off, fl, body, s, e) in msgs[:2]:
        if d and not (off == 0 and fl == Lh): continue
        if len(body) < 6: continue
        chain = [(o, w, int.from_bytes(body[o:o + w], "big")) for o in range(len(body)) for w in (1, 2, 3)
                 if o + w <= len(body) and int.from_bytes(body[o:o + w], "big") >= 1 and o + w + int.from_bytes(body[o:o + w], "big") == len(body)]
        chain.sort()
        chain = chain[:3] + chain[-5:] if len(chain) > 8 else chain
        pre, post = content[:s], content[e:]
        def deliver(kind, nb, hl_field, var):
            M = hs_hdr(cfg, t, hl_field, msn, 0, hl_field if d else None) + nb
            yield ("tail-%s-rec" % kind, "e" + nf, [u.rec(pre + M + post)])
            if hl_field != len(nb): return
            n_ = len(nb)
            if d:
                for i in sorted({1, n_ // 2, n_ - 1, r.randrange(1, n_)}):
                    if 0 < i < n_:
                        fa = u.rec(hs_hdr(cfg, t, n_, msn, 0, i) + nb[:i]); fb = u.rec(hs_hdr(cfg, t, n_, msn, i, n_ - i) + nb[i:], seqadd=1)
                        yield ("tail-%s-split#%s" % (kind, var), "e" + nf, [fa, fb] if i != n_ // 2 else [fb, fa])
            else:
                for i in sorted({4, len(M) // 2, len(M) - 1, r.randrange(1, len(M))}):
                    if 0 < i < len(M):
                        yield ("tail-%s-split#%s" % (kind, var), "e" + nf, [u.rec(pre + M[:i]), u.rec(M[i:])])
        for dd in (1, 2, 3):
            last_field_end = max([o + w for (o, w, v) in chain] + [0])
            if len(body) - dd > last_field_end:
                for j in range(-1, len(chain) + 1):
                    nb = bytearray(body[:-dd]); ok = True
                    for (o, w, v) in chain[:max(j, 0)]:
                        if v - dd < 0: ok = False; break
                        nb[o:o + w] = (v - dd).to_bytes(w, "big")
                    if ok:
                        yield from deliver("over", bytes(nb), Lh if j < 0 else len(nb), "%d.%d.%d" % (s, dd, j))
            for j in range(0, len(chain) + 1):
                nb = bytearray(body + bytes(r.randrange(256) for _ in range(dd))); ok = True
                for (o, w, v) in chain[:j]:
                    if v + dd >= 1 << (8 * w): ok = False; break
                    nb[o:o + w] = (v + dd).to_bytes(w, "big")
                if ok:
                    yield from deliver("under", bytes(nb), len(nb), "%d.%d.%d" % (s, dd, j))
    # every extension in turn moved to the END of the message and made 1..3 bytes longer / shorter, its own leading
    # length field (if it has one) and all enclosing lengths consistent: odd list lengths, element loops that step
    # over the end.  Delivered whole and split (exact-size reassembly buffer).
    for (t, Lh, msn, off, fl, body, s, e) in msgs[:2]:
        if d and not (off == 0 and fl == Lh): continue
        eb = ext_block(body)
        if not eb: continue
        o, exts = eb
        pre, post = content[:s], content[e:]
        for i, (et, ed) in enumerate(exts[:12]):
            rest = exts[:i] + exts[i + 1:]
            for dd in (1, -1, 3, 2, -2, -3):
                if dd < 0 and len(ed) + dd < 0: continue
                lead = 1 if (len(ed) >= 1 and ed[0] == len(ed) - 1) else 2 if (len(ed) >= 2 and int.from_bytes(ed[:2], "big") == len(ed) - 2) else 0
                if dd > 0: pay = ed[lead:] + bytes(r.randrange(256) for _ in range(dd))
                else: pay = ed[lead:len(ed) + dd] if len(ed) + dd >= lead else b""
                if lead and len(pay) >= 1 << (8 * lead): continue
                ned = (len(pay).to_bytes(lead, "big") if lead else b"") + pay
                nb = put_exts(body, o, rest + [(et, ned)])
                M = hs_hdr(cfg, t, len(nb), msn, 0, len(nb) if d else None) + nb
                var = "%d.%d.%d" % (s, i, dd)
                always = dd in (1, -1, 3)
                if d:
                    n_ = len(nb); h_ = max(1, n_ // 2)
                    yield ("ext-last-split#" + var if always else "ext-last-more", "e" + nf,
                           [u.rec(hs_hdr(cfg, t, n_, msn, 0, h_) + nb[:h_]), u.rec(hs_hdr(cfg, t, n_, msn, h_, n_ - h_) + nb[h_:], seqadd=1)])
                else:
                    h_ = r.randrange(4, len(M))
                    yield ("ext-last-split#" + var if always else "ext-last-more", "e" + nf, [u.rec(pre + M[:h_]), u.rec(M[h_:])])
                yield ("ext-last-rec", "e" + nf, [u.rec(pre + M + post)])
    # grow a length-prefixed vector inside a handshake message (its elements repeated), all enclosing
    # lengths kept consistent: element-count limits of the parsers (fixed-size tables in ssl_t)
    for (t, Lh, msn, off, fl, body, s, e) in msgs[:2]:
        if d and not (off == 0 and fl == Lh): continue
        vc = []
        for o in range(len(body)):
            for w in (1, 2):
                if o + w > len(body): continue
                v = int.from_bytes(body[o:o + w], "big")
                if 2 <= v <= len(body) - o - w: vc.append((o, w, v))
        r.shuffle(vc)
        for (o, w, v) in vc[:12]:
            elems = body[o + w:o + w + v]
            for reps in (2, 9, 17, 33, 65, 130, 600):
                nv = v * reps
                if nv >= (1 << (8 * w)) or nv > 30000: break
                # enclosing vectors: every earlier field whose range covers this one grows by the same amount
                nb = bytearray(body[:o] + nv.to_bytes(w, "big") + elems * reps + body[o + w + v:])
                delta = nv - v
                for (o2, w2, v2) in vc_enclosing(body, o, w, v):
                    nb[o2:o2 + w2] = ((v2 + delta) & ((1 << (8 * w2)) - 1)).to_bytes(w2, "big")
                nb = bytes(nb)
                mc = content[:s] + hs_hdr(cfg, t, len(nb), msn, 0, len(nb) if d else None) + nb + content[e:]
                yield ("vecgrow", "e" + nf, [u.rec(mc)])
                rf = refrag(mc)
                if rf: yield ("vecgrow-split", "e" + nf, rf)
    for (t, Lh, msn, off, fl, body, s, e) in msgs[:3]:
        pre, post = content[:s], content[e:]
        # handshake length field
        for v in sorted(set(around(Lh, 0xFFFFFF) + [1024, 1025, 65535, 65536, 65537, 0xFFFF00])):
            yield ("hslen", "e" + nf, [u.rec(pre + hs_hdr(cfg, t, v, msn, off, fl if d else None) + body + post)])
            if d:
                yield ("hslen-unfrag", "e" + nf, [u.rec(pre + hs_hdr(cfg, t, v, msn, 0, v) + body + post)])
        for t2 in (0, 1, 2, 4, 8, 11, 13, 15, 20, 24, 0xEE):
            if t2 != t:
                yield ("hstype", "e" + nf, [u.rec(pre + hs_hdr(cfg, t2, Lh, msn, off, fl if d else None) + body + post)])
        full = off == 0 and fl == Lh
        if not d:
            # TLS / TLS 1.3: the message cut into 2..n records at every offset, coalesced or one call each
            whole = hs_hdr(cfg, t, Lh) + body
            for i in offsets(len(whole), r, 40):
                parts = [u.rec(pre + whole[:i]), u.rec(whole[i:] + post)]
                yield ("frag2", "e" + nf, parts)
                yield ("frag2-coalesced", "e" + nf, [b"".join(parts)])
            for n in (3, 4, 7):
                cuts = sorted(set(r.randrange(1, max(2, len(whole))) for _ in range(n - 1)))
                ps = [whole[a:b] for a, b in zip([0] + cuts, cuts + [len(whole)])]
                recs = [u.rec(x) for x in ps if x]
                yield ("fragN", "e" + nf, recs)
                yield ("fragN-coalesced", "e" + nf, [b"".join(recs)])
            # first fragment, then something that is not the continuation
            i = max(1, len(whole) // 2)
            yield ("frag-then-short", "e" + nf, [u.rec(whole[:i]), u.rec(whole[i:i + 1])])
            yield ("frag-then-long", "e" + nf, [u.rec(whole[:i]), u.rec(whole[i:] + whole)])
            yield ("frag-then-ccs", "e" + nf, [u.rec(whole[:i]), b"\x14" + W[1:3] + b"\x00\x01\x01"])
            yield ("frag-then-alert", "e" + nf, [u.rec(whole[:i]), u.rec(b"\x01\x00", ctype=21)])
            for v in (Lh + 1, Lh + 100, 65536, 65537, 0xFFFFFF):
                yield ("frag-bigger", "e" + nf, [u.rec(hs_hdr(cfg, t, v) + body), u.rec(body[:7])])
            yield ("hdr-split", "e" + nf, [u.rec(whole[:1]), u.rec(whole[1:])])
            yield ("hdr-split3", "e" + nf, [u.rec(whole[:3]), u.rec(whole[3:])])
        elif full or True:
            # DTLS: explicit fragments of the (possibly already fragmented) message
            B = body; H = Lh if full else max(Lh, off + len(B))
            def fr(o, l, data=None, seq=0, hsl=None, m=None):
                data = B[o - off:o - off + l] if data is None else data
                return u.rec(hs_hdr(cfg, t, H if hsl is None else hsl, msn if m is None else m, o, l) + data, seqadd=seq)
            n = len(B)
            if n >= 2:
                for i in offsets(n, r, 24):
                    a, b = fr(off, i), fr(off + i, n - i, seq=1)
                    yield ("dfrag2", "e" + nf, [a, b])
                    yield ("dfrag2-rev", "e" + nf, [fr(off + i, n - i), fr(off, i, seq=1)])
                    yield ("dfrag2-onedgram", "e" + nf, [a + b])
                i = n // 2
                yield ("dfrag-dup", "e" + nf, [fr(off, i), fr(off, i, seq=1), fr(off + i, n - i, seq=2)])
                yield ("dfrag-overlap", "e" + nf, [fr(off, i), fr(off + i - 1, n - i + 1, seq=1)])
                yield ("dfrag-overlap-hole", "e" + nf, [fr(off, i + 1 if i + 1 < n else i), fr(off + 1, n - i - 1 if n - i - 1 > 0 else 1, seq=1)])
                yield ("dfrag-zero", "e" + nf, [fr(off, i), fr(off + i, 0, data=b"", seq=1), fr(off + i, n - i, seq=2)])
                yield ("dfrag-zero-hang", "e" + nf, [fr(off, i), fr(off + i, 0, data=b"", seq=1), fr(off + 1, n - i, data=B[1:1 + n - i], seq=2)])
                yield ("dfrag-gap", "e" + nf, [fr(off, max(1, i - 1)), fr(off + i, n - i, seq=1)])
                yield ("dfrag-hslen-change", "e" + nf, [fr(off + i, n - i), fr(off, i, seq=1, hsl=i + 0), fr(off, i, seq=2, hsl=n - i)])
                yield ("dfrag-msn-change", "e" + nf, [fr(off, i), fr(off + i, n - i, seq=1, m=msn + 1)])
                many = [fr(off + j, 1, seq=j) for j in range(min(n, 20))]
                yield ("dfrag-many", "e" + nf, many)
                yield ("dfrag-many-onedgram", "e" + nf, [b"".join(many)])
            for (o2, l2) in [(0, H + 1), (1, H), (H, 1), (H - 1, 2), (0xFFFFFF, 1), (0, 0xFFFFFF), (H, 0), (0, 0), (0xFFFFFF, 0xFFFFFF), (1, 0), (0, 59000)]:
                if o2 < 0: continue
                yield ("dfrag-range", "e" + nf, [fr(o2, l2, data=B[:min(len(B), 10)])])
                yield ("dfrag-range-after-first", "e" + nf, [fr(off, max(1, n // 2)), fr(o2, l2, data=B[:min(len(B), 10)], seq=1)])
            for hv in (60000, 65536, 65537, 0xFFFFFF):
                yield ("dfrag-big", "e" + nf, [fr(0, 10, data=B[:10] + bytes(10 - min(10, len(B))), hsl=hv)])
                yield ("dfrag-big-fraglen", "e" + nf, [u.rec(hs_hdr(cfg, t, hv, msn, 0, hv - 1000) + B[:10])])
            # unfragmented header but short body (the non-DTLS reassembly path must not be entered)
            yield ("d-unfrag-short", "e" + nf, [u.rec(hs_hdr(cfg, t, Lh + 50, msn, 0, Lh + 50) + B)])
        # extension-ish: 16-bit lengths near the end of hello messages are covered by `lenfield`


# ------------------------------------------------------------------ extension types the library knows (read from the tree that is checked)
EXT_FALLBACK = {0: "SERVER_NAME", 1: "MAX_FRAGMENT_LEN", 3: "TRUSTED_CA_KEYS", 4: "TRUNCATED_HMAC", 5: "STATUS_REQUEST", 10: "SUPPORTED_GROUPS",
                11: "ELLIPTIC_POINTS", 13: "SIGNATURE_ALGORITHMS", 16: "ALPN", 18: "SIGNED_CERTIFICATE_TIMESTAMP", 23: "EXTENDED_MASTER_SECRET",
                35: "SESSION_TICKET", 40: "KEY_SHARE_PRE_DRAFT_23", 41: "PRE_SHARED_KEY", 42: "EARLY_DATA", 43: "SUPPORTED_VERSIONS", 44: "COOKIE",
                45: "PSK_KEY_EXCHANGE_MODES", 47: "CERTIFICATE_AUTHORITIES", 48: "OID_FILTERS", 49: "POST_HANDSHAKE_AUTH",
                50: "SIGNATURE_ALGORITHMS_CERT", 51: "KEY_SHARE", 0xFF01: "RENEGOTIATION_INFO"}
EXT_UNKNOWN = (2, 0x0A0A, 0x1234, 0xFFFF)           # not known to the library (one GREASE value)
EXT_TYPES = dict(EXT_FALLBACK)


def known_ext_types(R):
    """{number: name} of every EXT_* constant that is a `case` label in the extension parsers of the tree under R"""
    try:
        defs = {}
        for m in re.finditer(r"#\s*define\s+EXT_(\w+)\s+(0[xX][0-9a-fA-F]+|\d+)\b", open(os.path.join(R, "matrixssl/matrixsslApiExt.h")).read()):
            defs[m.group(1)] = int(m.group(2), 0)
        out = {}
        for f in ("tls13DecodeExt.c", "tls13Decode.c", "extDecode.c"):
            for m in re.finditer(r"\bcase\s+EXT_(\w+)\s*:", open(os.path.join(R, "matrixssl", f)).read()):
                if m.group(1) in defs: out.setdefault(defs[m.group(1)], m.group(1))
        return out if len(out) >= 10 else None
    except OSError:
        return None


# a few plausible bodies per type (the first one is "the minimal valid body" in at least one message that may carry the type)
EXT_BODIES = {
    0: [b"", bytes.fromhex("0005000002") + b"ab"], 1: [b"\x01"], 3: [bytes(2)], 4: [b""], 5: [bytes.fromhex("0100000000"), b""],
    10: [bytes.fromhex("00020017")], 11: [bytes.fromhex("0100")], 13: [bytes.fromhex("00020804")], 16: [bytes.fromhex("0003026832")],
    18: [b"", bytes(2)], 23: [b""], 35: [b"", b"ticket"], 40: [bytes.fromhex("0017"), bytes(2)],
    41: [bytes(2), bytes.fromhex("0008000261620000000000212000") + bytes(31)], 42: [b"", bytes.fromhex("00004000")],
    43: [bytes.fromhex("0304"), bytes.fromhex("020304")], 44: [bytes.fromhex("00026162")], 45: [bytes.fromhex("0101")],
    47: [bytes.fromhex("000300013000")[:5]], 48: [bytes(2)], 49: [b""], 50: [bytes.fromhex("00020804")],
    51: [bytes.fromhex("0017"), bytes(2), bytes.fromhex("00170001") + b"\x04"], 0xFF01: [b"\x00"],
}


def ext_locate(cfg, t, body):
    """(offset of the 2-byte extension list length or len(body) when the list is absent, [(type, data)]) for the handshake
    messages that carry extensions, by walking the message; None when the message has no extension list / does not parse.
    TLS 1.3 Certificate: the list of the LAST CertificateEntry."""
    t13 = cfg.startswith("t13"); d = cfg in DTLS
    try:
        if t == 1:
            o = 34; o += 1 + body[o]
            if d: o += 1 + body[o]
            o += 2 + int.from_bytes(body[o:o + 2], "big"); o += 1 + body[o]
        elif t == 2:
            o = 34; o += 1 + body[o]; o += 3
        elif t == 8 and t13: o = 0
        elif t == 13 and t13: o = 1 + body[0]
        elif t == 4 and t13:
            o = 8; o += 1 + body[o]; o += 2 + int.from_bytes(body[o:o + 2], "big")
        elif t == 11 and t13:
            o = 1 + body[0]; L = int.from_bytes(body[o:o + 3], "big"); o += 3; end = o + L; last = None
            while o + 3 <= end:
                cl = int.from_bytes(body[o:o + 3], "big"); o += 3 + cl; last = o
                o += 2 + int.from_bytes(body[o:o + 2], "big")
            if last is None or o != len(body): return None
            o = last
        else:
            return None
        if o > len(body): return None
        if o == len(body): return (o, [])
        L = int.from_bytes(body[o:o + 2], "big")
        if o + 2 + L != len(body): return None
        p, exts = o + 2, []
        while p + 4 <= len(body):
            et = int.from_bytes(body[p:p + 2], "big"); l = int.from_bytes(body[p + 2:p + 4], "big")
            if p + 4 + l > len(body): return None
            exts.append((et, body[p + 4:p + 4 + l])); p += 4 + l
        return (o, exts) if p == len(body) else None
    except IndexError:
        return None


def ext_rebuild(cfg, t, body, o, exts):
    nb = put_exts(body, o, exts)
    if t == 11 and cfg.startswith("t13"):
        # the enclosing certificate_list<0..2^24-1> grows / shrinks with the last entry's extensions
        lo = 1 + body[0]
        nb = nb[:lo] + (len(nb) - lo - 3).to_bytes(3, "big") + nb[lo + 3:]
    return nb


def ext_matrix(cfg, u, r, content, msgs, nf):
    """every extension-bearing message x every extension type the library knows (+ unknown ones) x {absent, empty, plausible
    bodies, body of another extension, duplicated, last, first}: in particular the recognised-but-forbidden cells"""
    d = cfg in DTLS
    for (t, Lh, msn, off, fl, body, s_, e_) in msgs[:2]:
        if d and not (off == 0 and fl == Lh): continue
        loc = ext_locate(cfg, t, body)
        if not loc: continue
        o, exts = loc
        pre, post = content[:s_], content[e_:]
        grid = (cfg, t) in EXT_GRID
        have = dict(exts)
        others = [x for x in exts if x[1]]
        def out(var, new_exts):
            nb = ext_rebuild(cfg, t, body, o, new_exts)
            M = hs_hdr(cfg, t, len(nb), msn, 0, len(nb) if d else None) + nb
            if len(pre + M + post) > 16000: return None
            return ("ext-matrix#%d.%s" % (t, var) if grid else "ext-matrix-more", "e" + nf, [u.rec(pre + M + post)])
        for et in sorted(EXT_TYPES) + list(EXT_UNKNOWN):
            rest = [x for x in exts if x[0] != et]
            bodies = EXT_BODIES.get(et, [b"", b"\x00\x01\x02\x03"])
            cur = have.get(et)
            vs = []
            if cur is not None: vs.append(("absent", rest))
            vs.append(("empty", rest + [(et, b"")]))
            for j, b in enumerate(bodies): vs.append(("body%d" % j, rest + [(et, b)]))
            ob = r.choice([x for x in others if x[0] != et] or [(0, b"\x00")])[1]
            vs.append(("other", rest + [(et, ob)]))
            b0 = cur if cur is not None else bodies[0]
            vs.append(("dup", rest + [(et, b0), (et, b0)]) if r.randrange(2) else ("dup", [(et, b0)] + rest + [(et, b0)]))
            if cur is not None: vs.append(("last", rest + [(et, b0)]))      # (a type that is not there: body0 already comes last)
            vs.append(("first", [(et, b0)] + rest))
            for var, ne in vs:
                c = out("%d.%s" % (et, var), ne)
                if c: yield c
        # no extension list at all / an empty one
        for var, nb in (("nolist", body[:o]), ("emptylist", body[:o] + bytes(2))):
            if t == 11 and cfg.startswith("t13"): continue
            M = hs_hdr(cfg, t, len(nb), msn, 0, len(nb) if d else None) + nb
            yield ("ext-matrix#%d.%s" % (t, var) if grid else "ext-matrix-more", "e" + nf, [u.rec(pre + M + post)])


COOKIE_LENS = (0, 1, 16, 32, 255)


def ch_cookie(body, cookie):
    """DTLS ClientHello body with the cookie replaced (version 2, random 32, session_id<0..32>, cookie<0..255>, ...)"""
    o = 34
    if len(body) < o + 1: return None
    o += 1 + body[o]
    if len(body) < o + 1 or len(body) < o + 1 + body[o]: return None
    return body[:o] + bytes([len(cookie) & 0xFF]) + cookie + body[o + 1 + body[o]:]


def directed(cfg, units, k, r):
    """message-sequence scenarios that no single-message mutation produces.  Class names carry `#variant`: classes in
    ALWAYS_CLASSES run one case per variant in every tier (never sampled away)."""
    u = units[k]; d = cfg in DTLS
    nf = "n" if u.nullc else ""
    ct, content = u.content()
    msgs = hs_msgs(cfg, content) if ct == 22 else []
    if d and u.to == "c" and u.kind == 0:
        # ---- DTLS client: repeated / varied HelloVerifyRequests.  k = the state before the genuine HelloVerifyRequest
        # (no cookie yet) or before the ServerHello (the client holds the genuine cookie).  Afterwards the genuine
        # server flight of the transcript, then everything is deleted (LeakSanitizer).
        hvr_i = next((i for i, x in enumerate(units) if x.to == "c" and x.kind == 0 and x.content()[0] == 22 and x.content()[1][:1] == b"\x03"), None)
        if hvr_i is not None and (k == hvr_i or (k > hvr_i and [x.i for x in units[hvr_i + 1:] if x.to == "c"][:1] == [k])):
            g = units[hvr_i]; gm = hs_msgs(cfg, g.content()[1])[0]; gcookie = gm[5][3:3 + gm[5][2]]; ver = gm[5][:2]
            flight = [x.wire for x in units[k:] if x.to == "c" and x.kind == 0][:6]
            seqn = [0]
            def hvr(cookie, msn=0, replay=False, claim=None):
                if not replay: seqn[0] += 1
                body = ver + bytes([len(cookie) if claim is None else claim]) + cookie
                return g.rec(hs_hdr(cfg, 3, len(body), msn, 0, len(body)) + body, seqadd=20 + seqn[0])      # replay: the record number of the one before
            def ck(n, tag):
                if tag == "g": return (gcookie * 16)[:n]            # the stored cookie, cut / extended to n bytes
                return bytes((tag * 37 + 11 + j) & 0xFF for j in range(n))
            full = cfg in HVR_FULL_GRID
            cl = "hvr-seq" if k == hvr_i else "hvr-again"
            def out(var, seq, always=True):
                return ("%s#%s" % (cl, var) if (always and full) else cl + "-more", "eo", seq + flight)
            if k == hvr_i:
                for a in COOKIE_LENS:
                    for b in COOKIE_LENS:
                        yield out("%d.%d" % (a, b), [hvr(ck(a, 1)), hvr(ck(b, 2))])                  # two requests, different cookies
                    yield out("%d.same" % a, [hvr(ck(a, 1)), hvr(ck(a, 1))])                          # the same request again
                    yield out("%d.replay" % a, [hvr(ck(a, 1)), hvr(ck(a, 1), replay=True)])           # ... with the same record number
                    yield out("%d.msn1" % a, [hvr(ck(a, 1)), hvr(ck(255 - a, 2), msn=1)])
                    yield out("%d.prefix" % a, [hvr(ck(a, 1)), hvr((ck(a, 1) + ck(7, 3))[:255])])             # longer, equal prefix
                for n in (3, 4):
                    for j in range(3):
                        ls = [r.choice(COOKIE_LENS) for _ in range(n)]
                        yield out("n%d.%d" % (n, j), [hvr(ck(x, r.randrange(1, 4)), msn=r.choice((0, 0, 1))) for x in ls])
                yield out("claim", [hvr(ck(8, 1), claim=200)])
            else:
                for b in COOKIE_LENS:
                    yield out("%d.diff" % b, [hvr(ck(b, 2))])
                    yield out("%d.stored" % b, [hvr(ck(b, "g"))])                                     # prefix of / longer than the stored one
                    yield out("%d.msn1" % b, [hvr(ck(b, 2), msn=1)])
                    yield out("%d.twice" % b, [hvr(ck(b, 2)), hvr(ck(b, 3))])
                yield out("genuine", [hvr(gcookie)])
                yield out("genuine-replay", [hvr(gcookie, replay=True)])
                yield out("genuine-longer", [hvr(gcookie + ck(16, 2))])
    if d and u.to == "s" and u.kind == 0:
        # ---- DTLS server: ClientHello retransmissions without / with the right / with a wrong cookie, then the rest
        chs = [x for x in units if x.to == "s" and x.kind == 0 and x.content()[0] == 22 and x.content()[1][:1] == b"\x01"]
        if len(chs) >= 2 and k in [chs[0].i, chs[1].i] + [x.i for x in units[chs[1].i + 1:] if x.to == "s"][:1]:
            m1 = hs_msgs(cfg, chs[0].content()[1])[0]; m2 = hs_msgs(cfg, chs[1].content()[1])[0]
            rest = [x.wire for x in units[k:] if x.to == "s" and x.kind == 0][:4]
            seqn = [0]
            def ch(kind, n=16, msn=None, replay=False):
                if not replay: seqn[0] += 1
                if kind == "none": m, body = m1, m1[5]
                elif kind == "right": m, body = m2, m2[5]
                else:
                    m = m2
                    good = m2[5][35 + m2[5][34] + 1:35 + m2[5][34] + 1 + m2[5][35 + m2[5][34]]]
                    c_ = (good * 16)[:n] if kind == "prefix" else bytes((0xA5 + j) & 0xFF for j in range(n))
                    if kind == "flip" and good: c_ = good[:-1] + bytes([good[-1] ^ 1])
                    body = ch_cookie(m2[5], c_)
                    if body is None: return None
                base = chs[0] if kind == "none" else chs[1]
                return base.rec(hs_hdr(cfg, 1, len(body), m[2] if msn is None else msn, 0, len(body)) + body, seqadd=30 + seqn[0])
            seqs = []
            for n in COOKIE_LENS:
                seqs.append(("wrong%d" % n, [ch("wrong", n)]))
                seqs.append(("prefix%d" % n, [ch("prefix", n)]))
                seqs.append(("none-wrong%d-right" % n, [ch("none"), ch("wrong", n), ch("right")]))
            seqs += [("flip", [ch("flip")]), ("none-none", [ch("none"), ch("none")]), ("none-replay", [ch("none"), ch("none", replay=True)]),
                     ("right-right", [ch("right"), ch("right")]), ("right-replay", [ch("right"), ch("right", replay=True)]),
                     ("right-none", [ch("right"), ch("none")]), ("right-wrong", [ch("right"), ch("wrong", 16)]),
                     ("none-msn1", [ch("none", msn=1)]), ("right-msn0", [ch("right", msn=0)]), ("right-msn2", [ch("right", msn=2)]),
                     ("wrong-flip-right", [ch("wrong", 32), ch("flip"), ch("right")])]
            full = cfg in HVR_FULL_GRID
            for var, sq in seqs:
                if any(x is None for x in sq): continue
                yield ("ch-retx#%d.%s" % (k, var) if full else "ch-retx-more", "eo", sq + rest)
    if msgs: yield from ext_matrix(cfg, u, r, content, msgs, nf)
    # ---- NewSessionTicket of any length / lifetime (first ticket, renewal for a session id that already holds one)
    for (t, Lh, msn, off, fl, body, s_, e_) in msgs[:2]:
        if t != 4 or u.to != "c" or d: continue
        pre, post = content[:s_], content[e_:]
        t13 = cfg.startswith("t13")
        if t13:
            if len(body) < 9: continue
            nl = body[8]; nonce = body[9:9 + nl]; o = 9 + nl
            tl = int.from_bytes(body[o:o + 2], "big"); ticket = body[o + 2:o + 2 + tl]; tail = body[o + 2 + tl:]
            mk = lambda life, tk, nn=nonce, tl_=None: life + body[4:8] + bytes([len(nn) & 0xFF]) + nn + (len(tk) if tl_ is None else tl_).to_bytes(2, "big") + tk + tail
        else:
            if len(body) < 6: continue
            tl = int.from_bytes(body[4:6], "big"); ticket = body[6:6 + tl]
            mk = lambda life, tk, nn=None, tl_=None: life + (len(tk) if tl_ is None else tl_).to_bytes(2, "big") + tk
        life = body[:4]
        def deliver(var, nb):
            M = hs_hdr(cfg, 4, len(nb)) + nb
            mc = pre + M + post
            if len(mc) <= 16000:
                yield ("nst-len#%s" % var, "e" + nf, [u.rec(mc)])
                # ... and the application connects again with the session id object the ticket was stored in
                yield ("nst-reuse#%s" % var, "er" + nf, [u.rec(mc)])
                i = max(1, len(M) // 2)
                yield ("nst-len#%s.split" % var, "e" + nf, [u.rec(pre + M[:i]), u.rec(M[i:] + post)])
            else:
                yield ("nst-len#%s" % var, "e" + nf, [u.rec(mc[i:i + 15000]) for i in range(0, len(mc), 15000)])
                yield ("nst-reuse#%s" % var, "er" + nf, [u.rec(mc[i:i + 15000]) for i in range(0, len(mc), 15000)])
        for n in sorted({0, 1, tl - 1, tl, tl + 1, tl + 16, tl + 64, 2 * tl + 1, 4000, 15000, 16400, 39000}):     # 16400: the next ClientHello needs two records
            if n < 0: continue
            tk = (ticket * (n // max(1, tl) + 1))[:n] if n != tl else bytes(b ^ 0x55 for b in ticket)
            yield from deliver("L%d" % n, mk(life, tk))
        for lf in (0, 1, 604800, 604801, 0x7FFFFFFF, 0xFFFFFFFF):
            yield from deliver("life%x" % lf, mk(lf.to_bytes(4, "big"), ticket))
        yield from deliver("claim+1", mk(life, ticket, tl_=tl + 1))
        yield from deliver("claim-1", mk(life, ticket, tl_=max(0, tl - 1)))
        if t13:
            for nn in (0, 1, 255):
                yield from deliver("nonce%d" % nn, mk(life, ticket, nn=bytes(nn)))
        # the same ticket message twice in a row (duplicate) and old + new one
        M0 = hs_hdr(cfg, 4, len(body)) + body
        yield ("nst-len#twice", "e" + nf, [u.rec(pre + M0 + M0 + post)])
        nb = mk(life, ticket + bytes(33))
        yield ("nst-len#old-then-longer", "e" + nf, [u.rec(pre + M0), u.rec(hs_hdr(cfg, 4, len(nb)) + nb + post)])


def ext_block(body):
    """(offset of the 2-byte list length, [(type, data)]) of an extension list that ends the body, or None"""
    for o in range(len(body) - 1):
        L = int.from_bytes(body[o:o + 2], "big")
        if L >= 4 and o + 2 + L == len(body):
            p, exts = o + 2, []
            while p + 4 <= len(body):
                t = int.from_bytes(body[p:p + 2], "big"); l = int.from_bytes(body[p + 2:p + 4], "big")
                if p + 4 + l > len(body): break
                exts.append((t, body[p + 4:p + 4 + l])); p += 4 + l
            if p == len(body) and exts: return o, exts
    return None


def put_exts(body, o, exts):
    blob = b"".join(t.to_bytes(2, "big") + len(x).to_bytes(2, "big") + x for t, x in exts)
    return body[:o] + len(blob).to_bytes(2, "big") + blob


def vc_enclosing(body, o, w, v):
    """length fields before offset o whose vector ends exactly where a vector containing [o, o+w+v) could end"""
    out = []
    end = o + w + v
    for o2 in range(max(0, o - 600), o):
        for w2 in (2, 3, 1):
            if o2 + w2 > o: continue
            v2 = int.from_bytes(body[o2:o2 + w2], "big")
            if o2 + w2 + v2 >= end and o2 + w2 + v2 <= len(body) and v2 >= v + w:
                out.append((o2, w2, v2)); break
    # keep only a nested chain (each one contains the next)
    chain, lo = [], -1
    for (o2, w2, v2) in out:
        if not chain or (o2 + w2 + v2 <= chain[-1][0] + chain[-1][1] + chain[-1][2]):
            chain.append((o2, w2, v2))
    return chain


GENERATED = {}          # class -> number of cases the generators produced (before sampling), filled by build_cases


def build_cases(caps, rng, per_state, classes_seen):
    """stratified sample: per (cfg,k) up to per_state cases, at least one of every class"""
    cases = []
    for cfg in CFGS:
        units, _ = caps.get(cfg, (None, None))
        if not units: continue
        for k in range(len(units)):
            r = vlib.Rng(rng.randrange(1 << 30), "%s/%d" % (cfg, k))
            byc = {}
            for (cl, fl, chunks) in mutations(cfg, units, k, r):
                chunks = [c for c in chunks if len(c) <= 40000]
                if not chunks or sum(len(c) for c in chunks) > 60000: continue
                cl, _, var = cl.partition("#")
                byc.setdefault(cl, []).append((cl, fl, chunks, var))
            # configurations added for their later connections share most of their states' code with the single-connection
            # ones: there only the directed classes are always-run and the sampled classes get half of the budget in total
            reduced = cfg in REDUCED
            halved = reduced or (per_state < 100 and cfg in REDUCED_QUICK)
            pick, singles = [], []
            for cl in sorted(byc):
                GENERATED[cl] = GENERATED.get(cl, 0) + len(byc[cl])
                r.shuffle(byc[cl])
                if cl in (DIRECTED_CLASSES if reduced else ALWAYS_CLASSES):
                    # one delivery of every message variant (the variants are the (message, d, nesting level) grid)
                    first = {}
                    for x in byc[cl]: first.setdefault(x[3], x)
                    pick += [x[:3] for x in first.values()]
                    byc[cl] = [x for x in byc[cl] if first[x[3]] is not x]
                    continue
                singles.append(byc[cl].pop()[:3])
            if halved:
                r.shuffle(singles); singles = singles[:per_state // 2]
            pick += singles
            rest = [x[:3] for cl in sorted(byc) for x in byc[cl]]
            r.shuffle(rest)
            pick += rest[:max(0, (0 if halved else per_state) - len(pick))]
            for (cl, fl, chunks) in pick:
                classes_seen[cl] = classes_seen.get(cl, 0) + 1
                cases.append((cl, "x %s %d %s %s %s" % (cfg, k, units[k].to, fl or "-", " ".join(vlib.hexs(c) for c in chunks))))
    return cases


def run_parallel(h, lines, nproc=4, timeout=3000, env=None, batch=350):
    """run case lines through nproc workers (lines of one state stay together); returns outputs in order.
    Every worker feeds its share to a series of short-lived harness processes (about `batch` lines each): a harness
    process that has forked thousands of children under ASan gets slower and slower (quarantine, page tables)."""
    groups, cur, key = [], [], None
    for i, l in enumerate(lines):
        kk = tuple(l.split(" ", 3)[:3])
        if kk != key and cur:
            groups.append(cur); cur = []
        key = kk; cur.append(i)
    if cur: groups.append(cur)
    buckets = [[] for _ in range(nproc)]
    sizes = [0] * nproc
    for g in sorted(groups, key=len, reverse=True):
        j = sizes.index(min(sizes)); buckets[j].append(g); sizes[j] += len(g)
    import threading
    outs = [None] * len(lines); errs = []
    penv = dict(os.environ, **env) if env else None
    def work(gs):
        gs.sort(key=lambda g: g[0])
        batches, cur = [], []
        for g in gs:
            cur += g
            if len(cur) >= batch: batches.append(cur); cur = []
        if cur: batches.append(cur)
        for b in batches:
            p = subprocess.Popen([h], stdin=subprocess.PIPE, stdout=subprocess.PIPE, stderr=subprocess.PIPE, text=True, errors="replace", env=penv)
            try:
                o, e = p.communicate("".join(lines[i] + "\n" for i in b), timeout=timeout)
            except subprocess.TimeoutExpired:
                p.kill(); o, e = p.communicate()
            ol = o.split("\n")
            for j, i in enumerate(b):
                outs[i] = ol[j] if j < len(ol) and ol[j] else "NOOUTPUT"
            if p.returncode != 0: errs.append(e[-2000:])
    ths = [threading.Thread(target=work, args=(gs,)) for gs in buckets if gs]
    for t in ths: t.start()
    for t in ths: t.join()
    return outs, errs


def signature(res):
    """result line -> (signature, text) or None when the verdict is clean"""
    if res.startswith("ok "): return None
    if res.startswith("FAULT "):
        f = res[6:].split(":")
        return ("%s:%s" % (f[0], f[1] if len(f) > 1 else "?"), "sanitizer report %s" % res[6:])
    if res.startswith("HANG"): return ("hang:receive", "API call did not return within the 5 s watchdog")
    if res.startswith("LEAK "): return ("leak:%s" % res[5:].split(":")[0], "LeakSanitizer: %s bytes unreachable after matrixSslDeleteSession" % res[5:])
    if res.startswith("BADRC "): return ("badrc:%s" % res[6:].split("@")[0], "undocumented return code %s" % res[6:])
    if res.startswith("BOUNDS "): return ("bounds:inlen-insize", "buffer bookkeeping outside 0 <= inlen <= insize <= SSL_MAX_BUF_SIZE: %s" % res[7:])
    if res.startswith("FRAGSIZE "): return ("fragsize:reassembly", "handshake reassembly buffer of %s bytes (limit 64 KB + header)" % res[9:])
    if res.startswith("ARGCAP "): return ("uninit:arg:%s" % res[7:].split(":")[0], "a length argument claims more room than the target object has (uninitialised / stale length): %s" % res[7:])
    if res.startswith("CRASH "): return ("crash:%s" % res[6:].replace(" ", ","), "child died without a sanitizer report: %s" % res)
    return ("harness:%s" % res.split()[0] if res else "harness:empty", "unexpected harness output %r" % res[:200])


# ------------------------------------------------------------------ uninitialised memory: paint differential
# Same case, fresh child, different paint of the unused stack (C08_PAINT: before every API call and at the paint points
# inside the parsers) resp. of freshly malloc'ed blocks (ASan malloc_fill_byte): every observable must be identical.
HS_NAMES = {0: "hello_request", 1: "client_hello", 2: "server_hello", 3: "hello_verify_request", 4: "new_session_ticket", 8: "encrypted_extensions",
            11: "certificate", 12: "server_key_exchange", 13: "certificate_request", 14: "server_hello_done", 15: "certificate_verify",
            16: "client_key_exchange", 20: "finished", 22: "certificate_status", 255: "done"}
BASE_PAINT = ("sFE/hBE", {"C08_PAINT": "fe"})          # the exploration itself runs painted: stack 0xfe, heap ASan's 0xbe
PAINTS = [("stack", "s00", {"C08_PAINT": "00"}),
          ("heap", "h00", {"C08_PAINT": "fe", "ASAN_OPTIONS": "malloc_fill_byte=0"}),
          ("stack", "sStale", {"C08_PAINT": "none"}),   # unpainted: a value that is only right because an earlier call left it on the stack
          ("stack", "s5A", {"C08_PAINT": "5a"}),
          ("heap", "hFE", {"C08_PAINT": "fe", "ASAN_OPTIONS": "malloc_fill_byte=254"})]


def first_difference(a, b):
    """name of the first observable that differs between two result lines"""
    if a.startswith("FAULT") or b.startswith("FAULT"):
        f = (a if a.startswith("FAULT") else b)[6:].split(":")
        return f[1] if len(f) > 1 else "fault"
    if a.split(" ", 1)[0] != b.split(" ", 1)[0]:
        return (a.split(" ", 1)[0] + "-vs-" + b.split(" ", 1)[0]).lower()
    if a.startswith("cap "):
        ta, tb = a.split(), b.split()
        for i, (x, y) in enumerate(zip(ta, tb)):
            if x != y: return "legal-trace:unit%s" % x.split(":")[0] if ":" in x else "legal-trace"
        return "legal-trace"
    for x, y in zip(a.split(), b.split()):
        if x != y: return x.split("=")[0]
    return "length"


def paint_differential(ck, h, lines, labels, base, npaints):
    """base = the result lines of the (painted) main run for the same cases"""
    base_name, base_env = BASE_PAINT
    nd = 0
    # positive control: under every paint used, a frame opened after a paint point sees only the paint byte
    bad = []
    for env in [base_env] + [p[2] for p in PAINTS[:npaints] if p[2]["C08_PAINT"] != "none"]:
        _, o, _ = ck.run_lines(h, ["u paint"], env=dict(os.environ, **env))
        want = "paint:%s-%s" % (env["C08_PAINT"], env["C08_PAINT"])
        if [x.strip() for x in o if x.strip()] != [want]: bad.append("%s: %r" % (want, o))
    ck.obligation("harness:stack_painter_effective", not bad, detail="; ".join(bad))
    for (kind, name, env) in PAINTS[:npaints]:
        outs, _ = run_parallel(h, lines, nproc=4, env=env)
        for l, lab, a, b in zip(lines, labels, base, outs):
            ck.count("paint:%s" % name)
            if a != b:
                nd += 1
                what = first_difference(a, b)
                faulted = a.startswith("FAULT") or b.startswith("FAULT")
                ck.spec_violation("uninit:%s:%s" % (kind, what if faulted or not lab[1] else lab[1]),
                                  "behaviour depends on uninitialised %s memory (first differing observable: %s): paint %s gives `%s`, paint %s gives `%s` (class %s)" % (
                                      kind, what, base_name, a[:160], name, b[:160], lab[0]),
                                  {"harness": "h_wire", "case": l, "env": [base_env, env], "observed": [a[:600], b[:600]],
                                   "expected_by_spec": "identical observables under every paint"})
    ck.cov["paint_differential_cases"] = len(lines)
    ck.cov["paint_differential_runs"] = npaints + 1
    return nd


# ------------------------------------------------------------------ uninitialised memory: valgrind memcheck on the plain build
VG_HARNESS_FRAMES = ("__wrap_", "feed_api", "child_", "body_", "run_forked", "main", "drain_out", "op_", "prepare_state", "run_prefix", "mk_pair")


def memcheck_start(ck, lines, nproc=2):
    """the same harness without sanitizers under valgrind memcheck (definedness is tracked per bit, so a value that is
    only right because an earlier call left it on the stack is seen as well).  stdout of the harness and the valgrind
    log share one pipe: the messages that precede a result line belong to that case."""
    import shutil
    if not shutil.which("valgrind"):
        ck.log("memcheck pass skipped: valgrind not installed")
        ck.cov["memcheck_cases"] = 0
        return None
    hv = ck.cc("h_wire.c", variant="plain", wraps=WRAPS + ["matrixSslDecode"])
    buckets = [list(range(i, len(lines), nproc)) for i in range(nproc)]
    procs = []
    for b in buckets:
        b.sort(key=lambda i: (tuple(lines[i].split(" ", 3)[:3]), i))        # cases of one state together (state cache)
        p = subprocess.Popen(["valgrind", "-q", "--track-origins=yes", "--num-callers=14", "--error-limit=no", "--run-libc-freeres=no", hv],
                             stdin=subprocess.PIPE, stdout=subprocess.PIPE, stderr=subprocess.STDOUT, text=True, errors="replace")
        procs.append((p, b))
    import threading
    found = {}
    def work(p, b):
        try:
            o, _ = p.communicate("".join(lines[i] + "\n" for i in b), timeout=3000)
        except subprocess.TimeoutExpired:
            p.kill(); o = ""
        k, pend = 0, []
        for l in o.split("\n"):
            if l.startswith("=="):
                pend.append(re.sub(r"^==\d+== ?", "", l))
            elif l:
                if pend and k < len(b): found[b[k]] = pend
                pend = []; k += 1
    ths = [threading.Thread(target=work, args=pb) for pb in procs]
    for t in ths: t.start()
    return (ths, found)


def memcheck_finish(ck, handle, lines, labels):
    if handle is None: return 0
    ths, found = handle
    for t in ths: t.join()
    n = 0
    for i in sorted(found):
        rep = found[i]
        kind = next((x.strip() for x in rep if x.strip() and not x.startswith(" ")), "memcheck error")
        fn = "unknown"
        for x in rep:
            m = re.match(r"\s+(?:at|by) 0x[0-9A-Fa-f]+: (\S+) \((?:in )?([^)]*)\)", x)
            if m and os.path.basename(m.group(2).split(":")[0]).startswith("h_wire") and not m.group(1).startswith(VG_HARNESS_FRAMES):
                fn = m.group(1); break
        n += 1
        ck.spec_violation(("uninit:memcheck:%s" if "ninitialised" in kind else "memcheck:%s") % fn, "valgrind memcheck: %s in %s (class %s)" % (kind, fn, labels[i][0]),
                          {"harness": "h_wire (plain build) under valgrind -q --track-origins=yes", "case": lines[i], "observed": "\n".join(rep)[:2500],
                           "expected_by_spec": "no memcheck report"})
    ck.cov["memcheck_cases"] = len(lines)
    return n


def corpus_lines(sub):
    out = []
    p = os.path.join(vlib.VERIF, "corpus", "C08")
    if os.path.isdir(p):
        for f in sorted(os.listdir(p)):
            if not f.startswith(sub): continue
            for l in open(os.path.join(p, f)):
                l = l.strip()
                if l and not l.startswith("#"): out.append(l)
    return out


# ------------------------------------------------------------------ unit operations (model correspondence)
HS_TOK = re.compile(r" [HIFS]\d")


def canon_pair(impl, model):
    """compare segment by segment; once the model hands a message to hash + parser (class U, the parsers are not
    modelled) only the hash log of that call is compared and the rest is ignored"""
    a, b = impl.strip().split(" | "), model.strip().split(" | ")
    oa, ob = [], []
    for i, sb in enumerate(b):
        sa = a[i] if i < len(a) else "<missing>"
        if sb.startswith("U"):
            ta = HS_TOK.search(sa); tb = HS_TOK.search(sb)
            oa.append("handoff" + (sa[ta.start():] if ta else "")); ob.append("handoff" + (sb[tb.start():] if tb else ""))
            return " | ".join(oa), " | ".join(ob)
        oa.append(sa); ob.append(sb)
    oa += a[len(b):]
    return " | ".join(oa), " | ".join(ob)


def dtls_rec(seq, body, ver=b"\xfe\xfd", typ=22, epoch=0):
    return bytes([typ]) + ver + epoch.to_bytes(2, "big") + seq.to_bytes(6, "big") + len(body).to_bytes(2, "big") + body


def tls_rec(body, ver=b"\x03\x03", typ=22):
    return bytes([typ]) + ver + len(body).to_bytes(2, "big") + body


def gen_hdr(r, n):
    """(harness line, None): record header / epoch gate cases"""
    ctxs = [("t12", 1, "c", False, b"\x03\x03"), ("t12", 0, "s", False, b"\x03\x03"), ("t11", 1, "c", False, b"\x03\x02"),
            ("d12", 1, "c", True, b"\xfe\xfd"), ("d12", 0, "s", True, b"\xfe\xfd"), ("d10", 1, "c", True, b"\xfe\xff")]
    vers = [b"\x03\x00", b"\x03\x01", b"\x03\x02", b"\x03\x03", b"\x03\x04", b"\xfe\xff", b"\xfe\xfd", b"\xfe\xfc", b"\x02\x00", b"\x7f\x1c", b"\x00\x00"]
    out = []
    for _ in range(n):
        cfg, k, side, d, ver = r.choice(ctxs)
        hs = r.choice(["-", "-", "-", "20", "255", "1", "2", "16"])
        exp = r.choice(["-", "-", "0", "1", "2", "65535"]) if d else "-"
        pccs, ade = r.choice("01"), r.choice("001")
        def one(first_seq):
            t = r.choice([22, 22, 22, 20, 21, 23, 0, 19, 24, 0x80, 0xff])
            v = ver if r.random() < 0.7 else r.choice(vers)
            bl = r.choice([0, 1, 1, 2, 5, 12, 40])
            body = bytes(r.randrange(256) for _ in range(bl))
            L = r.choice([bl, bl, bl, bl, bl + 1, max(0, bl - 1), 0, 18432, 18433, 0xFFFF])
            if d or (v[0] == 0xfe and r.random() < 0.5):
                ep = r.choice([0, 0, 1, 1, 2, 0xFFFF])
                sq = r.choice([first_seq, first_seq, 0, 1, 40, (1 << 48) - 1])
                return bytes([t]) + v + ep.to_bytes(2, "big") + sq.to_bytes(6, "big") + L.to_bytes(2, "big") + body
            return bytes([t]) + v + L.to_bytes(2, "big") + body
        data = one(0)
        if d and r.random() < 0.6:
            # more in the datagram: the epoch-skip / replay-skip loop and the CCS + Finished skip
            tail = r.choice(["rec", "rec", "ccs", "byte", "hdr", "big"])
            if tail == "rec": data += one(1)
            elif tail == "ccs": data = b"\x14" + ver + r.choice([0, 1, 2]).to_bytes(2, "big") + bytes(6) + b"\x00\x01\x01" + r.choice([b"", b"\x16", b"\x17", one(1), one(1)[:r.randrange(1, 14)]])
            elif tail == "byte": data += bytes([r.choice([22, 23, 0])])
            elif tail == "hdr": data += one(1)[:r.randrange(1, 13)]
            else: data += b"\x16" + ver + bytes(8) + b"\xff\xff"
        if r.random() < 0.15: data = data[:r.randrange(0, len(data) + 1)]
        if not data: data = b"\x16"
        out.append("u hdr %s %d %s %s %s %s %s %s" % (cfg, k, side, hs, exp, pccs, ade, vlib.hexs(data)))
    return out


def gen_t13(r, n):
    out = []
    ccs = b"\x14\x03\x03\x00\x01\x01"
    for _ in range(n):
        cfg, k, side, valid = r.choice([("t13", 1, "c", 2), ("t13", 0, "s", 1)])
        calls = []
        t = r.choice([0xEE, 0, 8, 11, 15, 20, 4, 24])
        hl = r.choice([0, 1, 3, 7, 20, 200, 65535, 65536, 65537, 0xFFFFFF])
        body = bytes(r.randrange(256) for _ in range(min(hl, r.choice([0, 1, 3, 7, 20, 200]))))
        msg = bytes([t]) + hl.to_bytes(3, "big") + body
        kind = r.choice(["whole", "split", "split", "split3", "ccs", "ccsrec", "short", "junk", "trunc", "twomsg", "badccs", "reclen"])
        if kind == "whole": calls = [tls_rec(msg)]
        elif kind == "split":
            i = r.randrange(1, len(msg)) if len(msg) > 1 else 1
            calls = [tls_rec(msg[:i]), tls_rec(msg[i:] or b"\x00")]
        elif kind == "split3":
            cuts = sorted(r.randrange(0, len(msg) + 1) for _ in range(2))
            calls = [tls_rec(x) for x in (msg[:cuts[0]], msg[cuts[0]:cuts[1]], msg[cuts[1]:]) if x]
        elif kind == "ccs": calls = [ccs * r.choice([1, 2, 3, 5])]
        elif kind == "ccsrec": calls = [ccs * r.choice([1, 2, 4]) + tls_rec(msg)[:r.choice([3, 5, 6, 9, 4000])]]
        elif kind == "short": calls = [tls_rec(msg[:r.choice([1, 2, 3])])]
        elif kind == "junk": calls = [tls_rec(bytes([t, 0, 0, 1, 9]) + bytes(r.randrange(256) for _ in range(r.choice([1, 2, 3]))))]
        elif kind == "trunc": w = tls_rec(msg); calls = [w[:r.randrange(1, len(w) + 1)]]
        elif kind == "twomsg": calls = [tls_rec(msg[:4 + len(body)]), tls_rec(bytes([t, 0, 0, 0]))]
        elif kind == "badccs": calls = [r.choice([b"\x14\x03\x03\x00\x01\x02", b"\x14\x03\x03\x00\x02\x01\x01", b"\x14\x03\x03\x00\x00", ccs + b"\x18\x03\x03\x00\x01\x00"])]
        else: calls = [tls_rec(b"", typ=22)[:3] + r.choice([0, 16640, 16641, 0xFFFF]).to_bytes(2, "big") + body]
        if t == valid: continue
        out.append("u t13 %s %d %s %s" % (cfg, k, side, " ".join(vlib.hexs(c) for c in calls if c)))
    return out


def gen_tls(r, n):
    out = []
    for _ in range(n):
        cfg, k, side, hs, ver, mx = r.choice([("t12", 1, "c", 2, b"\x03\x03", 65536), ("t12", 0, "s", 1, b"\x03\x03", 1024), ("t11", 1, "c", 2, b"\x03\x02", 65536)])
        t = hs if r.random() < 0.8 else r.choice([0, 1, 2, 11, 14, 20])
        hl = r.choice([0, 1, 2, 5, 30, 300, mx - 1, mx, mx + 1, 0xFFFFFF])
        have = min(hl, r.choice([0, 1, 2, 5, 30, 300]))
        body = bytes(r.randrange(256) for _ in range(have))
        msg = bytes([t]) + hl.to_bytes(3, "big") + body
        rest = bytes(r.randrange(256) for _ in range(r.choice([0, 1, max(0, hl - have - 1), max(0, hl - have), hl - have + 1, hl - have + 5]) % 700))
        kind = r.choice(["first", "first", "cont", "cont", "cont2", "hdrsplit", "short", "twice"])
        rec = lambda b: tls_rec(b, ver)
        if kind == "first": calls = [rec(msg)]
        elif kind == "cont": calls = [rec(msg), rec(rest or b"\x00")]
        elif kind == "cont2":
            i = len(rest) // 2
            calls = [rec(msg), rec(rest[:i] or b"\x01"), rec(rest[i:] or b"\x02")]
        elif kind == "hdrsplit": calls = [rec(msg[:r.choice([1, 2, 3])]), rec(msg[3:])]
        elif kind == "short": calls = [rec(bytes([t])), rec(msg)]
        else: calls = [rec(msg), rec(msg)]
        out.append("u tls %s %d %s %s" % (cfg, k, side, " ".join(vlib.hexs(c) for c in calls)))
    return out


def gen_dtls(r, n):
    out = []
    for _ in range(n):
        cfg, k, side, hs, ver, mx = r.choice([("d12", 1, "c", 2, b"\xfe\xfd", 65536), ("d12", 0, "s", 1, b"\xfe\xfd", 1024), ("d10", 1, "c", 2, b"\xfe\xff", 65536)])
        t = hs if r.random() < 0.9 else r.choice([0, 1, 2, 11, 14, 20])
        H = r.choice([1, 2, 5, 10, 10, 16, 40, 40, 300, mx, mx + 1])
        B = bytes(r.randrange(256) for _ in range(min(H, 400)))
        msn = 0 if r.random() < 0.9 else r.choice([1, 2, 0xFFFF])
        seq = [0]
        def fr(o, l, hsl=None, m=None, data=None):
            data = B[o:o + l] if data is None else data
            body = bytes([t]) + (H if hsl is None else hsl).to_bytes(3, "big") + ((msn if m is None else m) & 0xFFFF).to_bytes(2, "big") + (o & 0xFFFFFF).to_bytes(3, "big") + (l & 0xFFFFFF).to_bytes(3, "big") + data
            s = seq[0]; seq[0] += 1
            return dtls_rec(s, body, ver)
        n_ = min(H, 400)
        kind = r.choice(["two", "two", "rev", "three", "dup", "overlap", "overlap2", "zero", "zerohang", "gap", "hslen", "msn", "many", "range", "biglen",
                         "unfragshort", "whole", "beyond", "seen"])
        i = r.randrange(1, n_) if n_ > 1 else 1
        if kind == "two": calls = [fr(0, i), fr(i, n_ - i)]
        elif kind == "rev": calls = [fr(i, n_ - i), fr(0, i)]
        elif kind == "three":
            j = r.randrange(i, n_ + 1)
            parts = [(0, i), (i, j - i), (j, n_ - j)]; r.shuffle(parts)
            calls = [fr(o, l) for o, l in parts]
        elif kind == "dup": calls = [fr(0, i), fr(0, i), fr(i, n_ - i)]
        elif kind == "overlap": calls = [fr(0, i), fr(max(0, i - 1), n_ - max(0, i - 1))]
        elif kind == "overlap2": calls = [fr(0, min(n_, i + 2)), fr(1, max(1, n_ - i - 2))]
        elif kind == "zero": calls = [fr(0, i), fr(i, 0), fr(i, n_ - i)]
        elif kind == "zerohang": calls = [fr(0, i), fr(i, 0), fr(1, n_ - i, data=B[1:1 + n_ - i])]
        elif kind == "gap": calls = [fr(0, max(1, i - 1)), fr(i, n_ - i)]
        elif kind == "hslen": calls = [fr(i, n_ - i), fr(0, i, hsl=i), fr(0, i, hsl=n_ - i), fr(0, i)]
        elif kind == "msn": calls = [fr(0, i), fr(i, n_ - i, m=msn + 1), fr(i, n_ - i)]
        elif kind == "many": calls = [fr(j, 1) for j in range(min(n_, 19))]
        elif kind == "range":
            o2, l2 = r.choice([(0, H + 1), (1, H), (H, 1), (H - 1, 2), (0xFFFFFF, 1), (0, 0xFFFFFF), (H, 0), (0, 0), (1, 0), (0, 59000)])
            calls = [fr(0, i)] * r.choice([0, 1]) + [fr(o2, l2, data=B[:min(n_, 10)])]
        elif kind == "biglen": calls = [fr(0, 10, hsl=r.choice([60000, 65536, 65537, 0xFFFFFF]), data=(B + bytes(10))[:10])]
        elif kind == "unfragshort": calls = [fr(0, H + 50, hsl=H + 50, data=B)]
        elif kind == "whole": calls = [fr(0, H, data=B)]
        elif kind == "beyond": calls = [fr(0, i, data=B[:max(0, i - r.choice([1, 2, i]))])]
        else: calls = [fr(0, i), fr(0, max(1, i - 1)), fr(i, n_ - i)]
        out.append("u dtls %s %d %s %s" % (cfg, k, side, " ".join(vlib.hexs(c) for c in calls)))
    return out


RC = {"SUCCESS": 0, "RETRANSMIT": -61, "SEND": -52, "ERROR": -12, "ALERT": -54, "PARTIAL": -51, "FULL": -50, "DATA": -53}


def gen_api(r, n):
    """scripted decoder answers inside the interface contract (+ a few outside: the Fault / sanitizer coincidence)"""
    out = []
    for j in range(n):
        insize = r.choice([1500, 1500, 64, 5000, 16384, 65535]); outsize = r.choice([1500, 1500, 100, 20000])
        outlen = r.choice([0, 0, 0, 10, min(outsize, 1400)])
        nin = r.randrange(1, min(insize, 3000) + 1)
        inlen, script, outside = nin, [], (j % 12 == 11)
        for step in range(r.choice([1, 2, 3, 5, 8])):
            kind = r.choice(["SUCCESS", "SUCCESS", "SUCCESS", "PARTIAL", "FULL", "SEND", "ALERT", "DATA", "ERROR", "OTHER"])
            if kind == "SUCCESS":
                mv = r.choice([inlen, inlen, r.randrange(1, inlen + 1) if inlen > 0 else 0])
                if outside and r.random() < 0.5: mv = inlen + r.choice([1, 5, 17])
                script.append((0, mv, 0, 0, 0, 255, 0, r.choice([0, 0, 1]))); inlen -= mv
                if inlen <= 0: break
            elif kind == "PARTIAL":
                script.append((-51, 0, 0, r.choice([5, inlen + 10, insize + 1, 20000, 65535, 65536, 70000]), 0, 255, 0, 0)); break
            elif kind == "FULL":
                script.append((-50, 0, 0, r.choice([insize + 1, insize + 500, 65535, 65536, 10]), 0, 255, 0, 0)); inlen = 0
            elif kind == "SEND":
                ln = r.choice([7, 31, min(insize, 600), min(insize, 1500)])     # inbuf may have been shrunk back to its default by then
                if outside and r.random() < 0.5: ln = insize + 9
                script.append((-52, 0, ln, 0, 0, r.choice([255, 40, 50]), 0, 0)); break
            elif kind in ("ALERT", "DATA"):
                if inlen < 6: continue
                mv = r.randrange(6, inlen + 1)
                ct = mv if r.random() < 0.7 else r.randrange(5, mv + 1)      # a record is at least its header
                script.append((RC[kind], mv, 2 if kind == "ALERT" else max(0, ct - 5), 0, 0, 0, ct, r.choice([0, 1]))); inlen -= mv
            elif kind == "ERROR":
                script.append((-12, 0, 0, 0, r.choice([-12, -8, -1, -6]), 255, 0, 0)); break
            else:
                script.append((r.choice([-63, -62, -55, -1, 3, 9]), 0, 0, 0, 0, 255, 0, 0)); break
        if not script: script.append((-51, 0, 0, 5, 0, 255, 0, 0))
        out.append("u api t12 1 c %d %d %d %d %s %s" % (insize, outsize, outlen, nin, ",".join(":".join(str(x) for x in e) for e in script),
                                                        "outside" if outside else "inside"))
    return out


def gen_cbc(r, n):
    out = []
    for _ in range(n):
        cfg, ver = r.choice([("t12cbc", b"\x03\x03"), ("t11", b"\x03\x02"), ("t12rsa", b"\x03\x03")])
        L = r.choice([1, 15, 16, 17, 20, 21, 32, 33, 36, 37, 48, 49, 52, 53, 64, 80, 96, 100, 256, 300])
        body = bytearray(r.randrange(256) for _ in range(L))
        pad = r.choice([0, 1, 3, 15, 16, 31, L - 1 & 0xFF, (L - 33) & 0xFF, (L - 49) & 0xFF, (L - 48) & 0xFF, 255, r.randrange(256)])
        for j in range(min(L, pad + 1) if r.random() < 0.7 else 1): body[L - 1 - j] = pad
        body[L - 1] = pad
        k = 6 if cfg == "t12rsa" else 7
        out.append("u cbc %s %d s %s" % (cfg, k, vlib.hexs(tls_rec(bytes(body), ver))))
    return out


def gen_pb(r, n):
    """psbuf parse primitives: (1) TLS vectors with the body on both sides of every boundary, (2) random programs"""
    out = []
    MAXC = [0, 1, 2, 254, 255, 256, 257, 65534, 65535, 65536, 65537, 16777215, 16777216, 16777217]
    def nlb(mx): return (mx > 0) + (mx > 255) + (mx > 65535)
    # (1) systematic grid: numLenBytes 0..3 (every maxLen class) x body present = 0..4, around 2^8, around 2^16 x
    #     claimed length = present-3 .. present+3 x tight end / slack behind the end x pb / direct call
    full = n > 5000
    haves = [0, 1, 2, 3, 4, 7, 250, 252, 253, 254, 255, 256, 257, 258, 259]
    big = [65532, 65533, 65534, 65535, 65536, 65537, 65538, 65539] if full else [65534, 65535, 65536, 65537]
    MAXQ = MAXC if full else [0, 1, 255, 256, 65535, 65536, 16777215, 16777216, 16777217]
    for mx in MAXQ:
        k = nlb(mx)
        for have in haves + (big if k >= 2 else []):
            for dl in ((-3, -2, -1, 0, 1, 2, 3) if (full or have < 60000) else (-1, 0, 1, 2)):
                L = have + dl
                if L < 0 or (k and L >= 1 << (8 * k)) or (k == 0 and L != 0): continue
                pre = bytes(r.randrange(256) for _ in range(r.choice([0, 0, 1, 3])))
                body = bytes(r.randrange(256) for _ in range(have))
                obj = pre + L.to_bytes(k, "big") + body
                slack = r.choice([0, 0, 0, 2, 5])
                obj2 = obj + bytes(r.randrange(256) for _ in range(slack))
                mn = r.choice([0, 0, 1, L, L + 1, max(0, L - 1)])
                if r.random() < 0.5:
                    out.append("u pb %s %d %d v%d,%d g o" % (vlib.hexs(obj2), len(pre), len(obj) - len(pre), mn, mx))
                else:
                    out.append("u pb %s 0 %d V%d,%d,%d,%d" % (vlib.hexs(obj2), len(obj2), len(pre), len(obj), mn, mx))
    # truncated length octets
    for mx in (255, 65535, 16777215):
        for cut in range(0, nlb(mx) + 1):
            obj = (5).to_bytes(nlb(mx), "big")[:cut]
            out.append("u pb %s 0 %d v0,%d" % (vlib.hexs(obj) if obj else "-", len(obj), mx))
    # (2) random programs
    n = max(n, len(out) + 300)
    while len(out) < n:
        ln = r.choice([0, 1, 2, 3, 4, 5, 6, 9, 12, 20, 40])
        obj = bytes(r.choice([0, 0, 1, 2, 3, 4, 5, r.randrange(256)]) for _ in range(ln))
        off = r.choice([0, 0, 0, min(ln, 1), min(ln, 3)]); plen = ln - off - r.choice([0, 0, 0, min(ln - off, 1), min(ln - off, 2)])
        ops = []
        for _ in range(r.choice([1, 2, 3, 5, 8])):
            o = r.choice("ohwtsfrmgkvvVcCe" if r.random() < 0.2 else "ohwtsfrmgkvvVcC")
            q = r.choice([0, 1, 2, 3, 4, 5, plen, plen + 1, max(0, plen - 1)])
            if o in "tsfk": ops.append("%s%d" % (o, q))
            elif o == "v": ops.append("v%d,%d" % (r.choice([0, 0, 1, 2]), r.choice([0, 1, 255, 256, 65535, 65536, 16777215, 16777217])))
            elif o == "V":
                a = r.randrange(0, ln + 1); b_ = r.randrange(a, ln + 1)
                ops.append("V%d,%d,%d,%d" % (a, b_, r.choice([0, 0, 1, 2]), r.choice([0, 1, 255, 256, 65535, 65536, 16777215])))
            elif o == "c": ops.append("c%d,%d" % (q, r.choice([0, 1, q, q + 1, max(0, q - 1), 40])))
            elif o == "C": ops.append("C%d" % q)
            else: ops.append(o)
        out.append("u pb %s %d %d %s" % (vlib.hexs(obj) if obj else "-", off, plen, " ".join(ops)))
    return out


PRE_RE = re.compile(r"^pre=(\S+) (.*)$")
SESS = {}       # (cfg, k, side) -> "head actv supp hs" learnt from a `u hdr` probe


def model_line(case, impl):
    """driver input for a harness case, using the session state the implementation logged"""
    t = case.split()
    op = t[1]
    if op == "hdr":
        m = PRE_RE.match(impl)
        if not m: return None, impl
        f = m.group(1).split(":")
        return "hdr %s %s" % (" ".join(f), t[9]), m.group(2)
    if op == "cbc":
        m = PRE_RE.match(impl)
        if not m: return None, impl
        mac, blk, eiv, sec = m.group(1).split(":")
        rec = vlib.unhex(t[5]); L = len(rec) - 5
        pad = rec[-1]
        eq = int(all(x == pad for x in rec[max(5, len(rec) - 1 - pad):]))
        return "cbc %d %s %s %d %s 0 %d" % (L, mac, blk, pad, eiv, eq), m.group(2)
    if op == "pb":
        return "pb " + " ".join(t[2:]), impl
    if op == "api":
        return "api %s %s %s 1500 %s %s" % (t[5], t[6], t[7], t[8], t[9]), impl      # t[10] = inside / outside the contract
    key = (t[2], t[3], t[4])
    st = SESS.get(key)
    if st is None: return None, impl
    head, actv, supp, hs = st
    if op == "t13": return "t13 0 %s %s" % (hs, " ".join(t[5:])), impl
    if op == "tls": return "tls %s %s %s %s %s" % (head, actv, supp, hs, " ".join(t[5:])), impl
    if op == "dtls": return "dtls %s %s %s %s -1 %s" % (head, actv, supp, hs, " ".join(t[5:])), impl
    return None, impl


def learn_sessions(h):
    """one probe per session used by the unit operations: record-header length, versions, hsState as the library has them"""
    keys = [("t12", "1", "c"), ("t12", "0", "s"), ("t11", "1", "c"), ("d12", "1", "c"), ("d12", "0", "s"), ("d10", "1", "c"), ("t13", "1", "c"), ("t13", "0", "s")]
    lines = ["u hdr %s %s %s - - 0 0 16" % k for k in keys]
    rc, o, e = vlib.sh([h], inp="\n".join(lines) + "\n", timeout=120)
    for k, l in zip(keys, o.split("\n")):
        m = PRE_RE.match(l)
        if m:
            f = m.group(1).split(":")
            SESS[k] = (f[0], f[1], f[2], f[3])
    return len(SESS) == len(keys)


def spec_api(case, impl):
    """Impl vs Spec for a scripted-decoder case whose answers are inside the interface contract"""
    if not case.endswith(" inside"): return None
    if "FAULT" in impl or impl.startswith("CRASH") or impl.startswith("HANG"):
        return ("api:" + impl.split()[0].lower(), "API buffer loop faulted on decoder answers inside the contract: " + impl[:200])
    for m in re.finditer(r" (-?\d+):(-?\d+)/(-?\d+):(-?\d+)/(-?\d+)", impl):
        rc, il, isz, ol, osz = (int(x) for x in m.groups())
        if not (0 <= il <= isz <= 65535) or not (0 <= ol <= osz):
            return ("bounds:api", "0 <= inlen <= insize <= SSL_MAX_BUF_SIZE violated: inlen=%d insize=%d outlen=%d outsize=%d" % (il, isz, ol, osz))
        if not (0 <= rc <= 7 or rc in (-1, -6, -7, -8, -9, -10, -11, -12, -13, -14, -31, -36, -41)):
            return ("badrc:%d" % rc, "undocumented return code %d" % rc)
    return None


def spec_dtls(case, impl):
    """Impl vs Spec: a message is handed to the parser out of ssl->fragMessage only if the fragments sent so far cover it"""
    t = case.split()
    segs = impl.split(" | ")
    sent = []
    for i, hx in enumerate(t[5:]):
        b = vlib.unhex(hx)
        if len(b) >= 25:
            sent.append((int.from_bytes(b[19:22], "big"), int.from_bytes(b[22:25], "big"), len(b) - 25))
        if i >= len(segs): break
        sg = segs[i]
        if " F" in sg:
            m = re.search(r"fs=(\d+)", sg)
            H = int(m.group(1)) if m else 0
            cov = bytearray(H)
            for (o, l, have) in sent:
                for j in range(o, min(H, o + min(l, have))): cov[j] = 1
            if H and not all(cov):
                return ("uninit:reassembly-hole", "message of %d bytes handed to the parser although the fragments received leave byte %d unwritten" % (H, cov.index(0)))
            break
    return None


def is_finding_free(impl_line):
    return not (impl_line.startswith("FAULT") or impl_line.startswith("HANG") or impl_line.startswith("CRASH") or impl_line.startswith("LEAK"))


# ------------------------------------------------------------------ the check
def explore(ck, h, quick_per_state, thorough_per_state):
    kt = known_ext_types(ck.build_repo("plain"))
    if kt:
        EXT_TYPES.clear(); EXT_TYPES.update(kt)
    ck.log("extension types known to the tree: %s%s" % (" ".join("%d" % x for x in sorted(EXT_TYPES)), "" if kt else "  (FALLBACK table: source not parsed)"))
    ck.obligation("harness:extension_types_read_from_source", bool(kt), detail="" if kt else "matrixsslApiExt.h / *DecodeExt.c not parsed")
    ck.cov["extension_types"] = {str(k): v for k, v in sorted(EXT_TYPES.items())}
    caps = capture(h, CFGS, env=BASE_PAINT[1])
    bad = [c for c in CFGS if caps.get(c, (None,))[0] is None]
    for c in CFGS:
        units, done = caps.get(c, (None, ""))
        if units is None:
            ck.spec_violation("legal-handshake:%s" % c, "the legal %s handshake does not run under the sanitizers: %s" % (c, done),
                              {"harness": "h_wire", "case": "cap %s" % c, "observed": str(done)[:1500]})
        elif done != "11":
            ck.spec_violation("legal-handshake-incomplete:%s" % c, "the legal %s handshake did not complete (done=%s)" % (c, done),
                              {"harness": "h_wire", "case": "cap %s" % c})
    classes = {}
    cases = build_cases(caps, ck.rng("explore"), ck.budget(quick_per_state, thorough_per_state), classes)
    lines = [c[1] for c in cases]
    corp = corpus_lines("x")
    lines = corp + lines
    t = time.time()
    outs, errs = run_parallel(h, lines, nproc=4, env=BASE_PAINT[1])
    ck.log("exploration: %d cases (%d corpus, %d classes, %d states) in %.1fs" % (len(lines), len(corp), len(classes),
           sum(len(caps[c][0]) for c in caps if caps[c][0]), time.time() - t))
    nfind = 0
    for i, (l, o) in enumerate(zip(lines, outs)):
        cl = "corpus" if i < len(corp) else cases[i - len(corp)][0]
        ck.count("x:" + cl)
        sg = signature(o)
        if o.startswith("ok "): ck.count("verdict:" + o.split()[1][:12])
        if sg and cl in RESEND_CLASSES:
            # the DTLS flight-resend path (matrixDtlsGetOutdata on an empty outbuf): open findings recorded by C16
            sg = ("dtls-resend:" + sg[0], sg[1] + " [DTLS flight resend path, cf. C16-resend-full / C16-frag-resend]")
        if sg:
            nfind += 1
            ck.spec_violation(sg[0], "%s (mutation class %s, state %s)" % (sg[1], cl, " ".join(l.split()[1:4])),
                              {"harness": "h_wire", "case": l, "observed": o, "expected_by_spec": "ok ..."})
        else:
            ck.add_distinct("x" + l[:200])
    # directed: the server must have recorded exactly the host name the ClientHello carried
    sn = corpus_lines("sni")
    if sn:
        want = b"sni.example.test".hex()
        so, _ = run_parallel(h, sn, nproc=2, env=BASE_PAINT[1])
        for l, o in zip(sn, so):
            ck.count("x:directed-sni")
            sg = signature(o)
            m = re.search(r" sni=(\S+)", o)
            if sg:
                ck.spec_violation(sg[0], sg[1] + " (directed server_name case)", {"harness": "h_wire", "case": l, "observed": o})
            elif not m or m.group(1) != want:
                ck.spec_violation("uninit:sni", "server_name of the ClientHello not recorded: expectedName = %s (uninitialised copiedLen handed to psParseBufCopyN)" % (m.group(1) if m else None),
                                  {"harness": "h_wire", "case": l, "observed": o, "expected_by_spec": "sni=" + want})
        lines = lines + sn
    # paint differential: legal traces of every configuration, all corpus / directed cases, a deterministic sample of
    # the exploration (every case in thorough)
    step = ck.budget(10, 1)
    ncorp = len(corp)
    idx = list(range(ncorp)) + list(range(ncorp, ncorp + len(cases), step))
    pl = ["cap %s" % c for c in CFGS] + [lines[i] for i in idx] + sn
    pb = [capture.raw.get(c, "") for c in CFGS] + [outs[i] for i in idx] + (so if sn else [])
    def msg_of(l):
        """the handshake message the receiver expects in the state the case starts from: names the parser that is being fed"""
        f = l.split()
        try:
            u = caps[f[1]][0][int(f[2])]
            return "expecting-" + HS_NAMES.get(u.hs, "state%d" % u.hs)      # the receiver's hsState when the original unit arrived
        except Exception:
            return ""
    lab = [("legal-trace", "legal-trace")] * len(CFGS) + [("corpus" if i < ncorp else cases[i - ncorp][0], msg_of(lines[i])) for i in idx] + \
          [("directed-sni", "client_hello")] * len(sn)
    # valgrind memcheck on the plain build (two processes, next to the differential): legal traces, corpus, directed
    # cases; thorough: every 5th exploration case as well
    nfix = len(CFGS) + ncorp
    vi = list(range(nfix)) + (list(range(nfix, len(pl) - len(sn), 5)) if ck.tier != "quick" else []) + list(range(len(pl) - len(sn), len(pl)))
    vl, vlab = [pl[i] for i in vi], [lab[i] for i in vi]
    tv = time.time()
    mh = memcheck_start(ck, vl)
    t = time.time()
    nd = paint_differential(ck, h, pl, lab, pb, ck.budget(3, 5))
    ck.log("paint differential: %d cases x %d further paints, %d differences, %.1fs" % (len(pl), ck.budget(3, 5), nd, time.time() - t))
    nv = memcheck_finish(ck, mh, vl, vlab)
    ck.log("memcheck pass: %d cases, %d with reports, %.1fs (concurrent with the differential)" % (ck.cov.get("memcheck_cases", 0), nv, time.time() - tv))
    ck.cov["evaluations"] += len(lines)
    ck.cov["exploration_cases"] = len(lines)
    ck.cov["exploration_findings"] = nfind
    ck.cov["mutation_classes"] = sorted(classes)
    # which classes are sampled: "run/generated" per class; the always-run classes execute one case per variant in every tier
    ck.cov["always_run_classes"] = {c: "%d/%d" % (classes.get(c, 0), GENERATED.get(c, 0)) for c in ALWAYS_CLASSES}
    ck.cov["sampled_classes"] = {c: "%d/%d" % (classes.get(c, 0), GENERATED.get(c, 0)) for c in sorted(classes) if c not in ALWAYS_CLASSES}
    ck.cov["multi_connection_configurations"] = MULTI_CONN
    ck.cov["states_explored"] = {c: len(caps[c][0]) for c in caps if caps[c][0]}
    return caps


def run(ck):
    ck.trusted += ["Coq 8.16.1 kernel (coqc; vm_compute only in the witness lemmas and Examples)",
                   "tools/srcgen/consts.c, consts_dtls.c, consts_wire.c translators (C compiler / psVerFromEncoding evaluate the constants and the version table)",
                   "extraction (ExtrOcamlBasic only) + ocaml/drv_c08.ml",
                   "harness/h_wire.c + sess.h (ASan+UBSan+LSan build; link-time wraps of entropy/clock, sslUpdateHSHash (logging), matrixSslDecode (scripted for `u api`), psParseBufFromStaticData / psParseTlsVariableLengthVec / psParseBufCopyN / tls13TranscriptHashUpdate (stack paint points, capacity audit); decrypt/verifyMac spies and null cipher through the ssl_t function pointers)",
                   "modelled, not verified: coq/Wire/WireModel.v is a hand-written transcription of the framing code, compared with the library on every run",
                   "gcc AddressSanitizer / UndefinedBehaviorSanitizer / LeakSanitizer as the oracle for faults outside the model",
                   "valgrind memcheck (plain build of the same harness; skipped with a log line when valgrind is not installed)",
                   "uninitialised memory: paint differential - a read is seen when it changes an observable and the slot lies in stack "
                   "below a paint point or in a fresh malloc block (<= 64 KB filled); slots re-used inside one frame and values kept in registers are not painted"]
    ck.assumptions += ["record-layer session state is well formed: recordHeadLen is 13 exactly for sessions created with SSL_FLAGS_DTLS (matrixssl.c 615-636; checked by the `u hdr` probes)",
                       "oracle contracts (coq/Wire/WireSpec.v dec_contract): on MATRIXSSL_SUCCESS / DTLS_RETRANSMIT / SSL_ALERT / SSL_PROCESS_DATA the decoder moved *buf by at most *len and by at least 1 when data is left; an SSL_SEND_RESPONSE fits inbuf and (appended) SSL_MAX_BUF_SIZE; MATRIXSSL_ERROR carries a documented negative code - the modelled header/CCS/handshake loops are proved to satisfy the first part, the unmodelled parsers are explored only",
                       "the application passes matrixSslReceivedData at most the room matrixSslGetReadbuf returned",
                       "message and extension parsers (EXPLORED_ONLY) enter the theorems as arbitrary functions: nothing is proved about them"]
    ck.cov["explored_only"] = EXPLORED_ONLY
    ck.build_repo()
    ck.regen([("consts.sh",)])
    import threading
    asan_err = []
    th = threading.Thread(target=lambda: ck.build_repo("asan"))       # ~25 s, overlaps with the Coq build
    th.start()
    ck.coq_properties()
    drv = ck.ocaml_driver("drv_c08", extract_vo="Extract/Extract_C08.vo", gen_ml=["m_c08"])
    th.join()
    h = ck.cc("h_wire.c", variant="asan", wraps=WRAPS + ["matrixSslDecode"])
    if drv is None:
        return
    # ---- (ii) exploration first: a sanitizer finding on a legal handshake would make everything else meaningless
    explore(ck, h, 28, 260)
    # ---- (i) unit operations against the model
    if not learn_sessions(h):
        ck.violation("h_wire could not create the sessions of the unit operations", {"stage": "unit-probe", "broken": "correspondence h_wire/u"}, found_input=False)
        return
    r = ck.rng("unit")
    groups = [("record header + DTLS epoch gate: decode12 vs matrixSslDecode", gen_hdr(r, ck.budget(500, 6000)), "hdr"),
              ("TLS 1.3 header/CCS loop + handshake reassembly: hdr13/hs13_loop vs matrixSslDecode", gen_t13(r, ck.budget(300, 4000)), "t13"),
              ("TLS handshake reassembly: hs_record_tls vs matrixSslDecode", gen_tls(r, ck.budget(300, 4000)), "tls"),
              ("DTLS handshake reassembly: hs_record_dtls vs matrixSslDecode", gen_dtls(r, ck.budget(400, 5000)), "dtls"),
              ("API buffer arithmetic: received_data/processed_data vs matrixSslReceivedData (scripted decoder)", gen_api(r, ck.budget(300, 4000)), "api"),
              ("CBC pad/MAC layout: cbc_mac_layout vs verifyMac arguments", gen_cbc(r, ck.budget(200, 3000)), "cbc"),
              ("psbuf parse primitives: parse_tls_vec / pb_* vs psParseTlsVariableLengthVec / psParseBuf* (exact-size heap objects)",
               gen_pb(r, ck.budget(1200, 12000)), "pb")]
    for name, cases, op in groups:
        cases = corpus_lines("u-" + op) + cases
        cases = sorted(set(cases), key=cases.index)
        cases.sort(key=lambda l: tuple(l.split()[2:5]))          # keep the cases of one session state together
        impl, errs = run_parallel(h, cases, nproc=4)
        mlines, impl_cmp, keep = [], [], []
        for c, o in zip(cases, impl):
            ml, oc = model_line(c, o)
            if ml is None:
                # a sanitizer report / hang instead of a result line: the model must say Fault / OutOfFuel for the same case
                ml, oc = model_line(c, "pre=%s X" % ":".join(SESS.get((c.split()[2], c.split()[3], c.split()[4]), ("0",) * 4) + ("0",) * 6)) if c.split()[1] == "hdr" else (None, o)
                if ml is None:
                    ck.spec_violation(signature(o)[0] if signature(o) else "unit:noresult", "unit operation gave no result line: %s" % o[:200],
                                      {"harness": "h_wire", "case": c, "observed": o})
                    continue
                oc = o
            mlines.append(ml); impl_cmp.append(oc); keep.append(c)
        rc, model, _ = ck.run_lines(drv, mlines)
        pairs = [canon_pair(x, y) for x, y in zip(impl_cmp, model[:len(mlines)])]
        impl_c = [p[0] for p in pairs]; model_c = [p[1] for p in pairs]
        # a sanitizer report must coincide with a model Fault, a watchdog hit with OutOfFuel
        impl_c = ["FAULT" if x.startswith("FAULT") or x.startswith("CRASH") or x.endswith(" FAULT") else x for x in impl_c]
        model_c = [re.sub(r"^(FAULT|HANG).*", r"\1", x) if ("FAULT" in x or "HANG" in x) else x for x in model_c]
        model_c = ["FAULT" if "FAULT" in x else ("HANG" if "HANG" in x else x) for x in model_c]
        dis = ck.correspond(name, keep, impl_c, model_c, nontrivial=lambda c, o: not o.startswith("P ") and "BAD" not in o)
        for i in dis[:3]:
            ck.log("  disagreement: %s\n     impl : %s\n     model: %s" % (keep[i][:300], impl_c[i][:300] if i < len(impl_c) else None, model_c[i][:300] if i < len(model_c) else None))
        for c, o in zip(keep, impl_cmp):
            sv = spec_api(c, o) if op == "api" else spec_dtls(c, o) if op == "dtls" else None
            if sv: ck.spec_violation(sv[0], sv[1], {"harness": "h_wire", "case": c, "observed": o[:600]})
        for c, o in zip(keep, impl_c):
            ck.count("u:%s:%s" % (op, "handoff" if "handoff" in o else o.split()[0] if o else "empty"))
            if op != "api" and (o == "FAULT" or o.startswith("HANG") or o.startswith("LEAK")):
                sg = signature(impl_cmp[keep.index(c)]) or ("unit:" + o, o)
                if op == "pb": sg = ("pbuf:" + sg[0], "a psbuf parse primitive accepted / read data outside its [start, end): " + sg[1])
                ck.spec_violation(sg[0], "unit operation on the modelled code: %s" % sg[1], {"harness": "h_wire", "case": c, "observed": o})
    ck.rules.append("exploration: real transcripts of %d configurations (TLS 1.1/1.2 GCM/CBC/RSA/ECDSA/client-auth, TLS 1.3 AES/ChaCha/client-auth, DTLS 1.0/1.2 "
                    "incl. fragmented flights) replayed to every prefix state, both roles; per state a stratified sample of %d mutation classes (truncation at every byte, "
                    "record/handshake/extension length fields, types, versions, epochs, fragment splits at every offset for TLS / TLS 1.3 / DTLS incl. overlap, gap, "
                    "duplicate, zero-length, >16 fragments, coalescing, junk, bit flips, vector growth); encrypted states with chosen plaintext through a null cipher of "
                    "the same geometry; every case in a forked child, input buffer re-allocated to fit exactly" % (len(CFGS), 52))
    ck.rules.append("scenarios: second / third connections on one sslSessionId_t + server keys + session cache (ticket, rotated ticket key, renewed ticket, "
                    "session id, TLS 1.3 PSK, DTLS session id) explored like the first ones; always-run directed classes: HelloVerifyRequest sequences "
                    "(cookie lengths 0/1/16/32/255, all ordered pairs), ClientHello retransmissions with right / wrong / no cookie, NewSessionTicket lengths")
    ck.rules.append("unit operations: generated per case split of the proofs (header lengths 0/1/max/max+1/0xFFFF, every version code, DTLS epoch/replay combinations and "
                    "multi-record datagrams, CCS runs, handshake length limits 1024/65536 +-1, fragment offsets/lengths around every boundary, scripted decoder answers "
                    "inside and outside the contract, CBC pad bytes around every boundary); non-trivial = not a plain SSL_PARTIAL")
    ck.cov["exhaustive"] = False


def replay(ck, path):
    rp = json.load(open(path))["replay"]
    ck.build_repo("asan")
    h = ck.cc("h_wire.c", variant="asan", wraps=WRAPS + ["matrixSslDecode"])
    cs = rp.get("cases") or [rp["case"]]
    rc, out, err = ck.run_lines(h, cs)
    for c, o in zip(cs, out):
        print("case:", c[:400]); print("  impl:", o, "  spec: a clean `ok ...` line / agreement with the model")
