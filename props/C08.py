"""C08 - no memory fault, hang or leak on any network input in any state (claimed PARTIALLY).

Theorems: coq/Properties/Properties_C08.v over coq/Wire/WireModel.v (record header + DTLS epoch
skip, TLS 1.3 header/CCS loop, handshake header + TLS / TLS 1.3 / DTLS fragment reassembly, API
buffer arithmetic, CBC pad/MAC layout) with the rd/wr/Fault discipline.
Tie (i): harness/h_wire.c `u` operations (ASan+UBSan build) against the extracted model
(ocaml/drv_c08.ml): result tuples must agree and a model Fault must coincide with a sanitizer report.
Tie (ii) / exploration: structure-aware mutations of real transcripts in every state reached by a
prefix of a legal handshake (h_wire `cap` / `x`), verdict = no sanitizer report, documented return
code, call returns, 0 <= inlen <= insize <= SSL_MAX_BUF_SIZE, LeakSanitizer clean after delete.
The message / extension parsers behind the modelled framing are explored only (EXPLORED_ONLY)."""
import json, os, re, subprocess, sys, time
import vlib

WRAPS = ["psGetBrokenDownGMTime", "psGetEntropy", "psGetPrngLocked", "psGetTime", "csAesGcmEncryptTls13",
         "csChacha20Poly1305IetfEncryptTls13", "sslUpdateHSHash"]

CFGS = ["t11", "t12", "t12cbc", "t12rsa", "t12ca", "t12ec", "t13", "t13ca", "t13cha", "d12", "d12ca", "d12cbc", "d12f", "d10"]
DTLS = {"d12", "d12ca", "d12cbc", "d12f", "d10"}
MACSZ = {"t11": 20, "t12cbc": 32, "t12rsa": 32, "d12cbc": 32, "d10": 20}

EXPLORED_ONLY = [
    "hsDecode.c: parseClientHello, parseServerHello, parseCertificate, parseServerKeyExchange, parseServerHelloDone, "
    "parseCertificateRequest, parseClientKeyExchange, parseCertificateVerify, parseFinished (body), NewSessionTicket / "
    "HelloVerifyRequest / CertificateStatus bodies in sslDecode.c parseSSLHandshake",
    "extDecode.c: parseClientHelloExtensions, parseServerHelloExtensions and every per-extension parser",
    "tls13Decode.c: tls13ParseClientHello, tls13ParseServerHello, tls13ParseEncryptedExtensions, tls13ParseCertificateRequest, "
    "tls13ParseCertificate, tls13ParseCertificateVerify, tls13ParseFinished, tls13ParseNewSessionTicket, alert handling, "
    "inner-plaintext padding scan",
    "tls13DecodeExt.c: every TLS 1.3 extension parser (key_share, supported_versions, pre_shared_key, signature_algorithms, ...)",
    "sslDecode.c: decrypt + MAC verification, alert / change_cipher_spec / application_data record bodies, encodeResponse",
    "dtls.c: dtlsChkReplayWindow (proved for C16), flight resend (matrixDtlsGetOutdata timeout path), HelloVerifyRequest cookie",
    "core/src/psbuf.c + core/include/psbuf.h psParseBuf helpers as used by the TLS 1.3 parsers",
    "x509.c certificate parsing reached through Certificate messages (subject of C09)",
]


# ------------------------------------------------------------------ transcript handling
class Unit:
    def __init__(self, cfg, tok):
        f = tok.split(":")
        self.cfg, self.i, self.to, self.hs, self.kind = cfg, int(f[0]), f[1], int(f[2]), int(f[3])
        self.wire = vlib.unhex(f[4]); self.pt = vlib.unhex(f[5])
        self.hl = 13 if cfg in DTLS else 5
        self.hdr, self.payload = self.wire[:self.hl], self.wire[self.hl:]

    def content(self):
        """(content type, plaintext content) of the record"""
        k = self.kind
        if k == 0:
            return self.wire[0], self.payload
        if k in (1, 2):
            return self.wire[0], self.pt
        if k == 3:
            p = self.pt.rstrip(b"\0")
            return (p[-1] if p else 0), p[:-1]
        mac = MACSZ.get(self.cfg, 20)
        pad = self.pt[-1]
        return self.wire[0], self.pt[16:len(self.pt) - 1 - pad - mac]

    def rec(self, content, ctype=None, hdr=None, seqadd=0, reclen=None):
        """wire bytes of a record with this unit's protection geometry carrying `content`"""
        k = self.kind
        hdr = bytearray(hdr if hdr is not None else self.hdr)
        if k == 0:
            body = content
            if ctype is not None: hdr[0] = ctype
        elif k == 1:
            body = self.payload[:8] + content + bytes(16)
            if ctype is not None: hdr[0] = ctype
        elif k == 2:
            body = content + bytes(16)
            if ctype is not None: hdr[0] = ctype
        elif k == 3:
            body = content + bytes([ctype if ctype is not None else self.content()[0]]) + bytes(16)
        else:
            mac = MACSZ.get(self.cfg, 20)
            n = 16 + len(content) + mac + 1
            pad = (-n) % 16
            body = self.pt[:16] + content + bytes(mac) + bytes([pad]) * (pad + 1)
            if ctype is not None: hdr[0] = ctype
        if self.hl == 13 and seqadd:
            s = int.from_bytes(hdr[5:11], "big") + seqadd
            hdr[5:11] = (s & 0xFFFFFFFFFFFF).to_bytes(6, "big")
        L = len(body) if reclen is None else reclen
        hdr[self.hl - 2:self.hl] = (L & 0xFFFF).to_bytes(2, "big")
        return bytes(hdr) + body

    @property
    def nullc(self):
        return self.kind != 0


def hs_msgs(cfg, content):
    """split handshake content into messages: (type, hslen, msn, off, flen, body, start, end)"""
    out, o, d = [], 0, cfg in DTLS
    hh = 12 if d else 4
    while o + hh <= len(content):
        t = content[o]; L = int.from_bytes(content[o + 1:o + 4], "big")
        if d:
            msn = int.from_bytes(content[o + 4:o + 6], "big"); off = int.from_bytes(content[o + 6:o + 9], "big")
            fl = int.from_bytes(content[o + 9:o + 12], "big")
        else:
            msn, off, fl = 0, 0, L
        e = min(len(content), o + hh + fl)
        out.append((t, L, msn, off, fl, content[o + hh:e], o, e))
        o = e
    return out


def hs_hdr(cfg, t, L, msn=0, off=0, fl=None):
    h = bytes([t & 0xFF]) + (L & 0xFFFFFF).to_bytes(3, "big")
    if cfg in DTLS:
        h += (msn & 0xFFFF).to_bytes(2, "big") + (off & 0xFFFFFF).to_bytes(3, "big") + ((L if fl is None else fl) & 0xFFFFFF).to_bytes(3, "big")
    return h


def capture(h, cfgs):
    rc, out, err = vlib.sh([h], inp="".join("cap %s\n" % c for c in cfgs), timeout=300)
    caps = {}
    for c, l in zip(cfgs, out.split("\n")):
        m = re.match(r"cap n=(\d+) rc=(-?\d+) done=(\d\d) \|(.*)", l)
        if not m:
            caps[c] = (None, l[:300] + err[-600:])
            continue
        caps[c] = ([Unit(c, t) for t in m.group(4).split()], m.group(3))
    return caps


# ------------------------------------------------------------------ mutation generator
LENVALS16 = [0, 1, 0x3FFF, 0x4000, 0x4001, 0x4800, 0x4801, 0x7FFF, 0x8000, 0xFFFF]


def around(v, mx):
    s = {0, 1, v - 1, v + 1, mx, mx - 1, v // 2, v * 2}
    return sorted(x for x in s if 0 <= x <= mx and x != v)


def offsets(n, r, dense=48):
    """cut positions 1..n-1: all when short, otherwise both ends + a sample"""
    if n <= 1: return []
    if n - 1 <= dense: return list(range(1, n))
    s = set(range(1, 13)) | set(range(n - 12, n)) | {n // 2}
    while len(s) < dense: s.add(r.randrange(1, n))
    return sorted(x for x in s if 0 < x < n)


def mutations(cfg, units, k, r):
    """yield (class, flags, [wire chunks]) for the state before unit k"""
    u = units[k]; d = cfg in DTLS; hl = u.hl
    ct, content = u.content()
    nf = "n" if u.nullc else ""
    W = u.wire
    # ---- wire level (no knowledge of keys needed)
    for i in offsets(len(W) + 1, r, 40):
        yield ("trunc-wire", "e", [W[:i]])
    for i in offsets(len(W), r, 16):
        yield ("split-call", "e", [W[:i], W[i:]])                # same bytes, two receive calls
    L = len(u.payload)
    for v in sorted(set(LENVALS16 + [L - 1, L + 1, L + 2, L + 16])):
        if 0 <= v <= 0xFFFF and v != L:
            h2 = bytearray(u.hdr); h2[hl - 2:hl] = v.to_bytes(2, "big")
            yield ("reclen", "e" + nf, [bytes(h2) + u.payload])
    for t in (0, 1, 19, 20, 21, 22, 23, 24, 25, 0x80, 0x16 | 0x80, 0xFF):
        if t != W[0]:
            yield ("rectype", "e" + nf, [bytes([t]) + W[1:]])
    for v in (b"\x03\x00", b"\x03\x01", b"\x03\x02", b"\x03\x03", b"\x03\x04", b"\xfe\xff", b"\xfe\xfd", b"\xfe\xfc", b"\x02\x00", b"\x00\x00", b"\xff\xff", b"\x7f\x1c"):
        if v != W[1:3]:
            yield ("recver", "e" + nf, [W[:1] + v + W[3:]])
    if d:
        ep = int.from_bytes(W[3:5], "big")
        for e2 in {0, 1, 2, ep + 1, ep - 1, 0xFFFF} - {ep}:
            if 0 <= e2 <= 0xFFFF:
                yield ("epoch", "e" + nf, [W[:3] + e2.to_bytes(2, "big") + W[5:]])
                # the epoch-skip path of sslDecode.c: CCS with a foreign epoch followed by something
                ccs = b"\x14" + W[1:3] + e2.to_bytes(2, "big") + bytes(6) + b"\x00\x01\x01"
                for tail in (b"", b"\x16", b"\x17", W[:12], W[:13], W[:13] + b"\x00", W, b"\x16" + W[1:11] + b"\xff\xff", ccs):
                    yield ("epoch-ccs", "e", [ccs + tail])
        for s2 in (0, 1, 0xFFFFFFFFFFFF):
            yield ("seq", "e" + nf, [W[:5] + s2.to_bytes(6, "big") + W[11:]])
        yield ("dup-datagram", "e" + nf, [W, W])
    for i in range(min(12, len(W))):
        yield ("junk-record", "e", [bytes(r.randrange(256) for _ in range(r.choice([1, 5, 13, 40])))])
    yield ("coalesce-next", "e" + nf, [b"".join(x.wire for x in units[k:k + 3] if x.to == u.to)])
    if not d:
        ccs = b"\x14" + W[1:3] + b"\x00\x01\x01"
        for n in (1, 2, 3, 8):
            yield ("ccs-prefix", "e" + nf, [ccs * n + W])
            yield ("ccs-only", "e", [ccs * n])
            yield ("ccs-partial", "e", [ccs * n + W[:r.randrange(1, max(2, len(W)))]])
    # ---- content level (chosen plaintext: the peer owns the keys)
    flips = content
    for _ in range(24):
        if not content: break
        b = bytearray(content); i = r.randrange(len(b)); b[i] ^= 1 << r.randrange(8)
        yield ("bitflip", "e" + nf, [u.rec(bytes(b))])
    for i in offsets(len(content) + 1, r, 24):
        yield ("trunc-content", "e" + nf, [u.rec(content[:i])])
    for n in (1, 3, 4, 12, 64):
        j = bytes(r.randrange(256) for _ in range(n))
        yield ("junk-after", "e" + nf, [u.rec(content + j)])
        yield ("junk-after-rec", "e" + nf, [u.rec(content), u.rec(j, seqadd=1)])
    # every plausible length field inside the content
    cands = []
    for o in range(len(content)):
        for w in (1, 2, 3):
            if o + w > len(content): continue
            v = int.from_bytes(content[o:o + w], "big"); rem = len(content) - o - w
            if v <= rem and (v > 0 or w > 1) and (w == 1 or v > 0 or rem < 4):
                cands.append((o, w, v, rem))
    r.shuffle(cands)
    for (o, w, v, rem) in cands[:40]:
        mx = (1 << (8 * w)) - 1
        for nv in r.sample(sorted({0, max(0, v - 1), min(mx, v + 1), min(mx, rem + 1), mx, min(mx, rem)} - {v}), 2):
            b = bytearray(content); b[o:o + w] = nv.to_bytes(w, "big")
            yield ("lenfield", "e" + nf, [u.rec(bytes(b))])
    if ct != 22:
        return
    msgs = hs_msgs(cfg, content)
    for (t, Lh, msn, off, fl, body, s, e) in msgs[:3]:
        pre, post = content[:s], content[e:]
        # handshake length field
        for v in sorted(set(around(Lh, 0xFFFFFF) + [1024, 1025, 65535, 65536, 65537, 0xFFFF00])):
            yield ("hslen", "e" + nf, [u.rec(pre + hs_hdr(cfg, t, v, msn, off, fl if d else None) + body + post)])
            if d:
                yield ("hslen-unfrag", "e" + nf, [u.rec(pre + hs_hdr(cfg, t, v, msn, 0, v) + body + post)])
        for t2 in (0, 1, 2, 4, 8, 11, 13, 15, 20, 24, 0xEE):
            if t2 != t:
                yield ("hstype", "e" + nf, [u.rec(pre + hs_hdr(cfg, t2, Lh, msn, off, fl if d else None) + body + post)])
        full = off == 0 and fl == Lh
        if not d:
            # TLS / TLS 1.3: the message cut into 2..n records at every offset, coalesced or one call each
            whole = hs_hdr(cfg, t, Lh) + body
            for i in offsets(len(whole), r, 40):
                parts = [u.rec(pre + whole[:i]), u.rec(whole[i:] + post)]
                yield ("frag2", "e" + nf, parts)
                yield ("frag2-coalesced", "e" + nf, [b"".join(parts)])
            for n in (3, 4, 7):
                cuts = sorted(set(r.randrange(1, max(2, len(whole))) for _ in range(n - 1)))
                ps = [whole[a:b] for a, b in zip([0] + cuts, cuts + [len(whole)])]
                recs = [u.rec(x) for x in ps if x]
                yield ("fragN", "e" + nf, recs)
                yield ("fragN-coalesced", "e" + nf, [b"".join(recs)])
            # first fragment, then something that is not the continuation
            i = max(1, len(whole) // 2)
            yield ("frag-then-short", "e" + nf, [u.rec(whole[:i]), u.rec(whole[i:i + 1])])
            yield ("frag-then-long", "e" + nf, [u.rec(whole[:i]), u.rec(whole[i:] + whole)])
            yield ("frag-then-ccs", "e" + nf, [u.rec(whole[:i]), b"\x14" + W[1:3] + b"\x00\x01\x01"])
            yield ("frag-then-alert", "e" + nf, [u.rec(whole[:i]), u.rec(b"\x01\x00", ctype=21)])
            for v in (Lh + 1, Lh + 100, 65536, 65537, 0xFFFFFF):
                yield ("frag-bigger", "e" + nf, [u.rec(hs_hdr(cfg, t, v) + body), u.rec(body[:7])])
            yield ("hdr-split", "e" + nf, [u.rec(whole[:1]), u.rec(whole[1:])])
            yield ("hdr-split3", "e" + nf, [u.rec(whole[:3]), u.rec(whole[3:])])
        elif full or True:
            # DTLS: explicit fragments of the (possibly already fragmented) message
            B = body; H = Lh if full else max(Lh, off + len(B))
            def fr(o, l, data=None, seq=0, hsl=None, m=None):
                data = B[o - off:o - off + l] if data is None else data
                return u.rec(hs_hdr(cfg, t, H if hsl is None else hsl, msn if m is None else m, o, l) + data, seqadd=seq)
            n = len(B)
            if n >= 2:
                for i in offsets(n, r, 24):
                    a, b = fr(off, i), fr(off + i, n - i, seq=1)
                    yield ("dfrag2", "e" + nf, [a, b])
                    yield ("dfrag2-rev", "e" + nf, [fr(off + i, n - i), fr(off, i, seq=1)])
                    yield ("dfrag2-onedgram", "e" + nf, [a + b])
                i = n // 2
                yield ("dfrag-dup", "e" + nf, [fr(off, i), fr(off, i, seq=1), fr(off + i, n - i, seq=2)])
                yield ("dfrag-overlap", "e" + nf, [fr(off, i), fr(off + i - 1, n - i + 1, seq=1)])
                yield ("dfrag-overlap-hole", "e" + nf, [fr(off, i + 1 if i + 1 < n else i), fr(off + 1, n - i - 1 if n - i - 1 > 0 else 1, seq=1)])
                yield ("dfrag-zero", "e" + nf, [fr(off, i), fr(off + i, 0, data=b"", seq=1), fr(off + i, n - i, seq=2)])
                yield ("dfrag-zero-hang", "e" + nf, [fr(off, i), fr(off + i, 0, data=b"", seq=1), fr(off + 1, n - i, data=B[1:1 + n - i], seq=2)])
                yield ("dfrag-gap", "e" + nf, [fr(off, max(1, i - 1)), fr(off + i, n - i, seq=1)])
                yield ("dfrag-hslen-change", "e" + nf, [fr(off + i, n - i), fr(off, i, seq=1, hsl=i + 0), fr(off, i, seq=2, hsl=n - i)])
                yield ("dfrag-msn-change", "e" + nf, [fr(off, i), fr(off + i, n - i, seq=1, m=msn + 1)])
                many = [fr(off + j, 1, seq=j) for j in range(min(n, 20))]
                yield ("dfrag-many", "e" + nf, many)
                yield ("dfrag-many-onedgram", "e" + nf, [b"".join(many)])
            for (o2, l2) in [(0, H + 1), (1, H), (H, 1), (H - 1, 2), (0xFFFFFF, 1), (0, 0xFFFFFF), (H, 0), (0, 0), (0xFFFFFF, 0xFFFFFF), (1, 0), (0, 59000)]:
                if o2 < 0: continue
                yield ("dfrag-range", "e" + nf, [fr(o2, l2, data=B[:min(len(B), 10)])])
                yield ("dfrag-range-after-first", "e" + nf, [fr(off, max(1, n // 2)), fr(o2, l2, data=B[:min(len(B), 10)], seq=1)])
            for hv in (60000, 65536, 65537, 0xFFFFFF):
                yield ("dfrag-big", "e" + nf, [fr(0, 10, data=B[:10] + bytes(10 - min(10, len(B))), hsl=hv)])
                yield ("dfrag-big-fraglen", "e" + nf, [u.rec(hs_hdr(cfg, t, hv, msn, 0, hv - 1000) + B[:10])])
            # unfragmented header but short body (the non-DTLS reassembly path must not be entered)
            yield ("d-unfrag-short", "e" + nf, [u.rec(hs_hdr(cfg, t, Lh + 50, msn, 0, Lh + 50) + B)])
        # extension-ish: 16-bit lengths near the end of hello messages are covered by `lenfield`


def build_cases(caps, rng, per_state, classes_seen):
    """stratified sample: per (cfg,k) up to per_state cases, at least one of every class"""
    cases = []
    for cfg in CFGS:
        units, _ = caps.get(cfg, (None, None))
        if not units: continue
        for k in range(len(units)):
            r = vlib.Rng(rng.randrange(1 << 30), "%s/%d" % (cfg, k))
            byc = {}
            for (cl, fl, chunks) in mutations(cfg, units, k, r):
                chunks = [c for c in chunks if len(c) <= 40000]
                if not chunks or sum(len(c) for c in chunks) > 60000: continue
                byc.setdefault(cl, []).append((cl, fl, chunks))
            pick = []
            for cl in sorted(byc):
                r.shuffle(byc[cl]); pick.append(byc[cl].pop())
            rest = [x for cl in sorted(byc) for x in byc[cl]]
            r.shuffle(rest)
            pick += rest[:max(0, per_state - len(pick))]
            for (cl, fl, chunks) in pick:
                classes_seen[cl] = classes_seen.get(cl, 0) + 1
                cases.append((cl, "x %s %d %s %s %s" % (cfg, k, units[k].to, fl or "-", " ".join(vlib.hexs(c) for c in chunks))))
    return cases


def run_parallel(h, lines, nproc=4, timeout=3000):
    """run case lines through nproc harness processes (lines of one state stay together); returns outputs in order"""
    groups, cur, key = [], [], None
    for i, l in enumerate(lines):
        kk = tuple(l.split(" ", 3)[:3])
        if kk != key and cur:
            groups.append(cur); cur = []
        key = kk; cur.append(i)
    if cur: groups.append(cur)
    buckets = [[] for _ in range(nproc)]
    sizes = [0] * nproc
    for g in sorted(groups, key=len, reverse=True):
        j = sizes.index(min(sizes)); buckets[j] += g; sizes[j] += len(g)
    procs = []
    for b in buckets:
        b.sort()
        p = subprocess.Popen([h], stdin=subprocess.PIPE, stdout=subprocess.PIPE, stderr=subprocess.PIPE, text=True, errors="replace")
        procs.append((p, b))
    import threading
    outs = [None] * len(lines); errs = []
    def work(p, b):
        o, e = p.communicate("".join(lines[i] + "\n" for i in b), timeout=timeout)
        ol = o.split("\n")
        for j, i in enumerate(b):
            outs[i] = ol[j] if j < len(ol) and ol[j] else "NOOUTPUT"
        if p.returncode != 0: errs.append(e[-2000:])
    ths = [threading.Thread(target=work, args=pb) for pb in procs]
    for t in ths: t.start()
    for t in ths: t.join()
    return outs, errs


def signature(res):
    """result line -> (signature, text) or None when the verdict is clean"""
    if res.startswith("ok "): return None
    if res.startswith("FAULT "):
        f = res[6:].split(":")
        return ("%s:%s" % (f[0], f[1] if len(f) > 1 else "?"), "sanitizer report %s" % res[6:])
    if res.startswith("HANG"): return ("hang:receive", "API call did not return within the 5 s watchdog")
    if res.startswith("LEAK "): return ("leak:%s" % res[5:].split(":")[0], "LeakSanitizer: %s bytes unreachable after matrixSslDeleteSession" % res[5:])
    if res.startswith("BADRC "): return ("badrc:%s" % res[6:].split("@")[0], "undocumented return code %s" % res[6:])
    if res.startswith("BOUNDS "): return ("bounds:inlen-insize", "buffer bookkeeping outside 0 <= inlen <= insize <= SSL_MAX_BUF_SIZE: %s" % res[7:])
    if res.startswith("FRAGSIZE "): return ("fragsize:reassembly", "handshake reassembly buffer of %s bytes (limit 64 KB + header)" % res[9:])
    if res.startswith("CRASH "): return ("crash:%s" % res[6:].replace(" ", ","), "child died without a sanitizer report: %s" % res)
    return ("harness:%s" % res.split()[0] if res else "harness:empty", "unexpected harness output %r" % res[:200])


def corpus_lines(sub):
    out = []
    p = os.path.join(vlib.VERIF, "corpus", "C08")
    if os.path.isdir(p):
        for f in sorted(os.listdir(p)):
            if not f.startswith(sub): continue
            for l in open(os.path.join(p, f)):
                l = l.strip()
                if l and not l.startswith("#"): out.append(l)
    return out
