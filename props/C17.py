"""C17 - no AEAD nonce reuse under a key; sequence numbers strictly increase per key; CBC explicit IVs are fresh.

Theorems: coq/Properties/Properties_C17.v over the seal-history machine coq/Nonce/NonceModel.v (both writers of a
connection, one PRNG): c17_seq_counts / c17_seq_strict / c17_nonce_injective / c17_nonce_unique / c17_cbc_iv_fresh
for ALL event sequences (activations, seals of any record type, IV draws, foreign PRNG draws, the early-data
sequence reset) that respect two caller facts (`guardw`).
Tie: harness/h_nonce.c runs scripted two-peer TLS 1.1/1.2/1.3 sessions (sess.h) with link-time wraps on the crypto
entry points reached from libssl and logs every key activation, every seal (key fingerprint, nonce handed to the
primitive, ssl->sec.seq, static IV, record type, plaintext hash), every MAC-bound sequence number, every CBC encrypt
call, every PRNG call and every record handed to the transport.  The abstract event sequence of each connection is
replayed through the extracted model (ocaml/drv_c17.ml) which must predict, for every sealed record, the key
ordinal, the sequence number, the nonce bytes / the index of the PRNG output used as explicit IV, the final
sequence numbers and that the caller facts held.
Search oracle (Impl vs Spec, independent of the model): on the log itself - no two seals with equal (key
fingerprint, nonce); per key the bound sequence number strictly increases; CBC explicit-IV blocks are PRNG outputs
with strictly increasing index per writer, pairwise distinct, never the previous record's last ciphertext block;
every protected record on the wire is accounted for by exactly one logged seal (and the TLS 1.2 GCM explicit
nonce on the wire is the bound sequence number).
DTLS 1.2 is covered by the SEARCH ORACLE ONLY (no model, no theorem): scripted handshakes under datagram loss,
duplication and retransmission timers; a (key, nonce) or (key, epoch||rsn) pair may recur only for a byte-identical
record.  NOT covered at all: TLS 1.2 ChaCha20 suites (not compiled in the default configuration; same construction
as TLS 1.3 which is covered), TLS 1.3 session-ticket encryption (not a record), DTLS fragmentation paths.
"""
import json, os, re
import vlib

SESS_WRAPS = ["psGetBrokenDownGMTime", "psGetEntropy", "psGetPrngLocked", "psGetTime", "csAesGcmEncryptTls13",
              "csChacha20Poly1305IetfEncryptTls13"]
WRAPS = SESS_WRAPS + ["psAesInitGCM", "psAesReadyGCM", "psAesEncryptGCM", "psChacha20Poly1305IetfInit",
                      "psChacha20Poly1305IetfEncrypt", "psAesInitCBC", "psAesEncryptCBC", "tlsHMACSha1", "tlsHMACSha2",
                      "sslActivateWriteCipher", "tls13ActivateEarlyDataReadKeys", "matrixSslSentData"]

# (name, `new` arguments, class)   class: 13 / gcm / cbc / cbc11
FAMILIES = [
    ("t13_aes128gcm", "cv=4 sv=4 suite=1301", "13"), ("t13_aes256gcm", "cv=4 sv=4 suite=1302", "13"),
    ("t13_chacha", "cv=4 sv=4 suite=1303", "13"), ("t13_cauth", "cv=4 sv=4 cauth=1 scb=1", "13"),
    ("t13_ecdsa", "cv=4 sv=4 key=ec", "13"), ("t13_chacha_cauth", "cv=4 sv=4 suite=1303 cauth=1 scb=1", "13"),
    ("t12_ecdhe_rsa_gcm128", "cv=3 sv=3 suite=c02f", "gcm"), ("t12_ecdhe_rsa_gcm256", "cv=3 sv=3 suite=c030", "gcm"),
    ("t12_rsa_gcm128", "cv=3 sv=3 suite=009c", "gcm"), ("t12_rsa_gcm256", "cv=3 sv=3 suite=009d", "gcm"),
    ("t12_ecdsa_gcm128", "cv=3 sv=3 key=ec suite=c02b", "gcm"), ("t12_ecdsa_gcm256", "cv=3 sv=3 key=ec suite=c02c", "gcm"),
    ("t12_ecdh_ecdsa_gcm", "cv=3 sv=3 key=ec suite=c02d", "gcm"),
    ("t12_gcm_cauth", "cv=3 sv=3 suite=c02f cauth=1 scb=1", "gcm"), ("t12_fallback_gcm", "cv=3,4 sv=3", "gcm"),
    ("t12_cbc_sha256", "cv=3 sv=3 suite=c027", "cbc"), ("t12_cbc_sha384", "cv=3 sv=3 suite=c028", "cbc"),
    ("t12_cbc_sha1", "cv=3 sv=3 suite=c013", "cbc"), ("t12_cbc256_sha1", "cv=3 sv=3 suite=c014", "cbc"),
    ("t12_rsa_cbc_sha1", "cv=3 sv=3 suite=002f", "cbc"), ("t12_rsa_cbc256_sha1", "cv=3 sv=3 suite=0035", "cbc"),
    ("t12_rsa_cbc_sha256", "cv=3 sv=3 suite=003c", "cbc"), ("t12_rsa_cbc256_sha256", "cv=3 sv=3 suite=003d", "cbc"),
    ("t12_ecdsa_cbc_sha256", "cv=3 sv=3 key=ec suite=c023", "cbc"), ("t12_ecdsa_cbc_sha384", "cv=3 sv=3 key=ec suite=c024", "cbc"),
    ("t12_ecdsa_cbc_sha1", "cv=3 sv=3 key=ec suite=c009", "cbc"), ("t12_ecdsa_cbc256_sha1", "cv=3 sv=3 key=ec suite=c00a", "cbc"),
    ("t12_cbc_cauth", "cv=3 sv=3 suite=c027 cauth=1 scb=1", "cbc"),
    ("t11_ecdhe_cbc_sha1", "cv=2 sv=2 suite=c013", "cbc11"), ("t11_rsa_cbc_sha1", "cv=2 sv=2 suite=002f", "cbc11"),
    ("t11_rsa_cbc256_sha1", "cv=2 sv=2 suite=0035", "cbc11"), ("t11_ecdhe_cbc256_sha1", "cv=2 sv=2 suite=c014", "cbc11"),
    ("t11_cauth", "cv=2 sv=2 cauth=1 scb=1", "cbc11"), ("t11_fallback", "cv=2,3 sv=2", "cbc11"),
]
QUICK_FAMILIES = ["t13_aes128gcm", "t13_aes256gcm", "t13_chacha", "t13_cauth", "t12_ecdhe_rsa_gcm128", "t12_rsa_gcm256",
                  "t12_ecdsa_gcm128", "t12_gcm_cauth", "t12_cbc_sha256", "t12_cbc_sha384", "t12_rsa_cbc_sha1",
                  "t12_ecdsa_cbc_sha256", "t12_cbc_cauth", "t11_ecdhe_cbc_sha1", "t11_rsa_cbc256_sha1", "t11_cauth"]

GARBAGE = bytes([23, 3, 3, 0, 40]) + bytes((7 * i + 3) & 255 for i in range(40))
GARBAGE2 = bytes([22, 3, 3, 0, 48]) + bytes((11 * i + 5) & 255 for i in range(48))


def hexpat(n, k=0):
    return bytes((i * 3 + k) & 255 for i in range(n)).hex() if n else "-"


# ---------------------------------------------------------------------------------------- scenario generation
def fixed_mix(new):
    """every kind of send after a full handshake, both directions, then failure and sends after it"""
    return [
        new + " ; hs ; app c 68656c6c6f ; appn c 20 3 ; step c2s 2 ; app s 776f726c64 ; hs ; appw c 0 ; appw s 100 ; appw s 0 ; hs ; "
        "app c " + hexpat(17000) + " ; appw s 40000 ; hs ; appn s 1 5 ; step s2c 2 ; app c 2a ; hs ; closure c ; hs ; app s 2b ; closure s ; hs",
        new + " ; hs ; app s 01 ; app c 02 ; app s 03 ; app c 04 ; hs ; inj s " + GARBAGE.hex() + " ; app s 05 ; app c 06 ; hs ; closure s ; closure c ; hs",
        new + " ; hs ; appn c 16 4 ; appn s 15 4 ; inj c " + GARBAGE.hex() + " ; hs ; app c 07 ; closure c ; hs",
        # alerts / closure in the middle of the handshake, data attempted before completion
        new + " ; step c2s 1 ; app s 00 ; step s2c 2 ; app c 00 ; closure c ; hs",
        new + " ; step c2s 1 ; step s2c 1 ; inj c " + GARBAGE2.hex() + " ; hs ; closure c ; hs",
        new + " ; step c2s 1 ; step s2c 30 ; step c2s 1 ; inj s " + GARBAGE.hex() + " ; hs ; closure s ; hs",
        new + " ; step c2s 1 ; step s2c 30 ; step c2s 30 ; closure s ; app s 01 ; hs",
        # more than 256 records under one key (carry out of the last sequence byte), both directions, then an alert
        new + " ; hs ; appn c 1 300 ; hs ; appn s 2 270 ; hs ; app c 2a ; hs ; closure s ; hs",
    ]


def hrr_scripts(new):
    """TLS 1.3 with a HelloRetryRequest (the server only supports a group the client sent no key share for)"""
    return [
        new + " sgroup=24 seed=31 ; hs ; app c 6869 ; app s 6f6b ; hs ; closure c ; hs",
        new + " sgroup=24 seed=32 ; step c2s 1 ; closure c ; hs",
        new + " ticket=1 maxed=16384 seed=33 ; hs ; " + new + " ticket=1 maxed=16384 resume=1 keepkeys=1 sgroup=24 seed=34 ; app c 6561726c79 ; app c 6561726c7932 ; "
        "step c2s 3 ; step s2c 1 ; closure c ; hs ; app c 6c61746572 ; hs",
        new + " ticket=1 maxed=16384 seed=35 ; hs ; " + new + " ticket=1 maxed=16384 resume=1 keepkeys=1 sgroup=24 seed=36 ; app c 6561726c79 ; hs ; app c 6c61746572 ; hs",
    ]


def resumed(new, cls):
    t = " ticket=1"
    s = [new + t + " seed=11 ; hs ; app c 6869 ; hs ; " + new + t + " resume=1 keepkeys=1 seed=12 ; hs ; app c 6161 ; appw s 33 ; hs ; closure c ; hs"]
    if cls != "13":
        # session-id resumption (server cache) as well
        s.append(new + " seed=13 ; hs ; app c 6869 ; hs ; " + new + " resume=1 keepkeys=1 seed=14 ; hs ; app c 6161 ; app s 6262 ; hs ; closure s ; hs")
    else:
        # early data: accepted (server allows it) and not offered; then more data after the handshake
        s.append(new + t + " maxed=16384 seed=15 ; hs ; app c 6869 ; hs ; " + new + t + " maxed=16384 resume=1 keepkeys=1 seed=16 ; "
                 "app c 6561726c79 ; appn c 30 2 ; hs ; app c 6c61746572 ; app s 6f6b ; hs ; closure c ; hs")
        s.append(new + t + " maxed=16384 seed=17 ; hs ; " + new + t + " maxed=16384 resume=1 keepkeys=1 seed=18 ; "
                 "app c 6561726c79 ; closure c ; hs")
        # early data offered by the ticket but refused by this server instance
        s.append(new + t + " maxed=16384 seed=19 ; hs ; " + new + t + " resume=1 keepkeys=1 seed=20 ; app c 6561726c79 ; hs ; app c 6c61746572 ; hs ; closure c ; hs")
    return s


def random_mix(r, new, cls, nops):
    ops = [new + " seed=%d" % r.randrange(1, 1 << 30)]
    # a random amount of handshake progress, then anything
    k = r.choice([0, 0, 0, 1, 2, 3])
    if k == 0:
        ops.append("hs")
    else:
        for i in range(k):
            ops.append("step %s %d" % (("c2s", "s2c")[i & 1], r.choice([1, 1, 2, 30])))
    for _ in range(nops):
        x = r.random(); side = r.choice("cs")
        if x < 0.22:
            ops.append("app %s %s" % (side, hexpat(r.choice([1, 5, 15, 16, 17, 31, 32, 33, 100, 1000, 16384, 16385, 20000, 40000]), r.randrange(256))))
        elif x < 0.34:
            ops.append("appn %s %d %d" % (side, r.choice([1, 16, 100, 5000]), r.choice([2, 3, 7])))
        elif x < 0.48:
            ops.append("appw %s %d" % (side, r.choice([0, 0, 1, 16, 100, 16384, 30000])))
        elif x < 0.62:
            ops.append("step %s %d" % (r.choice(["c2s", "s2c"]), r.choice([1, 2, 5])))
        elif x < 0.78:
            ops.append("hs")
        elif x < 0.84:
            ops.append("closure %s" % side)
        elif x < 0.90:
            ops.append("inj %s %s" % (side, (GARBAGE if r.random() < 0.7 else GARBAGE2).hex()))
        elif x < 0.95:
            ops.append("drop %s %d" % (r.choice(["c2s", "s2c"]), r.choice([1, 2])))
        else:
            ops.append("xor %s %d 01" % (r.choice(["c2s", "s2c"]), r.choice([0, 6, 20])))
    ops.append("hs")
    return " ; ".join(ops)


DTLS_SUITES = [("dtls_gcm", "suite=c02f"), ("dtls_gcm256_rsa", "suite=009d"), ("dtls_cbc_sha256", "suite=c027"), ("dtls_cbc_sha1_rsa", "suite=002f"),
               ("dtls_ecdsa_gcm", "suite=c02b key=ec")]


def dtls_scripts(r, args, n):
    """DTLS 1.2 handshakes under datagram loss, duplication and retransmission timers at every point, with data before/after"""
    hs = ["dstep c2s 1", "dstep s2c 1", "dstep c2s 1", "dstep s2c 5", "dstep c2s 5", "dstep s2c 5"]
    out = ["dnew %s seed=7 ; dpump ; dapp c 6869 ; dapp s 6f6b ; dpump ; dtimeout c ; dtimeout s ; dpump ; dapp c 2a ; dpump ; dclosure c ; dpump" % args]
    # one loss / timer at every stage, then data both ways
    for k in range(len(hs)):
        for who in "cs":
            pre = " ; ".join(hs[:k + 1])
            d = "c2s" if hs[k].split()[1] == "c2s" else "s2c"
            nxt = "s2c" if d == "c2s" else "c2s"
            out.append("dnew %s seed=%d ; %s ; ddrop %s 5 ; dapp s 7070 ; dtimeout %s ; dpump ; dtimeout %s ; dpump ; dapp s 7171 ; dapp c 7272 ; dpump ; dtimeout c ; dtimeout s ; dpump ; dapp c 7373 ; dpump"
                       % (args, 8 + k, pre, nxt, who, "s" if who == "c" else "c"))
    for _ in range(n):
        ops = ["dnew %s seed=%d" % (args, r.randrange(1, 1 << 30))]
        for _ in range(r.choice([6, 12, 20])):
            x = r.random()
            if x < 0.35:
                ops.append("dstep %s %d" % (r.choice(["c2s", "s2c"]), r.choice([1, 1, 2, 5])))
            elif x < 0.5:
                ops.append("ddrop %s %d" % (r.choice(["c2s", "s2c"]), r.choice([1, 1, 5])))
            elif x < 0.6:
                ops.append("ddup %s" % r.choice(["c2s", "s2c"]))
            elif x < 0.78:
                ops.append("dtimeout %s" % r.choice("cs"))
            elif x < 0.9:
                ops.append("dapp %s %s" % (r.choice("cs"), hexpat(r.choice([1, 16, 100, 1000]), r.randrange(256))))
            elif x < 0.95:
                ops.append("dpump")
            else:
                ops.append("dclosure %s" % r.choice("cs"))
        ops.append("dpump ; dapp c 6869 ; dapp s 6f6b ; dpump")
        out.append(" ; ".join(ops))
    return out


def early_scripts(new):
    """TLS 1.3 early-data matrix: accepted 0-RTT with server 0.5-RTT records (1, 2, many, > 256) before the client's
    Finished, NewSessionTicket after them, data both ways afterwards; client writes between its Finished and the
    ticket; early data refused (ticket without allowance on this server, external PSK); HelloRetryRequest x PSK x early data"""
    t = " ticket=1 smaxed=16384"
    first = new + t + " seed=41 ; hs ; "
    def second(seed, extra=""):
        return new + t + " resume=1 keepkeys=1%s seed=%d ; " % (extra, seed)
    out = []
    for i, srv in enumerate(("app s 30", "app s 30 ; app s 31", "appn s 20 25", "appn s 1 300", "appw s 0 ; appw s 17 ; app s " + hexpat(17000))):
        out.append(first + second(50 + i) + "app c 6561726c79 ; step c2s 2 ; " + srv + " ; hs ; app s 6c61746572 ; app c 6c61746572 ; appn s 5 3 ; hs ; closure c ; hs")
    # the client writes between its Finished and the arrival of the NewSessionTicket
    out.append(first + second(56) + "app c 6561726c79 ; step c2s 2 ; app s 30 ; step s2c 30 ; app c 40 ; app c 41 ; step c2s 2 ; app c 42 ; app s 32 ; hs ; app s 33 ; app c 43 ; hs")
    # 0.5-RTT records interleaved with the arrival of several early-data records
    out.append(first + second(57) + "appn c 10 3 ; step c2s 2 ; app s 30 ; step c2s 1 ; app s 31 ; step c2s 1 ; app s 32 ; hs ; app s 33 ; hs")
    # the server writes when only the ClientHello has arrived; the client sends no early data although it may
    out.append(first + second(58) + "app c 6561726c79 ; step c2s 1 ; app s 30 ; app s 31 ; hs ; app s 32 ; app c 44 ; hs")
    out.append(first + second(59) + "step c2s 1 ; app s 30 ; hs ; app s 31 ; app c 45 ; hs")
    # alerts in the 0.5-RTT phase
    out.append(first + second(60) + "app c 6561726c79 ; step c2s 2 ; app s 30 ; closure s ; hs")
    out.append(first + second(61) + "app c 6561726c79 ; step c2s 2 ; app s 30 ; inj s " + GARBAGE.hex() + " ; app s 31 ; hs")
    # early data refused: external PSK (with and without allowance), ticket from a server that allowed it presented to one that does not
    out.append(new + " psk=1 seed=62 ; app c 6561726c79 ; step c2s 2 ; app s 30 ; hs ; app s 31 ; app c 45 ; hs ; closure s ; hs")
    out.append(new + " psk=1 smaxed=16384 seed=63 ; app c 6561726c79 ; appn c 8 2 ; step c2s 2 ; app s 30 ; hs ; app s 31 ; app c 45 ; hs")
    out.append(first + new + " ticket=1 resume=1 keepkeys=1 seed=64 ; app c 6561726c79 ; step c2s 2 ; app s 30 ; hs ; app s 31 ; app c 46 ; hs")
    # HelloRetryRequest x PSK x early data
    out.append(first + second(65, " sgroup=24") + "app c 6561726c79 ; step c2s 2 ; app s 30 ; hs ; app s 31 ; app c 46 ; hs")
    out.append(new + " psk=1 smaxed=16384 sgroup=24 seed=66 ; app c 6561726c79 ; step c2s 2 ; app s 30 ; hs ; app s 31 ; app c 46 ; hs")
    return out


def random_early(r, new, nops):
    """accepted-0-RTT resumption followed by a random interleaving of deliveries and writes of both sides"""
    t = " ticket=1 smaxed=16384"
    ops = [new + t + " seed=%d ; hs" % r.randrange(1, 1 << 30), new + t + " resume=1 keepkeys=1 seed=%d" % r.randrange(1, 1 << 30)]
    for _ in range(r.choice([0, 1, 1, 3])):
        ops.append("app c %s" % hexpat(r.choice([1, 5, 100, 2000]), r.randrange(256)))
    for _ in range(nops):
        x = r.random(); side = r.choice("cs")
        if x < 0.35:
            ops.append("step %s %d" % (r.choice(["c2s", "s2c"]), r.choice([1, 1, 2, 30])))
        elif x < 0.65:
            ops.append("app %s %s" % (side, hexpat(r.choice([1, 5, 16, 100, 5000]), r.randrange(256))))
        elif x < 0.75:
            ops.append("appn %s %d %d" % (side, r.choice([1, 16]), r.choice([2, 5])))
        elif x < 0.82:
            ops.append("appw %s %d" % (side, r.choice([0, 1, 100])))
        elif x < 0.92:
            ops.append("hs")
        elif x < 0.96:
            ops.append("closure %s" % side)
        else:
            ops.append("inj %s %s" % (side, GARBAGE.hex()))
    ops.append("hs ; app s 7a ; app c 7b ; hs")
    return " ; ".join(ops)


def fault_scripts(new):
    """psGetPrngLocked fails exactly once while a CBC record is being written"""
    return [
        new + " ; hs ; app c 6161616161 ; hs ; ivfail 1 ; app c 6262626262 ; hs ; app c 6363636363 ; hs",
        new + " ; hs ; appw s 5 ; hs ; ivfail 1 ; appw s 5 ; hs ; appw s 5 ; hs",
        new + " ; hs ; app c 61 ; hs ; ivfail 1 ; closure c ; hs",
        new + " ; ivfail 1 ; hs ; app c 61 ; hs",
        new + " ; ivfail 2 ; hs ; app s 61 ; hs",
    ]


# ---------------------------------------------------------------------------------------- log analysis
def split_conns(log):
    conns, cur = [], None
    for tok in log.split():
        f = tok.split(":")
        if f[0] == "N":
            cur = []; conns.append(cur); continue
        if cur is None:
            cur = []; conns.append(cur)
        cur.append(f)
    return conns


def alg_letter(ialg, suite):
    v13 = suite.startswith("13")
    if ialg == "g":
        return "T" if v13 else "G"
    if ialg == "c":
        return "T" if v13 else "H"
    return "B"


class Conn:
    """one connection: abstract events for the model, what the implementation showed, direct spec findings"""
    def __init__(self, evs):
        self.evs = evs
        self.case, self.impl = [], []
        self.viol = []          # (signature, text)
        self.notes = []         # machinery-level inconsistencies (reported as a broken tie, not as a spec violation)
        self.counts = {}
        self.seals = []         # dicts: side, kind (aead/cbc), fp, seq, nonce, rt, ph, ...
        self.stale_fault = False
        self.dtls = any(f[0] == "D" for f in evs[:2])
        if self.dtls:
            self.analyse_dtls()
        else:
            self.analyse()

    def cnt(self, k, n=1):
        self.counts[k] = self.counts.get(k, 0) + n

    def analyse(self):
        evs = self.evs
        cur = {"c": None, "s": None}          # current activation of the writer: dict(fp, suite, iv, ord, alg)
        nact = {"c": 0, "s": 0}
        ord_of_fp = {"c": {}, "s": {}}
        sealed_under = {}                      # fp -> number of seals
        prng = []                              # successful draws: (size, dest, bytes)
        failed_since = {"c": False, "s": False}
        wire = {"c": [], "s": []}
        final = {"c": "0000000000000000", "s": "0000000000000000"}
        pend_act = {"c": None, "s": None}      # activation waiting for its Init event (to learn the algorithm)
        i = 0
        case, impl = self.case, self.impl
        while i < len(evs):
            f = evs[i]; t = f[0]
            if t == "AW":
                x, seqb, suite, fp, iv = f[1], f[2], f[3], f[4], f[5]
                nact[x] += 1
                if suite == "0000":
                    cur[x] = None; case.append("a%sN:-" % x); self.cnt("activate:null")
                else:
                    # the algorithm comes with the Init call that must follow
                    ialg = None
                    for g in evs[i + 1:i + 4]:
                        if g[0] == "I" and g[1] == x + "w":
                            ialg = g[2]
                            if g[3] != fp:
                                self.notes.append("Init key differs from the activated key (%s)" % x)
                            break
                    if ialg is None:
                        self.notes.append("activation without cipher Init (%s, suite %s)" % (x, suite)); ialg = "g"
                    al = alg_letter(ialg, suite)
                    if fp in ord_of_fp["c"] or fp in ord_of_fp["s"]:
                        other = "c" if fp in ord_of_fp["c"] else "s"
                        if sealed_under.get(fp, 0) > 0 or other != x:
                            self.viol.append(("key-reactivated:%s:%s" % (al, "same" if other == x else "other-writer"),
                                              "a traffic key under which %d records were sealed was activated again (writer %s, suite %s)" % (sealed_under.get(fp, 0), x, suite)))
                        else:
                            self.cnt("reactivated-before-any-seal"); ord_of_fp[x][fp] = nact[x]
                    else:
                        ord_of_fp[x][fp] = nact[x]
                    cur[x] = {"fp": fp, "suite": suite, "iv": iv, "alg": al}
                    case.append("a%s%s:%s" % (x, al, iv if al in "GHT" else "-"))
                    self.cnt("activate:" + al + (":early" if False else ""))
            elif t == "ER":
                case.append("e" + f[1]); self.cnt("early-read-reset")
                if cur[f[1]] is not None:
                    self.cnt("early-read-reset-under-key")
            elif t == "P":
                if f[3] == "0":
                    prng.append((int(f[2]), f[4], f[5]))
                    if f[4] in ("co", "so") and f[2] == "16":
                        case.append("d%s1" % f[4][0]); failed_since[f[4][0]] = False
                    else:
                        case.append("p")
                    self.cnt("prng:" + ("iv" if f[4] != "x" and f[2] == "16" else "other"))
                else:
                    self.cnt("prng:failed")
                    if f[4] in ("co", "so"):
                        case.append("d%s0" % f[4][0]); failed_since[f[4][0]] = True
            elif t in ("S", "S2"):
                who = f[1]
                if who == "xx":
                    self.cnt("aead-outside-record-layer"); i += 1; continue
                x = who[0]
                if who[1] != "w":
                    self.notes.append("encrypt call on a read context"); i += 1; continue
                if t == "S2":
                    self.viol.append(("second-encrypt-same-nonce:%s" % f[2], "two encrypt calls under one nonce setup"))
                alg, fp, nonce, seq, iv, rt, ln, ph, ct8, v13 = f[2], f[3], f[4], f[5], f[6], int(f[7]), int(f[8]), f[9], f[10], f[11]
                o = ord_of_fp[x].get(fp, -1)
                case.append("s%s:%d" % (x, rt))
                impl.append("%s%d:%s:%s" % (x, o, seq, nonce))
                sealed_under[fp] = sealed_under.get(fp, 0) + 1
                self.seals.append(dict(side=x, kind="aead", alg=alg, v13=v13, fp=fp, nonce=nonce, seq=seq, iv=iv, rt=rt, ph=ph, ct=ct8, len=ln, pos=i))
                if cur[x] is not None and iv != cur[x]["iv"][:len(iv)]:
                    self.viol.append(("static-iv-changed:%s" % alg, "the static IV used for a seal differs from the one installed with the key"))
                self.cnt("seal:%s%s:rt%d" % (alg, "13" if v13 == "1" else "12", rt))
            elif t == "M":
                x = f[1][0]; rt, seq, ln, ph = int(f[2]), f[3], int(f[4]), f[5]
                blocks = []
                j = i + 1
                while j < len(evs):
                    g = evs[j]
                    if g[0] == "B" and g[1] == x + "w":
                        blocks.append(g)
                    elif (g[0] in ("M", "S") and g[1] == x + "w") or (g[0] in ("AW", "Q") and g[1] == x):
                        break
                    j += 1
                case.append("s%s:%d" % (x, rt))
                if not blocks:
                    self.notes.append("MAC computed but no CBC encryption followed (%s)" % x)
                    impl.append("%s?:%s:NOENC" % (x, seq)); i += 1; continue
                fp = blocks[0][2]
                o = ord_of_fp[x].get(fp, -1)
                r0 = blocks[0][4]
                # which PRNG output is it?
                jidx = [k for k, p in enumerate(prng) if p[0] == 16 and p[2] == r0]
                src = ("J%d" % jidx[-1]) if jidx else "STALE"
                impl.append("%s%d:%s:%s" % (x, o, seq, src))
                sealed_under[fp] = sealed_under.get(fp, 0) + 1
                self.seals.append(dict(side=x, kind="cbc", fp=fp, seq=seq, rt=rt, ph=ph, r=r0, j=(jidx[-1] if jidx else None), c0=blocks[0][5], cl=blocks[-1][6],
                                       fault=failed_since[x], pos=i, nblocks=len(blocks)))
                failed_since[x] = False
                self.cnt("seal:cbc:rt%d:%s" % (rt, "2calls" if len(blocks) > 1 else "insitu"))
            elif t == "B":
                if f[1] == "xx":
                    self.cnt("cbc-outside-record-layer")
            elif t == "W":
                wire[f[1]].append(f)
            elif t == "Q":
                final[f[1]] = f[2]
            i += 1
        impl.append("Qc:%s Qs:%s ok=1" % (final["c"], final["s"]))
        self.wire = wire
        self.prng = prng
        self.spec_checks()
        self.wire_tie()

    # -------------------------------------------------------------- DTLS 1.2: search only (no model), directly on the log
    def analyse_dtls(self):
        """records are numbered by epoch||rsn; a retransmitted flight re-seals under the same key with a bumped epoch.
        Spec: a (key, nonce) / (key, MAC sequence number) pair may recur only for a byte-identical record; CBC explicit
        IVs as for TLS."""
        evs = self.evs; prng = []; seen = {}; failed = {"c": False, "s": False}
        i = 0
        while i < len(evs):
            f = evs[i]; t = f[0]
            if t == "P":
                if f[3] == "0":
                    prng.append((int(f[2]), f[4], f[5]))
                elif f[4] in ("co", "so"):
                    failed[f[4][0]] = True
            elif t == "AW" and f[3] != "0000":
                self.cnt("dtls:activate")
            elif t == "S" and f[1] in ("cw", "sw"):
                fp, nonce, seq, rt, ph = f[3], f[4], f[5], int(f[7]), f[9]
                self.seals.append(dict(side=f[1][0], kind="aead", fp=fp, nonce=nonce, seq=seq, rt=rt, ph=ph))
                k = (fp, nonce)
                if k in seen:
                    if seen[k] != (rt, ph):
                        self.viol.append(("dtls-nonce-reuse:rt%d:rt%d" % (seen[k][0], rt),
                                          "DTLS: two different records were sealed under the same key with the same nonce %s (epoch||rsn %s)" % (nonce, seq)))
                    else:
                        self.cnt("dtls:identical-reseal")
                seen[k] = (rt, ph)
                if nonce[8:] != seq:
                    self.viol.append(("dtls-nonce-not-epoch-rsn", "DTLS: the explicit nonce part %s is not epoch||rsn %s" % (nonce[8:], seq)))
                self.cnt("dtls:seal:gcm:rt%d:epoch%s" % (rt, min(int(seq[:4], 16), 3)))
            elif t == "M":
                x = f[1][0]; rt, seq, ph = int(f[2]), f[3], f[5]
                blocks = []
                j = i + 1
                while j < len(evs):
                    g = evs[j]
                    if g[0] == "B" and g[1] == x + "w":
                        blocks.append(g)
                    elif (g[0] in ("M", "S") and g[1] == x + "w") or (g[0] in ("AW", "Q") and g[1] == x):
                        break
                    j += 1
                if blocks:
                    fp = blocks[0][2]; r0 = blocks[0][4]
                    jidx = [k for k, p in enumerate(prng) if p[0] == 16 and p[2] == r0]
                    self.seals.append(dict(side=x, kind="cbc", fp=fp, seq=seq, rt=rt, ph=ph, r=r0, j=(jidx[-1] if jidx else None), c0=blocks[0][5], cl=blocks[-1][6],
                                           fault=failed[x]))
                    failed[x] = False
                    k = (fp, "mac", seq)
                    if k in seen and seen[k] != (rt, ph):
                        self.viol.append(("dtls-seq-reuse:cbc:rt%d:rt%d" % (seen[k][0], rt),
                                          "DTLS: two different CBC records were MACed under the same key with the same epoch||rsn %s" % seq))
                    seen[k] = (rt, ph)
                    self.cnt("dtls:seal:cbc:rt%d:epoch%s" % (rt, min(int(seq[:4], 16), 3)))
            i += 1
        # CBC explicit IVs: same demands as for TLS
        lastj = {"c": -1, "s": -1}; usedj = {}
        for s in self.seals:
            if s["kind"] != "cbc":
                continue
            if s["j"] is None:
                self.viol.append((("cbc-iv-stale:prngfail:dtls:rt%d" if s["fault"] else "cbc-iv-not-prng:dtls:rt%d") % s["rt"],
                                  "DTLS: the explicit-IV block %s of a CBC record is not an output of psGetPrngLocked" % s["r"]))
                if s["fault"]:
                    self.stale_fault = True
            else:
                if s["j"] <= lastj[s["side"]] or s["j"] in usedj:
                    self.viol.append(("cbc-iv-index-order:dtls:rt%d" % s["rt"], "DTLS: explicit IV is PRNG output %d, already used or older than the writer's previous one" % s["j"]))
                lastj[s["side"]] = s["j"]; usedj[s["j"]] = 1

    # -------------------------------------------------------------- the property, directly on the log
    def spec_checks(self):
        seen = {}
        for s in self.seals:
            if s["kind"] != "aead":
                continue
            k = (s["fp"], s["nonce"])
            if k in seen:
                o = seen[k]
                self.viol.append(("nonce-reuse:%s%s:rt%d:rt%d:%s" % (s["alg"], "13" if s["v13"] == "1" else "12", o["rt"], s["rt"],
                                                                    "same-plaintext" if o["ph"] == s["ph"] else "different-plaintext"),
                                  "two records (types %d and %d, writer %s) were sealed under the same key with the same nonce %s (sequence numbers %s and %s)"
                                  % (o["rt"], s["rt"], s["side"], s["nonce"], o["seq"], s["seq"])))
            else:
                seen[k] = s
        last = {}
        for s in self.seals:
            v = int(s["seq"], 16)
            if s["fp"] in last and not (v > last[s["fp"]][0]):
                self.viol.append(("seq-not-increasing:%s:rt%d:after-rt%d" % (s["kind"], s["rt"], last[s["fp"]][1]),
                                  "the sequence number bound into a record (%s, type %d, writer %s) does not exceed the one of the previous record under the same key (%016x, type %d)"
                                  % (s["seq"], s["rt"], s["side"], last[s["fp"]][0], last[s["fp"]][1])))
            last[s["fp"]] = (v, s["rt"])
        # CBC explicit IVs
        lastj = {"c": -1, "s": -1}; usedj = {}; prev = {}; seen_r = {}; seen_c0 = {}
        for s in self.seals:
            if s["kind"] != "cbc":
                continue
            if s["j"] is None:
                if s["fault"]:
                    self.stale_fault = True
                    self.viol.append(("cbc-iv-stale:prngfail:rt%d" % s["rt"],
                                      "psGetPrngLocked failed while a CBC record (type %d) was written; the record was still sealed and sent, its explicit-IV block "
                                      "%s is whatever the buffer held%s" % (s["rt"], s["r"], " = the previous record's first ciphertext block" if prev.get(s["fp"]) and prev[s["fp"]]["c0"] == s["r"] else "")))
                else:
                    self.viol.append(("cbc-iv-not-prng:rt%d" % s["rt"], "the explicit-IV block %s of a CBC record (type %d) is not an output of psGetPrngLocked" % (s["r"], s["rt"])))
            else:
                if s["j"] <= lastj[s["side"]]:
                    self.viol.append(("cbc-iv-index-order:rt%d" % s["rt"], "explicit IV is PRNG output %d, not later than the one of the writer's previous record (%d)" % (s["j"], lastj[s["side"]])))
                if s["j"] in usedj:
                    self.viol.append(("cbc-iv-reused:rt%d" % s["rt"], "PRNG output %d served as explicit IV of two records" % s["j"]))
                lastj[s["side"]] = s["j"]; usedj[s["j"]] = 1
            if s["r"] in seen_r and s["j"] is not None:
                self.viol.append(("cbc-iv-repeat:rt%d" % s["rt"], "two CBC records carry the same explicit-IV block " + s["r"]))
            seen_r[s["r"]] = 1
            p = prev.get(s["fp"])
            if p is not None and (s["r"] == p["cl"] or s["c0"] == p["cl"]):
                self.viol.append(("cbc-iv-equals-prev-ciphertext:rt%d" % s["rt"], "the explicit IV of a CBC record equals the last ciphertext block of the previous record"))
            if (s["fp"], s["c0"]) in seen_c0:
                self.viol.append(("cbc-wire-iv-repeat:rt%d" % s["rt"], "two CBC records under one key start with the same ciphertext block"))
            seen_c0[(s["fp"], s["c0"])] = 1
            prev[s["fp"]] = s

    # -------------------------------------------------------------- every protected record on the wire <-> one logged seal
    def wire_tie(self):
        for x in "cs":
            seals = [s for s in self.seals if s["side"] == x]
            is13 = any(s.get("v13") == "1" for s in seals)
            prot = False; k = 0
            for w in self.wire[x]:
                if w[2] == "partial":
                    self.notes.append("partial record handed to the transport"); continue
                outer, ln, head, tail = int(w[2]), int(w[3]), w[4], w[5]
                sealed = (outer == 23) if is13 else prot
                if not is13 and outer == 20:
                    prot = True
                if not sealed:
                    continue
                found = None
                for m in range(k, len(seals)):
                    s = seals[m]
                    if s["kind"] == "cbc":
                        okm = head == s["c0"] and tail == s["cl"]
                    elif s["v13"] == "1" or s["alg"] == "c":
                        okm = head.startswith(s["ct"])
                    else:
                        okm = head[:16] == s["nonce"][8:] and head[16:].startswith(s["ct"][:len(head) - 16])
                        if head[16:].startswith(s["ct"][:len(head) - 16]) and head[:16] != s["seq"]:
                            self.viol.append(("explicit-nonce-not-seq:rt%d" % s["rt"], "the explicit nonce on the wire (%s) is not the sequence number bound into the record (%s)" % (head[:16], s["seq"])))
                    if okm:
                        found = m; break
                if found is None:
                    self.notes.append("a protected record (writer %s, type %d, %d bytes) left without a logged seal" % (x, outer, ln))
                else:
                    self.cnt("sealed-not-sent", found - k); k = found + 1
                    self.cnt("wire-records-matched")
            self.cnt("sealed-not-sent", len(seals) - k)


def run_scripts(ck, h, scripts):
    """one output line per script; a script on which the harness process dies (a library crash on hostile input is a
    matter of C08/C09, not of C17) is recorded and skipped, the rest is run in a fresh process"""
    outs, start, crashes = [], 0, []
    while start < len(scripts):
        rc, out, err = ck.run_lines(h, scripts[start:], timeout=3000)
        # the library prints a few diagnostics with newlines to stdout ("Ignored n bytes of possible early_data"): one
        # case = all physical lines up to and including the one that carries the " || " log separator
        cases_out, acc = [], []
        for l in out:
            acc.append(l)
            if " || " in l:
                cases_out.append(" ".join(acc)); acc = []
        out = cases_out
        if len(out) >= len(scripts) - start:
            outs += out[:len(scripts) - start]; break
        k = start + len(out)
        outs += out + ["CRASH"]
        crashes.append(k)
        ck.log("h_nonce died (rc=%s) on script #%d: %s" % (rc, k, scripts[k][:300]))
        start = k + 1
        if len(crashes) > max(3, len(scripts) // 50):
            ck.violation("the logging harness dies on too many scripts (%d) to trust the run" % len(crashes),
                         {"harness": "h_nonce", "script": scripts[k], "broken": "correspondence harness h_nonce.c"}, found_input=False)
            outs += ["CRASH"] * (len(scripts) - len(outs)); break
    for k in crashes:
        ck.count("harness-died-on-script")
        ck.notes.append("harness process died on script (skipped, not a C17 matter): " + scripts[k][:400])
    return outs


def build_scripts(ck):
    fams = [f for f in FAMILIES if ck.tier != "quick" or f[0] in QUICK_FAMILIES]
    scripts, meta = [], []
    cdir = os.path.join(vlib.VERIF, "corpus", "C17")
    if os.path.isdir(cdir):
        for fn in sorted(os.listdir(cdir)):
            if fn.endswith(".case"):
                for line in open(os.path.join(cdir, fn)):
                    line = line.strip()
                    if line and not line.startswith("#"):
                        scripts.append(line); meta.append(("corpus:" + fn, "corpus"))
    for name, args, cls in fams:
        new = "new " + args
        for s in fixed_mix(new + " seed=%d" % (ck.seed + 1)):
            scripts.append(s); meta.append((name, "fixed"))
        for s in resumed(new, cls):
            scripts.append(s); meta.append((name, "resumed"))
        if cls == "13":
            for s in hrr_scripts(new):
                scripts.append(s); meta.append((name, "hrr"))
            if "cauth" not in name:
                for s in early_scripts(new):
                    scripts.append(s); meta.append((name, "early"))
                r = ck.rng("early/" + name)
                for _ in range(ck.budget(4, 80)):
                    scripts.append(random_early(r, new, r.choice([5, 10, 18]))); meta.append((name, "early-random"))
        if cls in ("cbc", "cbc11"):
            for s in fault_scripts(new + " seed=%d" % (ck.seed + 2)):
                scripts.append(s); meta.append((name, "fault"))
        r = ck.rng("mix/" + name)
        for _ in range(ck.budget(5, 200)):
            scripts.append(random_mix(r, new, cls, r.choice([4, 8, 14, 25]))); meta.append((name, "random"))
    for name, args in DTLS_SUITES:
        if ck.tier == "quick" and name not in ("dtls_gcm", "dtls_cbc_sha256"):
            continue
        for s in dtls_scripts(ck.rng("dtls/" + name), args, ck.budget(10, 150)):
            scripts.append(s); meta.append((name, "dtls"))
    return scripts, meta


def run(ck):
    ck.trusted += ["Coq 8.16.1 kernel", "extraction (ExtrOcamlBasic only) + ocaml/drv_c17.ml",
                   "harness/h_nonce.c + sess.h: link-time wraps (" + ", ".join(WRAPS[6:]) + ") observe keys, nonces, sequence numbers, PRNG calls and emitted records; "
                   "entropy/PRNG/clock pinned; PRNG output j of a connection is a pure function of (seed, j)",
                   "modelled, not verified: the seal-history machine coq/Nonce/NonceModel.v (sequence-number increment loops, nonce constructions, key activation, "
                   "early-data reset, CBC IV draw/seal) is hand-written Gallina compared with the library on every logged seal of every run",
                   "the two caller facts in guardw (early-data read-key activation happens under the null write cipher; a CBC record is encrypted only after its IV "
                   "block was obtained) are control-flow facts checked on every observed trace, not proved from the C source"]
    ck.assumptions += ["distinct key activations install distinct keys, and the two writers use different keys (key schedule: C10); checked on every run by key fingerprints",
                       "fewer than 2^64 records are sealed under one key",
                       "psGetPrngLocked outputs are unpredictable and (statistically) distinct - the theorems speak about which output is used, not about its quality"]
    ck.build_repo()
    ck.coq_properties()
    drv = ck.ocaml_driver("drv_c17", extract_vo="Extract/Extract_C17.vo", gen_ml=["m_c17"])
    h = ck.cc("h_nonce.c", wraps=WRAPS)
    scripts, meta = build_scripts(ck)
    outs = run_scripts(ck, h, scripts)
    cases, impl, back = [], [], []
    nconn = nseal = ndtls = 0
    for si, out in enumerate(outs):
        if " || " not in out:
            ck.count("no-log"); continue
        cmdout, log = out.split(" || ", 1)
        if not (cmdout.startswith("new:0") or cmdout.startswith("dnew:0")):
            ck.count("scenario_setup_failed:" + meta[si][0]); continue
        for ci, evs in enumerate(split_conns(log)):
            c = Conn(evs)
            nconn += 1; nseal += len(c.seals)
            for k, v in c.counts.items():
                ck.count(k, v)
            ck.count("family:%s:%s" % meta[si])
            for sig, what in c.viol:
                ck.spec_violation(sig, what, {"harness": "h_nonce", "script": scripts[si], "connection": ci, "family": meta[si][0],
                                              "expected_by_spec": "pairwise distinct (key, nonce); strictly increasing sequence numbers per key; fresh PRNG output as CBC explicit IV",
                                              "observed": " ".join(":".join(f) for f in evs if f[0] in ("AW", "S", "M", "B", "P", "ER"))[-1500:]})
            for n in c.notes:
                ck.count("tie-broken")
                ck.violation("the seal log does not account for what the library did: " + n, {"harness": "h_nonce", "script": scripts[si], "broken": "correspondence (log/wire tie)"}, found_input=False)
            if c.dtls:
                ck.count("dtls-connection(search-only)"); ndtls += 1
                if c.seals:
                    ck.add_distinct("dtls" + scripts[si])
                continue
            if c.stale_fault:
                ck.count("fault-script-excluded-from-correspondence"); continue
            if not c.seals and meta[si][1] != "fault":
                ck.count("connection-without-seals")
            cases.append(" ".join(c.case)); impl.append(" ".join(c.impl)); back.append((si, ci))
    ck.cov["dtls_connections_search_only"] = ndtls
    ck.cov["connections"] = nconn; ck.cov["seals_logged"] = nseal; ck.cov["scripts"] = len(scripts)
    ck.cov["exhaustive"] = False
    if drv is not None and cases:
        rc, model, err = ck.run_lines(drv, cases)
        dis = ck.correspond("seal history: model prediction (key ordinal, sequence number, nonce / IV source, final sequence numbers, caller facts) vs library log",
                            cases, impl, model, nontrivial=lambda c, o: " s" in (" " + c))
        for i in dis[:3]:
            si, ci = back[i]
            a, b = impl[i].split(), (model[i].split() if i < len(model) else [])
            first = next((k for k in range(max(len(a), len(b))) if k >= len(a) or k >= len(b) or a[k] != b[k]), -1)
            ck.log("DISAGREE script=%r conn=%d first differing token #%d impl=%s model=%s" % (scripts[si][:400], ci, first, a[first] if 0 <= first < len(a) else None,
                                                                                          b[first] if 0 <= first < len(b) else None))
            ck.violation("the library's seal history differs from the model the theorems are about (record #%d: library %s, model %s)" % (
                first, a[first] if 0 <= first < len(a) else None, b[first] if 0 <= first < len(b) else None),
                {"harness": "h_nonce", "script": scripts[si], "connection": ci, "case": cases[i][:2000], "impl": impl[i][:2000], "model": (model[i] if i < len(model) else "")[:2000],
                 "signature": "model-mismatch:%s" % meta[si][0]}, found_input=True)
    ck.rules.append("per cipher family (TLS 1.3 AES-128/256-GCM, ChaCha20; TLS 1.2 GCM with RSA/ECDHE-RSA/ECDHE-ECDSA/ECDH key exchange; TLS 1.2 and 1.1 CBC with "
                    "SHA-1/256/384; client-auth; version fallback): full, session-id-resumed, ticket-resumed and early-data handshakes; after and during the handshake "
                    "mixes of data writes (1..40000 bytes, in-situ and copying API, several writes per flush, empty records), closure and fatal alerts, injected "
                    "garbage, dropped and corrupted records, sends after failure/closure, TLS 1.3 NewSessionTicket, HelloRetryRequest (with and without early data), more than "
                    "256 records per key; CBC families additionally with one failing PRNG call. A connection is non-trivial when at least one record was sealed. "
                    "DTLS 1.2 (GCM and CBC): handshakes with a datagram loss / retransmission timer at every stage, duplication, data before and after "
                    "retransmitted flights - checked by the direct spec oracle only (not modelled)")


def replay(ck, path):
    rp = json.load(open(path))["replay"]
    ck.build_repo()
    h = ck.cc("h_nonce.c", wraps=WRAPS)
    out = run_scripts(ck, h, [rp["script"]])
    print("script:", rp["script"])
    if out and " || " in out[0]:
        cmdout, log = out[0].split(" || ", 1)
        print("commands:", cmdout[:1500])
        for ci, evs in enumerate(split_conns(log)):
            c = Conn(evs)
            print("connection %d: %d seals; spec violations now: %s" % (ci, len(c.seals), [v[0] for v in c.viol] or "none"))
            if "connection" in rp and rp["connection"] == ci:
                print("  impl :", " ".join(c.impl)[:1500])
    else:
        print("observed now:", out)
