"""C07 - negotiated parameters are ones both sides enabled; downgrades refused.

Theorems: coq/Properties/Properties_C07.v (model coq/Neg/NegModel.v of the FIXED code, spec coq/Neg/NegSpec.v).
Tie (harness/h_neg.c, ocaml/drv_c07.ml):
  (i)   direct calls to the extern negotiation functions on prepared ssl_t - EXHAUSTIVE for version negotiation over all
        ordered sub-lists of {TLS1.1,1.2,1.3} (+DTLS 1.0/1.2) on both sides, with/without supported_versions - against the
        extracted model, and against the Python spec oracle below;
  (ii)  live two-peer handshakes for sampled configurations: negotiated parameters read on both ends; every ClientHello /
        ServerHello seen is also abstracted into a `chello`/`shello` case for the model of the hello processing;
  (iii) man-in-the-middle single-field rewrites of ClientHello and ServerHello: no side may complete; a ServerHello
        that selects something the client did not offer / carries the downgrade sentinel / omits a required
        extended_master_secret must be refused by the client right there.
"""
import hashlib, itertools, json, os, re, struct
import vlib
from neglib import Hello, ENC, DEC, MINOR, SENT12, SENT11, EXT_EMS, EXT_SV, EXT_KS, EXT_GROUPS, EXT_SIGALGS
import sesslib

WRAPS = sesslib.WRAPS + ["psTraceBytes"]
NEG = 1 << 24
T11, T12, T13, D10, D12 = 4, 16, 2048, 8, 32
TLS_ANY, DTLS_ANY, V13ANY = 4054, 40, 4032
HRR_RANDOM = bytes.fromhex("cf21ad74e59a6111be1d8c021e65b891c2a211167abb8c5e079e09e2c8a8339c")
SCSV, RENEG_SCSV = 0x5600, 0x00ff
TLS13_SUITES = {0x1301, 0x1302, 0x1303, 0x1304, 0x1305}


# ------------------------------------------------------------------ tables regenerated from the source
def gen_table():
    txt = open(os.path.join(vlib.COQ, "Gen", "ConstsNeg.v")).read()
    m = re.search(r"Definition c_suites : list \(N \* N \* N\) := \[(.*?)\]\.", txt, re.S)
    return [tuple(int(x) for x in t.split(",")) for t in re.findall(r"\((\d+, \d+, \d+)\)", m.group(1))]


# ------------------------------------------------------------------ independent spec oracle (versions)
def spec_version(srv, legacy, sv):
    """set of acceptable server answers per the property: enabled by the server and offered by the client;
    with most-recent-first priorities on both sides exactly the highest such version"""
    if sv is not None:
        common = [v for v in srv if v in sv]
        dflt = srv == sorted(srv, reverse=True) and sv == sorted(sv, reverse=True) and len(set(sv)) == len(sv)
    else:
        fam = lambda v: bool(v & DTLS_ANY)
        common = [v for v in srv if v <= legacy and fam(v) == fam(legacy)] if legacy else []
        dflt = srv == sorted(srv, reverse=True)
    return set(common), (max(common) if (common and dflt) else None)


def ordered_sublists(items):
    out = []
    for k in range(1, len(items) + 1):
        out += [list(p) for p in itertools.permutations(items, k)]
    return out


def csv(l, fmt="%d"):
    return ",".join(fmt % x for x in l) if l else "-"


# ------------------------------------------------------------------ hello rewriting language (corpus + MITM generator)
def apply_op(h, op):
    k, _, v = op.partition("=")
    if k == "version": h.version = bytes.fromhex(v)
    elif k == "tail": h.random = h.random[:24] + ({"sentinel12": SENT12, "sentinel11": SENT11}.get(v) or bytes.fromhex(v))
    elif k == "fliprandom": i = int(v); h.random = h.random[:i] + bytes([h.random[i] ^ 0x40]) + h.random[i + 1:]
    elif k == "sid": h.session_id = bytes.fromhex(v) if v != "-" else b""
    elif k == "suite": h.suite = int(v, 16)
    elif k == "suites": h.suites = [int(x, 16) for x in v.split(",")]
    elif k == "addsuite": h.suites = h.suites + [int(v, 16)]
    elif k == "dropsuite": h.suites = [s for s in h.suites if s != int(v, 16)]
    elif k == "comp": h.compression = bytes.fromhex(v)
    elif k == "noext": h.exts = None
    elif k == "emptyext": h.exts = []
    elif k == "delext": h.del_ext(int(v))
    elif k == "addext": t, _, d = v.partition(":"); h.exts = (h.exts or []) + [(int(t), bytes.fromhex(d) if d else b"")]
    elif k == "setext": t, _, d = v.partition(":"); h.set_ext(int(t), bytes.fromhex(d) if d else b"")
    elif k == "flipext":
        t, _, i = v.partition(":"); d = bytearray(h.ext(int(t))); d[int(i)] ^= 0x01; h.set_ext(int(t), bytes(d))
    else: raise ValueError(op)


def rewrite(rec, ops):
    h = Hello(rec)
    for op in ops:
        apply_op(h, op)
    return h


# ------------------------------------------------------------------ harness access
class Neg:
    def __init__(self, ck, h):
        self.ck, self.h = ck, h

    def run(self, lines):
        rc, out, err = self.ck.run_lines(self.h, lines)
        return out

    def heads(self, cfgs, which):
        pre = "" if which == "c2s" else "step c2s ; "
        out = self.run(["new %s ; cfgv ; %sgethead %s" % (c, pre, which) for c in cfgs])
        res = []
        for o in out:
            m = re.search(r"head:([0-9a-f]+)", o); v = re.search(r"cfgv:c=(\d+):(\S+) s=(\d+):(\S+)", o)
            res.append((bytes.fromhex(m.group(1)) if m else None, v.groups() if v else None, o))
        return res


NEG_RE = re.compile(r"neg:c=(\S+) s=(\S+)")

def parse_neg(seg):
    m = NEG_RE.search(seg)
    if not m:
        return None
    out = []
    for side in m.groups():
        f = side.split(",")
        if len(f) < 9: return None
        out.append({"done": int(f[0]), "ver": int(f[1]), "suite": int(f[2], 16), "group": int(f[3]), "sig": int(f[4]), "ems": int(f[5]),
                    "kc": f[6], "ks": f[7], "err": int(f[8])})
    return out


def prio_list(s):
    return [] if s == "-" else [int(x) for x in s.split(",")]


# ------------------------------------------------------------------ abstraction of hellos for the model
def chello_case(ch, sprio, sdis, sreq, okids):
    legacy = ENC.get(struct.unpack(">H", ch.version)[0], 0)
    sv = ch.sv_list()
    svs = "none" if sv is None else csv([ENC[e] for e in sv if e in ENC])
    ems = ch.ext(EXT_EMS)
    return "chello %s %s %d %d %s %s %d %s %s" % (csv(sprio), csv(sdis, "%04x"), sreq, legacy, svs, csv(ch.suites, "%04x"),
                                                   1 if 0 in ch.compression else 0, "-" if ems is None else str(len(ems)), csv(okids, "%04x"))


def server_observed(n):
    s = n[1]
    if s["err"] != 255: return "err %d" % s["err"]
    if s["ver"] & V13ANY: return "acc13 %d %04x" % (s["ver"], s["suite"])
    return "acc %d %04x %d" % (s["ver"], s["suite"], s["ems"])


def shello_case(sh, ch, cprio, offered, deflist, ems_required, ks_err=255):
    """None when the ServerHello uses something outside the modelled extension set"""
    toks = []
    chx = set(t for t, _ in (ch.exts or []))
    for (t, d) in (sh.exts or []):
        if t == EXT_EMS: toks.append("ems:%d" % len(d))
        elif t == EXT_SV:
            if len(d) != 2: return None
            toks.append("sv:%d" % ENC.get(struct.unpack(">H", d)[0], 0))
        elif t == EXT_KS: toks.append("ks:%d" % ks_err)
        elif t == 41: return None
        elif t == 11:
            if not d or d[0] != len(d) - 1: return None
            toks.append("o:%d:0" % (1 if 11 in chx else 0))
        elif t == 10: toks.append("o:%d:0" % (1 if 10 in chx else 0))
        elif t in (0x1234, 0x4321): toks.append("o:0:1")
        else: return None
    extbytes = 0 if sh.exts is None else 2 + sum(4 + len(d) for _, d in sh.exts)
    return "shello %s %s %s %d %d %d %d %s %d %04x %d %d %s" % (
        csv(cprio), "default" if offered is None else csv(offered, "%04x"), csv(deflist, "%04x"),
        1 if ch.ext(EXT_EMS) is not None else 0, 1 if ems_required else 0, ENC.get(struct.unpack(">H", sh.rec_ver)[0], 0),
        ENC.get(struct.unpack(">H", sh.version)[0], 0), sh.random[24:].hex(), 1 if sh.random == HRR_RANDOM else 0,
        sh.suite, sh.compression[0] if sh.compression else 0, extbytes, ",".join(toks) or "-")


def client_observed(step_post, n, hrr=False):
    """post snapshot of the client after the ServerHello record + its negotiated values"""
    c = n[0]
    if step_post["err"] != 255: return "err %d" % step_post["err"]
    if hrr: return "retry"
    if c["ver"] & V13ANY: return "acc13 %d %04x" % (c["ver"], c["suite"])
    return "acc %d %04x %d" % (c["ver"], c["suite"], c["ems"])


# ------------------------------------------------------------------ (D)TLS <= 1.2 curves and ServerKeyExchange
CURVE_FLAG = {19: 1, 21: 2, 23: 4, 24: 8, 25: 16}            # compiled-in curves of the default configuration (checked against Gen below)
ALL_EC = 0x1f

def flag_set(flags):
    return [c for c, f in CURVE_FLAG.items() if (flags or ALL_EC) & f]

def subsets_flags():
    return list(range(1, ALL_EC + 1))


class Ske:
    """ECDHE ServerKeyExchange in a plaintext record"""
    def __init__(self, rec, tls12):
        self.rec_hdr = rec[:5]
        body = rec[5:]
        self.ok = body[:1] == b"\x0c"
        if not self.ok: return
        l = int.from_bytes(body[1:4], "big"); m = body[4:4 + l]; self.rest = body[4 + l:]
        self.curve_type = m[0]; self.curve = struct.unpack(">H", m[1:3])[0]
        pl = m[3]; self.point = m[4:4 + pl]; p = 4 + pl
        self.tls12 = tls12
        self.alg = None
        if tls12:
            self.alg = struct.unpack(">H", m[p:p + 2])[0]; p += 2
        sl = struct.unpack(">H", m[p:p + 2])[0]; self.sig = m[p + 2:p + 2 + sl]

    def record(self):
        m = bytes([self.curve_type]) + struct.pack(">H", self.curve) + bytes([len(self.point)]) + self.point
        if self.tls12: m += struct.pack(">H", self.alg)
        m += struct.pack(">H", len(self.sig)) + self.sig
        hs = b"\x0c" + len(m).to_bytes(3, "big") + m + self.rest
        return self.rec_hdr[:3] + struct.pack(">H", len(hs)) + hs


def chellog_case(ch, sprio, sdis, sreq, okids, ecflags, key_curve):
    g = ch.groups()
    return chello_case(ch, sprio, sdis, sreq, okids).replace("chello ", "chellog ", 1) + " %x %d %s" % (ecflags or ALL_EC, key_curve, "none" if g is None else csv(g))


def server_observed_g(n, ecs, types):
    base = server_observed(n)
    if not base.startswith("acc "): return base + (" g=-" if base.startswith("acc13") else "")
    su = int(base.split()[2], 16)
    return base + (" g=%d" % ecs if types.get(su) in (6, 7) else " g=-")


EC_RE = re.compile(r"ec:c=(\d+),([0-9a-f]+) s=(\d+),([0-9a-f]+)(?: cg13=(\S+) csa=(\S+) ckx=(\d)(\d))?")


# ------------------------------------------------------------------ independent spec oracle (ServerHello acceptance)
def sh_must_reject(ch, sh, ems_required):
    """reasons for which the property demands that this client refuses this ServerHello outright"""
    why = []
    if sh.random == HRR_RANDOM:
        return why                                 # HelloRetryRequest: fixes no parameter; the following ServerHello is judged
    offered = [s for s in ch.suites if s not in (SCSV, RENEG_SCSV)]
    if sh.suite not in offered:
        why.append("unoffered-suite")
    chsv = ch.sv_list()
    shsv = sh.sv_list()
    ver = shsv[0] if shsv and len(sh.ext(EXT_SV)) == 2 else struct.unpack(">H", sh.version)[0]
    if chsv is not None:
        if ver not in chsv: why.append("unoffered-version")
    elif ver > struct.unpack(">H", ch.version)[0] or ver not in ENC: why.append("unoffered-version")
    if chsv is not None and 0x0304 in chsv and ver != 0x0304 and sh.random[24:] in (SENT12, SENT11) and sh.random != HRR_RANDOM:
        why.append("sentinel")
    if ems_required and ver != 0x0304 and sh.ext(EXT_EMS) is None:
        why.append("ems-required")
    if ver != 0x0304 and sh.suite in TLS13_SUITES: why.append("tls13-suite-below-tls13")
    if ver == 0x0304 and sh.suite not in TLS13_SUITES: why.append("legacy-suite-in-tls13")
    return why


# ------------------------------------------------------------------ corpus (defect witnesses; always run first)
def corpus_cases():
    out = []
    p = os.path.join(vlib.VERIF, "corpus", "C07")
    if os.path.isdir(p):
        for f in sorted(os.listdir(p)):
            for l in open(os.path.join(p, f)):
                l = l.strip()
                if l and not l.startswith("#"):
                    out.append(l)
    return out


def cfg_fields(cfg):
    d = dict(x.split("=", 1) for x in cfg.split())
    return d


class Live:
    """runs (config, hello, ops) cases through h_neg and judges them"""
    def __init__(self, ck, ng, oracle_ok, deflists, types=None):
        self.ck, self.ng, self.ok, self.deflists, self.types = ck, ng, oracle_ok, deflists, types or {}
        self.chello, self.shello = [], []            # (case line, impl line)

    def key_of(self, cfg):
        return cfg_fields(cfg).get("key", "rsa")

    def offered_of(self, cfg):
        s = cfg_fields(cfg).get("suite")
        return [int(x, 16) for x in s.split(",")] if s else None

    def sdis_of(self, cfg):
        s = cfg_fields(cfg).get("sdis")
        return [int(x, 16) for x in s.split(",")] if s else []

    def judge_complete(self, tag, cfg, ops, n, ch, script):
        """(iii): after an in-transit change nobody may complete"""
        if n and (n[0]["done"] or n[1]["done"]):
            self.ck.spec_violation("mitm-complete:%s:%s" % (tag, ops[0].split("=")[0]),
                                   "handshake completed although the %s was changed in transit (%s)" % (tag, " ".join(ops)),
                                   {"harness": "h_neg", "script": script, "config": cfg, "ops": ops, "observed": n,
                                    "expected_by_spec": "no side reaches HANDSHAKE_COMPLETE"})
            return False
        return True

    def run_ch_rewrites(self, items):
        """items: (cfg, ops).  The ClientHello is rewritten in flight towards an honest server."""
        cfgs = sorted(set(c for c, _ in items))
        heads = dict(zip(cfgs, self.ng.heads(cfgs, "c2s")))
        scripts, meta = [], []
        for cfg, ops in items:
            rec, cv, _ = heads[cfg]
            if rec is None: continue
            try: h = rewrite(rec, ops)
            except Exception: continue
            new = h.record()
            if new == rec: continue
            scripts.append("new %s ; sethead c2s %s ; step c2s ; neg ; ec ; hs ; neg" % (cfg, new.hex())); meta.append((cfg, ops, h, cv))
        outs = self.ng.run(scripts)
        for sc, (cfg, ops, h, cv), o in zip(scripts, meta, outs):
            parts = o.split(" | ")
            n1 = parse_neg(parts[3]) if len(parts) > 3 else None
            e1 = EC_RE.search(parts[4]) if len(parts) > 4 else None
            n2 = parse_neg(parts[6]) if len(parts) > 6 else None
            self.ck.count("mitm_ch"); self.ck.cov["evaluations"] += 1
            self.judge_complete("ClientHello", cfg, ops, n2, h, sc)
            # server-side model correspondence for the fields the model abstracts
            osv = Hello(heads[cfg][0]).sv_list()
            sv_subset = h.sv_list() is None or osv is None or set(h.sv_list()) <= set(osv)    # else the client's other extensions (signature_algorithms) do not fit the version: key-fitness oracle no longer applies
            och = Hello(heads[cfg][0])
            ver_down = ENC.get(struct.unpack(">H", h.version)[0], 0) <= ENC.get(struct.unpack(">H", och.version)[0], 0)      # same reason for client_version raised above what the client speaks
            grp_ok = h.groups() is None or len(h.groups()) > 0
            if n1 and e1 and "cgrp" not in cfg and "sops" not in cfg and sv_subset and grp_ok and (ver_down or h.sv_list() is not None) and all(op.split("=")[0] in ("version", "suites", "addsuite", "dropsuite", "comp", "fliprandom", "sid") or op.startswith("delext=23") or op.startswith("setext=43") or op.startswith("setext=10") or op.startswith("delext=10") for op in ops):
                if not (n1[1]["ver"] & V13ANY) or n1[1]["err"] == 255:
                    sreq = cfg_fields(cfg).get("sems") == "1"
                    sec = int(cfg_fields(cfg).get("sec", "0"), 16)
                    self.chello.append((chellog_case(h, prio_list(cv[3]), self.sdis_of(cfg), 1 if sreq else 0, self.ok[self.key_of(cfg)], sec, 23 if self.key_of(cfg) == "ec" else 0),
                                        server_observed_g(n1, int(e1.group(3)), self.types), sc))
            # fallback SCSV oracle
            if n2 and SCSV in h.suites and h.sv_list() is None:
                legacy = ENC.get(struct.unpack(">H", h.version)[0], 0)
                higher = [v for v in prio_list(cv[3]) if v & TLS_ANY and v > legacy]
                if higher and n1 and n1[1]["err"] != 86 and not (n1[1]["ver"] & V13ANY):
                    self.ck.spec_violation("scsv-ignored", "ClientHello with TLS_FALLBACK_SCSV and client_version below the server's highest did not get inappropriate_fallback",
                                           {"harness": "h_neg", "script": sc, "observed": n1, "expected_by_spec": "server alert 86"})

    def run_sh_rewrites(self, items, corpus=False):
        """items: (cfg, ops).  The ServerHello is rewritten in flight (or by a malicious server)."""
        cfgs = sorted(set(c for c, _ in items))
        chs = dict(zip(cfgs, self.ng.heads(cfgs, "c2s")))
        shs = dict(zip(cfgs, self.ng.heads(cfgs, "s2c")))
        scripts, meta = [], []
        for cfg, ops in items:
            rec, cv, _ = shs[cfg]
            if rec is None or rec[0] != 22 or rec[5] != 2: continue
            try: h = rewrite(rec, ops)
            except Exception: continue
            new = h.record()
            if new == rec and ops: continue
            scripts.append("new %s ; step c2s ; sethead s2c %s ; step s2c ; neg ; hs ; neg" % (cfg, new.hex())); meta.append((cfg, ops, h, cv))
        outs = self.ng.run(scripts)
        for sc, (cfg, ops, h, cv), o in zip(scripts, meta, outs):
            parts = o.split(" | ")
            st = sesslib.parse_steps(parts[3]) if len(parts) > 3 else []
            n1 = parse_neg(parts[4]) if len(parts) > 4 else None
            n2 = parse_neg(parts[6]) if len(parts) > 6 else None
            if not st or not n1: continue
            self.ck.count("mitm_sh" if ops else "honest_sh"); self.ck.cov["evaluations"] += 1
            ch = Hello(chs[cfg][0])
            ems_req = cfg_fields(cfg).get("cems") == "1"
            post = st[0].post
            accepted = post["err"] == 255 and not post["E"]
            if ops:
                self.judge_complete("ServerHello", cfg, ops, n2, h, sc)
                why = sh_must_reject(ch, h, ems_req)
                if why and accepted:
                    self.ck.spec_violation("sh-accept:" + why[0],
                                           "client accepted a ServerHello it must refuse (%s): %s" % (", ".join(why), " ".join(ops)),
                                           {"harness": "h_neg", "script": sc, "config": cfg, "ops": ops, "observed": "client hs=%d err=%d after the ServerHello" % (post["hs"], post["err"]),
                                            "expected_by_spec": "fatal alert on the ServerHello"})
                    self.ck.count("sh_accept_violation")
            # model correspondence
            ks_err = 255
            touched_ks = any(op.startswith("flipext=51") or op.startswith("setext=51") for op in ops)
            if touched_ks: continue
            is_hrr = h.random == HRR_RANDOM
            if is_hrr and ops: continue           # a rewritten HelloRetryRequest: outside the model (ShRetry only says "new ClientHello")
            case = shello_case(h, ch, prio_list(cv[1]), self.offered_of(cfg), self.deflists[self.key_of(cfg)], ems_req, ks_err)
            if case is not None:
                self.shello.append((case, client_observed(post, n1, is_hrr), sc))


def ske_case(e, active, ske, sig_ok, point_ok=True):
    """abstract `ske` case for the model from the client's configuration (h_neg `ec` output) and the ServerKeyExchange"""
    cf, cg13, csa, rsa, dsa = e.group(2), e.group(5), e.group(6), e.group(7), e.group(8)
    return "ske %d %s %s %s %d %s %s %d %d %s %d %d" % (0, cg13, cf, csa, active | NEG, rsa, dsa, ske.curve_type, ske.curve,
                                                         "-" if ske.alg is None else "%04x" % ske.alg, 1 if point_ok else 0, 1 if sig_ok else 0)


def run_ske(live, cfgs, r, corpus_items=()):
    """(iii) for the ServerKeyExchange.  items: (cfg, ch_ops, ske_ops):  the ClientHello may be rewritten towards the honest
    server (that is how a hostile server's choice is produced with an honest signature), then single fields of the
    ServerKeyExchange are rewritten in flight"""
    ck, ng = live.ck, live.ng
    base = [(c, []) for c in cfgs] + [(c, o) for c, o in corpus_items]
    chh = dict(zip(cfgs + [c for c, _ in corpus_items], ng.heads(cfgs + [c for c, _ in corpus_items], "c2s")))
    # pass 1: obtain the genuine ServerKeyExchange of every (cfg, ch rewrite)
    pre, meta1 = [], []
    for cfg, chops in base:
        rec = chh[cfg][0]
        if rec is None: continue
        try: h = rewrite(rec, chops)
        except Exception: continue
        pre.append("new %s ; sethead c2s %s ; step c2s ; step s2c 2 ; gethead s2c ; ec" % (cfg, h.record().hex())); meta1.append((cfg, chops, Hello(rec), h))
    out1 = ng.run(pre)
    scripts, meta = [], []
    for (cfg, chops, ch0, h), o, p1 in zip(meta1, out1, pre):
        m = re.search(r"head:([0-9a-f]+)", o); e = EC_RE.search(o)
        if not m or not e: continue
        rec = bytes.fromhex(m.group(1)); f = cfg_fields(cfg)
        tls12 = "cv=2" not in cfg and "sv=2 " not in cfg + " "
        k = Ske(rec, tls12)
        if not k.ok: continue
        muts = [("none", lambda k: None)]
        if not chops:
            for cid in (19, 21, 23, 24, 25, 29, 26, 0, 256):
                muts.append(("curve=%d" % cid, lambda k, cid=cid: setattr(k, "curve", cid)))
            muts += [("curve_type=1", lambda k: setattr(k, "curve_type", 1)), ("curve_type=2", lambda k: setattr(k, "curve_type", 2)),
                     ("point", lambda k: setattr(k, "point", k.point[:-1] + bytes([k.point[-1] ^ 1]))),
                     ("sig", lambda k: setattr(k, "sig", k.sig[:-1] + bytes([k.sig[-1] ^ 1])))]
            if tls12:
                for a in (0x0201, 0x0401, 0x0501, 0x0601, 0x0403, 0x0503, 0x0603, 0x0804, 0x0101, 0x0000, 0x0402):
                    muts.append(("alg=%04x" % a, lambda k, a=a: setattr(k, "alg", a)))
        for name, fn in muts:
            k2 = Ske(rec, tls12); fn(k2); new = k2.record()
            if name != "none" and new == rec: continue
            scripts.append("new %s ; sethead c2s %s ; step c2s ; step s2c 2 ; sethead s2c %s ; step s2c ; ec ; hs ; neg" % (cfg, h.record().hex(), new.hex()))
            meta.append((cfg, chops, ch0, h, k, k2, name))
    outs = ng.run(scripts)
    cases = []
    for sc, (cfg, chops, ch0, h, k, k2, name), o in zip(scripts, meta, outs):
        parts = o.split(" | ")
        if len(parts) < 9: continue
        st = sesslib.parse_steps(parts[5]); e = EC_RE.search(parts[6]); n2 = parse_neg(parts[8])
        if not st or not e or not n2: continue
        post = st[0].post; f = cfg_fields(cfg)
        ck.count("ske:" + ("honest" if name == "none" and not chops else "chrewrite" if name == "none" else name.split("=")[0])); ck.cov["evaluations"] += 1
        accepted = post["err"] == 255 and not post["E"]
        sec = int(f.get("sec", "0"), 16)
        # what the honest server put into its ServerKeyExchange
        if name == "none":
            if k.curve not in flag_set(sec) or (h.groups() is not None and k.curve not in h.groups()):
                ck.spec_violation("ske-curve-not-enabled", "the server's ServerKeyExchange names a curve outside (received supported_groups) x (its session ecFlags)",
                                  {"harness": "h_neg", "script": sc, "config": cfg, "ops": chops, "observed": "curve %d" % k.curve,
                                   "expected_by_spec": sorted(set(flag_set(sec)) & set(h.groups() if h.groups() is not None else flag_set(sec)))})
            if k.alg is not None and h.sigalgs() is not None and k.alg not in h.sigalgs():
                ck.spec_violation("ske-sigalg-not-offered", "the server signs ServerKeyExchange with an algorithm missing from the received signature_algorithms",
                                  {"harness": "h_neg", "script": sc, "config": cfg, "observed": "%04x" % k.alg, "expected_by_spec": ["%04x" % a for a in h.sigalgs()]})
        # the client's verdict on what it received, against what ITS hello had offered
        if accepted and (k2.curve not in (ch0.groups() or [])):
            ck.spec_violation("ske-accept:unoffered-curve", "client accepted a ServerKeyExchange on curve %d, which its ClientHello did not list %s" % (k2.curve, ch0.groups()),
                              {"harness": "h_neg", "script": sc, "config": cfg, "ops": chops + [name], "observed": "client hs=%d err=%d after ServerKeyExchange" % (post["hs"], post["err"]),
                               "expected_by_spec": "illegal_parameter"})
        if accepted and k2.alg is not None and k2.alg not in (ch0.sigalgs() or []):
            ck.spec_violation("ske-accept:unoffered-sigalg", "client accepted a ServerKeyExchange signed with an algorithm it did not list",
                              {"harness": "h_neg", "script": sc, "config": cfg, "ops": chops + [name], "observed": "client hs=%d err=%d" % (post["hs"], post["err"])})
        if name != "none" or chops:
            live.judge_complete("ServerKeyExchange" if name != "none" else "ClientHello", cfg, [name] if name != "none" else chops, n2, None, sc)
        active = 4 if not k.tls12 else 16
        sig_ok = name == "none"
        t13 = 1 if "cv=4" in cfg else 0
        point_ok = not (name.startswith("curve=") or name == "point")      # the point belongs to the original curve
        case = ske_case(e, active, k2, sig_ok, point_ok).replace("ske 0 ", "ske %d " % t13, 1)
        cases.append((case, "ok" if accepted else "err %d" % post["err"], sc))
    return cases


# ------------------------------------------------------------------ generators
def sv_cases(thorough):
    """exhaustive direct-call cases for the version functions"""
    tls = ordered_sublists([T11, T12, T13])
    legacy_vals = [0, 1, 2, T11, T12, T13, D10, D12, 1024]
    cases = []
    for sp in tls:
        for lg in legacy_vals:
            for g13 in (0, 1):
                cases.append("sv %s %d 0 - %d" % (csv(sp), lg, g13))
                for pp in tls:
                    cases.append("sv %s %d 1 %s %d" % (csv(sp), lg, csv(pp), g13))
                for pp in ([], [2], [1024], [1024, T13], [T12, 1024], [2, T11], [D12], [T12, T12], [T11, T12, T11]):
                    cases.append("sv %s %d 1 %s %d" % (csv(sp), lg, csv(pp), g13))
    # DTLS servers as the API creates them, every client_version, a few supported_versions lists
    for sp in ([D12, D10], [D10], [D10, D12], [D12]):
        for lg in legacy_vals:
            cases.append("sv %s %d 0 - 0" % (csv(sp), lg))
            for pp in ([D12, D10], [D10], [T12], [T13, T12]):
                cases.append("sv %s %d 1 %s 1" % (csv(sp), lg, csv(pp)))
    # mixed five-version servers, legacy path: every ordered sub-list
    five = ordered_sublists([T11, T12, T13, D10, D12])
    for sp in five:
        for lg in ([T11, T12, D10, D12, T13, 2] if thorough else [T12, D12, 2]):
            cases.append("sv %s %d 0 - 0" % (csv(sp), lg))
    # draft versions
    for sp in ([1024, T12], [T13, 1024, T12], [T12, 1024], [512, 1024]):
        for pp in ([1024, T12], [T12, 1024], [T13, 1024], [1024], [512]):
            for g13 in (0, 1):
                cases.append("sv %s %d 1 %s %d" % (csv(sp), T12, csv(pp), g13))
    return cases


def misc_direct_cases(table, r, n_ccs):
    cases = []
    supps = [0, T11, T12, T13, T11 | T12, T12 | T13, T11 | T12 | T13, T11 | T13, D10, D10 | D12, 1024, 1024 | T12]
    for s in supps:
        for v in [0, 1, 2, T11, T12, T13, D10, D12, 1024, 64]:
            cases.append("cv %d %d" % (s, v))
        for tail in [SENT12, SENT11, SENT12[:7] + b"\x02", b"\x45" + SENT12[1:], bytes(8), SENT11[:6] + b"\x00\x00", bytes([0x44, 0x4f, 0x57, 0x4e, 0x47, 0x52, 0x44, 0xff])]:
            cases.append("dg %d %s" % (s, tail.hex()))
    # intersection select: all lists over {1,2,3} up to length 3 (with repeats) x forbidden subsets
    alpha = [1, 2, 3]
    lists = [[]] + [list(p) for k in (1, 2, 3) for p in itertools.product(alpha, repeat=k)]
    for a in lists:
        for b in lists:
            for f in ([], [1], [2, 3]):
                cases.append("ips %s %s %s" % (csv(a), csv(b), csv(f)))
    groups = [23, 24, 25, 29]
    gl = ordered_sublists(groups)
    for a in gl[:40]:
        for b in [[]] + gl[:24]:
            cases.append("grp %s %s" % (csv(a), csv(b)))
    for e in [0x0300, 0x0301, 0x0302, 0x0303, 0x0304, 0x0305, 0x7f16, 0x7f17, 0x7f18, 0x7f19, 0x7f1a, 0x7f1c, 0xfeff, 0xfefd, 0xfefe, 0x0000, 0xffff, 0x0200]:
        cases.append("enc %04x" % e)
    ids = [t[0] for t in table] + [0, 0x00ff, 0x5600, 0x1234]
    acts = [0, T12, T11 | NEG, T12 | NEG, T13 | NEG, D10 | NEG, D12 | NEG, 1024 | NEG]
    for i in ids:
        for srv in (0, 1):
            for s in [0, T11, T12, T11 | T12, T13, T12 | T13, T11 | T12 | T13, D10, D10 | D12]:
                for a in acts:
                    cases.append("gcs %d %d %d - %04x" % (srv, s, a, i))
                cases.append("gcs %d %d %d %04x %04x" % (srv, s, T12 | NEG, i, i))
                cases.append("gcs %d %d %d %04x,%04x %04x" % (srv, s, T12 | NEG, 0x1234, i ^ 1, i))
    return cases


def curve_sig_direct_cases(r, thorough):
    """tlsParseSupportedGroups over ALL pairs of non-empty subsets of the compiled-in curves (+ orders, duplicates, foreign ids),
    tlsParseSignatureAlgorithms, chooseSigAlgInt over its whole small domain"""
    cases = []
    order = [23, 24, 25, 21, 19]
    for sf in subsets_flags():
        for cf in subsets_flags():
            cases.append("sg %x %s" % (sf, csv([c for c in order if CURVE_FLAG[c] & cf])))
        for extra in ([29, 23, 24], [24, 23], [25, 24, 23, 21, 19], [19, 19, 24], [26, 27, 255, 23], [99, 0, 24], [29], [0x100, 25]):
            cases.append("sg %x %s" % (sf, csv(extra)))
    for sf in (0x20000, 0x20004, 0x800004, 0x10008):
        for l in ([26, 23], [23, 26], [255, 24], [24]):
            cases.append("sg %x %s" % (sf, csv(l)))
    algs = [0x0201, 0x0203, 0x0401, 0x0403, 0x0501, 0x0503, 0x0601, 0x0603, 0x0804, 0x0805, 0x0806, 0x0402, 0x0807, 0x0101, 0x0301, 0x0000]
    for _ in range(600 if thorough else 200):
        sup = r.sample(algs, r.choice([1, 2, 4, 8])); lst = [r.choice(algs) for _ in range(r.choice([1, 2, 3, 6, 10]))]
        cases.append("psa %s %s" % (csv(sup, "%04x"), csv(lst, "%04x")))
    oids = [1670, 648, 1673, 1679, 1680, 1681, 520, 524, 525, 526, 1678, 7]
    bits = [2, 4, 16, 32, 64, 1024, 4096, 8192, 16384]
    masks = set([0, 0xffff, 16, 64, 4096, 16384, 1, 256])
    if thorough:
        for k in range(512): masks.add(sum(b for i, b in enumerate(bits) if k >> i & 1))
    else:
        for b in bits: masks.add(b); masks.add(0x7476 & ~b)
        while len(masks) < 90: masks.add(sum(b for b in bits if r.random() < 0.5))
    for o in oids:
        for ka in (645, 518, 9):
            for ks in (32, 64, 74, 75, 256):
                for m in sorted(masks):
                    cases.append("csa %d %d %d %d" % (o, ka, ks, m))
    return cases


def ccs_cases(table, ok, r, n):
    ids = [t[0] for t in table]
    cases = []
    for _ in range(n):
        key = r.choice(["rsa", "ec"])
        act = r.choice([T11, T12, T12, T13])
        supp = act | r.choice([0, T11, T12, T13, T11 | T12 | T13])
        k = r.choice([1, 2, 3, 4, 6, 10])
        lst = [r.choice(ids + [0x00ff, 0x5600, 0x1234, 0]) for _ in range(k)]
        dis = r.sample(lst, r.choice([0, 0, 1, 2])) if len(lst) > 1 else []
        dis = [d for d in dis if d]
        cases.append("ccs %s %d %d %s %s %s" % (key, supp, act | NEG, csv(dis, "%04x"), csv(lst, "%04x"), csv(ok[key], "%04x")))
    return cases


def history_cases(table, ok, r, n):
    """enable/disable HISTORIES through matrixSslSetCipherSuiteEnabledStatus: re-enable in the middle (holes), duplicates,
    enable of never-disabled, unknown idents, overflow of the 32 slots, global switches"""
    ids = [t[0] for t in table]
    legacy = [t[0] for t in table if t[1] != 10]
    fixed = ["d:c02f,d:c030,e:c02f", "d:c02f,d:c030,e:c02f,d:c030,e:c030", "d:c02f,d:c030,d:c027,e:c030,e:c02f", "e:c02f", "d:c02f,d:c02f,e:c02f",
             "d:1234,d:c02f", "d:0000,d:c02f", "D:c02f,d:c030,E:c02f", "D:c02f,D:c02f,E:c02f", "D:c030,d:c030,e:c030", "d:c030,D:c030,E:c030",
             "d:c02f,e:c02f,d:c030,d:c027,e:c030,d:c02f"]
    cases = []
    def add(key, act, ops, lst):
        supp = act | T11 | T12 | T13
        cases.append("dh %s %d %d %s %s %s" % (key, supp, act | NEG, ops, csv(lst, "%04x"), csv(ok[key], "%04x")))
    for ops in fixed:
        for key in ("rsa", "ec"):
            add(key, T12, ops, [0xc030, 0xc02f, 0xc027, 0xc02c, 0xc02b, 0x002f])
    # overflow: more than SSL_MAX_DISABLED_CIPHERS distinct suites, then holes, then the late ones again
    allids = ids[:]
    for k in (31, 32, 33, 36):
        first = allids[:k]
        ops = ["d:%04x" % i for i in first]
        add("rsa", T12, ",".join(ops), first[-3:] + first[:2] + [0xc030])
        ops2 = ops + ["e:%04x" % first[0], "e:%04x" % first[5], "d:%04x" % allids[-1], "d:%04x" % allids[-2], "e:%04x" % first[1], "d:%04x" % first[-1]]
        add("rsa", T12, ",".join(ops2), [first[0], first[1], first[5], allids[-1], allids[-2], first[-1], first[10]])
    while len(cases) < n:
        key = r.choice(["rsa", "ec"]); act = r.choice([T11, T12, T12, T13])
        pool = r.sample(ids, r.choice([2, 3, 4, 6])) + ([0x1234] if r.random() < 0.1 else [])
        ops = []
        for _ in range(r.choice([2, 3, 4, 6, 8, 12])):
            k = r.choice("ddddeeeDE" if r.random() < 0.3 else "dddee")
            ops.append("%s:%04x" % (k, r.choice(pool)))
        lst = pool[:] + r.sample(ids, 2); r.shuffle(lst)
        add(key, act, ",".join(ops), lst)
    return cases


def history_disabled(ops, rcs):
    """spec: per-session / globally currently disabled idents = last SUCCESSFUL operation on the ident was a disable"""
    sess, glob = {}, {}
    for op, rc in zip(ops, rcs):
        if rc != "0": continue
        k, i = op.split(":"); i = int(i, 16)
        (glob if k in "DE" else sess)[i] = k in "dD"
    return set(i for i, v in sess.items() if v), set(i for i, v in glob.items() if v)


LEGACY_POOL = [0xc02f, 0xc030, 0xc027, 0xc028, 0xc013, 0xc014, 0x009c, 0x009d, 0x003c, 0x003d, 0x002f, 0x0035, 0xc02b, 0xc02c, 0xc023, 0xc009, 0xc00a, 0xcca8, 0xcca9, 0x000a]
T13_POOL = [0x1301, 0x1302, 0x1303]

def gen_config(r, table_ids):
    cv = r.choice(ordered_sublists([2, 3, 4]))
    sv = r.choice(ordered_sublists([2, 3, 4]))
    if r.random() < 0.5: cv = sorted(cv, reverse=True)
    if r.random() < 0.5: sv = sorted(sv, reverse=True)
    key = r.choice(["rsa", "ec"])
    cfg = "cv=%s sv=%s key=%s" % (",".join(map(str, cv)), ",".join(map(str, sv)), key)
    if r.random() < 0.6:
        pool = [s for s in LEGACY_POOL if s in table_ids]
        k = r.choice([1, 1, 2, 3, 5])
        suites = r.sample(pool, k)
        if 4 in cv and r.random() < 0.7: suites += r.sample([s for s in T13_POOL if s in table_ids], r.choice([1, 2]))
        r.shuffle(suites)
        cfg += " suite=" + ",".join("%04x" % s for s in suites)
    cems = r.choice([0, 0, 1, -1]); sems = r.choice([0, 0, 1])
    if cems: cfg += " cems=%d" % cems
    if sems: cfg += " sems=%d" % sems
    if r.random() < 0.25:
        cfg += " sdis=" + ",".join("%04x" % s for s in r.sample([s for s in LEGACY_POOL + T13_POOL if s in table_ids], r.choice([1, 2, 4])))
    if cv == [4] and r.random() < 0.5:          # (<= TLS 1.2 curve negotiation is outside the model: only TLS 1.3-only clients get a group list)
        g = r.sample([0x17, 0x18, 0x19, 0x1d], r.choice([1, 2, 3])); cfg += " cgrp=" + ",".join("%x" % x for x in g)
    if 4 in sv and r.random() < 0.4:
        g = r.sample([0x17, 0x18, 0x19, 0x1d], r.choice([1, 2, 3])); cfg += " sgrp=" + ",".join("%x" % x for x in g)
    if r.random() < 0.15 and 4 not in cv: cfg += " scsv=1"
    cfg += " seed=%d" % r.randrange(1, 1 << 30)
    return cfg


def curve_cfgs(ck, r):
    """per-session ecFlags on both sides: ALL pairs of non-empty curve subsets (RSA key, TLS 1.2) - disjoint ones included;
    TLS 1.1, ECDSA key (sets containing the key's curve P-256), TLS 1.3-capable clients: sampled in quick, exhaustive in thorough"""
    out = []
    fl = subsets_flags()
    for cf in fl:
        for sf in fl:
            out.append("cv=3 sv=3 suite=c02f cec=%x sec=%x" % (cf, sf))
    more = []
    for cf in fl:
        for sf in fl:
            more.append("cv=2 sv=2 suite=c013 cec=%x sec=%x" % (cf, sf))
            more.append("cv=3 sv=3 suite=c030,009d cec=%x sec=%x" % (cf, sf))
            more.append("cv=4,3 sv=3 sec=%x" % sf)
            if cf & 4 and sf & 4:
                more.append("cv=3 sv=3 key=ec suite=c02b cec=%x sec=%x" % (cf, sf))
                more.append("cv=2 sv=2 key=ec suite=c009 cec=%x sec=%x" % (cf, sf))
                more.append("cv=3 sv=3 key=ec suite=c02d,c02b cec=%x sec=%x" % (cf, sf))
    more = sorted(set(more))
    if ck.tier != "thorough":
        more = r.sample(more, 160)
    return out + more


def ch_ops(ch, r):
    ops = [["version=0301"], ["version=0302"], ["version=0303"], ["version=0304"], ["version=0300"], ["version=0305"],
           ["fliprandom=0"], ["fliprandom=31"], ["sid=" + "ab" * 32], ["sid=" + "cd" * 5],
           ["comp=0100"], ["comp=0001"], ["addsuite=5600"], ["addsuite=1234"], ["addsuite=002f"], ["addsuite=1301"],
           ["suites=" + ",".join("%04x" % s for s in reversed(ch.suites))]]
    real = [s for s in ch.suites if s not in (SCSV, RENEG_SCSV)]
    if len(real) > 1:
        ops.append(["dropsuite=%04x" % real[0]]); ops.append(["suites=%04x" % real[-1]])
    for s in (0x002f, 0xc02f, 0xc02b, 0x1301, 0x1303):
        ops.append(["suites=%04x" % s])
    for (t, d) in (ch.exts or []):
        ops.append(["delext=%d" % t])
        if len(d) > 0:
            ops.append(["flipext=%d:%d" % (t, len(d) - 1)]); ops.append(["flipext=%d:0" % t])
        if t == EXT_SV:
            vs = ch.sv_list()
            if len(vs) > 1:
                ops.append(["setext=43:%02x%s" % (2 * (len(vs) - 1), "".join("%04x" % v for v in vs[1:]))])      # drop the preferred version
                ops.append(["setext=43:%02x%s" % (2 * len(vs), "".join("%04x" % v for v in reversed(vs)))])
            ops.append(["setext=43:020302"]); ops.append(["setext=43:020303"])
    ops.append(["addext=4660:00"]); ops.append(["noext"])
    if ch.ext(EXT_EMS) is None: ops.append(["addext=23:"])
    return ops


def sh_ops(sh, r, ch):
    ops = [["version=0301"], ["version=0302"], ["version=0303"], ["version=0304"], ["version=0305"],
           ["fliprandom=0"], ["fliprandom=20"], ["tail=sentinel12"], ["tail=sentinel11"],
           ["tail=sentinel12", "noext"], ["tail=sentinel11", "noext"], ["tail=sentinel12", "emptyext"], ["tail=sentinel12", "delext=23"],
           ["sid=" + "ab" * 32], ["sid=-"], ["comp=01"],
           ["noext"], ["emptyext"], ["addext=4660:00"]]
    for s in (0x002f, 0x0035, 0xc02f, 0xc030, 0xc02b, 0x1301, 0x1302, 0x1303, 0x0000, 0x00ff, 0x1234, 0x009c):
        ops.append(["suite=%04x" % s])
    for s in ch.suites[:4]:
        ops.append(["suite=%04x" % s])
    for (t, d) in (sh.exts or []):
        ops.append(["delext=%d" % t])
        if len(d) > 0:
            ops.append(["flipext=%d:%d" % (t, len(d) - 1)]); ops.append(["flipext=%d:0" % t])
        if t == EXT_SV:
            ops += [["setext=43:0303"], ["setext=43:0302"], ["setext=43:7f1c"], ["setext=43:0303", "tail=sentinel12"]]
    if sh.ext(EXT_EMS) is None: ops.append(["addext=23:"])
    else: ops.append(["setext=23:00"])
    if sh.ext(EXT_SV) is None: ops += [["addext=43:0304"], ["addext=43:0303"]]
    return ops


# ------------------------------------------------------------------ the check
def run(ck):
    ck.trusted += ["Coq 8.16.1 kernel (coqc; vm_compute in table lemmas, the 4096-set sweep of psVerGetHighestTls, and Examples)",
                   "tools/srcgen/consts_neg.c translator (version identifiers, psVerFromEncoding table, forbidden-version arrays, sentinels, "
                   "cipher suite table read out of the built library)",
                   "extraction (ExtrOcamlBasic only) + ocaml/drv_c07.ml + harness/h_neg.c (+ sess.h) correspondence",
                   "modelled, not verified: hsNegotiateVersion.c, tls13IntersectionPrioritySelect/tls13NegotiateGroup, sslGetCipherSpec, chooseCS, "
                   "the version/suite/compression/extension part of parseClientHello, parseServerHello, tls13ParseServerHello(+Extensions) are "
                   "hand-written Gallina (coq/Neg/NegModel.v) compared with the library on every run; key-material fitness "
                   "(haveKeyMaterial/haveCorrectKeyAlg/validateKeyForExtensions) and tls13ParseServerKeyShare enter as oracles",
                   "(D)TLS <= 1.2 group / signature algorithm: tlsParseSupportedGroups, the ECDHE curve decision of parseClientHello, parseServerKeyExchange's "
                   "curve checks, tlsVerify's algorithm checks, tlsParseSignatureAlgorithms, chooseSigAlgInt and parseCertificateVerify's algorithm test are "
                   "modelled likewise; psEccX963ImportKey and psVerifySig enter as oracles",
                   "props/neglib.py hello parser/re-encoder, ServerKeyExchange re-encoder in props/C07.py (man-in-the-middle)"]
    ck.assumptions += ["supportedVersions is the OR of supportedVersionsPriority[] and holds version identifiers only (wf_vcfg; established by addVersion)",
                       "hello version fields are decoded by psVerFromEncoding (decoded/sh_decoded/ch_decoded)",
                       "Finished/transcript integrity (that a tampered hello cannot complete) is exercised by the man-in-the-middle runs, not proved here (crypto: C11/C12)",
                       "no SNI / pubkey callback / HTTP2 / PSK / session resumption in the modelled suite choice",
                       "CertificateVerify (client authentication) algorithm check is proved on the model and tied by tlsParseSignatureAlgorithms direct calls; no live client-auth sessions",
                       "a hostile server's ServerKeyExchange with a VALID signature is produced by rewriting the ClientHello towards the honest server (its choice then contradicts what the client really offered)"]
    ck.build_repo()
    ck.regen([("consts.sh",)])
    ck.coq_properties()
    drv = ck.ocaml_driver("drv_c07", extract_vo="Extract/Extract_C07.vo", gen_ml=["m_c07"])
    h = ck.cc("h_neg.c", wraps=WRAPS)
    if drv is None:
        return
    thorough = ck.tier == "thorough"
    r = ck.rng("gen")
    table = gen_table()
    table_ids = [t[0] for t in table]
    ng = Neg(ck, h)

    # ---------------- (i) direct calls: exhaustive version negotiation + other negotiation functions
    svc = sv_cases(thorough)
    rc, impl, _ = ck.run_lines(h, svc); rc2, model, _ = ck.run_lines(drv, svc)
    ck.correspond("version negotiation: checkClientHelloVersion/checkSupportedVersions/tlsServerNegotiateVersion vs model (exhaustive)", svc, impl, model,
                  nontrivial=lambda c, o: "neg=0" in o)
    nspec = 0
    for c, o in zip(svc, impl):
        t = c.split(); srv = [int(x) for x in t[1].split(",")]; legacy = int(t[2]); has_sv = t[3] == "1"
        peer = None if not has_sv else ([] if t[4] == "-" else [int(x) for x in t[4].split(",")])
        m = re.search(r"neg=(-?\d+):(\d+):(\d+)", o)
        if not m: continue
        ok, v = m.group(1) == "0", int(m.group(2))
        common, best = spec_version(srv, legacy, peer)
        ck.count("sv_ok" if ok else "sv_fail"); nspec += 1
        if ok and v not in common:
            ck.spec_violation("version-not-common", "server negotiated a version outside (server enabled) x (client offered)",
                              {"harness": "h_neg", "case": c, "observed": o, "expected_by_spec": sorted(common)})
        elif ok and best is not None and v != best and not (int(t[5]) == 0 and best & V13ANY):
            ck.spec_violation("version-not-highest", "default priorities but the negotiated version is not the highest common one",
                              {"harness": "h_neg", "case": c, "observed": o, "expected_by_spec": best})
    ck.cov["exhaustive"] = True
    ck.cov["exhaustive_part"] = "version negotiation (server side): every ordered sub-list of {TLS1.1,1.2,1.3} on both sides x 9 client_version values x with/without supported_versions x gotTls13Ciphersuite; DTLS servers; all ordered sub-lists of the five versions on the legacy path"
    ck.cov["spec_oracle_cases"] = nspec

    # key-material oracle: which suites each identity can serve at a reference version (singleton ClientHello lists)
    ok = {}
    for key in ("rsa", "ec"):
        tq = table + [(0, 0, 0)]                # the NULL suite (terminator entry) is "fit" too: chooseCS returns it, the caller refuses it
        q = ["ccs %s %d %d - %04x" % (key, T11 | T12 | T13, ((T13 if t[1] == 10 else T12) | NEG), t[0]) for t in tq]
        out = ng.run(q)
        ok[key] = [t[0] for t, o in zip(tq, out) if o.startswith("ccs=0")]
    misc = misc_direct_cases(table, r, 0) + ccs_cases(table, ok, r, ck.budget(1500, 20000))
    rc, impl, _ = ck.run_lines(h, [" ".join(c.split()[:6]) if c.startswith("ccs ") else c for c in misc]); rc2, model, _ = ck.run_lines(drv, misc)
    ck.correspond("checkServerHelloVersion, performTls13DowngradeCheck, tls13IntersectionPrioritySelect, tls13NegotiateGroup, psVerFromEncoding, sslGetCipherSpec, chooseCipherSuite vs model",
                  misc, impl, model, nontrivial=lambda c, o: not o.endswith("=0") and "-1" not in o)
    for c, o in zip(misc, impl):
        ck.count(c.split()[0])
        if c.startswith("dg "):
            t = c.split(); supp = int(t[1]); tail = bytes.fromhex(t[2])
            if supp & T13 and tail in (SENT12, SENT11) and o == "dg=0:255":
                ck.spec_violation("sentinel-ignored", "performTls13DowngradeCheck accepts a downgrade sentinel although TLS 1.3 is enabled",
                                  {"harness": "h_neg", "case": c, "observed": o, "expected_by_spec": "error"})
        if c.startswith("ips "):
            t = c.split(); a, b, f = [([] if x == "-" else [int(y) for y in x.split(",")]) for x in t[1:4]]
            m = re.match(r"ips=(-?\d+):(\d+)", o)
            if m and m.group(1) == "0" and (int(m.group(2)) not in a or int(m.group(2)) not in b or int(m.group(2)) in f):
                ck.spec_violation("select-outside-intersection", "tls13IntersectionPrioritySelect returned an element outside a x b minus f",
                                  {"harness": "h_neg", "case": c, "observed": o})

    # (D)TLS <= 1.2 curve and signature-algorithm functions: exhaustive over all pairs of curve subsets
    gen_curves = dict((int(a), int(b)) for a, b in re.findall(r"\((\d+), (\d+)\)", re.search(r"c_curve_flags[^\n]*", open(os.path.join(vlib.COQ, "Gen", "ConstsNeg.v")).read()).group(0)))
    comp_ids = [int(x) for x in re.search(r"c_ecc_curve_ids : list N := \[([^\]]*)\]", open(os.path.join(vlib.COQ, "Gen", "ConstsNeg.v")).read()).group(1).split(";")]
    if sorted(comp_ids) != sorted(CURVE_FLAG) or any(gen_curves.get(c) != f for c, f in CURVE_FLAG.items()):
        ck.obligation("curve-table-matches-generator", False, detail="compiled-in curves changed: %s" % comp_ids)
    gc = curve_sig_direct_cases(r, thorough)
    rc, impl, _ = ck.run_lines(h, gc); rc2, model, _ = ck.run_lines(drv, gc)
    ck.correspond("tlsParseSupportedGroups (all pairs of curve subsets), tlsParseSignatureAlgorithms, chooseSigAlgInt vs model (exhaustive for curves)", gc, impl, model,
                  nontrivial=lambda c, o: not o.endswith(":0") and not o.endswith("=U"))
    for c, o in zip(gc, impl):
        t = c.split(); ck.count(t[0])
        if t[0] == "sg":
            m = re.match(r"sg=(-?\d+):([0-9a-f]+):(\d+)", o)
            if not m or m.group(1) != "0": continue
            cfgf = int(t[1], 16); lst = [int(x) for x in t[2].split(",")]; cid = int(m.group(3))
            common = [x for x in lst if gen_curves.get(x, 0) & cfgf]
            if (cid and cid not in common) or (not cid and common) or (cid and cid != common[0]):
                ck.spec_violation("curve-not-common", "tlsParseSupportedGroups picks a curve outside (client list) x (session ecFlags), or misses a common one",
                                  {"harness": "h_neg", "case": c, "observed": o, "expected_by_spec": common[:1]})
        elif t[0] == "csa" and o != "csa=U":
            a = int(o[4:]); cert, mask = int(t[1]), int(t[4])
            mk = {648: 2, 1673: 4, 1679: 16, 1680: 32, 1681: 64, 520: 1024, 524: 4096, 525: 8192, 526: 16384}
            if not (mk.get(a, 0) & mask) and a != cert:
                ck.spec_violation("sigalg-not-in-peer-list", "chooseSigAlgInt returns an algorithm the peer did not list (and not the certificate's own)",
                                  {"harness": "h_neg", "case": c, "observed": o})
    ck.cov["exhaustive_part"] += "; tlsParseSupportedGroups: all 31x31 pairs of non-empty subsets of the compiled-in curves"

    # enable/disable histories through the public API (slot reuse, holes, duplicates, overflow, global switches)
    hc = [l.split(" :: ")[1] for l in corpus_cases() if l.startswith("dh :: ")]
    hc = ["%s %s" % (c, csv(ok[c.split()[1]], "%04x")) for c in hc] + history_cases(table, ok, r, ck.budget(400, 6000))
    rc, impl, _ = ck.run_lines(h, [" ".join(c.split()[:6]) for c in hc]); rc2, model, _ = ck.run_lines(drv, hc)
    ck.correspond("matrixSslSetCipherSuiteEnabledStatus histories: return codes, disabledCiphers[] slots, sslGetCipherSpec, chooseCipherSuite vs model",
                  hc, impl, model, nontrivial=lambda c, o: "e:" in c or "E:" in c)
    for c, o in zip(hc, impl):
        m = re.match(r"rc=(\S*) slots=(\S+) gcs=(\S*) ccs=(-?\d+):([0-9a-f]{4})", o)
        if not m: continue
        t = c.split(); ops = [] if t[4] == "-" else t[4].split(","); lst = [int(x, 16) for x in t[5].split(",")]
        sess, glob = history_disabled(ops, m.group(1).split(",") if m.group(1) else [])
        ck.count("history:holes" if re.search(r"(^|,)0,.*[1-9a-f]", m.group(2)) else "history:compact")
        if "L" in m.group(1): ck.count("history:overflow")
        for sid, g in zip(lst, m.group(3).split(",")):
            if sid and sid in (sess | glob) and g == "1":
                ck.spec_violation("disabled-suite-usable:history", "sslGetCipherSpec returns a suite that the enable/disable history leaves disabled",
                                  {"harness": "h_neg", "case": " ".join(t[:6]), "observed": o, "expected_by_spec": "suite %04x refused" % sid})
        chosen = int(m.group(5), 16)
        if m.group(4) == "0" and chosen and chosen in (sess | glob):
            ck.spec_violation("disabled-suite-chosen:history", "chooseCipherSuite picks a suite that the enable/disable history leaves disabled",
                              {"harness": "h_neg", "case": " ".join(t[:6]), "observed": o, "expected_by_spec": "suite %04x never chosen" % chosen})

    # default client lists (oracle for "offered" when no explicit list was given) and the model of sslGetCipherSpecListExt
    deflists = {}
    dlcases, dlimpl = [], []
    for key in ("rsa", "ec"):
        cfgs = ["cv=%s sv=3 key=%s" % (",".join(map(str, cv)), key) for cv in ([2, 3, 4], [2], [3], [4], [2, 3], [3, 4], [2, 4])]
        hs = ng.heads(cfgs, "c2s")
        full = [s for s in Hello(hs[0][0]).suites if s not in (SCSV, RENEG_SCSV)]
        deflists[key] = full
        for (rec, cv, _) in hs:
            dlcases.append("dl %s %s" % (cv[0], csv(full, "%04x")))
            dlimpl.append(",".join("%04x" % s for s in Hello(rec).suites if s not in (SCSV, RENEG_SCSV)))
    rc2, model, _ = ck.run_lines(drv, dlcases)
    ck.correspond("client default cipher list (sslGetCipherSpecListExt) vs model", dlcases, dlimpl, model)

    # DTLS: the fallback SCSV over a real DTLS handshake (the other DTLS negotiation paths are covered by the direct calls)
    dcases = ["dscsv %s %s %d" % (c, s, f) for c in ("10", "12") for s in ("10", "12", "both") for f in (0, 1)
              if not (c == "10" and s == "12")]          # no common version: refused (protocol_version) before parseClientHello looks at the suites
    dout = ng.run(dcases)
    dimpl = []
    for c, o in zip(dcases, dout):
        m = re.search(r"dscsv:c=(\d),(\d+),(\d+) s=(\d),(\d+),(\d+)", o)
        dimpl.append("fb=%d" % (1 if (m and m.group(6) == "86") else 0) if m else o)
        t = c.split()
        if m and t[3] == "1" and t[1] == "10" and t[2] == "both" and (m.group(1) == "1" or m.group(4) == "1"):
            ck.spec_violation("scsv-ignored:dtls", "DTLS 1.0 ClientHello with TLS_FALLBACK_SCSV completed against a server that also enables DTLS 1.2",
                              {"harness": "h_neg", "case": c, "observed": o, "expected_by_spec": "inappropriate_fallback (RFC 7507 covers DTLS)"})
        if m and t[3] == "0" and not (m.group(1) == "1" and m.group(4) == "1"):
            ck.spec_violation("dtls-handshake-failed", "plain DTLS handshake with a common version did not complete", {"harness": "h_neg", "case": c, "observed": o})
    rc2, dmodel, _ = ck.run_lines(drv, dcases)
    ck.correspond("fallback SCSV on DTLS handshakes vs model", dcases, dimpl, dmodel, nontrivial=lambda c, o: o == "fb=1")

    live = Live(ck, ng, ok, deflists, dict((t[0], t[1]) for t in table))

    # ---------------- corpus: the defect witnesses, as ServerHello rewrites
    corp = [l.split(" :: ") for l in corpus_cases()]
    live.run_sh_rewrites([(c[1], c[2].split()) for c in corp if c[0] == "sh"], corpus=True)
    live.run_ch_rewrites([(c[1], c[2].split()) for c in corp if c[0] == "ch"])
    ck.cov["corpus_cases"] = len(corp)

    # ---------------- (ii) live handshakes, sampled configurations
    cfgs = ["cv=3 sv=3", "cv=4 sv=4", "cv=4,3,2 sv=4,3,2", "cv=3,2 sv=4,3,2", "cv=4,3 sv=3,2", "cv=2 sv=2,3", "cv=3 sv=2",
            "cv=4,3 sv=3 suite=c02f,1301", "cv=3 sv=3 key=ec", "cv=4 sv=4 key=ec", "cv=3 sv=3,4 scsv=1", "cv=2 sv=2,3 scsv=1", "cv=2 sv=2 scsv=1",
            "cv=3 sv=3 cems=1", "cv=3 sv=3 cems=-1 sems=1", "cv=3 sv=3 cems=-1", "cv=4 sv=4 cgrp=1d,17 sgrp=17", "cv=4 sv=4 cgrp=18 sgrp=17,18",
            "cv=4 sv=4 cgrp=19 sgrp=17", "cv=3,4 sv=4,3", "cv=2,3 sv=3,2", "cv=3 sv=3 suite=c02f sdis=c02f", "cv=3 sv=3 suite=002f,c02f sdis=002f"]
    # enable/disable histories on the live server; the client offers exactly one suite
    def hist_cfgs():
        out = []
        for key in ("rsa", "ec"):
            pool = [x for x in LEGACY_POOL if x in ok[key] and x in table_ids]
            for _ in range(ck.budget(6, 60)):
                a, b, c3 = r.sample(pool, 3)
                pats = [("d:%04x,d:%04x,e:%04x" % (a, b, a), b), ("d:%04x,d:%04x,e:%04x" % (a, b, a), a),
                        ("d:%04x,d:%04x,d:%04x,e:%04x,e:%04x" % (a, b, c3, b, a), c3), ("d:%04x,e:%04x" % (a, a), a),
                        ("D:%04x" % a, a), ("D:%04x,E:%04x" % (a, a), a), ("d:%04x,d:%04x,e:%04x,d:%04x" % (a, b, a, c3), b),
                        ("d:%04x,d:%04x,e:%04x,d:%04x,e:%04x" % (a, b, a, b, b), b)]
                for ops, offer in pats:
                    out.append("cv=3 sv=3 key=%s suite=%04x sops=%s seed=%d" % (key, offer, ops, r.randrange(1, 1 << 30)))
        return out
    cfgs += hist_cfgs()
    seen = set(cfgs)
    for _ in range(ck.budget(120, 3000)):
        c = gen_config(r, table_ids)
        if c not in seen: seen.add(c); cfgs.append(c)
    cfgs += curve_cfgs(ck, r)
    scripts = ["new %s ; cfgv ; gethead c2s ; step c2s ; neg ; ec ; hs ; neg ; ec" % c for c in cfgs]
    outs = ng.run(scripts)
    ncomplete = 0
    for cfg, sc, o in zip(cfgs, scripts, outs):
        parts = o.split(" | ")
        if not parts[0].startswith("new:0"):
            ck.count("live_new_refused"); continue
        v = re.search(r"cfgv:c=(\d+):(\S+) s=(\d+):(\S+)", parts[1]); m = re.search(r"head:([0-9a-f]+)", parts[2])
        n1 = parse_neg(parts[4]) if len(parts) > 4 else None; n2 = parse_neg(parts[7]) if len(parts) > 7 else None
        e1 = EC_RE.search(parts[5]) if len(parts) > 5 else None; e2 = EC_RE.search(parts[8]) if len(parts) > 8 else None
        if not (v and m and n1 and n2 and e1 and e2): continue
        ch = Hello(bytes.fromhex(m.group(1)))
        cprio, sprio = prio_list(v.group(2)), prio_list(v.group(4))
        ck.cov["evaluations"] += 1; ck.add_distinct("live" + cfg)
        f = cfg_fields(cfg)
        # model of the server's reaction to this ClientHello
        sreq = f.get("sems") == "1"
        hist_s, hist_g = history_disabled(f["sops"].split(","), ["0"] * 99) if "sops" in f else (set(), set())
        sec = int(f.get("sec", "0"), 16); cec = int(f.get("cec", "0"), 16)
        if "sops" not in f:
            live.chello.append((chellog_case(ch, sprio, live.sdis_of(cfg), 1 if sreq else 0, ok[f.get("key", "rsa")], sec, 23 if f.get("key") == "ec" else 0),
                                server_observed_g(n1, int(e1.group(3)), live.types), sc))
        # server side, right after the ClientHello: an ECDHE suite may only go ahead on a curve the client listed and this session enabled
        so1 = server_observed_g(n1, int(e1.group(3)), live.types)
        if so1.startswith("acc ") and not so1.endswith("g=-"):
            gsel = int(e1.group(3)); common = [x for x in (ch.groups() if ch.groups() is not None else flag_set(sec)) if x in flag_set(sec)]
            if gsel not in common:
                ck.spec_violation("server-curve-not-common", "server goes ahead with an ECDHE suite on curve %d (0 = library default) although (client supported_groups) x (session ecFlags) = %s" % (gsel, common),
                                  {"harness": "h_neg", "script": sc, "config": cfg, "observed": so1, "expected_by_spec": "handshake_failure" if not common else common[0]})
        c, s = n2
        if "sops" in f:
            offered1 = [x for x in ch.suites if x not in (SCSV, RENEG_SCSV)]
            ck.count("live_history:%s" % ("refused" if not c["done"] else "completed"))
            if c["done"] and s["done"] and c["suite"] in (hist_s | hist_g):
                ck.spec_violation("live-suite-disabled-history", "handshake completed with a suite that the server's enable/disable history leaves disabled",
                                  {"harness": "h_neg", "script": sc, "observed": n2, "expected_by_spec": "no handshake with %04x" % c["suite"]})
            if not c["done"] and not (set(offered1) & (hist_s | hist_g)) and "e:%04x" % offered1[0] not in f["sops"].split(",")[-1:]:
                ck.count("live_history:enabled_but_refused")
        if c["done"] != s["done"]:
            ck.spec_violation("one-sided-completion", "only one endpoint completed the handshake", {"harness": "h_neg", "script": sc, "observed": n2})
        if not (c["done"] and s["done"]):
            ck.count("live_failed")
            if ("cec" in f or "sec" in f) and not (set(ch.groups() or []) & set(flag_set(sec))):
                ck.count("live_curve:disjoint_refused")
            continue
        ncomplete += 1; ck.count("live_completed:%d" % c["ver"])
        # both ends hold identical parameters and keys
        for k in ("ver", "suite", "group", "sig", "ems", "kc", "ks"):
            if c[k] != s[k]:
                ck.spec_violation("endpoints-differ:" + k, "completed handshake but the endpoints disagree on " + k, {"harness": "h_neg", "script": sc, "observed": n2})
        # enabled by both, offered by the client
        offered_v = [ENC[e] for e in ch.sv_list() if e in ENC] if ch.sv_list() is not None else [x for x in cprio if x <= ENC.get(struct.unpack(">H", ch.version)[0], 0)]
        common = [x for x in sprio if x in cprio and x in offered_v]
        if c["ver"] not in common:
            ck.spec_violation("live-version-not-common", "negotiated version not enabled by both / not offered", {"harness": "h_neg", "script": sc, "observed": n2, "expected_by_spec": common})
        elif cprio == sorted(cprio, reverse=True) and sprio == sorted(sprio, reverse=True) and c["ver"] != max(common):
            ck.spec_violation("live-version-not-highest", "default priorities but not the highest common version", {"harness": "h_neg", "script": sc, "observed": n2, "expected_by_spec": max(common)})
        if c["suite"] not in ch.suites or c["suite"] in (SCSV, RENEG_SCSV) or c["suite"] not in table_ids or c["suite"] in live.sdis_of(cfg):
            ck.spec_violation("live-suite", "negotiated suite not offered by the client or not enabled by the server", {"harness": "h_neg", "script": sc, "observed": n2})
        if (c["ver"] & V13ANY) != (T13 if c["suite"] in TLS13_SUITES else 0):
            ck.spec_violation("live-suite-version", "suite does not fit the negotiated version", {"harness": "h_neg", "script": sc, "observed": n2})
        if c["ver"] & V13ANY:
            sg = [int(x, 16) for x in f["sgrp"].split(",")] if "sgrp" in f else [0x17, 0x18, 0x1d, 0x19]
            if c["group"] not in (ch.groups() or []) or c["group"] not in sg:
                ck.spec_violation("live-group", "negotiated group outside client supported_groups x server groups", {"harness": "h_neg", "script": sc, "observed": n2})
            if c["sig"] not in (ch.sigalgs() or []):
                ck.spec_violation("live-sigalg", "CertificateVerify algorithm not offered by the client", {"harness": "h_neg", "script": sc, "observed": n2})
        else:
            if live.types.get(c["suite"]) in (6, 7):
                # ECDHE curve: the same on both ends, listed by the client, enabled by the server session
                cc, sc_ = int(e2.group(1)), int(e2.group(3))
                ck.count("live_curve:%d" % cc)
                if cc != sc_ or cc not in (ch.groups() or []) or cc not in flag_set(sec):
                    ck.spec_violation("live-group12", "completed (D)TLS<=1.2 ECDHE handshake on a curve outside (client supported_groups) x (server ecFlags)",
                                      {"harness": "h_neg", "script": sc, "observed": [n2, parts[8]], "expected_by_spec": sorted(set(ch.groups() or []) & set(flag_set(sec)))})
            if (f.get("cems") == "1" or sreq) and not c["ems"]:
                ck.spec_violation("live-ems", "extended_master_secret required by an endpoint but not in use", {"harness": "h_neg", "script": sc, "observed": n2})
            if c["ems"] != (1 if ch.ext(EXT_EMS) is not None else 0):
                ck.spec_violation("live-ems-unoffered", "extended_master_secret state does not follow the hellos", {"harness": "h_neg", "script": sc, "observed": n2})
        if SCSV in ch.suites:
            legacy = ENC.get(struct.unpack(">H", ch.version)[0], 0)
            if [x for x in sprio if x & TLS_ANY and x > legacy]:
                ck.spec_violation("scsv-ignored", "handshake completed although the client signalled a fallback and the server supports a higher version",
                                  {"harness": "h_neg", "script": sc, "observed": n2, "expected_by_spec": "inappropriate_fallback"})
    ck.cov["live_handshakes"] = len(cfgs); ck.cov["live_completed"] = ncomplete

    # ---------------- (iii) man-in-the-middle single-field rewrites
    base = ["cv=3 sv=3", "cv=4 sv=4", "cv=4,3 sv=3", "cv=4,3,2 sv=4,3,2", "cv=3 sv=3 suite=c02f", "cv=4,3 sv=3 suite=c02f,1301", "cv=3 sv=3 cems=1",
            "cv=2 sv=2", "cv=3 sv=3 key=ec suite=c02b,c02c", "cv=4 sv=4 suite=1301", "cv=3,2 sv=3,2 suite=002f,c013", "cv=4,3 sv=4,3 key=ec"]
    extra = [c for c in cfgs[23:] if "scsv" not in c and "sops" not in c][:ck.budget(6, 150)]
    mcfgs = base + extra
    chh = dict(zip(mcfgs, ng.heads(mcfgs, "c2s"))); shh = dict(zip(mcfgs, ng.heads(mcfgs, "s2c")))
    ch_items, sh_items = [], []
    for cfg in mcfgs:
        if chh[cfg][0] is None: continue
        ch = Hello(chh[cfg][0])
        ch_items += [(cfg, ops) for ops in ch_ops(ch, r)]
        rec = shh[cfg][0]
        if rec is not None and rec[0] == 22 and rec[5] == 2:
            sh_items.append((cfg, []))
            sh_items += [(cfg, ops) for ops in sh_ops(Hello(rec), r, ch)]
    live.run_ch_rewrites(ch_items)
    live.run_sh_rewrites(sh_items)
    ck.cov["mitm_rewrites"] = len(ch_items) + len(sh_items)

    # ---------------- (iii) ServerKeyExchange: hostile choices (ClientHello rewritten towards the honest server) and field rewrites
    def grp(ids): return struct.pack(">H", 2 * len(ids)) + b"".join(struct.pack(">H", i) for i in ids)
    ske_cfgs = ["cv=3 sv=3 suite=c02f cec=8 sec=4", "cv=3 sv=3 suite=c02f cec=4 sec=8", "cv=2 sv=2 suite=c013 cec=10 sec=3",     # disjoint: no ServerKeyExchange may appear
                "cv=3 sv=3 suite=c02f", "cv=3 sv=3 suite=c02f cec=8 sec=8", "cv=3 sv=3 key=ec suite=c02b", "cv=2 sv=2 suite=c013", "cv=2 sv=2 key=ec suite=c009 cec=c sec=c",
                "cv=4,3 sv=3", "cv=3 sv=3 suite=c030 csig=0401,0601", "cv=3 sv=3 suite=c02f cec=14 sec=1c"]
    hostile = [l.split(" :: ") for l in corpus_cases() if l.startswith("ske :: ")]
    hostile = [(c[1], c[2].split()) for c in hostile]
    for cf, target in ((8, 23), (4, 24), (0x10, 19), (0xc, 25), (1, 23)):
        hostile.append(("cv=3 sv=3 suite=c02f cec=%x" % cf, ["setext=10:" + grp([target]).hex()]))
        hostile.append(("cv=2 sv=2 suite=c013 cec=%x" % cf, ["setext=10:" + grp([target]).hex()]))
    for sf in (8, 0x10, 3, 0x18):
        hostile.append(("cv=3 sv=3 suite=c02f sec=%x" % sf, ["delext=10"]))
        hostile.append(("cv=3 sv=3 suite=c02f cec=%x sec=%x" % (sf, sf), ["delext=10", "delext=11"]))
    hostile.append(("cv=4,3 sv=3 sec=1", ["setext=10:" + grp([19]).hex()]))
    hostile.append(("cv=4,3 sv=3 sec=2", ["setext=10:" + grp([21]).hex()]))
    skec = run_ske(live, ske_cfgs, r, hostile)
    if skec:
        cs = [c for c, _, _ in skec]; im = [o for _, o, _ in skec]
        rc2, model, _ = ck.run_lines(drv, cs)
        ck.correspond("client reaction to ServerKeyExchange (parseServerKeyExchange curve checks + tlsVerify algorithm checks) vs model", cs, im, model,
                      nontrivial=lambda c, o: True)
        ck.notes += ["ske disagreement script: " + sc[:1200] for (c, o, sc), m in zip(skec, model) if o != m][:3]

    # ---------------- DTLS 1.2 / 1.0 with per-session curve sets (sampled pairs; all pairs in the thorough tier)
    dpairs = [(cf, sf) for cf in subsets_flags() for sf in subsets_flags()]
    if not thorough: dpairs = r.sample(dpairs, 40) + [(8, 4), (4, 8), (0x10, 0xf), (1, 1)]
    dc = ["dscsv %s %s 0 %x %x" % (v, v, cf, sf) for (cf, sf) in dpairs for v in (("12",) if not thorough else ("12", "10"))]
    for c, o in zip(dc, ng.run(dc)):
        m = re.search(r"dscsv:c=(\d),(\d+),(\d+) s=(\d),(\d+),(\d+) srvsupp=\d+ ec=(\d+),(\d+),([0-9a-f]{4})", o)
        if not m: continue
        t = c.split(); cf, sf = int(t[4], 16), int(t[5], 16); common = set(flag_set(cf)) & set(flag_set(sf))
        done = m.group(1) == "1" and m.group(4) == "1"; cc, sc_ = int(m.group(7)), int(m.group(8))
        ck.count("dtls_curve:" + ("done" if done else "refused")); ck.cov["evaluations"] += 1
        if done and (cc != sc_ or cc not in common):
            ck.spec_violation("live-group12:dtls", "completed DTLS ECDHE handshake on a curve outside (client list) x (server ecFlags)",
                              {"harness": "h_neg", "case": c, "observed": o, "expected_by_spec": sorted(common)})
        if (m.group(1) == "1") != (m.group(4) == "1"):
            ck.spec_violation("one-sided-completion", "only one DTLS endpoint completed", {"harness": "h_neg", "case": c, "observed": o})

    # ---------------- model of the hello processing against everything seen above
    if live.chello:
        cs = [c for c, _, _ in live.chello]; im = [o for _, o, _ in live.chello]
        rc2, model, _ = ck.run_lines(drv, cs)
        ck.notes += ["chello disagreement script: " + sc[:1500] for (c, o, sc), m in zip(live.chello, model) if o != m][:3]
        ck.correspond("server reaction to ClientHello (parseClientHello / tls13ParseClientHello: version, SCSV, EMS, suite) vs model", cs, im, model,
                      nontrivial=lambda c, o: o.startswith("acc"))
    if live.shello:
        cs = [c for c, _, _ in live.shello]; im = [o for _, o, _ in live.shello]
        rc2, model, _ = ck.run_lines(drv, cs)
        ck.notes += ["shello disagreement script: " + sc[:1500] for (c, o, sc), m in zip(live.shello, model) if o != m][:3]
        ck.correspond("client reaction to ServerHello (tls13ParseServerHello / parseServerHello: version, suite offered, sentinel, EMS) vs model", cs, im, model,
                      nontrivial=lambda c, o: True)
    ck.rules.append("direct calls: exhaustive finite sweeps (ordered version sub-lists on both sides; every table suite x role x version state); "
                    "chooseCipherSuite on random client lists with disabled suites; live: hand-picked + grammar-generated configurations "
                    "(version lists in arbitrary priority order, explicit/default suite lists, EMS off/on/required per side, disabled suites, "
                    "TLS 1.3 group lists, fallback SCSV); MITM: every single field of both hellos (version, random incl. both sentinels, "
                    "session id, suite list / chosen suite, compression, every extension removed / bit-flipped at both ends / replaced, "
                    "extension block removed or emptied). (D)TLS<=1.2 curves: ALL 31x31 pairs of non-empty subsets of the compiled-in curves as per-session "
                    "ecFlags of client x server (direct calls and live TLS 1.2/RSA handshakes; TLS 1.1, ECDSA key, TLS 1.3-capable client, DTLS sampled / exhaustive "
                    "in thorough), disjoint pairs included; ServerKeyExchange curve type / curve / point / algorithm / signature rewritten; ClientHello "
                    "supported_groups rewritten or removed towards the honest server. A case is non-trivial when negotiation succeeds or a suite is returned")


def replay(ck, path):
    rp = json.load(open(path))["replay"]
    h = ck.cc("h_neg.c", wraps=WRAPS)
    cs = [rp[k] for k in ("script", "case") if k in rp]
    rc, out, err = ck.run_lines(h, cs)
    for c, o in zip(cs, out):
        print("case:", c[:300]); print("  impl:", re.sub(r",ed=[^ ]*", "", o)[-900:]); print("  spec:", rp.get("expected_by_spec"))
