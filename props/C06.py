"""C06 - a handshake completes only along a legal message sequence; every deviation is fatal.

Theorems: coq/Properties/Properties_C06.v over coq/Hs/HsModel.v (explicit, code-shaped gates / handlers / flight writers of
both tracks, as repaired by pending-fixes/C06-1..6) and coq/Hs/HsSpec.v (grammar transcribed from the RFC figures).
Tie:
  (i)  exhaustive gate sweeps: tls13CheckHsState (hook verif_tls13CheckHsState) over 256 message types x 256 hsState
       values x 2 roles against check13; the expected-vs-received test of parseSSLHandshake on fabricated
       (hsState, role, flag subset) over every SSL_HS_* value (+ a few non-values) x 256 types x 64 subsets of the
       flags the test reads against gate12;
  (ii) live two-peer sessions at handshake-MESSAGE granularity (harness/h_hs.c): the legal trace of every mode and all
       its single-step deviations (delete, duplicate, swap adjacent, retype, insert a foreign type, inject a genuine
       message of another mode, ChangeCipherSpec early / late / twice / missing).  Protected flights are re-sealed
       for the receiver with the library's own AES-GCM, so the receiver sees correctly protected but illegal
       sequences.  CONSISTENT deviations (`mtamper`): for every message of every legal trace the SENDING peer omits it /
       follows it with / replaces it by a genuine message of another mode in its OWN transcript hash as well as on the wire,
       so its CertificateVerify / Finished / traffic secrets are right for the deviating sequence (a self-consistent
       misbehaving peer): only the receiver's state machine can stop such a handshake.  Cells on which a gate sweep
       disagrees are turned into such histories first.  Every delivery is one step of the extracted model (pre-state, input, oracle answers read off the
       bytes / the post-state) and must agree on outcome and post-state.
  (iii) DTLS 1.0 / 1.2 (harness option dtls=1): the same live machinery with 12-byte handshake headers, message_seq numbered as
       the (deviating) sender would number its sequence, records re-sealed with epoch / sequence number, HelloVerifyRequest round,
       retransmitted copies (`retx`: same message_seq again), fragmented legal traces; the DTLS branches of the <= 1.2 gate
       (message_seq classes expected / zero / stale / future x haveCookie x flags) swept exhaustively against gate12d.
       Reading (ck.assumptions): a copy with an old message_seq is a retransmission and is dropped; a message with the EXPECTED
       message_seq and a type the state does not allow is a deviation and must be fatal.
Search oracle (Impl vs Spec, never via the model): whenever a side reports completion, the messages it accepted form
a legal sequence of the negotiated mode (grammar re-implemented here from the RFC figures, cross-checked against the
Coq grammar); every accepted message keeps the log a prefix of a legal sequence; DTLS: a message with the expected message_seq that no legal
sequence continues with is not silently dropped.
"""
import os, re, json
import vlib

WRAPS = ["psGetBrokenDownGMTime", "psGetEntropy", "psGetPrngLocked", "psGetTime", "csAesGcmEncryptTls13",
         "csChacha20Poly1305IetfEncryptTls13", "_psTrace", "_psTraceStr", "_psTraceInt", "_psTracePtr", "psTraceBytes",
         "psAesEncryptGCM", "sslUpdateHSHash", "tls13TranscriptHashUpdate", "matrixDtlsGetOutdata"]
NONE = 255
CH, SH, NST, EOED, EE, CERT, SKE, CREQ, SHD, CVFY, CKE, FIN, CSTAT, HREQ, HVR = 1, 2, 4, 5, 8, 11, 12, 13, 14, 15, 16, 20, 22, 0, 3
NAMES = {0: "HelloRequest", 1: "ClientHello", 2: "ServerHello", 3: "HelloVerifyRequest", "CH0": "ClientHello(no cookie)", 4: "NewSessionTicket", 5: "EndOfEarlyData", 8: "EncryptedExtensions",
         11: "Certificate", 12: "ServerKeyExchange", 13: "CertificateRequest", 14: "ServerHelloDone", 15: "CertificateVerify",
         16: "ClientKeyExchange", 20: "Finished", 22: "CertificateStatus", 24: "KeyUpdate", "C": "ChangeCipherSpec"}
HS_VALUES = [0, 1, 2, 3, 4, 5, 8, 11, 12, 13, 14, 15, 16, 20, 22, 23, 24, 25, 26, 27, 28, 29, 30, 31, 32, 33, 34, 35, 252, 253, 254, 255]
HS_NONVALUES = [6, 7, 9, 21, 99, 200]

# name -> (setup commands run before, `new` arguments)
CONFIGS = {
    "t12_ecdhe":        ([], "cv=3 sv=3"),
    "t12_rsa":          ([], "cv=3 sv=3 suite=009d"),
    "t12_cauth":        ([], "cv=3 sv=3 cauth=1 scb=1"),
    "t12_ticket_issue": ([], "cv=3 sv=3 ticket=1"),
    "t12_resume_id":    (["new cv=3 sv=3", "mrun"], "cv=3 sv=3 resume=1 keepkeys=1 seed=3"),
    "t12_resume_ticket": (["new cv=3 sv=3 ticket=1", "mrun"], "cv=3 sv=3 ticket=1 resume=1 keepkeys=1 seed=3"),
    "t12_psk_cbc":      ([], "cv=3 sv=3 psk=1 suite=00ae"),
    "t12_ecdsa":        ([], "cv=3 sv=3 key=ec suite=c02b"),
    "t11_cbc":          ([], "cv=2 sv=2"),
    "t13":              ([], "cv=4 sv=4"),
    "t13_cauth":        ([], "cv=4 sv=4 cauth=1 scb=1"),
    "t13_ticket_issue": ([], "cv=4 sv=4 ticket=1"),
    "t13_resume":       (["new cv=4 sv=4 ticket=1", "mrun"], "cv=4 sv=4 ticket=1 resume=1 keepkeys=1 seed=3"),
    "t13_psk":          ([], "cv=4 sv=4 psk13=1"),
    "t13_hrr":          ([], "cv=4 sv=4 cgrp=29,23,24 nshare=1 sgrp=23"),
    "t13c_12s":         ([], "cv=3,4 sv=3"),
    "t12c_13s":         ([], "cv=3 sv=3,4"),
    "t12_ocsp":         ([], "cv=3 sv=3 key=ec suite=c02b ocsp=1"),
    # a resumption OFFER the server declines (external PSK it does not know; ticket sealed under keys it no longer has; session id
    # its cache no longer holds): the full handshake of the mode follows - what the server expects after its flight must depend on
    # what was SELECTED, not on what was offered - crossed with client authentication and HelloRetryRequest; and the accepted
    # offers crossed with a server that would otherwise ask for a certificate
    "t13_pskdecl":          ([], "cv=4 sv=4 psk13=2"),
    "t13_pskdecl_cauth":    ([], "cv=4 sv=4 psk13=2 cauth=1 scb=1"),
    "t13_pskdecl_hrr":      ([], "cv=4 sv=4 psk13=2 cgrp=29,23,24 nshare=1 sgrp=23"),
    "t13_pskdecl_cauth_hrr": ([], "cv=4 sv=4 psk13=2 cauth=1 scb=1 cgrp=29,23,24 nshare=1 sgrp=23"),
    "t13_tickdecl":         (["new cv=4 sv=4 ticket=1", "mrun"], "cv=4 sv=4 ticket=1 resume=1 decline=1 seed=3"),
    "t13_tickdecl_cauth":   (["new cv=4 sv=4 ticket=1 cauth=1 scb=1", "mrun"], "cv=4 sv=4 ticket=1 cauth=1 scb=1 resume=1 decline=1 seed=3"),
    "t13_tickdecl_cauth_hrr": (["new cv=4 sv=4 ticket=1 cauth=1 scb=1", "mrun"], "cv=4 sv=4 ticket=1 cauth=1 scb=1 resume=1 decline=1 seed=3 cgrp=29,23,24 nshare=1 sgrp=23"),
    "t13_psk_cauth":        ([], "cv=4 sv=4 psk13=1 cauth=1 scb=1"),
    "t13_psk_hrr":          ([], "cv=4 sv=4 psk13=1 cgrp=29,23,24 nshare=1 sgrp=23"),
    "t13_psk_cauth_hrr":    ([], "cv=4 sv=4 psk13=1 cauth=1 scb=1 cgrp=29,23,24 nshare=1 sgrp=23"),
    "t13_resume_cauth":     (["new cv=4 sv=4 ticket=1 cauth=1 scb=1", "mrun"], "cv=4 sv=4 ticket=1 cauth=1 scb=1 resume=1 keepkeys=1 seed=3"),
    "t12_iddecl":           (["new cv=3 sv=3", "mrun"], "cv=3 sv=3 resume=1 decline=1 seed=3"),
    "t12_iddecl_cauth":     (["new cv=3 sv=3 cauth=1 scb=1", "mrun"], "cv=3 sv=3 cauth=1 scb=1 resume=1 decline=1 seed=3"),
    "t12_tickdecl":         (["new cv=3 sv=3 ticket=1", "mrun"], "cv=3 sv=3 ticket=1 resume=1 decline=1 seed=3"),
    "t12_tickdecl_cauth":   (["new cv=3 sv=3 ticket=1 cauth=1 scb=1", "mrun"], "cv=3 sv=3 ticket=1 cauth=1 scb=1 resume=1 decline=1 seed=3"),
    "t12_resume_id_cauth":  (["new cv=3 sv=3 cauth=1 scb=1", "mrun"], "cv=3 sv=3 cauth=1 scb=1 resume=1 keepkeys=1 seed=3"),
    "t12_resume_ticket_cauth": (["new cv=3 sv=3 ticket=1 cauth=1 scb=1", "mrun"], "cv=3 sv=3 ticket=1 cauth=1 scb=1 resume=1 keepkeys=1 seed=3"),
    "d12_iddecl_cauth":     (["new dtls=1 cv=3 sv=3 cauth=1 scb=1", "mrun"], "dtls=1 cv=3 sv=3 cauth=1 scb=1 resume=1 decline=1 seed=3"),
    "d12_resume_id_cauth":  (["new dtls=1 cv=3 sv=3 cauth=1 scb=1", "mrun"], "dtls=1 cv=3 sv=3 cauth=1 scb=1 resume=1 keepkeys=1 seed=3"),
    # DTLS 1.2 / 1.0 (RFC 6347): AES-GCM suites are re-sealed by the harness; CBC suites leave the protected Finished opaque
    "d12_ecdhe":        ([], "dtls=1 cv=3 sv=3"),
    "d12_cauth":        ([], "dtls=1 cv=3 sv=3 cauth=1 scb=1"),
    "d12_resume_id":    (["new dtls=1 cv=3 sv=3", "mrun"], "dtls=1 cv=3 sv=3 resume=1 keepkeys=1 seed=3"),
    "d12_ticket_issue": ([], "dtls=1 cv=3 sv=3 ticket=1"),
    "d12_resume_ticket": (["new dtls=1 cv=3 sv=3 ticket=1", "mrun"], "dtls=1 cv=3 sv=3 ticket=1 resume=1 keepkeys=1 seed=3"),
    "d12_rsa":          ([], "dtls=1 cv=3 sv=3 suite=009d"),
    "d12_cbc":          ([], "dtls=1 cv=3 sv=3 suite=c027"),
    "d12_psk_cbc":      ([], "dtls=1 cv=3 sv=3 psk=1 suite=00ae"),
    "d12_ecdsa":        ([], "dtls=1 cv=3 sv=3 key=ec suite=c02b"),
    "d10_cbc":          ([], "dtls=1 cv=2 sv=2"),
    "d12c_10s":         ([], "dtls=1 cv=2,3 sv=2"),
    # fragmented handshake messages: the sender fragments at a small PMTU, the harness reassembles what it collects and delivers
    # every message again in fragments (one datagram each)
    "d12_frag":         ([], "dtls=1 cv=3 sv=3 pmtu=500 frag=400"),
    "d12_frag_cauth":   ([], "dtls=1 cv=3 sv=3 cauth=1 scb=1 frag=100"),
}
# the honest run of these does not complete (the stapled test OCSP response is signed by a responder the client's CA set does
# not cover: bad_certificate_status_response); they are there for the states they reach (CERTIFICATE_STATUS) and their deviations
# d12_resume_ticket: a DTLS client drops the ChangeCipherSpec that is the only sign of a ticket resumption the server did not
# acknowledge in its ServerHello (RFC 5077 3.4), and then refuses the Finished (pending-fixes/C06-8); a configuration listed here
# that does complete is treated like every other
HONEST_INCOMPLETE = {"t12_ocsp", "d12_resume_ticket"}
LEGAL_ONLY = {"d12_frag", "d12_frag_cauth", "d12c_10s"}        # honest trace (and what follows completion) only
SLOT_TYPE = {1: 12, 2: 13, 3: 15, 4: 4, 5: 13, 6: 4, 7: 2, 8: 1, 9: 1, 10: 2, 11: 3, 12: 1, 13: 1, 14: 2}      # handshake type of the message in each slot
QUICK = ["t12_ecdhe", "t12_rsa", "t12_cauth", "t12_ticket_issue", "t12_resume_id", "t12_resume_ticket", "t12_psk_cbc",
         "t13", "t13_cauth", "t13_ticket_issue", "t13_resume", "t13_psk", "t13_hrr", "t13c_12s", "t12c_13s", "t12_ocsp",
         "d12_ecdhe", "d12_cauth", "d12_resume_id", "d12_ticket_issue", "d12_resume_ticket", "d10_cbc", "d12_frag", "d12_frag_cauth",
         "t13_pskdecl", "t13_pskdecl_cauth", "t13_pskdecl_cauth_hrr", "t13_tickdecl_cauth", "t13_psk_cauth", "t13_resume_cauth",
         "t12_iddecl_cauth", "t12_tickdecl_cauth", "t12_resume_id_cauth", "t12_resume_ticket_cauth", "d12_iddecl_cauth"]

# genuine messages of other modes, kept in harness slots (slots survive `new`): slot -> (how to obtain, what it is)
SLOT_FILL = [
    "new cv=3 sv=3 cauth=1 scb=1 ; md c2s ; msave s2c 2 1 ; msave s2c 3 2 ; md s2c 5 ; msave c2s 2 3",     # 1 SKE(1.2) 2 CertificateRequest(1.2) 3 CertificateVerify(1.2)
    "new cv=3 sv=3 ticket=1 ; md c2s ; md s2c 4 ; md c2s 3 ; msave s2c 0 4",                                    # 4 NewSessionTicket(1.2)
    "new cv=4 sv=4 ticket=1 cauth=1 scb=1 ; md c2s ; msave s2c 2 5 ; md s2c 6 ; md c2s 3 ; msave s2c 0 6",     # 5 CertificateRequest(1.3) 6 NewSessionTicket(1.3)
    "new cv=4 sv=4 cgrp=29,23,24 nshare=1 sgrp=23 ; msave c2s 0 9 ; md c2s ; msave s2c 0 7",                    # 7 HelloRetryRequest 9 ClientHello(1.3)
    "new cv=3 sv=3 ; msave c2s 0 8 ; md c2s ; msave s2c 0 10",                                                    # 8 ClientHello(1.2) 10 ServerHello(1.2)
    "new dtls=1 cv=3 sv=3 seed=5 ; msave c2s 0 13 ; md c2s ; msave s2c 0 11 ; md s2c ; msave c2s 0 12 ; md c2s ; msave s2c 0 14",   # DTLS: 13 ClientHello without cookie 11 HelloVerifyRequest 12 ClientHello with (another session's) cookie 14 ServerHello
]
SLOTS_S2C = [1, 2, 4, 5, 6, 7, 10, 8]      # injected towards the client
SLOTS_C2S = [3, 8, 9]                      # injected towards the server
# a CertificateRequest in the OTHER version's format is not injected: the TLS 1.2 parser crashes on the TLS 1.3 body
# (memory-safety defect outside this property, reported to C08); the type-level deviation is covered by `ins13`
SLOT_ONLY_V13 = {5: True, 2: False}


# DTLS sessions: the <= 1.2 messages above (the harness converts the handshake header) and the DTLS-only ones
SLOTS_S2C_DTLS = [1, 2, 4, 11, 12, 14]
SLOTS_C2S_DTLS = [3, 12, 13]


def slots_for(d, v13, dtls=False):
    if dtls:
        return SLOTS_S2C_DTLS if d == "s2c" else SLOTS_C2S_DTLS
    return [sl for sl in (SLOTS_S2C if d == "s2c" else SLOTS_C2S) if sl not in SLOT_ONLY_V13 or SLOT_ONLY_V13[sl] == v13]

SNAP_RE = re.compile(r"v=(\d),sv=(\d),hs=(\d+),f=([ECRW]*),done=(\d),err=(\d+),ed=(\d+):(\d+):(\d+),lb=(\d),ig=(-?\d+),ce=(\d),se=(\d),ae=(\d),bs=(\d+),ms=(\d+)((?:,[a-z]+=-?[0-9a-f]+)*?),x=(\d)(\d)(\d)(\d),tk=(-?\d+),sr=(\d),y=(\d)(\d)(\d)(\d),dc=(\d+),cs=([0-9a-f]+)(?:,lm=(-?\d+),hc=(\d),rq=(\d+))?")
STEP_RE = re.compile(r"step:([cs]) m=([HCADR]):(-?\d+):(-?\d+):(\d+) f=(\S) l=(\d+)(?: q=(-?\d+):(\d))? pre=(\S+) (.*?)post=(\S+) h=(\d)")


def snap(s):
    m = SNAP_RE.match(s)
    if not m:
        return None
    g = list(m.groups())
    extra = g.pop(16)               # fields other checks added to the snapshot; dt=1: a DTLS session
    dt = 1 if ",dt=1" in (extra or "") else 0
    return {"v": int(g[0]), "sv": int(g[1]), "hs": int(g[2]), "E": "E" in g[3], "C": "C" in g[3], "R": "R" in g[3], "W": "W" in g[3],
            "done": int(g[4]), "err": int(g[5]), "se": int(g[12]), "resumed": int(g[16]), "cauth": int(g[17]), "psk": int(g[18]),
            "dhe": int(g[19]), "tk": int(g[20]), "sr": int(g[21]), "upsk": int(g[22]), "hrr": int(g[23]), "tkeys": int(g[24]),
            "gotcr": int(g[25]), "dc": int(g[26]), "cs": g[27], "dt": dt,
            "lm": int(g[28]) if g[28] is not None else -1, "hc": int(g[29]) if g[29] is not None else 0}


class Step:
    def __init__(self, m):
        self.side, self.kind, self.t, self.g, self.hb, self.form, self.l = m.group(1), m.group(2), int(m.group(3)), int(m.group(4)), int(m.group(5)), m.group(6), int(m.group(7))
        self.msn, self.retx = (int(m.group(8)), int(m.group(9))) if m.group(8) is not None else (0, 0)
        self.pre, self.post, self.body, self.hashed = snap(m.group(10)), snap(m.group(12)), m.group(11), int(m.group(13))
        self.out_recs = [tuple(int(x) for x in r.split(":")) for r in re.findall(r"(\d+:-?\d+:\d+),", " ".join(re.findall(r"out=\[([^\]]*)\]", self.body)))]
        self.sent = bool(self.out_recs)
        self.sent_alert = any(r[1] == 21 for r in self.out_recs)
        self.errs = re.findall(r"(?<![\w:])E(-\d+)", self.body)
        self.hsdone = "HSDONE" in self.body
        self.resend = "RESEND" in self.body         # the library asked for its last flight to be sent again (DTLS_RETRANSMIT)

    def dead_before(self):
        return self.pre["E"] or self.pre["C"]

    def fatal(self):
        return self.post["err"] != NONE and self.pre["err"] == NONE

    def accepted(self):
        """the receiver consumed the message and went on (no alert of any kind, no error return)"""
        return not self.dead_before() and not self.fatal() and not self.sent_alert and not self.errs and not self.post["E"]

    def dtls(self):
        return bool(self.pre["dt"])

    def outcome(self):
        """what the receiver did with the message, in the model's vocabulary"""
        pre, post = self.pre, self.post
        if self.dead_before():
            return "Refuse"
        if self.fatal():
            return "Fatal:%d" % post["err"]
        if self.sent_alert and post["err"] == NONE:
            return "Warn:100"
        if self.kind == "C" and pre["v"] == 1:
            return "Ignore"
        if self.dtls() and not self.errs and not post["E"]:
            same = all(pre[k] == post[k] for k in ("hs", "R", "W", "lm", "hc", "resumed", "psk", "dhe", "tk"))
            if self.kind == "C":
                if same and pre["dc"] == post["dc"]:
                    return "Drop:0"
            else:
                if self.resend and same:
                    return "Drop:1"
                if same and not self.hashed and not self.sent:
                    return "Drop:0"
                if self.t == CH and pre["sv"] and pre["hs"] == CH and post["hs"] == CH and self.sent and not pre["R"]:
                    return "Hvr"
        return "Accept:%d" % (1 if self.sent else 0)

    def logged(self):
        """accepted AND taken into the receiver's sequence (a dropped DTLS message / a stateless HelloVerifyRequest answer is not)"""
        return self.accepted() and self.outcome().startswith("Accept")

def parse_steps(line):
    return [Step(m) for m in STEP_RE.finditer(line)]


# ------------------------------------------------------------------ the grammar, once more (independent of the Coq text)
def must_staple():
    """the build's policy, as the translator saw it (USE_OCSP_MUST_STAPLE)"""
    try:
        return "h_ocsp_must_staple : bool := true" in open(os.path.join(vlib.COQ, "Gen", "ConstsHs.v")).read()
    except OSError:
        return True


MUST_STAPLE = None
ACCEPT_EMPTY = None        # SERVER_WILL_ACCEPT_EMPTY_CLIENT_CERT_MSG
CERT0 = "CERT0"            # a Certificate message with an empty certificate_list (told by its length)


def policy(name):
    try:
        return ("h_%s : bool := true" % name) in open(os.path.join(vlib.COQ, "Gen", "ConstsHs.v")).read()
    except OSError:
        return False


def legal_sequences(md):
    """all sequences a receiver in mode md may get before completion (lists of type numbers / 'C'), RFC figures; DTLS (RFC 6347
    4.2): the TLS flow, optionally preceded by ClientHello (empty cookie) / HelloVerifyRequest"""
    out = tls_sequences(md)
    if md.get("dtls"):
        out = out + [(["CH0"] if md["server"] else [HVR]) + l for l in out]
    return out


def tls_sequences(md):
    global ACCEPT_EMPTY
    if ACCEPT_EMPTY is None:
        ACCEPT_EMPTY = policy("server_accepts_empty_client_cert")
    out = []
    sv = md["server"]
    if md["v13"]:
        psk = md["res"] == "yes"
        if sv:
            base = [CH] + ([CH] if md["hrr"] else []) + ([EOED] if md["early"] else [])
            # a Certificate that carries a certificate is followed by CertificateVerify; an empty one (only where the build
            # accepts it) is not
            tails = ([[CERT, CVFY, FIN]] + ([[CERT0, FIN]] if ACCEPT_EMPTY else [])) if md["cauth"] else [[FIN]]
            out = [base + t for t in tails]
        else:
            base = ([SH] if md["hrr"] else []) + [SH, EE]
            if psk:
                out = [base + [FIN]]
            else:
                out = [base + cr + [CERT, CVFY, FIN] for cr in ([], [CREQ])]
        return out
    full, abbr = md["res"] != "yes", md["res"] != "none"
    if sv:
        if full:
            if md["cauth"]:
                out += [[CH, CERT, CKE, CVFY, "C", FIN]] + ([[CH, CERT0, CKE, "C", FIN]] if ACCEPT_EMPTY else [])
            else:
                out += [[CH, CKE, "C", FIN]]
        if abbr:
            out += [[CH, "C", FIN]]
        return out
    nst = [NST] if md["newticket"] else []
    if full:
        kex = md["kex"]
        global MUST_STAPLE
        if MUST_STAPLE is None:
            MUST_STAPLE = must_staple()
        # RFC 6066: CertificateStatus MAY be omitted - but not towards a must-staple build, whose policy is to require it
        certs = [[]] if kex in ("psk", "dhepsk") else (([[CERT, CSTAT]] if MUST_STAPLE else [[CERT], [CERT, CSTAT]]) if md["ocsp"] else [[CERT]])
        skes = {"rsa": [[]], "ecdhe": [[SKE]], "dhepsk": [[SKE]], "psk": [[], [SKE]]}[kex]
        for c in certs:
            for k in skes:
                for cr in ([], [CREQ]):
                    out.append([SH] + c + k + cr + [SHD] + nst + ["C", FIN])
    if abbr:
        out.append([SH] + nst + ["C", FIN])
    return out


def strip_nst13(md, seq):
    if md["v13"] and not md["server"]:
        seq = list(seq)
        while seq and seq[-1] == NST and FIN in seq[:-1]:
            seq.pop()
    return seq


def is_legal(md, seq):
    return strip_nst13(md, seq) in legal_sequences(md)


def is_legal_prefix(md, seq):
    s = strip_nst13(md, seq)
    return any(l[:len(s)] == s for l in legal_sequences(md))


class Side:
    """what one receiver accepted so far + the mode its hellos negotiated (read off bytes and implementation flags)"""
    def __init__(self, server, cfg_cauth, sent_ticket):
        self.server, self.cfg_cauth, self.sent_ticket = server, cfg_cauth, sent_ticket
        self.acc, self.items, self.md, self.hrr_seen, self.done_checked, self.opaque, self.flagged, self.declined = [], [], None, False, False, False, False, False

    def cfg_token(self, v13, tick):
        return None


def body_token(st):
    """oracle answer about the body of a delivered handshake message -> model body token.
    Accepted messages: hello attributes from the bytes (TLS 1.3 selected, HelloRetryRequest) and from what the implementation
    negotiated; others are plain / Finished-matches.  Refused messages: a <= 1.2 message that was hashed passed the gate, so
    its handler refused the body (F) - except the Finished verdicts; a message that was not hashed was refused by the gate
    and the body does not matter; TLS 1.3 hashes only after the handler, there the alert tells (unexpected_message = gate)."""
    t, pre, post = st.t, st.pre, st.post
    retyped = st.g != st.t
    err = post["err"] if st.fatal() else None
    if t in (CH, SH):
        if retyped:
            return "F"
        if st.dtls() and t == CH and pre["sv"] and not (st.hb & 4):
            # DTLS ClientHello with an empty cookie (read off the bytes)
            return "NC" if (st.accepted() or err in (None, 10, 100)) else "F"
        v13b, hrrb = st.hb & 1, (st.hb >> 1) & 1
        # OFFERED (read off the ClientHello bytes: pre_shared_key extension / session id or SessionTicket) vs SELECTED (the
        # implementation's flags after the hello): an offer that was not selected is the D-hello of the model
        off13, off12 = (t == CH and bool(st.hb & 8)), (t == CH and bool(st.hb & 16))
        if st.accepted():
            if t == SH and hrrb:
                return "H13:100"
            if post["v"] == 1:
                h = 1 if (t == CH and post["hs"] == 23 and post["hrr"]) else 0
                if off13 and not post["upsk"]:
                    return "D13:%d" % h
                return "H13:%d%d%d" % (h, post["upsk"], post["se"])
            if off12 and not post["resumed"]:
                return "D12:%d%d" % (post["psk"], post["dhe"])
            # 4th attribute - ServerHello: the SessionTicket extension is there (RECVD_EXT); ClientHello: the session came from a ticket (USING_TICKET)
            return "H12:%d%d%d%d%d" % (post["resumed"], post["psk"], post["dhe"], 1 if post["tk"] == (5 if t == CH else 3) else 0, post["sr"])
        if err is not None and err not in (10, 47, 100):
            return "F"
        if pre["v"] == 0 and st.hashed:
            return "F"
        if err == 47:
            # illegal_parameter is modelled only for a hello that contradicts our HelloRetryRequest round
            if pre["v"] == 1 and pre["hrr"] and t == SH and not hrrb and not v13b:
                return "H12:00000"
            if pre["v"] == 1 and pre["hrr"] and t == CH:
                return "H13:100" if v13b else "H12:00000"
            return "F"
        if v13b:
            return "H13:%d00" % hrrb
        return "H12:00000"
    if t == FIN:
        if retyped:
            return "F"
        if st.accepted():
            return "N1"
        if err == 51:
            return "N0"
        if err is not None and err not in (10, 100):
            return "F"
        return "N1"
    if st.accepted():
        return "P"
    if pre["v"] == 0:
        return "F" if (st.hashed and err is not None) else "P"
    return "F" if (err is not None and err not in (10, 100)) else "P"


def st_fields(p):
    return "%d %d %d %d %d %d %d %d %d %d %d %d %d %d %d %d %d %d %d %d %d" % (
        p["sv"], p["v"], p["hs"], p["R"], p["W"], 1 if (p["E"] or p["C"]) else 0, p["resumed"], p["cauth"], p["psk"], p["dhe"], p["tk"], p["sr"],
        1 if p["dc"] == 253 else 0, p["upsk"], p["hrr"], p["se"], p["tkeys"], p["gotcr"], p["dt"], p["hc"], p["lm"])


def model_case(st):
    if st.kind == "C":
        return "stp %s ccs" % st_fields(st.pre)
    return "stp %s hs %d %s %d" % (st_fields(st.pre), st.t, body_token(st), st.msn)


def observed(st):
    """canonical observation in the driver's output format (fields that the model does not maintain are masked by compare())"""
    post = st.post
    o = st.outcome()
    s = "v=%d hs=%d R=%d W=%d E=%d x=%d%d%d%d tk=%d sr=%d lc=%d y=%d%d%d%d ck=%d lm=%d" % (
        post["v"], post["hs"], post["R"], post["W"], 1 if (post["E"] or post["C"]) else 0, post["resumed"], post["cauth"], post["psk"], post["dhe"],
        post["tk"], post["sr"], 1 if post["dc"] == 253 else 0, post["upsk"], post["hrr"], post["se"], post["gotcr"], post["hc"], post["lm"])
    return o + " " + s


FIELD_RE = re.compile(r"(\S+) v=(\d) hs=(\d+) R=(\d) W=(\d) E=(\d) x=(\d)(\d)(\d)(\d) tk=(-?\d+) sr=(\d) lc=(\d) y=(\d)(\d)(\d)(\d)(?: ck=(\d) lm=(-?\d+))?")


def canon(line, server, dtls=False):
    """mask what is not comparable: after a fatal outcome only the outcome and the error flag; TLS 1.3 does not maintain the
    <= 1.2 flags / decState and vice versa; the ticket state after completion (USING_TICKET bookkeeping) is not modelled"""
    m = FIELD_RE.match(line.strip())
    if not m:
        return line.strip()
    g = list(m.groups())
    o = g[0]
    if o == "Fail":
        o = "Fatal:*"
    if o.startswith("Fatal") or o == "Refuse":
        return "%s E=%s" % (o, g[5])
    v = g[1]
    x = "".join(g[6:10]); tk = g[10]; sr = g[11]; lc = g[12]; y = "".join(g[13:17])
    if v == "1":
        x, tk, sr, lc = "-", "-", "-", "-"
        y = y[:3] + "-" if False else y
    else:
        y = "-"
    if g[2] == "255":
        tk, x = "-", "-"          # bookkeeping after completion (USING_TICKET, RESUMED cleared on a refused renegotiation) is not modelled
    if server:
        tk, sr = "-", "-"         # the server's sid object / status_request flag are not the client-side state the gate reads
    d = ""
    if dtls:
        # a ChangeCipherSpec that is skipped (out of order / of a retransmitted flight) leaves no trace either way
        if o == "Ignore":
            o = "Drop:0"
        d = " ck=%s lm=%s" % (g[17], g[18])
    return "%s v=%s hs=%s R=%s W=%s E=%s x=%s tk=%s sr=%s lc=%s y=%s%s" % (o, v, g[2], g[3], g[4], g[5], x, tk, sr, lc, y, d)


def agree(impl_c, model_c):
    if impl_c == model_c:
        return True
    if model_c.startswith("Fatal:*") and impl_c.startswith("Fatal:"):
        return impl_c.split(" ", 1)[1] == model_c.split(" ", 1)[1]
    return False


# ------------------------------------------------------------------ mode as negotiated (for the direct spec oracle)
def mode_after_hello(side, st, cfgname):
    """the mode a receiver is in once it accepted this hello (bytes + the implementation's own negotiated flags)"""
    post = st.post
    if post["v"] == 1:
        if st.t == SH and (st.hb >> 1) & 1:
            side.hrr_seen = True
            return None
        if st.t == CH and post["hs"] == 23 and post["hrr"]:
            side.hrr_seen = True
            return None
        psk = bool(post["upsk"])
        side.declined = bool(side.server and (st.hb & 8) and not psk)
        return {"v13": True, "server": side.server, "kex": "ecdhe", "cauth": side.server and side.cfg_cauth and not psk,
                "res": "yes" if psk else "none", "newticket": False, "ocsp": False, "hrr": side.hrr_seen,
                "early": bool(side.server and post["se"]), "dtls": False, "declined": side.declined}
    kex = ("dhepsk" if post["dhe"] else "psk") if post["psk"] else ("ecdhe" if post["dhe"] else "rsa")
    side.declined = bool(side.server and (st.hb & 16) and not post["resumed"])
    res = "yes" if post["resumed"] else ("maybe" if (not side.server and side.sent_ticket and post["tk"] != 3) else "none")
    return {"v13": False, "server": side.server, "kex": kex, "cauth": side.server and side.cfg_cauth and not post["resumed"], "res": res,
            "newticket": (not side.server) and post["tk"] == 3, "ocsp": (not side.server) and bool(post["sr"]), "hrr": False, "early": False,
            "dtls": bool(st.pre["dt"]), "declined": side.declined}


def run_chunks(ck, h, scripts, meta, chunk=120, workers=4):
    """run the scenarios in several harness processes; a process that dies tells which scenario killed it"""
    from concurrent.futures import ThreadPoolExecutor
    outs = [None] * len(scripts)
    crashed = []
    def work(lo):
        hi = min(lo + chunk, len(scripts))
        i = lo
        while i < hi:
            rc, o, err = ck.run_lines(h, SLOT_FILL + scripts[i:hi], timeout=1200)
            o = o[len(SLOT_FILL):]
            for k, line in enumerate(o[:hi - i]):
                outs[i + k] = line
            if len(o) >= hi - i:
                break
            bad = i + len(o)          # the scenario during which the process ended
            crashed.append((bad, rc))
            outs[bad] = "CRASH"
            i = bad + 1
    with ThreadPoolExecutor(max_workers=workers) as ex:
        list(ex.map(work, range(0, len(scripts), chunk)))
    for bad, rc in crashed:
        ck.spec_violation("crash:%s:%s:%s" % meta[bad], "the implementation crashed on a handshake deviation instead of answering with a fatal alert",
                          {"harness": "h_hs", "case": scripts[bad], "observed": "harness process ended (rc=%s)" % rc, "expected_by_spec": "fatal alert"})
    return [o if o is not None else "" for o in outs]


def run(ck):
    ck.trusted += ["Coq 8.16 kernel; extraction (ExtrOcamlBasic) + OCaml compiler for the driver",
                   "tools/srcgen/consts.sh (SSL_HS_*, alert numbers) and consts_hs.c (ticket states, build switches): compiled against the repo's headers",
                   "harness/h_hs.c + sess.h: message-level transport, re-sealing with the library's AES-GCM primitives under the receiver's read key / IV / sequence number, state snapshots through matrixsslImpl.h",
                   "hook verif_tls13CheckHsState (MATRIXSSL_VERIF, add-only) for the exhaustive TLS 1.3 gate sweep",
                   "body oracles of the live correspondence: hello attributes are read off the message bytes (TLS 1.3 selected, HelloRetryRequest) and the implementation's negotiated flags after the hello; Finished verdict off the alert (decrypt_error)"]
    ck.assumptions += ["rehandshakes compiled out, USE_OCSP_MUST_STAPLE, USE_STATELESS_SESSION_TICKETS, PSK and (EC)DHE suites compiled in (theorem c06_config_as_modelled over the regenerated Gen/ConstsHs.v)",
                       "message-level model: record coalescing / fragmentation of handshake messages is C08/C18's subject; alerts and application data between handshake messages are C01/C15's",
                       "DTLS: the property is read over the peer's message SEQUENCE as RFC 6347 4.2.2 numbers it.  A handshake message whose message_seq "
                       "is the one the receiver expects next (lastMsn + 1) is the next message of that sequence: if its type is not what the state allows, "
                       "that is a deviation and must be fatal.  A message with 0 < message_seq <= lastMsn is a retransmitted copy of a message that is "
                       "already part of the sequence, and one with message_seq > lastMsn + 1 arrived ahead of its predecessors: neither is a deviation; "
                       "both are dropped without a trace in the state, the transcript or the accepted sequence (the former may make the receiver "
                       "repeat its last flight), and never complete or advance a handshake (c06_dtls_old_or_future_dropped).  message_seq = 0 <= lastMsn "
                       "passes the implementation's first test and is then judged by its type like an expected message (refused, or dropped as a "
                       "retransmission when its type is not the expected one and lastMsn >= msn).  A ClientHello with an empty cookie on an unprotected "
                       "connection is answered statelessly with HelloVerifyRequest and is not part of the server's sequence (RFC 6347 4.2.1).  A "
                       "ChangeCipherSpec outside the state that expects it, or a second one before Finished, is skipped (datagram reordering / a "
                       "retransmitted flight, RFC 6347 4.1: records of a future epoch may be discarded): it changes nothing, so Finished before "
                       "ChangeCipherSpec still is fatal or dropped (c06_no_finished_before_ccs).  Loss, reordering liveness and the replay window are C16's.",
                       "DTLS fragment reassembly (at most MAX_FRAGMENTS = 16 fragments per message) is exercised on legal traces only; overlapping / "
                       "inconsistent fragments are C08's subject"]
    ck.build_repo()
    ck.regen([("consts.sh",)])
    ck.coq_properties()
    drv = ck.ocaml_driver("drv_c06", extract_vo="Extract/Extract_C06.vo", gen_ml=["m_c06"])
    h = ck.cc("h_hs.c", wraps=WRAPS)
    if drv is None:
        return

    # ---------------------------------------------------------------- (i) exhaustive gate sweeps
    g13 = ["gate13 %d %d" % (r, hs) for r in (0, 1) for hs in range(256)]
    g13_impl, g13_model = [], []
    rc, impl, err = ck.run_lines(h, g13)
    if impl and impl[0].startswith("g13:nohook"):
        ck.obligation("hook:verif_tls13CheckHsState", False, detail="the MATRIXSSL_VERIF hook of pending-fixes/HOOK-C06-tls13CheckHsState.patch is not in the tree")
    else:
        rc, model, _ = ck.run_lines(drv, [c.replace("gate13", "g13") for c in g13])
        g13_impl, g13_model = impl, model
        ck.correspond("gate13-exhaustive(256 types x 256 states x 2 roles)", g13, impl, model, nontrivial=lambda c, o: o.strip("g13:0") != "")
        ck.cov["evaluations"] += 256 * 512 - 512
        ck.cov["exhaustive"] = True
        ck.count("gate13:probes", 256 * 512)
    hsv = HS_VALUES + HS_NONVALUES
    g12 = ["gate12 %d %d" % (r, hs) for r in (0, 1) for hs in hsv]
    rc, impl, err = ck.run_lines(h, g12)
    rc, model, _ = ck.run_lines(drv, [c.replace("gate12", "g12") for c in g12])
    dis = ck.correspond("gate12-exhaustive(%d states x 256 types x 64 flag subsets x 2 roles)" % len(hsv), g12, impl, model,
                        nontrivial=lambda c, o: ":p" in o)
    ck.cov["evaluations"] += len(g12) * 64 * 256 - len(g12)
    ck.count("gate12:probes", len(g12) * 64 * 256)
    for i in dis[:3]:
        a, b = impl[i].split(" ; ") if i < len(impl) else [], model[i].split(" ; ") if i < len(model) else []
        for fb, (p, q) in enumerate(zip(a, b)):
            if p != q:
                ck.log("gate12 DISAGREE %s fb=%d\n   impl  %s\n   model %s" % (g12[i], fb, p[:300], q[:300]))
                break
    # the same gate on a DTLS session: flags x haveCookie x (lastMsn, message_seq) pairs covering every class (expected, zero, stale, future)
    g12d = ["gate12d %d %d" % (r, hs) for r in (0, 1) for hs in hsv]
    rc, impl_d, err = ck.run_lines(h, g12d)
    rc, model_d, _ = ck.run_lines(drv, [c.replace("gate12d", "g12d") for c in g12d])
    dis = ck.correspond("gate12-dtls-exhaustive(%d states x 256 types x 16 flag subsets x haveCookie x 10 (lastMsn, message_seq) pairs x 2 roles)" % len(hsv),
                        g12d, impl_d, model_d, nontrivial=lambda c, o: ":p" in o)
    ck.cov["evaluations"] += len(g12d) * 320 * 256 - len(g12d)
    ck.count("gate12d:probes", len(g12d) * 320 * 256)
    for i in dis[:3]:
        a, b = impl_d[i].split(" ; ") if i < len(impl_d) else [], model_d[i].split(" ; ") if i < len(model_d) else []
        for fb, (p, q) in enumerate(zip(a, b)):
            if p != q:
                ck.log("gate12d DISAGREE %s group=%d (flags %d, haveCookie %d, pair %d)\n   impl  %s\n   model %s" % (g12d[i], fb, fb // 20, (fb // 10) % 2, fb % 10, p[:300], q[:300]))
                break
    ck.rules.append("gate sweeps: every (role, hsState, message type[, flag subset][, haveCookie, message_seq class]) - exhaustive; non-trivial = the gate lets a type through")
    # cells where the implementation lets a type through that the model refuses: (v13, role, hsState, type) - histories for them come first
    cells = set()
    try:
        for c, a, b in zip(g13, g13_impl, g13_model):
            if a != b and a.startswith("g13:") and b.startswith("g13:"):
                _, r, hsx = c.split()
                ba, bb = bytes.fromhex(a[4:].strip()), bytes.fromhex(b[4:].strip())
                for m in range(256):
                    if (ba[m >> 3] >> (m & 7)) & 1 and not (bb[m >> 3] >> (m & 7)) & 1:
                        cells.add((1, int(r), int(hsx), m))
        for c, a, b in zip(g12, impl, model):
            if a != b:
                _, r, hsx = c.split()
                for p, q in zip(a.split(" ; "), b.split(" ; ")):
                    if p != q:
                        pa = set(re.findall(r"(\d+):p", p)); pb = set(re.findall(r"(\d+):p", q))
                        for m in pa - pb:
                            cells.add((0, int(r), int(hsx), int(m)))
        def passed(group):
            out = set()
            for a0, a1 in re.findall(r"(\d+)(?:-(\d+))?:p", group):
                out.update(range(int(a0), int(a1 or a0) + 1))
            return out
        for c, a, b in zip(g12d, impl_d, model_d):
            if a != b:
                _, r, hsx = c.split()
                for p, q in zip(a.split(" ; "), b.split(" ; ")):
                    if p != q:
                        for m in passed(p) - passed(q):
                            cells.add((0, int(r), int(hsx), int(m)))
    except Exception as ex:
        ck.log("gate cells: %r" % (ex,))
    if cells:
        ck.log("gate cells the implementation passes and the model refuses (v13, server, hsState, type): %s" % sorted(cells)[:12])

    # ---------------------------------------------------------------- corpus: the witnesses of the defects found
    corpus = []
    cdir = os.path.join(vlib.VERIF, "corpus", "C06")
    if os.path.isdir(cdir):
        for f in sorted(os.listdir(cdir)):
            if f.endswith(".case"):
                for line in open(os.path.join(cdir, f)):
                    line = line.strip()
                    if line and not line.startswith("#"):
                        corpus.append((f, line))

    # ---------------------------------------------------------------- (ii) live traces and their deviations
    cfgs = QUICK if ck.tier == "quick" else list(CONFIGS)
    if ck.tier != "quick":
        # thorough: every configuration also with two further entropy seeds (other randoms, keys shares, ticket contents)
        for name in list(cfgs):
            pre, new = CONFIGS[name]
            if "seed=" not in new:
                for sd in (11, 12):
                    CONFIGS["%s#%d" % (name, sd)] = (pre, new + " seed=%d" % sd)
                    cfgs.append("%s#%d" % (name, sd))
    legal_scripts = []
    for name in cfgs:
        pre, new = CONFIGS[name]
        legal_scripts.append(" ; ".join(pre + ["new " + new, "mrun"]))
    rc, outs, err = ck.run_lines(h, SLOT_FILL + legal_scripts, timeout=600)
    outs = outs[len(SLOT_FILL):]
    scripts, meta, cons = [], [], []
    for fname, line in corpus:
        scripts.append(line); meta.append(("corpus:" + fname, -1, "corpus"))
    sub_types = [0, 1, 2, 3, 4, 11, 12, 13, 14, 15, 16, 20, 22, 24, 99]
    sub13 = [1, 2, 4, 5, 8, 11, 13, 15, 20, 24, 99]
    ins_types = [0, 1, 2, 3, 4, 5, 8, 11, 12, 13, 14, 15, 16, 20, 22, 24, 99]
    legal_len = {}
    for name, out in zip(cfgs, outs):
        pre, new = CONFIGS[name]
        npre = len(pre)
        segs = out.split(" | ")
        steps = parse_steps(segs[npre + 1]) if len(segs) > npre + 1 else []
        incomplete = name.split("#")[0] in HONEST_INCOMPLETE and not any(s.post and s.post["done"] for s in steps)
        isd = "dtls=1" in new
        if incomplete and steps:
            steps = [s for s in steps if not s.dead_before() and s.kind in ("H", "C")]
        if incomplete and steps:
            pass
        elif not steps or not steps[-1].post or not any(s.post["done"] for s in steps):
            ck.count("legal_trace_failed:" + name)
            ck.log("legal trace of %s did not complete: %s" % (name, out[-300:]))
            ck.obligation("legal-trace:" + name, False, detail="the honest handshake of configuration %s does not complete" % name)
            continue
        legal_len[name] = len(steps)
        base = pre + ["new " + new]
        scripts.append(" ; ".join(base + ["mrun"])); meta.append((name, -1, "legal"))
        is13 = "sv=4" in new and "cv=4" in new
        for k, stp in enumerate(steps):
            d = "c2s" if stp.side == "s" else "s2c"
            head = base + ["md %s" % ("c2s" if s.side == "s" else "s2c") for s in steps[:k]]
            devs = [("del", "mdel %s 0" % d), ("dup", "mdup %s 0" % d), ("swap", "mswap %s 0" % d), ("ccs", "mins %s 0 ccs" % d)]
            if name.split("#")[0] in LEGAL_ONLY:
                devs = []
            elif isd and stp.kind == "H":
                # DTLS: `dup` is a second copy with the NEXT message_seq (a deviation of the sequence); `retx` the same bytes again
                # with the SAME message_seq (a retransmission)
                devs.append(("retx", "mdup %s 0 stale" % d))
            if not devs:
                continue
            if stp.kind == "H":
                for t in (sub13 if stp.pre["v"] == 1 else sub_types):
                    if t != stp.t:
                        devs.append(("sub%d" % t, "msub %s 0 %d" % (d, t)))
            for t in ins_types:
                devs.append(("ins%d" % t, "mins %s 0 %d" % (d, t)))
            for sl in slots_for(d, bool(stp.pre["v"]), isd):
                devs.append(("inj%d" % sl, "mload %s 0 %d" % (d, sl)))
            for dn, cmd in devs:
                scripts.append(" ; ".join(head + [cmd, "mrun 40"])); meta.append((name, k, dn))
        # ---- consistent deviations by the sender (its own transcript follows the deviation)
        def sender_occ(k):
            snd = steps[k].side
            return sum(1 for s2 in steps[:k + 1] if s2.side == snd and s2.kind == "H" and s2.t == steps[k].t)
        cellset = set(c[:3] for c in cells)
        for k, stp in enumerate(steps):
            if stp.kind != "H" or stp.t == CH or name.split("#")[0] in LEGAL_ONLY:
                continue
            snd = "c" if stp.side == "s" else "s"
            d = "c2s" if stp.side == "s" else "s2c"
            tn = NAMES.get(stp.t, str(stp.t))
            pri = (stp.pre["v"], 1 if stp.side == "s" else 0, stp.pre["hs"]) in cellset
            cons.append((pri, " ; ".join(base + ["mtamper %s %d %d omit" % (snd, stp.t, sender_occ(k)), "mrun 60"]), (name, k, "omit:" + tn)))
            # ... and the next one or two handshake messages of the same sender with it (Certificate + CertificateVerify: the
            # client-authentication bypass; ServerKeyExchange + CertificateRequest; ...)
            run = [k]
            for j in range(k + 1, len(steps)):
                if steps[j].side != stp.side or steps[j].kind == "C":
                    continue
                if steps[j].kind != "H" or steps[j].t == CH or len(run) == 3:
                    break
                run.append(j)
                cons.append((pri, " ; ".join(base + ["mtamper %s %d %d omit" % (snd, steps[i].t, sender_occ(i)) for i in run] + ["mrun 60"]),
                             (name, k, "omit:" + "+".join(NAMES.get(steps[i].t, str(steps[i].t)) for i in run))))
            for sl in slots_for(d, bool(stp.pre["v"]), isd):
                sn = NAMES.get(SLOT_TYPE[sl], str(SLOT_TYPE[sl]))
                cons.append((False, " ; ".join(base + ["mtamper %s %d %d after %d" % (snd, stp.t, sender_occ(k), sl), "mrun 60"]), (name, k, "insert-after-%s:%s(slot%d)" % (tn, sn, sl))))
                cons.append((False, " ; ".join(base + ["mtamper %s %d %d instead %d" % (snd, stp.t, sender_occ(k), sl), "mrun 60"]), (name, k, "replace-%s:%s(slot%d)" % (tn, sn, sl))))
        # histories for the disagreeing gate cells: reach the state on this trace, then make the type arrive there consistently
        for (cv, crole, chs, ct) in sorted(cells):
            for k, stp in enumerate(steps):
                if stp.kind != "H" or stp.pre["v"] != cv or (1 if stp.side == "s" else 0) != crole or stp.pre["hs"] != chs or stp.t == ct:
                    continue
                snd = "c" if stp.side == "s" else "s"
                d = "c2s" if stp.side == "s" else "s2c"
                mine = [i for i in range(k, len(steps)) if steps[i].side == stp.side]
                later = [j for j in mine if j > k and steps[j].kind == "H" and steps[j].t == ct]
                if later:
                    between = [i for i in mine if i < later[0]]
                    if all(steps[i].kind == "H" and steps[i].t != CH for i in between):
                        cmds = ["mtamper %s %d %d omit" % (snd, steps[i].t, sender_occ(i)) for i in between]
                        cons.append((True, " ; ".join(base + cmds + ["mrun 60"]), (name, k, "omit:" + "+".join(NAMES.get(steps[i].t, str(steps[i].t)) for i in between))))
                for sl in slots_for(d, bool(cv), isd):
                    if SLOT_TYPE[sl] == ct:
                        cons.append((True, " ; ".join(base + ["mtamper %s %d %d instead %d" % (snd, stp.t, sender_occ(k), sl), "mrun 60"]), (name, k, "replace-%s:%s(slot%d)" % (NAMES.get(stp.t, stp.t), NAMES.get(ct, ct), sl))))
                # the bare type with an empty body, in place (no sender can be consistent with a message it cannot build)
                cons.append((True, " ; ".join(base + ["md %s" % ("c2s" if s2.side == "s" else "s2c") for s2 in steps[:k]] + ["mins %s 0 %d" % (d, ct), "mrun 40"]), (name, k, "cell-ins%d" % ct)))
        if incomplete:
            continue
        # after completion: renegotiation requests, late handshake messages, a further ChangeCipherSpec
        done = base + ["mrun"]
        for d in ("c2s", "s2c"):
            for t in ins_types:
                scripts.append(" ; ".join(done + ["mins %s 0 %d" % (d, t), "mrun 6"])); meta.append((name, 99, "post:ins%d" % t))
            scripts.append(" ; ".join(done + ["mins %s 0 ccs" % d, "mrun 6"])); meta.append((name, 99, "post:ccs"))
            for sl in slots_for(d, bool(steps[-1].post["v"]), isd):
                scripts.append(" ; ".join(done + ["mload %s 0 %d" % (d, sl), "mrun 6"])); meta.append((name, 99, "post:inj%d" % sl))
    # consistent deviations first (those aimed at a disagreeing gate cell before the others): their violations carry the replay
    seen = set()
    front_s, front_m = [], []
    for pri, sc, mt in sorted(cons, key=lambda x: not x[0]):
        if sc not in seen:
            seen.add(sc); front_s.append(sc); front_m.append(mt)
    ncorp = len(corpus)
    scripts = scripts[:ncorp] + front_s + scripts[ncorp:]
    meta = meta[:ncorp] + front_m + meta[ncorp:]
    ck.count("scripts:consistent-deviations", len(front_s))
    ck.log("live: %d configurations, %d scripts (%d consistent deviations)" % (len(legal_len), len(scripts), len(front_s)))
    outs = run_chunks(ck, h, scripts, meta)

    cases, obs, back = [], [], []
    for si, out in enumerate(outs):
        name, k, dn = meta[si]
        new = None
        segs = out.split(" | ")
        cmds = scripts[si].split(" ; ")
        sides = None
        for ci, seg in enumerate(segs):
            cmd = cmds[ci] if ci < len(cmds) else ""
            if cmd.startswith("new "):
                cauth = "cauth=1" in cmd
                sides = {"s": Side(True, cauth, False), "c": Side(False, False, "ticket=1" in cmd and "resume=1" in cmd)}
                continue
            if sides is None:
                continue
            for st in parse_steps(seg):
                if st.pre is None or st.post is None:
                    continue
                side = sides[st.side]
                tag = "dtls" if st.dtls() else ("13" if st.pre["v"] else "12")
                ck.count("%s:%s" % (tag, "accepted" if st.logged() else ("fatal" if st.fatal() else "other")))
                if st.dtls() and st.kind in ("H", "C") and st.accepted() and not st.logged():
                    ck.count("dtls:%s" % {"Drop:1": "dropped(retransmission,resend-requested)", "Drop:0": "dropped(silently)", "Hvr": "answered-with-HelloVerifyRequest"}.get(st.outcome(), st.outcome()))
                # ---- model correspondence (handshake messages and ChangeCipherSpec in the form the receiver reads)
                if st.kind in ("H", "C") and st.form in ("p", "s"):
                    cases.append(model_case(st)); obs.append(observed(st)); back.append((si, st))
                # ---- direct spec oracle
                if st.kind == "R" and st.t == 22 and st.accepted():
                    # a protected handshake record the harness cannot open (CBC / ChaCha suite): the honest peer's Finished when it
                    # completes the handshake, otherwise unknown content - the sequence of this side can no longer be judged
                    if st.post["done"] and not st.pre["done"]:
                        side.acc.append(FIN)
                    else:
                        side.opaque = True
                # DTLS (the reading in ck.assumptions): a handshake message that carries the message_seq the receiver expects next is the
                # next message of the peer's sequence; if no legal sequence of the negotiated mode continues with its type, the answer
                # must be a fatal alert - not a silent drop (that is for retransmissions), and not acceptance (judged below)
                if (st.dtls() and st.kind == "H" and st.form in ("p", "s") and st.g == st.t and side.md is not None and not side.opaque and not side.flagged
                        and not st.dead_before() and not st.pre["done"] and st.msn == st.pre["lm"] + 1 and st.outcome().startswith("Drop")
                        and not is_legal_prefix(side.md, side.acc + [st.t])):
                    seq = ",".join(str(x) for x in side.acc)
                    sig = "deviation-dropped:dtls:%s:after=%s:msg=%s" % ("server" if side.server else "client",
                                                                         NAMES.get(side.acc[-1], side.acc[-1]) if side.acc else "-", NAMES.get(st.t, st.t))
                    ck.spec_violation(sig, "a DTLS %s silently dropped %s although it carried the expected message_seq %d and no legal sequence continues with it (accepted so far: %s): "
                                      "a deviation of the peer's sequence must be fatal" % ("server" if side.server else "client", NAMES.get(st.t, st.t), st.msn, seq),
                                      {"harness": "h_hs", "case": scripts[si], "observed": "dropped, no alert; accepted so far: " + seq, "mode": side.md, "expected_by_spec": "fatal alert"})
                if st.kind in ("H", "C") and st.logged() and not (st.kind == "C" and st.pre["v"] == 1):
                    hl = 12 if st.dtls() else 4
                    if st.kind == "C":
                        what = "C"
                    elif st.t == CERT and side.server and st.l <= hl + 4:
                        what = CERT0
                    elif st.dtls() and st.t == CH and side.server and st.g == st.t and not (st.hb & 4):
                        what = "CH0"         # a cookie-less ClientHello the server went on with
                    else:
                        what = st.t
                    side.acc.append(what)
                    if st.kind == "H" and st.t == (CH if side.server else SH) and st.g == st.t and what != "CH0":
                        md = mode_after_hello(side, st, name)
                        if md is not None:
                            side.md = md
                    if side.md is not None and not side.opaque and not side.flagged and not is_legal_prefix(side.md, side.acc):
                        side.flagged = True      # the first message outside the grammar is the finding; completion is judged separately
                        seq = ",".join(str(x) for x in side.acc)
                        sig = "accepted-outside-grammar:%s:%s:after=%s:msg=%s" % ("13" if side.md["v13"] else "12", "server" if side.server else "client",
                                                                                   NAMES.get(side.acc[-2], side.acc[-2]) if len(side.acc) > 1 else "-", NAMES.get(side.acc[-1], side.acc[-1]))
                        ck.spec_violation(sig, "a %s accepted %s where no legal sequence of the negotiated mode allows it (accepted so far: %s)" % (
                            "server" if side.server else "client", NAMES.get(side.acc[-1], side.acc[-1]), seq),
                            {"harness": "h_hs", "case": scripts[si], "observed": "accepted: " + seq, "mode": side.md, "expected_by_spec": "fatal alert"})
                if st.post["done"] and not st.pre["done"] and not side.done_checked:
                    side.done_checked = True
                    seq = ",".join(str(x) for x in side.acc)
                    ck.count("completed:" + tag)
                    if side.md and side.md.get("declined"):
                        ck.count("completed:after-a-declined-offer(%s%s)" % (tag, ",client-auth" if side.md["cauth"] else ""))
                    if side.opaque:
                        ck.count("completed:not-judged(opaque records)")
                    elif side.md is None or not is_legal(side.md, side.acc):
                        sig = "complete-illegal:%s:%s" % (name, dn)
                        ck.spec_violation(sig, "a %s reported handshake completion after accepting %s, which is not a legal sequence of the negotiated mode" % (
                            "server" if side.server else "client", seq),
                            {"harness": "h_hs", "case": scripts[si], "observed": "complete after: " + seq, "mode": side.md, "expected_by_spec": "no completion"})
    rc, model, err = ck.run_lines(drv, cases)
    impl_c = [canon(o, back[i][1].pre["sv"], back[i][1].dtls()) for i, o in enumerate(obs)]
    model_c = [canon(o, back[i][1].pre["sv"] if i < len(back) else 0, back[i][1].dtls() if i < len(back) else False) for i, o in enumerate(model)]
    # the wildcard of the model (handler-chosen alert) is resolved against the observation before the comparison
    model_r = [(i_c if agree(i_c, m_c) else m_c) for i_c, m_c in zip(impl_c, model_c)] + model_c[len(impl_c):]
    dis = ck.correspond("live-steps(model vs implementation, every delivery)", cases, impl_c, model_r,
                        nontrivial=lambda c, o: not o.startswith("Refuse"))
    classes = {}
    for i in dis:
        key = "%s || %s" % (impl_c[i], model_c[i] if i < len(model_c) else None)
        classes.setdefault(key, []).append(i)
    for key, v in sorted(classes.items(), key=lambda kv: -len(kv[1]))[:20]:
        si, st = back[v[0]]
        ck.log("DISAGREE-CLASS x%d impl || model: %s\n      e.g. [%s] %s\n      case %s" % (len(v), key, "/".join(str(x) for x in meta[si]), scripts[si][-200:], cases[v[0]]))
    ck.rules.append("live: per configuration the honest trace, and at every position delete / duplicate / swap / retype to each type / insert each type / "
                    "inject a genuine message of another mode / insert ChangeCipherSpec, then everything that is still queued; after completion the same "
                    "insertions; protected flights re-sealed for the receiver; non-trivial = the receiver was still alive when the message arrived.  "
                    "DTLS sessions: the same with 12-byte handshake headers, message_seq numbered as the deviating SENDER would number its sequence "
                    "(every delivered message gets the next number), plus `retx`: a copy with its old number; records re-sealed with epoch / sequence "
                    "number; retransmission by the library is held back (it is asked for and counted)")

    # ---------------------------------------------------------------- grammar cross-check: Python figures vs Coq [completeb]
    lg_cases, lg_expect = [], []
    modes = []
    for sv in (0, 1):
        for v13 in (0, 1):
            modes.append((sv, v13))
    def item(t, body):
        return "C" if t == "C" else "%d:%s" % (t, body)
    def cfg_tok(md, cauth, tick):
        if md.get("dtls"):
            return ("DS %d" % cauth) if md["server"] else ("DC %d" % tick)
        return ("S %d %d 0" % (md["v13"], cauth)) if md["server"] else ("C %d %d" % (md["v13"], tick))
    for v13, dtls in ((False, False), (True, False), (False, True)):
        for server in (False, True):
            for cauth in (False, True):
                for variant in range(24):
                    if v13:
                        hrr, psk, early = variant & 1, (variant >> 1) & 1, (variant >> 2) & 1
                        if variant >= 8:
                            continue
                        md = {"v13": True, "server": server, "kex": "ecdhe", "cauth": server and cauth and not psk, "res": "yes" if psk else "none",
                              "newticket": False, "ocsp": False, "hrr": bool(hrr), "early": bool(server and early and psk and not hrr), "dtls": False}
                        hello = "H13:0%d%d" % (psk, early)
                        tick = 0
                    else:
                        r, p, d, tk, st = variant & 1, (variant >> 1) & 1, (variant >> 2) & 1, (variant >> 3) & 1, 0
                        if variant >= 16:
                            continue
                        tick = 1 if tk else 0
                        kex = ("dhepsk" if d else "psk") if p else ("ecdhe" if d else "rsa")
                        md = {"v13": False, "server": server, "kex": kex, "cauth": server and cauth and not r, "res": "yes" if r else "none",
                              "newticket": (not server) and bool(tk), "ocsp": False, "hrr": False, "early": False, "dtls": dtls}
                        hello = "H12:%d%d%d%d0" % (r, p, d, tk)
                    ht = CH if server else SH
                    hello_alts = [(hello, 0)]
                    if server and ((v13 and not psk) or (not v13 and not r)):
                        # the same mode reached by a ClientHello whose offer was declined
                        hello_alts.append((("D13:0" if v13 else "D12:%d%d" % (p, d)), 1))
                    for hello, dcl in hello_alts:
                      for seq in legal_sequences(md):
                        for mut in range(3):
                            s2 = list(seq)
                            if mut == 1 and len(s2) > 2:
                                del s2[len(s2) // 2]
                            if mut == 2:
                                s2.insert(len(s2) // 2, s2[len(s2) // 2])
                            toks, first = [], True
                            hello_seen = 0
                            for t in s2:
                                if t == "CH0":
                                    toks.append(item(CH, "NC"))
                                elif t == ht:
                                    hello_seen += 1
                                    if md["v13"] and md["hrr"] and hello_seen == 1:
                                        toks.append(item(t, "H13:100"))
                                    else:
                                        toks.append(item(t, hello))
                                elif t == FIN:
                                    toks.append(item(t, "N1"))
                                else:
                                    toks.append(item(t, "P"))
                            lg_cases.append("lg %s %s" % (cfg_tok(md, 1 if cauth else 0, tick), " ".join(toks)))
                            # the hello count decides whether the Coq side sees the same mode; only compare when it does
                            nh = sum(1 for t in s2 if t == ht)
                            want_h = 2 if (md["v13"] and md["hrr"]) else 1
                            okc = 1 if (is_legal(md, s2) and nh == want_h) else 0
                            lg_expect.append("complete=%d%s" % (okc, (" declined=%d" % dcl) if okc else ""))
    rc, lg_out, _ = ck.run_lines(drv, lg_cases)
    def lg_view(o):
        c = o.split(" ")[0]
        m = re.search(r"declined=(\d)", o)
        return c + ((" declined=" + m.group(1)) if (c.endswith("1") and m) else "")
    ck.correspond("grammar(Python figures vs Coq completeb; mode: offer declined)", lg_cases, lg_expect, [lg_view(o) for o in lg_out],
                  nontrivial=lambda c, o: "complete=1" in o)


def replay(ck, path):
    rp = json.load(open(path))["replay"]
    ck.build_repo()
    h = ck.cc("h_hs.c", wraps=WRAPS)
    rc, outs, err = ck.run_lines(h, SLOT_FILL + [rp["case"]])
    print("case:     ", rp["case"])
    print("observed: ", rp.get("observed"))
    print("expected: ", rp.get("expected_by_spec"))
    for seg in outs[-1].split(" | "):
        for st in parse_steps(seg):
            what = "accepted" if st.logged() else ("refused" if not st.accepted() else {"Drop:0": "dropped", "Drop:1": "dropped (retransmission)", "Hvr": "answered with HelloVerifyRequest", "Ignore": "ignored"}.get(st.outcome(), st.outcome()))
            seq = (" message_seq=%d (lastMsn %d)" % (st.msn, st.pre["lm"])) if (st.dtls() and st.kind == "H") else ""
            print("   %s %s%s%s %s -> hs=%s done=%s err=%s %s" % (st.side, st.kind, st.t, seq, what, st.post["hs"], st.post["done"], st.post["err"], "HSDONE" if st.hsdone else ""))
