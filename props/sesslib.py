"""Shared driver for the session-level properties (C01, C15, ...): runs scripted two-peer TLS
sessions through harness/h_sess.c, turns every record delivery / injection into an abstract step of
the Coq session machine (coq/Sess/SessModel.v) and compares the model's prediction with what the
library did (post-state flags + outcome).  Also yields the parsed steps for direct spec oracles."""
import re, os
import vlib

WRAPS = ["psGetBrokenDownGMTime", "psGetEntropy", "psGetPrngLocked", "psGetTime", "_psTrace", "_psTraceStr", "_psTraceInt", "_psTracePtr", "psTraceBytes", "csAesGcmEncryptTls13", "csChacha20Poly1305IetfEncryptTls13"]
NONE = 255  # SSL_ALERT_NONE

CONFIGS = {
    "tls12": "cv=3 sv=3",
    "tls13": "cv=4 sv=4",
    "tls13c_12s": "cv=3,4 sv=3",
    "tls12c_13s": "cv=3 sv=3,4",
    "tls11": "cv=2 sv=2",
    "tls12_cauth": "cv=3 sv=3 cauth=1 scb=1",
    "tls13_cauth": "cv=4 sv=4 cauth=1 scb=1",
    "tls12_cbc": "cv=3 sv=3 suite=c027",
    "tls12_rsa": "cv=3 sv=3 suite=003c",
    "tls13_chacha": "cv=4 sv=4 suite=1303",
    "tls12_ec": "cv=3 sv=3 key=ec suite=c02b",
    "tls13_big_cauth": "cv=4 sv=4 key=rsa4096 cauth=1 scb=1",
    "tls12_big_cauth": "cv=3 sv=3 key=rsa4096 cauth=1 scb=1",
    # resumed handshakes: a full handshake first (phase before '|'), then a second session offering the saved id / ticket
    "tls12_resumed_id": "cv=3 sv=3 | resume=1 keepkeys=1",
    "tls12_resumed_ticket": "cv=3 sv=3 ticket=1 | resume=1 keepkeys=1",
    "tls13_resumed_psk": "cv=4 sv=4 ticket=1 | resume=1 keepkeys=1",
    "tls13_resumed_early": "cv=4 sv=4 ticket=1 smaxed=5000 | resume=1 keepkeys=1",      # the client may send 0-RTT data, the server accepts it
    "tls13_extpsk": "cv=4 sv=4 psk=1 smaxed=1000 suite=1301",                            # external PSK: client may send 0-RTT, server rejects and skips
}


def newcmd(cfg, seed):
    """script prefix that creates the session(s) of a configuration"""
    if "|" in cfg:
        first, second = [x.strip() for x in cfg.split("|")]
        return "new %s seed=%d ; hs ; new %s %s seed=%d" % (first, seed, first, second, seed + 1000)
    return "new %s seed=%d" % (cfg, seed)

SNAP_RE = re.compile(r"v=(\d),sv=(\d),hs=(\d+),f=([ECRW]*),done=(\d),err=(\d+),ed=(\d+):(\d+):(\d+),lb=(\d),ig=(-?\d+),ce=(\d),se=(\d),ae=(\d),bs=(\d+),ms=(\d+),cl=(\d),np=(\d)")

def parse_snap(s):
    m = SNAP_RE.match(s)
    if not m:
        return None
    g = m.groups()
    return {"v": int(g[0]), "sv": int(g[1]), "hs": int(g[2]), "E": "E" in g[3], "C": "C" in g[3], "R": "R" in g[3], "W": "W" in g[3],
            "done": int(g[4]), "err": int(g[5]), "edskip": int(g[6]), "edseen": int(g[7]), "edmax": int(g[8]), "lb": int(g[9]),
            "ig": int(g[10]), "ce": int(g[11]), "se": int(g[12]), "ae": int(g[13]), "bs": int(g[14]), "ms": int(g[15]), "cl": int(g[16]), "np": int(g[17])}

def st_fields(p):
    return "%d %d %d %d %d %d %d %d %d %d %d %d %d %d %d %d" % (p["v"], p["sv"], p["hs"], p["R"], p["W"], p["E"], p["C"], p["edskip"], p["edseen"],
                                                                p["edmax"], p["lb"], p["ig"], p["ce"], p["se"], p["cl"], p["np"])

class Step:
    """one delivery of bytes to a side, as logged by h_sess"""
    def __init__(self, kind, side, pre, post, body, meta):
        self.kind, self.side, self.pre, self.post, self.body, self.meta = kind, side, pre, post, body, meta
        self.events = body
        self.appdata = re.findall(r"APPDATA:([0-9a-f-]+)", body)
        self.alerts_in = [(int(a), int(b)) for a, b in re.findall(r"ALERT:(-?\d+):(-?\d+)", body)]
        self.errs = [int(x) for x in re.findall(r"(?<![\w:])E(-\d+)", body)]
        # matrixSslGetReadbuf refusing to take more bytes (0 / negative): the dead session holds undecoded input
        self.errs += [-1000 + int(x) for x in re.findall(r"rb:E(-?\d+)", body)]
        self.sent = "SEND" in body or "out=[" in body
        self.out_recs = [tuple(int(x) for x in r.split(":")) for r in re.findall(r"(\d+:-?\d+:\d+),", " ".join(re.findall(r"out=\[([^\]]*)\]", body)))]
        self.hsdone = "HSDONE" in body

    def observed(self):
        """outcome class as the implementation showed it"""
        if self.appdata:
            return "Deliver"
        if self.alerts_in:
            return "AlertIn:%d:%d" % self.alerts_in[0]
        if self.post["err"] != NONE and self.pre["err"] == NONE:
            return "AlertOut:%d" % self.post["err"]
        if self.errs and not self.sent:
            return "Refuse"
        return None   # Handshake / Ignored decided with the record type

STEP_RE = re.compile(r"(step|inj|replay):([cs]) pre=(\S+) (.*?)post=(\S+)")
META_RE = re.compile(r"\[o=(\d+) i=(-?\d+) s=(-?\d+) l=(\d+) b=([0-9a-f]{4})(?: e=(\d))?\]")

def parse_steps(segment):
    out = []
    for m in STEP_RE.finditer(segment):
        kind, side, pre, body, post = m.groups()
        mm = META_RE.search(body)
        meta = None
        if mm:
            meta = {"o": int(mm.group(1)), "i": int(mm.group(2)), "s": int(mm.group(3)), "l": int(mm.group(4)),
                    "b0": int(mm.group(5)[:2], 16), "b1": int(mm.group(5)[2:], 16), "e": int(mm.group(6) or 0)}
        out.append(Step(kind, side, parse_snap(pre), parse_snap(post), body, meta))
    return out

# ------------------------------------------------------------------ attacker records
def rec_bytes(t, body, ver=(3, 3)):
    return bytes([t, ver[0], ver[1], len(body) >> 8, len(body) & 255]) + body

def attacker_records(r):
    """(name, raw bytes, abstract description dict) - everything an attacker without keys can make"""
    A = []
    A.append(("plain_app", rec_bytes(23, b"hello"), dict(hdr="ok", outer=23, prot="plain", inner=23, l=5)))
    A.append(("plain_app_long", rec_bytes(23, bytes(range(64))), dict(hdr="ok", outer=23, prot="plain", inner=23, l=64)))
    A.append(("plain_alert_fatal", rec_bytes(21, bytes([2, 40])), dict(hdr="ok", outer=21, prot="plain", inner=21, lvl=2, desc=40, l=2)))
    A.append(("plain_alert_warn", rec_bytes(21, bytes([1, 90])), dict(hdr="ok", outer=21, prot="plain", inner=21, lvl=1, desc=90, l=2)))
    A.append(("plain_close_notify", rec_bytes(21, bytes([1, 0])), dict(hdr="ok", outer=21, prot="plain", inner=21, lvl=1, desc=0, l=2)))
    A.append(("long_alert", rec_bytes(21, bytes([2, 40]) + bytes(20)), dict(hdr="ok", outer=21, prot="plain", inner=21, lvl=2, desc=40, l=22)))
    A.append(("ccs", rec_bytes(20, b"\x01"), dict(hdr="ok", outer=20, prot="plain", inner=20, ccs_ok=1, l=1)))
    A.append(("ccs_bad", rec_bytes(20, b"\x02"), dict(hdr="ok", outer=20, prot="plain", inner=20, ccs_ok=0, l=1)))
    A.append(("bad_type", rec_bytes(99, b"abc"), dict(hdr="type", outer=99, prot="plain", inner=99, l=3)))
    A.append(("bad_len0", rec_bytes(23, b""), dict(hdr="len", outer=23, prot="plain", inner=23, l=0)))
    A.append(("bad_len_big", bytes([23, 3, 3, 0xff, 0xff]), dict(hdr="len", outer=23, prot="plain", inner=23, l=65535)))
    A.append(("garbage_sealed", rec_bytes(23, bytes((7 * i + 3) & 255 for i in range(40))), dict(hdr="ok", outer=23, prot="bad", inner=23, l=40)))
    A.append(("garbage_hs", rec_bytes(22, bytes([99, 0, 0, 4, 1, 2, 3, 4])), dict(hdr="ok", outer=22, prot="plain", inner=22, l=8)))
    return A

def dec_line(pre, d, oracle):
    """model case for one step; d: abstract record description"""
    o = d["outer"]
    short = 1 if (o == 21 and d.get("l", 0) < 18) else 0
    okind, oh, orr, ow, ov, oresp, odesc = oracle
    tot = d.get("l", 0)
    # <= TLS 1.2: AEAD tag failure or CBC length not a block multiple (past the length sanity check) fail in decrypt() itself
    decfail = 1 if (d["prot"] != "good" and (pre["ae"] or (pre["bs"] > 1 and tot >= pre["ms"] + 1 + pre["bs"] and tot % pre["bs"] != 0))) else 0
    return "dec %s %s %d %d %s %d %d %d %d %d %d %d %d %d %s %d %d %d %d %d %d" % (
        st_fields(pre), d.get("hdr", "ok"), o, short, d["prot"], d.get("inner", o), d.get("ccs_ok", 1), d.get("alert_ok", 1),
        d.get("lvl", 0), d.get("desc", 0), d.get("overflow", 0), d.get("empty", 0), d.get("rlen", (d.get("l", 0) - 17) if d.get("l", 0) >= 17 else -1), decfail,
        okind, oh, orr, ow, ov, oresp, odesc)

def oracle_of(step, is_hs):
    """what the handshake layer answered, read off the implementation's post-state (only meaningful for handshake records)"""
    pre, post = step.pre, step.post
    resp = 1 if step.sent else 0
    if not is_hs:
        return ("fatal", 0, 0, 0, 0, 0, 0)
    fb = pre["v"] == 1 and post["v"] == 0
    if post["err"] != NONE and pre["err"] == NONE:
        return ("fbfatal" if fb else "fatal", 0, 0, 0, 0, 0, post["err"])
    return ("fb" if fb else "ok", post["hs"], int(post["R"]), int(post["W"]), post["v"], resp, 0)

def observed_line(step, is_hs):
    ob = step.observed()
    post = step.post
    if ob is None:
        ob = ("Handshake:%d" % (1 if step.sent else 0)) if is_hs else "Ignored"
    # once the session is flagged the handshake state is irrelevant (a handler may have moved it before failing)
    return "%s v=%d hs=%s R=%d W=%d E=%d C=%d eds=%d ig=%d lb=%d" % (ob, post["v"], "-" if post["E"] else str(post["hs"]), post["R"], post["W"], post["E"], post["C"],
                                                                      post["edseen"], post["ig"], post["lb"])

def describe_genuine(step, in_order=True, modified=False):
    """abstract description of a record produced by the honest peer"""
    m = step.meta
    sealed = m["s"] == 1
    d = dict(hdr="ok", outer=m["o"], inner=m["i"] if m["i"] >= 0 else m["o"], l=m["l"])
    d["prot"] = ("good" if (in_order and not modified) else "bad") if sealed else "plain"
    if sealed and m.get("e"):
        # 0-RTT data sealed under the client's early traffic key: verifies only at a server that accepted early data
        d["prot"] = "good" if (step.pre["se"] and in_order and not modified) else "bad"
    if m["o"] == 20:
        d["ccs_ok"] = 1 if (sealed or (m["b0"] == 1 and m["l"] == 1)) else 0     # body of a sealed CCS is not visible on the wire
    if m["o"] == 21 and not sealed:
        d["lvl"], d["desc"], d["alert_ok"] = m["b0"], m["b1"], 1 if m["l"] >= 2 else 0
    elif d["inner"] == 21 and step.alerts_in:
        d["lvl"], d["desc"] = step.alerts_in[0]
    if d["inner"] == 23 and step.appdata and step.appdata[0] == "-":
        d["empty"] = 1
    if sealed and step.pre["v"] == 1 and m["l"] == 17:
        d["empty"] = 1          # TLS 1.3: tag(16) + inner type only
    return d

def is_hs_record(pre, d):
    """does the record reach the handshake layer's type (for the oracle)? mirrors only the TYPE, not the gate"""
    if pre["v"] == 1:
        if d["outer"] == 20 or (d["outer"] == 21 and d.get("l", 0) < 18):
            return False
        if pre["R"]:
            return d["prot"] == "good" and d.get("inner") == 22
        return d["outer"] == 22
    return d["outer"] == 22 and (not pre["R"] or d["prot"] == "good")


class SessRun:
    def __init__(self, ck):
        self.ck = ck
        self.h = ck.cc("h_sess.c", wraps=WRAPS)
        self.drv = ck.ocaml_driver("drv_sess", extract_vo="Extract/Extract_Sess.vo", gen_ml=["m_sess"])

    def run(self, scripts):
        """run all scripts; if the harness process dies on one of them (a crash inside the library), report that script
        as a violation (the check must not silently lose the scenarios behind it) and carry on with the rest"""
        outs, start = [], 0
        while start < len(scripts):
            rc, out, err = self.ck.run_lines(self.h, scripts[start:], timeout=3000)
            outs += out[:len(scripts) - start]
            if len(out) >= len(scripts) - start:
                break
            bad = start + len(out)
            # the partial line (if any) belongs to the crashing script
            self.ck.log("h_sess died (rc=%s) on script %d: %s ... stderr=%s" % (rc, bad, scripts[bad][:200], err[-300:]))
            self.ck.spec_violation("harness-process-died:rc=%s" % rc,
                                   "the library crashed / the harness process died while running a scripted session (rc=%s)" % rc,
                                   {"harness": "h_sess", "script": scripts[bad], "stderr": err[-1500:]})
            outs = outs[:bad] + ["CRASHED"]
            start = bad + 1
        if os.environ.get("VERIF_DEBUG"):
            with open("/var/tmp/sess-debug-%s-%d.txt" % (self.ck.pid, len(scripts)), "w") as f:
                for a, b in zip(scripts, outs):
                    f.write(a + "\n  => " + b + "\n")
        return outs

    def legal_trace(self, cfg, seed=1, maxrec=40):
        """direction sequence ('c2s'/'s2c') of the records of a legal handshake of this configuration"""
        script = newcmd(cfg, seed)
        for _ in range(6):
            script += " ; step c2s 30 ; step s2c 30"
        out = self.run([script])[0]
        seq = []
        nskip = len(script.split(" ; ")) - 12       # segments of the session-creating prefix
        for seg in out.split(" | ")[nskip:]:
            for st in parse_steps(seg):
                seq.append("c2s" if st.side == "s" else "s2c")
        return seq, out


def prefix_script(cfg, seed, trace, k):
    s = newcmd(cfg, seed)
    for d in trace[:k]:
        s += " ; step %s" % d
    return s


def analyse(ck, sr, scripts, outs, tag, inj_desc):
    """turn every step/inj/replay of every script into a model case, run the model, compare.
    inj_desc: dict script_index -> list of abstract descriptions for the inj/replay steps of that script, in order.
    Returns list of (script_index, Step, desc) for spec oracles."""
    cases, observed, back = [], [], []
    for si, out in enumerate(outs):
        segs = out.split(" | ")
        if not segs or any(sg.strip().startswith("new:") and not sg.strip().startswith("new:0") for sg in segs):
            ck.count("scenario_setup_failed")
            continue
        inj_i = 0
        cmds = scripts[si].split(" ; ")
        modified = {"c2s": False, "s2c": False}     # head record of that queue was edited by `xor`
        for ci, seg in enumerate(segs):
            cmd = cmds[ci].split() if ci < len(cmds) else [""]
            if cmd[0] == "xor" and seg.startswith("xor:ok"):
                modified[cmd[1]] = True
            for st in parse_steps(seg):
                if st.pre is None or st.post is None:
                    continue
                if st.kind == "step":
                    if st.meta is None:
                        continue
                    dirn = "c2s" if st.side == "s" else "s2c"
                    d = describe_genuine(st, modified=modified[dirn])
                    st.modified = modified[dirn]
                    modified[dirn] = False
                else:
                    dl = inj_desc.get(si, [])
                    if inj_i >= len(dl):
                        continue
                    d = dict(dl[inj_i]); inj_i += 1
                    if d.get("outer") == 21 and d["prot"] != "plain" and st.alerts_in:
                        d["lvl"], d["desc"] = st.alerts_in[0]
                ishs = is_hs_record(st.pre, d)
                cases.append(dec_line(st.pre, d, oracle_of(st, ishs)))
                observed.append(observed_line(st, ishs))
                back.append((si, st, d))
                ck.count("%s:%s:%s" % ("13" if st.pre["v"] else "12", st.kind, (observed[-1].split()[0]).split(":")[0]))
    if sr.drv is None:
        return back
    rc, model, err = ck.run_lines(sr.drv, cases)
    # the ticket "in limbo" flag is owned by the handshake layer (an oracle in this model): not compared across handshake steps
    def lbnorm(x):
        x = re.sub(r" lb=\d", " lb=-", x) if x.startswith("Handshake") else x
        return re.sub(r" eds=(\d+)", lambda m: " eds=%d" % (int(m.group(1)) % (1 << 31)), x)      # 32-bit counter (printed mod 2^31)
    observed = [lbnorm(x) for x in observed]
    model = [lbnorm(x) for x in model]
    dis = ck.correspond(tag, cases, observed, model, nontrivial=lambda c, o: not o.startswith("Refuse"))
    classes = {}
    for i in dis:
        k = "%s||%s" % (observed[i], model[i] if i < len(model) else None)
        classes.setdefault(k, []).append(i)
    for k, v in sorted(classes.items(), key=lambda kv: -len(kv[1]))[:25]:
        ck.log("DISAGREE-CLASS x%d impl||model: %s   e.g. %s :: %s" % (len(v), k, scripts[back[v[0]][0]][-160:], cases[v[0]]))
    for i in dis[:3]:
        si, st, d = back[i]
        ck.log("DISAGREE script=%r\n   step=%s %s\n   case=%s\n   impl=%s\n   model=%s" % (scripts[si][:300], st.kind, st.body[:200], cases[i], observed[i], model[i] if i < len(model) else None))
    sr.last_dis = [(back[i], cases[i], observed[i], model[i] if i < len(model) else None) for i in dis]
    return back
