"""Shared driver for the session-level properties (C01, C15, ...): runs scripted two-peer TLS
sessions through harness/h_sess.c, turns every record delivery / injection into an abstract step of
the Coq session machine (coq/Sess/SessModel.v) and compares the model's prediction with what the
library did (post-state flags + outcome).  Also yields the parsed steps for direct spec oracles."""
import re, os
import vlib

WRAPS = ["psGetBrokenDownGMTime", "psGetEntropy", "psGetPrngLocked", "psGetTime", "_psTrace", "_psTraceStr", "_psTraceInt", "_psTracePtr", "psTraceBytes", "csAesGcmEncryptTls13", "csChacha20Poly1305IetfEncryptTls13"]
NONE = 255  # SSL_ALERT_NONE

CONFIGS = {
    "tls12": "cv=3 sv=3",
    "tls13": "cv=4 sv=4",
    "tls13c_12s": "cv=3,4 sv=3",
    "tls12c_13s": "cv=3 sv=3,4",
    "tls11": "cv=2 sv=2",
    "tls12_cauth": "cv=3 sv=3 cauth=1 scb=1",
    "tls13_cauth": "cv=4 sv=4 cauth=1 scb=1",
    "tls12_cbc": "cv=3 sv=3 suite=c027",
    "tls12_rsa": "cv=3 sv=3 suite=003c",
    "tls13_chacha": "cv=4 sv=4 suite=1303",
    "tls12_ec": "cv=3 sv=3 key=ec suite=c02b",
    "tls13_big_cauth": "cv=4 sv=4 key=rsa4096 cauth=1 scb=1",
    "tls12_big_cauth": "cv=3 sv=3 key=rsa4096 cauth=1 scb=1",
    # resumed handshakes: a full handshake first (phase before '|'), then a second session offering the saved id / ticket
    "tls12_resumed_id": "cv=3 sv=3 | resume=1 keepkeys=1",
    "tls12_resumed_ticket": "cv=3 sv=3 ticket=1 | resume=1 keepkeys=1",
    "tls13_resumed_psk": "cv=4 sv=4 ticket=1 | resume=1 keepkeys=1",
    "tls13_resumed_early": "cv=4 sv=4 ticket=1 smaxed=5000 | resume=1 keepkeys=1",      # the client may send 0-RTT data, the server accepts it
    "tls13_extpsk": "cv=4 sv=4 psk=1 smaxed=1000 suite=1301",                            # external PSK: client may send 0-RTT, server rejects and skips
}


# DTLS 1.2 / 1.0 sessions (`dtls=1`; minor 3 = DTLS 1.2, 2 = DTLS 1.0).  Kept apart from CONFIGS: C18 enumerates CONFIGS for its
# TLS chunking runs.  DTLS 1.0 is enabled in the default configuration (USE_TLS_1_1_AND_ABOVE + USE_DTLS).
DTLS_CONFIGS = {
    "dtls12": "cv=3 sv=3 dtls=1",                                   # ECDHE-RSA-AES128-GCM (AEAD)
    "dtls12_cbc": "cv=3 sv=3 dtls=1 suite=c027",                    # ECDHE-RSA-AES128-CBC-SHA256
    "dtls12_cauth": "cv=3 sv=3 dtls=1 cauth=1 scb=1",
    "dtls12_resumed_id": "cv=3 sv=3 dtls=1 | resume=1 keepkeys=1",
    "dtls10": "cv=2 sv=2 dtls=1",                                   # DTLS 1.0: CBC-SHA suites only
    "dtls12_rsa": "cv=3 sv=3 dtls=1 suite=003c",
    "dtls12_ec": "cv=3 sv=3 dtls=1 key=ec suite=c02b",
    "dtls12c_10s": "cv=2,3 sv=2 dtls=1",                            # a DTLS 1.2 client taken down to DTLS 1.0
}
ALL_CONFIGS = dict(CONFIGS); ALL_CONFIGS.update(DTLS_CONFIGS)

def is_dtls(cfg):
    return "dtls=1" in cfg

def wire_version(cfg):
    """record-header version bytes of the version this configuration negotiates (TLS 1.3 keeps 03 03 on the wire)"""
    first = cfg.split("|")[0]
    def minors(k):
        m = re.search(r"\b%s=([\d,]+)" % k, first)
        return [int(x) for x in m.group(1).split(",")] if m else [2, 3, 4]
    common = [v for v in minors("cv") if v in minors("sv")]
    neg = max(common) if common else 3
    if is_dtls(cfg):
        return (0xfe, 0xfd) if neg >= 3 else (0xfe, 0xff)
    return (3, 3) if neg >= 3 else (3, neg)


def script_version(script):
    """negotiated record version of the (last) session a script creates"""
    news = [c for c in script.split(" ; ") if c.startswith("new ")]
    return wire_version(news[-1][4:]) if news else (3, 3)


def newcmd(cfg, seed):
    """script prefix that creates the session(s) of a configuration"""
    if "|" in cfg:
        first, second = [x.strip() for x in cfg.split("|")]
        return "new %s seed=%d ; hs ; new %s %s seed=%d" % (first, seed, first, second, seed + 1000)
    return "new %s seed=%d" % (cfg, seed)

SNAP_RE = re.compile(r"v=(\d),sv=(\d),hs=(\d+),f=([ECRW]*),done=(\d),err=(\d+),ed=(\d+):(\d+):(\d+),lb=(\d),ig=(-?\d+),ce=(\d),se=(\d),ae=(\d),bs=(\d+),ms=(\d+),cl=(\d),np=(\d)"
                     r"(?:,dt=1,xe=(\d+),pc=(\d),ax=(\d),lr=(\d+),bm=([0-9a-f]+),fd=(\d),ol=(\d+),we=(\d+),rs=(\d),ca=(\d))?")

def parse_snap(s):
    m = SNAP_RE.match(s)
    if not m:
        return None
    g = m.groups()
    return {"v": int(g[0]), "sv": int(g[1]), "hs": int(g[2]), "E": "E" in g[3], "C": "C" in g[3], "R": "R" in g[3], "W": "W" in g[3],
            "done": int(g[4]), "err": int(g[5]), "edskip": int(g[6]), "edseen": int(g[7]), "edmax": int(g[8]), "lb": int(g[9]),
            "ig": int(g[10]), "ce": int(g[11]), "se": int(g[12]), "ae": int(g[13]), "bs": int(g[14]), "ms": int(g[15]), "cl": int(g[16]), "np": int(g[17]),
            # DTLS sessions only: expected epoch, parsedCCS, appDataExch, replay window, flightDone, pending output, write epoch, resumed, client auth
            "dt": 1 if g[18] is not None else 0, "xe": int(g[18] or 0), "pc": int(g[19] or 0), "ax": int(g[20] or 0), "lr": int(g[21] or 0),
            "bm": int(g[22] or "0", 16), "fd": int(g[23] or 0), "ol": int(g[24] or 0), "we": int(g[25] or 0), "rs": int(g[26] or 0), "ca": int(g[27] or 0)}

def st_fields(p):
    return "%d %d %d %d %d %d %d %d %d %d %d %d %d %d %d %d %d %d %d %d" % (p["v"], p["sv"], p["hs"], p["R"], p["W"], p["E"], p["C"], p["edskip"], p["edseen"],
                                                                            p["edmax"], p["lb"], p["ig"], p["ce"], p["se"], p["cl"], p["np"],
                                                                            p["dt"], p["xe"], p["pc"], p["ax"])

class Step:
    """one delivery of bytes to a side, as logged by h_sess"""
    def __init__(self, kind, side, pre, post, body, meta):
        self.kind, self.side, self.pre, self.post, self.body, self.meta = kind, side, pre, post, body, meta
        self.events = body
        self.appdata = re.findall(r"APPDATA:([0-9a-f-]+)", body)
        self.alerts_in = [(int(a), int(b)) for a, b in re.findall(r"ALERT:(-?\d+):(-?\d+)", body)]
        self.errs = [int(x) for x in re.findall(r"(?<![\w:])E(-\d+)", body)]
        # matrixSslGetReadbuf refusing to take more bytes (0 / negative): the dead session holds undecoded input
        self.errs += [-1000 + int(x) for x in re.findall(r"rb:E(-?\d+)", body)]
        self.sent = "SEND" in body or "out=[" in body
        self.out_recs = [tuple(int(x) for x in r.split(":")) for r in re.findall(r"(\d+:-?\d+:\d+),", " ".join(re.findall(r"out=\[([^\]]*)\]", body)))]
        self.hsdone = "HSDONE" in body

    def observed(self):
        """outcome class as the implementation showed it"""
        if self.appdata:
            return "Deliver"
        if self.alerts_in:
            return "AlertIn:%d:%d" % self.alerts_in[0]
        if self.post["err"] != NONE and self.pre["err"] == NONE:
            return "AlertOut:%d" % self.post["err"]
        if self.errs and not self.sent:
            return "Refuse"
        if "RESEND " in self.body:
            return "Resend"       # DTLS_RETRANSMIT: MATRIXSSL_REQUEST_SEND with nothing encoded
        return None   # Handshake / Ignored decided with the record type

STEP_RE = re.compile(r"(step|inj|replay):([cs]) pre=(\S+) (.*?)post=(\S+)")
META_RE = re.compile(r"\[o=(\d+) i=(-?\d+) s=(-?\d+) l=(\d+) b=([0-9a-f]{4})(?: e=(\d))?(?: ep=(\d+) sq=(\d+) dg=(\d) vr=([0-9a-f]{4}))?\]")

def parse_steps(segment):
    out = []
    for m in STEP_RE.finditer(segment):
        kind, side, pre, body, post = m.groups()
        mm = META_RE.search(body)
        meta = None
        if mm:
            meta = {"o": int(mm.group(1)), "i": int(mm.group(2)), "s": int(mm.group(3)), "l": int(mm.group(4)),
                    "b0": int(mm.group(5)[:2], 16), "b1": int(mm.group(5)[2:], 16), "e": int(mm.group(6) or 0)}
            if mm.group(7) is not None:       # DTLS record: epoch, sequence number (low 32 bits), last record of its datagram
                meta.update({"ep": int(mm.group(7)), "sq": int(mm.group(8)), "dg": int(mm.group(9)), "vr": (int(mm.group(10)[:2], 16), int(mm.group(10)[2:], 16))})
        out.append(Step(kind, side, parse_snap(pre), parse_snap(post), body, meta))
    return out

# ------------------------------------------------------------------ attacker records
def rec_bytes(t, body, ver=(3, 3)):
    return bytes([t, ver[0], ver[1], len(body) >> 8, len(body) & 255]) + body

def drec_bytes(t, body, ver, ep, sq, length=None):
    """DTLS record: type, version, epoch(2), sequence number(6), length(2), body"""
    n = len(body) if length is None else length
    return bytes([t, ver[0], ver[1], ep >> 8, ep & 255]) + int(sq).to_bytes(6, "big") + bytes([n >> 8, n & 255]) + body

ATTACKER_KINDS = [
    # name, record type, body, abstract description
    ("plain_app", 23, b"hello", dict(hdr="ok", outer=23, prot="plain", inner=23, l=5)),
    ("plain_app_long", 23, bytes(range(64)), dict(hdr="ok", outer=23, prot="plain", inner=23, l=64)),
    ("plain_alert_fatal", 21, bytes([2, 40]), dict(hdr="ok", outer=21, prot="plain", inner=21, lvl=2, desc=40, l=2)),
    ("plain_alert_fatal_noreneg", 21, bytes([2, 100]), dict(hdr="ok", outer=21, prot="plain", inner=21, lvl=2, desc=100, l=2)),   # a fatal alert kills whatever its description
    ("plain_alert_warn", 21, bytes([1, 90]), dict(hdr="ok", outer=21, prot="plain", inner=21, lvl=1, desc=90, l=2)),
    ("plain_close_notify", 21, bytes([1, 0]), dict(hdr="ok", outer=21, prot="plain", inner=21, lvl=1, desc=0, l=2)),
    ("long_alert", 21, bytes([2, 40]) + bytes(20), dict(hdr="ok", outer=21, prot="plain", inner=21, lvl=2, desc=40, l=22)),
    ("ccs", 20, b"\x01", dict(hdr="ok", outer=20, prot="plain", inner=20, ccs_ok=1, l=1)),
    ("ccs_bad", 20, b"\x02", dict(hdr="ok", outer=20, prot="plain", inner=20, ccs_ok=0, l=1)),
    ("bad_type", 99, b"abc", dict(hdr="type", outer=99, prot="plain", inner=99, l=3)),
    ("bad_len0", 23, b"", dict(hdr="len", outer=23, prot="plain", inner=23, l=0)),
    ("bad_len_big", 23, None, dict(hdr="len", outer=23, prot="plain", inner=23, l=65535)),        # header only, length field ff ff
    ("garbage_sealed", 23, bytes((7 * i + 3) & 255 for i in range(40)), dict(hdr="ok", outer=23, prot="bad", inner=23, l=40)),
    ("garbage_hs", 22, bytes([99, 0, 0, 4, 1, 2, 3, 4]), dict(hdr="ok", outer=22, prot="plain", inner=22, l=8)),
]

def other_version(ver):
    """a RECOGNISED record version different from the negotiated one (psVerFromEncodingMajMin knows it)"""
    if ver[0] == 0xfe:
        return (0xfe, 0xff) if ver == (0xfe, 0xfd) else (0xfe, 0xfd)
    return (3, 2) if ver == (3, 3) else (3, 3)

def attacker_records(cfg):
    """(name, raw bytes, abstract description dict) - everything an attacker without keys can make, framed with the record
    version the configuration negotiates (validateRecordHdrVersion refuses any other version once the version is negotiated).
    `wrong_version` is the explicit exception: its description says hdr="ver?", resolved per state by version_tolerant()."""
    ver = wire_version(cfg) if cfg else (3, 3)
    A = []
    for name, t, body, d in ATTACKER_KINDS:
        raw = bytes([t, ver[0], ver[1], 0xff, 0xff]) if body is None else rec_bytes(t, body, ver)
        A.append((name, raw, dict(d)))
    A.append(("wrong_version", rec_bytes(21, bytes([1, 90]), other_version(ver)),
              dict(hdr="ver?", outer=21, prot="plain", inner=21, lvl=1, desc=90, l=2)))
    return A

def version_tolerant(pre):
    """validateRecordHdrVersion (sslDecode.c 85-179): the record version is compared with the negotiated one only when
    hsState != SSL_HS_CLIENT_HELLO and version negotiation is complete; TLS 1.3 ignores it.  The negotiated bit is set by the
    ClientHello / ServerHello handlers, i.e. it is clear exactly while a server still expects ClientHello (hsState 1) and while a
    client still expects ServerHello (hsState 2; also after a DTLS HelloVerifyRequest)."""
    if pre["v"] == 1:
        return True
    return pre["hs"] == 1 if pre["sv"] else pre["hs"] == 2

DTLS_EPSQ_KINDS = ("plain_app", "plain_alert_fatal", "plain_close_notify", "ccs", "garbage_sealed", "garbage_hs")

def dtls_attacker_records(cfg, xe, lr, full=True):
    """DTLS framing of the attacker records for a receiver whose expected epoch is xe and whose replay window ends at lr.
    Every kind with (current epoch, fresh sequence number); the kinds of DTLS_EPSQ_KINDS additionally with every other
    combination of epoch in {0, current, current+1} and sequence number in {fresh, replayed, far ahead}; plus a record longer
    than its datagram and a wrong-version record.  Whether a sequence number is fresh or a duplicate is decided at analysis
    time from the receiver's window (win_fresh)."""
    ver = wire_version(cfg)
    seqs = (("fresh", lr + 1), ("replayed", lr), ("far", lr + 1000))
    eps = sorted(set((0, xe, xe + 1)))
    A = []
    for name, t, body, d in ATTACKER_KINDS:
        for ep in eps:
            for sn, sq in seqs:
                main = (ep == xe and sn == "fresh")
                if not main and not (full and name in DTLS_EPSQ_KINDS):
                    continue
                dd = dict(d); dd["ep"] = ep; dd["sq"] = sq
                raw = drec_bytes(t, b"", ver, ep, sq, 0xffff) if body is None else drec_bytes(t, body, ver, ep, sq)
                A.append(("%s@e%s/%s" % (name, "cur" if ep == xe else ("0" if ep == 0 else "next"), sn), raw, dd))
    A.append(("truncated@ecur/fresh", drec_bytes(23, b"0123456789", ver, xe, lr + 1, 100),
              dict(hdr="trunc", outer=23, prot="plain", inner=23, l=100, ep=xe, sq=lr + 1)))
    A.append(("wrong_version@ecur/fresh", drec_bytes(21, bytes([1, 90]), other_version(ver), xe, lr + 1),
              dict(hdr="ver?", outer=21, prot="plain", inner=21, lvl=1, desc=90, l=2, ep=xe, sq=lr + 1)))
    return A

def win_fresh(lr, bm, sq, width=32):
    """RFC 6347 4.1.2.6 sliding window: is sequence number sq new for a window whose right edge is lr with bitmap bm?"""
    sq &= 0xffffffff
    if sq > lr:
        return True
    d = lr - sq
    return d < width and not (bm >> d) & 1

def dec_line(pre, d, oracle):
    """model case for one step; d: abstract record description"""
    o = d["outer"]
    short = 1 if (o == 21 and d.get("l", 0) < 18) else 0
    okind, oh, orr, ow, ov, oresp, odesc = oracle
    tot = d.get("l", 0)
    # <= TLS 1.2: AEAD tag failure or CBC length not a block multiple (past the length sanity check) fail in decrypt() itself
    decfail = 1 if (d["prot"] != "good" and (pre["ae"] or (pre["bs"] > 1 and tot >= pre["ms"] + 1 + pre["bs"] and tot % pre["bs"] != 0))) else 0
    return "dec %s %s %d %d %s %d %d %d %d %d %d %d %d %d %d %s %s %d %d %d %d %d %d" % (
        st_fields(pre), d.get("hdr", "ok"), o, short, d["prot"], d.get("inner", o), d.get("ccs_ok", 1), d.get("alert_ok", 1),
        d.get("lvl", 0), d.get("desc", 0), d.get("overflow", 0), d.get("empty", 0), d.get("rlen", (d.get("l", 0) - 17) if d.get("l", 0) >= 17 else -1), decfail,
        d.get("ep", 0), d.get("replay", "fresh"),
        okind, oh, orr, ow, ov, oresp, odesc)

def oracle_of(step, is_hs):
    """what the handshake layer answered, read off the implementation's post-state (only meaningful for handshake records)"""
    pre, post = step.pre, step.post
    resp = 1 if step.sent else 0
    if not is_hs:
        return ("fatal", 0, 0, 0, 0, 0, 0)
    fb = pre["v"] == 1 and post["v"] == 0
    if post["err"] != NONE and pre["err"] == NONE:
        return ("fbfatal" if fb else "fatal", 0, 0, 0, 0, 0, post["err"])
    if pre["dt"] and "RESEND " in step.body:
        return ("rt", 0, 0, 0, 0, 0, 0)       # parseSSLHandshake answered DTLS_RETRANSMIT
    return ("fb" if fb else "ok", post["hs"], int(post["R"]), int(post["W"]), post["v"], resp, 0)

def observed_line(step, is_hs):
    ob = step.observed()
    post = step.post
    if ob is None:
        ob = ("Handshake:%d" % (1 if step.sent else 0)) if is_hs else "Ignored"
    # once the session is flagged the handshake state is irrelevant (a handler may have moved it before failing)
    line = "%s v=%d hs=%s R=%d W=%d E=%d C=%d eds=%d ig=%d lb=%d" % (ob, post["v"], "-" if post["E"] else str(post["hs"]), post["R"], post["W"], post["E"], post["C"],
                                                                      post["edseen"], post["ig"], post["lb"])
    if post["dt"]:
        line += " xe=%d pc=%d ax=%d" % (post["xe"], post["pc"], post["ax"])
    return line

def describe_genuine(step, in_order=True, modified=False):
    """abstract description of a record produced by the honest peer"""
    m = step.meta
    sealed = m["s"] == 1
    d = dict(hdr="ok", outer=m["o"], inner=m["i"] if m["i"] >= 0 else m["o"], l=m["l"])
    d["prot"] = ("good" if (in_order and not modified) else "bad") if sealed else "plain"
    if "ep" in m:
        # DTLS: epoch and sequence number are explicit and authenticated, so a genuine record verifies whenever it is presented to the
        # receiver it was sealed for, in any order and any number of times - only the replay window keeps a copy out (analyse()
        # turns a copy presented to the OTHER side into Bad: orig_side)
        d["ep"], d["sq"], d["orig_side"], d["vr"] = m["ep"], m["sq"], step.side, m.get("vr")
        if sealed:
            d["prot"] = "bad" if modified else "good"
    if sealed and m.get("e"):
        # 0-RTT data sealed under the client's early traffic key: verifies only at a server that accepted early data
        d["prot"] = "good" if (step.pre["se"] and in_order and not modified) else "bad"
    if m["o"] == 20:
        d["ccs_ok"] = 1 if (sealed or (m["b0"] == 1 and m["l"] == 1)) else 0     # body of a sealed CCS is not visible on the wire
    if m["o"] == 21 and not sealed:
        d["lvl"], d["desc"], d["alert_ok"] = m["b0"], m["b1"], 1 if m["l"] >= 2 else 0
    elif d["inner"] == 21 and step.alerts_in:
        d["lvl"], d["desc"] = step.alerts_in[0]
    if d["inner"] == 23 and step.appdata and step.appdata[0] == "-":
        d["empty"] = 1
    if sealed and step.pre["v"] == 1 and m["l"] == 17:
        d["empty"] = 1          # TLS 1.3: tag(16) + inner type only
    return d

def is_hs_record(pre, d):
    """does the record reach the handshake layer's type (for the oracle)? mirrors only the TYPE, not the gate"""
    if pre["dt"]:
        if d.get("hdr", "ok") != "ok" or d["outer"] != 22:
            return False
        ep, xe = d.get("ep", 0), pre["xe"]
        accepted = (ep == xe and d.get("replay", "fresh") == "fresh") or (ep > xe and pre["hs"] == 20 and pre["pc"] == 1)
        return accepted and (not pre["R"] or d["prot"] == "good")
    if pre["v"] == 1:
        if d["outer"] == 20 or (d["outer"] == 21 and d.get("l", 0) < 18):
            return False
        if pre["R"]:
            return d["prot"] == "good" and d.get("inner") == 22
        return d["outer"] == 22
    return d["outer"] == 22 and (not pre["R"] or d["prot"] == "good")


class SessRun:
    def __init__(self, ck):
        self.ck = ck
        self.h = ck.cc("h_sess.c", wraps=WRAPS)
        self.drv = ck.ocaml_driver("drv_sess", extract_vo="Extract/Extract_Sess.vo", gen_ml=["m_sess"])

    def run(self, scripts, workers=4):
        """run all scripts; if the harness process dies on one of them (a crash inside the library), report that script
        as a violation (the check must not silently lose the scenarios behind it) and carry on with the rest.
        Every script starts with a `new` that resets the library's global state, so scripts are independent of each other:
        large batches are cut into contiguous chunks that run in parallel harness processes (output order is kept)."""
        if len(scripts) >= 400 and workers > 1:
            import concurrent.futures
            self.ck._model_unlock()      # (run_lines would do it; once, before the threads start)
            n = (len(scripts) + workers - 1) // workers
            chunks = [scripts[i:i + n] for i in range(0, len(scripts), n)]
            with concurrent.futures.ThreadPoolExecutor(max_workers=workers) as ex:
                parts = list(ex.map(self._run_seq, chunks))
            outs = [o for part in parts for o in part]
        else:
            outs = self._run_seq(scripts)
        if os.environ.get("VERIF_DEBUG"):
            with open("/var/tmp/sess-debug-%s-%d.txt" % (self.ck.pid, len(scripts)), "w") as f:
                for a, b in zip(scripts, outs):
                    f.write(a + "\n  => " + b + "\n")
        return outs

    def _run_seq(self, scripts):
        outs, start = [], 0
        while start < len(scripts):
            rc, out, err = self.ck.run_lines(self.h, scripts[start:], timeout=3000)
            outs += out[:len(scripts) - start]
            if len(out) >= len(scripts) - start:
                break
            bad = start + len(out)
            # the partial line (if any) belongs to the crashing script
            self.ck.log("h_sess died (rc=%s) on script %d: %s ... stderr=%s" % (rc, bad, scripts[bad][:200], err[-300:]))
            self.ck.spec_violation("harness-process-died:rc=%s" % rc,
                                   "the library crashed / the harness process died while running a scripted session (rc=%s)" % rc,
                                   {"harness": "h_sess", "script": scripts[bad], "stderr": err[-1500:]})
            outs = outs[:bad] + ["CRASHED"]
            start = bad + 1
        return outs

    def legal_trace(self, cfg, seed=1, maxrec=40):
        """direction sequence ('c2s'/'s2c') of the records of a legal handshake of this configuration"""
        script = newcmd(cfg, seed)
        for _ in range(6):
            script += " ; step c2s 30 ; step s2c 30"
        out = self.run([script])[0]
        seq = []
        nskip = len(script.split(" ; ")) - 12       # segments of the session-creating prefix
        for seg in out.split(" | ")[nskip:]:
            for st in parse_steps(seg):
                seq.append("c2s" if st.side == "s" else "s2c")
        return seq, out


def side_states(trace_out, cfg):
    """receiver states along the legal trace: element k = {"c": snapshot, "s": snapshot} BEFORE the k-th record of the trace is
    delivered (None until the side has received anything: a fresh session expects epoch 0 with an empty window)"""
    nprefix = len(newcmd(cfg, 1).split(" ; "))
    cur = {"c": None, "s": None}
    states = [dict(cur)]
    for seg in trace_out.split(" | ")[nprefix:]:
        for st in parse_steps(seg):
            if st.post is not None:
                cur[st.side] = st.post
            states.append(dict(cur))
    return states


def prefix_script(cfg, seed, trace, k):
    s = newcmd(cfg, seed)
    for d in trace[:k]:
        s += " ; step %s" % d
    return s


def analyse(ck, sr, scripts, outs, tag, inj_desc):
    """turn every step/inj/replay of every script into a model case, run the model, compare.
    inj_desc: dict script_index -> list of abstract descriptions for the inj/replay steps of that script, in order.
    Returns list of (script_index, Step, desc) for spec oracles."""
    cases, observed, back = [], [], []
    for si, out in enumerate(outs):
        segs = out.split(" | ")
        if not segs or any(sg.strip().startswith("new:") and not sg.strip().startswith("new:0") for sg in segs):
            ck.count("scenario_setup_failed")
            continue
        inj_i = 0
        cmds = scripts[si].split(" ; ")
        modified = {"c2s": False, "s2c": False}     # head record of that queue was edited by `xor`
        for ci, seg in enumerate(segs):
            cmd = cmds[ci].split() if ci < len(cmds) else [""]
            if cmd[0] == "xor" and seg.startswith("xor:ok"):
                modified[cmd[1]] = True
            for st in parse_steps(seg):
                if st.pre is None or st.post is None:
                    continue
                if st.kind == "step":
                    if st.meta is None:
                        continue
                    dirn = "c2s" if st.side == "s" else "s2c"
                    d = describe_genuine(st, modified=modified[dirn])
                    st.modified = modified[dirn]
                    modified[dirn] = False
                else:
                    dl = inj_desc.get(si, [])
                    if inj_i >= len(dl):
                        continue
                    d = dict(dl[inj_i]); inj_i += 1
                    if d.get("outer") == 21 and d["prot"] != "plain" and st.alerts_in:
                        d["lvl"], d["desc"] = st.alerts_in[0]
                d = dict(d)
                if d.get("hdr") == "ver?":
                    d["hdr"] = "ok" if version_tolerant(st.pre) else "ver"
                if d.get("vr") and d.get("hdr") == "ok" and tuple(d["vr"]) != script_version(scripts[si]) and not version_tolerant(st.pre):
                    d["hdr"] = "ver"      # e.g. the first ClientHello of a DTLS 1.2 client replayed after DTLS 1.0 was negotiated
                if st.pre["dt"]:
                    # the replay window's answer for this sequence number in the receiver's CURRENT window (only meaningful for the
                    # expected epoch); a sealed genuine record shown to the side that sent it does not verify there
                    d["replay"] = "fresh" if (d.get("ep", 0) != st.pre["xe"] or win_fresh(st.pre["lr"], st.pre["bm"], d.get("sq", 0))) else "dup"
                    if st.kind != "step" and d.get("orig_side") not in (None, st.side) and d["prot"] == "good":
                        d["prot"] = "bad"
                ishs = is_hs_record(st.pre, d)
                cases.append(dec_line(st.pre, d, oracle_of(st, ishs)))
                observed.append(observed_line(st, ishs))
                back.append((si, st, d))
                ck.count("%s:%s:%s" % ("dtls" if st.pre["dt"] else ("13" if st.pre["v"] else "12"), st.kind, (observed[-1].split()[0]).split(":")[0]))
                if st.pre["dt"]:
                    ck.count("dtls-record:%s:%s" % ("cur" if d.get("ep", 0) == st.pre["xe"] else ("older" if d.get("ep", 0) < st.pre["xe"] else "newer"), d["replay"]))
    if sr.drv is None:
        return back
    rc, model, err = ck.run_lines(sr.drv, cases)
    # the ticket "in limbo" flag is owned by the handshake layer (an oracle in this model): not compared across handshake steps
    def lbnorm(x):
        x = re.sub(r" lb=\d", " lb=-", x) if x.startswith("Handshake") else x
        return re.sub(r" eds=(\d+)", lambda m: " eds=%d" % (int(m.group(1)) % (1 << 31)), x)      # 32-bit counter (printed mod 2^31)
    observed = [lbnorm(x) for x in observed]
    model = [lbnorm(x) for x in model]
    dis = ck.correspond(tag, cases, observed, model, nontrivial=lambda c, o: not o.startswith("Refuse"))
    classes = {}
    for i in dis:
        k = "%s||%s" % (observed[i], model[i] if i < len(model) else None)
        classes.setdefault(k, []).append(i)
    for k, v in sorted(classes.items(), key=lambda kv: -len(kv[1]))[:25]:
        ck.log("DISAGREE-CLASS x%d impl||model: %s   e.g. %s :: %s" % (len(v), k, scripts[back[v[0]][0]][-160:], cases[v[0]]))
    for i in dis[:3]:
        si, st, d = back[i]
        ck.log("DISAGREE script=%r\n   step=%s %s\n   case=%s\n   impl=%s\n   model=%s" % (scripts[si][:300], st.kind, st.body[:200], cases[i], observed[i], model[i] if i < len(model) else None))
    sr.last_dis = [(back[i], cases[i], observed[i], model[i] if i < len(model) else None) for i in dis]
    # ---- DTLS: matrixDtlsGetOutdata called with nothing pending (`resend`, the application's retransmission timeout)
    gcases, gobs = [], []
    for si, out in enumerate(outs):
        for r in parse_resends(out):
            gcases.append("gout %s %d %d %d %d" % (st_fields(r["pre"]), 1 if r["pre"]["ol"] > 0 else 0, r["pre"]["fd"], r["pre"]["rs"], r["pre"]["ca"]))
            gobs.append(r["observed"])
            ck.count("dtls-getout:" + r["observed"])
    if gcases:
        rc, gmodel, err = ck.run_lines(sr.drv, gcases)
        gd = ck.correspond(tag + " / DTLS flight resend: dtls_getout(model) vs matrixDtlsGetOutdata(impl)", gcases, gobs, gmodel)
        for i in gd[:5]:
            ck.log("DISAGREE getout case=%s impl=%s model=%s" % (gcases[i], gobs[i], gmodel[i] if i < len(gmodel) else None))
    return back


RESEND_RE = re.compile(r"resend:([cs]) pre=(\S+) (.*?)post=(\S+)")

def parse_resends(out):
    """`resend` commands of a script output: pre-state, what matrixDtlsGetOutdata did (none / data / resend / refused)"""
    res = []
    for m in RESEND_RE.finditer(out):
        side, pre, body, post = m.groups()
        pre = parse_snap(pre)
        if pre is None or not pre["dt"] or "[resend-skipped]" in body:
            continue        # (the harness does not follow a retransmission request where the rebuild is known to fault: sess.h dtls_resend_safe)
        recs = [tuple(int(x) for x in r.split(":")) for r in re.findall(r"(\d+:-?\d+:\d+),", " ".join(re.findall(r"out=\[([^\]]*)\]", body)))]
        if "[getout:E-12]" in body:
            ob = "refused"          # PS_PROTOCOL_FAIL: the session is flagged
        elif "[getout:E" in body:
            ob = "resend"           # the rebuild was attempted and failed (e.g. the ClientHello writer refusing a flagged session before the C15 repair)
        elif recs:
            ob = "data" if pre["ol"] > 0 else "resend"
        else:
            ob = "none"
        res.append({"side": side, "pre": pre, "post": parse_snap(post), "body": body, "observed": ob, "recs": recs})
    return res
