"""C05 - expected-name check accepts only certificates issued for that name.

Theorems: coq/Properties/Properties_C05.v (model coq/Names/NamesModel.v, spec NamesSpec.v).
Tie: harness/h_names.c drives matrixValidateCertsExt / psX509ValidateGeneralName of the freshly
built library on the same generated cases as the extracted model (ocaml/drv_c05.ml).
Search oracle (Impl vs Spec): spec_match() below, an independent transcription of NamesSpec.v.
"""
import itertools, json, os
import vlib

GN_EMAIL, GN_DNS, GN_URI, GN_IP, GN_OTHER, GN_DIR = 1, 2, 6, 7, 0, 4
NT_ANY, NT_HOST, NT_CN, NT_DNS, NT_EMAIL, NT_IP = 0, 1, 2, 3, 4, 5


# ---------------------------------------------------------------- independent spec oracle
def lower(b):
    return bytes((c + 32) if 65 <= c <= 90 else c for c in b)

def ci_eq(a, b):
    return lower(a) == lower(b)

def dns_match(pat, host):
    if pat[:1] != b"*":
        return ci_eq(pat, host)
    rest = pat[1:]
    if rest[:1] != b".":
        return False
    if b"@" in host:
        return False
    i = host.find(b".")
    if i <= 0:
        return False                       # label must be non-empty and a dot must follow
    return ci_eq(rest, host[i:])

def email_match(cs, data, e):
    if not cs:
        return ci_eq(data, e)
    i = data.find(b"@")
    if i < 0:
        i = len(data)
    return data[:i] == e[:i] and ci_eq(data[i:], e[i:])

def spec_match(o, san, cn, e):
    skip, always_cn, email_ci, nt = o
    for (gid, data) in san:
        if gid == GN_DNS and nt in (NT_ANY, NT_HOST, NT_DNS) and 0 not in data and dns_match(data, e):
            return True
        if gid == GN_EMAIL and nt in (NT_ANY, NT_EMAIL) and 0 not in data and email_match(not email_ci, data, e):
            return True
        if gid == GN_IP and nt in (NT_ANY, NT_IP) and len(data) == 4 and e == b"%d.%d.%d.%d" % tuple(data):
            return True
    supported = any(g in (GN_DNS, GN_EMAIL, GN_IP) for g, _ in san)
    if nt in (NT_ANY, NT_CN, NT_HOST) and (not supported or always_cn) and cn is not None and 0 not in cn:
        return dns_match(cn, e)
    return False

def clean(san, cn):
    return all(0 not in d for g, d in san if g in (GN_DNS, GN_EMAIL)) and (cn is None or 0 not in cn)


# ---------------------------------------------------------------- generator
LABELS = [b"a", b"A", b"b", b"www", b"WWW", b"x1", b"1", b"a-b", b"example", b"Example", b"com", b"COM", b"org", b"mail"]

def gen_host(r):
    n = r.choice([1, 2, 2, 3, 3, 4])
    return b".".join(r.choice(LABELS) for _ in range(n))

def gen_ip(r):
    pick = lambda: r.choice([0, 1, 9, 10, 99, 100, 127, 200, 255])
    return bytes([pick(), pick(), pick(), pick()])

def gen_email(r):
    return r.choice([b"bob", b"Bob", b"a.b", b"x1"]) + b"@" + gen_host(r)

def flipcase(r, s):
    return bytes((c ^ 0x20) if (65 <= c <= 90 or 97 <= c <= 122) and r.random() < 0.5 else c for c in s)

def mutate_name(r, e):
    """cert-side DNS style names derived from the expected name e (bytes)"""
    k = r.randrange(19)
    parts = e.split(b".")
    if k >= 16:
        # bit-5 partners of the non-letters ('-' ~ CR, '.' ~ 0x0E, digits ~ 0x10..0x19, '@' ~ '`', '_' ~ DEL): equal under a case fold
        # done with |0x20 or ^0x20 instead of a real tolower - must never match
        idx = [i for i, c in enumerate(e) if not (65 <= c <= 90 or 97 <= c <= 122)]
        if not idx:
            return e
        pick = idx if k == 18 else [r.choice(idx)]
        return bytes((c ^ 0x20) if i in pick else c for i, c in enumerate(e))
    if k == 0: return e
    if k == 1: return flipcase(r, e)
    if k == 2 and len(parts) > 1: return b"*." + b".".join(parts[1:])             # proper wildcard
    if k == 3 and len(parts) > 2: return b"*." + b".".join(parts[2:])             # wildcard one level too high
    if k == 4: return b"*." + e                                                    # wildcard one level too low
    if k == 5: return e[:-1] if len(e) > 1 else e                                  # prefix
    if k == 6: return e + r.choice([b"x", b".", b".com", b"\x00", b"\x00.evil.com", b"\x1f", b"\x7f"])
    if k == 7: return e[1:] if len(e) > 1 else e                                   # suffix
    if k == 8 and len(parts) > 1: return b"*" + b".".join(parts[1:])              # "*rest" without dot
    if k == 9 and len(parts) > 1: return parts[0][:1] + b"*." + b".".join(parts[1:])  # partial-label wildcard
    if k == 10 and len(parts) > 1: return b"." + b".".join(parts[1:])
    if k == 11: return b"*"
    if k == 12 and len(parts) > 1: return b"*." + flipcase(r, b".".join(parts[1:]))
    if k == 13: return gen_host(r)
    if k == 14 and len(parts) > 1: return b"*.*." + b".".join(parts[2:]) if len(parts) > 2 else b"*.*"
    return e.replace(b".", b"\x00.", 1)

def gen_case(r):
    kind = r.choice(["host", "host", "host", "email", "ip", "junk"])
    if kind == "host": e = gen_host(r)
    elif kind == "email": e = gen_email(r)
    elif kind == "ip":
        ipb = gen_ip(r); e = b"%d.%d.%d.%d" % tuple(ipb)
    else:
        e = r.choice([b"", b".a.com", b"a..com", b"-a.com", b"a.com.", b"a@b@c.com", b"1a@b.com", b"a_b.com", b"a.com-", b"*.a.com", b"@a.com", b"a b.com"])
    san = []
    for _ in range(r.choice([0, 1, 1, 2, 3, 4])):
        t = r.choice([GN_DNS, GN_DNS, GN_DNS, GN_EMAIL, GN_IP, GN_URI, GN_OTHER, GN_DIR])
        if t == GN_IP:
            if kind == "ip" and r.random() < 0.6:
                d = ipb if r.random() < 0.5 else bytes([ipb[0], ipb[1], ipb[2], r.choice([ipb[3] // 10, ipb[3], (ipb[3] * 10) % 256, ipb[3] ^ 1])])
                if r.random() < 0.15: d = d + bytes(12)                         # 16-byte (IPv6-sized) entry with the v4 prefix
            else:
                d = gen_ip(r)
            if r.random() < 0.3:       # iPAddress entries that are not IPv4-sized (IPv6 = 16 bytes, and odd sizes): unusable but still "supported SAN present"
                d = r.choice([bytes(16), bytes([0x20, 0x01, 0x0d, 0xb8]) + bytes(11) + b"\x01", d[:3], d + b"\x00", d + bytes(12), bytes(17)])
        elif t == GN_EMAIL:
            if kind == "email" and r.random() < 0.7:
                d = r.choice([e, flipcase(r, e), e.split(b"@")[0] + b"@" + flipcase(r, e.split(b"@")[1]), e + b"\x00", e[:-1], b"x" + e])
            else:
                d = gen_email(r)
        else:
            d = mutate_name(r, e) if e and r.random() < 0.8 else gen_host(r)
        if not d: d = b"a"
        san.append((t, d))
    cnk = r.randrange(8)
    cn = None if cnk == 0 else (e if e and cnk >= 6 else (mutate_name(r, e) if e and cnk < 5 else gen_host(r)))
    if cn is not None and len(cn) == 0: cn = b"a"
    o = (1 if r.random() < 0.03 else 0, 1 if r.random() < 0.25 else 0, 1 if r.random() < 0.3 else 0,
         r.choice([NT_ANY, NT_ANY, NT_ANY, NT_HOST, NT_CN, NT_DNS, NT_EMAIL, NT_IP]))
    return o, san, cn, e

def ipv4_digit_pattern_cases():
    """every digit-count pattern of a dotted quad (7..15 characters), exact and truncated/extended expected names"""
    cases = []
    reps = {1: 7, 2: 42, 3: 100}
    for pat in itertools.product([1, 2, 3], repeat=4):
        ipb = bytes(reps[k] for k in pat)
        s = b"%d.%d.%d.%d" % tuple(ipb)
        for e in (s, s[:-1], s + b"0"):
            if e[-1:] == b".": continue
            cases.append(((0, 0, 0, NT_ANY), [(GN_IP, ipb)], None, e))
    return cases

def line(o, san, cn, e):
    sans = ",".join("%d:%s" % (g, vlib.hexs(d)) for g, d in san) or "-"
    return "nc %d %d %d %d %s %s %s" % (o[0], o[1], o[2], o[3], vlib.hexs(e), "NULL" if cn is None else vlib.hexs(cn), sans)

def parse_line(l):
    t = l.split()
    o = (int(t[1]), int(t[2]), int(t[3]), int(t[4]))
    san = [] if t[7] == "-" else [(int(x.split(":")[0]), vlib.unhex(x.split(":")[1])) for x in t[7].split(",")]
    return o, san, (None if t[6] == "NULL" else vlib.unhex(t[6])), vlib.unhex(t[5])


# ---------------------------------------------------------------- end-to-end certificates (DER -> parser -> validator)
STRTYPES = {"utf8": 0x0C, "printable": 0x13, "ia5": 0x16, "t61": 0x14, "bmp": 0x1E, "universal": 0x1C, "visible": 0x1A, "numeric": 0x12}

def e2e_cases(ck, r, n):
    """Certificates assembled here (tools/der.py), signed with the testkeys RSA-2048 CA key (openssl CLI), parsed and validated by the
    library unmodified.  Covers what the structure-level cases assume: every DirectoryString type for the CN, embedded NUL / control
    bytes in CN and SAN strings, iPAddress of any size, SAN order, several CNs.  Returns (case lines, abstract descriptions)."""
    import subprocess, der
    R = vlib.REPO
    ca_pem = open(os.path.join(R, "testkeys/RSA/2048_RSA_CA.pem")).read()
    ca_der = der.pem_blocks(ca_pem)[0][1]
    top = der.parse(ca_der)[0]                    # Certificate -> tbs -> [version, serial, alg, issuer, validity, subject, ...]
    tbs = top.children[0]
    kids = tbs.children
    subj = kids[5] if kids[0].tag == 0xA0 else kids[4]
    issuer = subj.encode()
    key = os.path.join(R, "testkeys/RSA/2048_RSA_CA_KEY.pem")
    lines, descs = [], []
    def mk(e, cns, san, o):
        attrs = [der.attr("c", "FI", 0x13), der.attr("o", "Verif")] + [der.attr("cn", v, STRTYPES[t]) for (t, v) in cns]
        exts = []
        if san:
            exts.append(der.san_ext([der.general_name({GN_EMAIL: 1, GN_DNS: 2, GN_URI: 6, GN_IP: 7}[g], d) for g, d in san]))
        c0 = der.cert(extensions=exts, subject=der.name(*attrs), issuer=issuer, serial=0x2000 + len(lines))
        tb = der.parse(c0)[0].children[0].encode()
        assert tb in c0
        sig = subprocess.run(["openssl", "dgst", "-sha256", "-sign", key], input=tb, capture_output=True).stdout
        if len(sig) != 256:
            return
        cert = der.seq(tb, der.ALG_SHA256RSA, der.bitstr(sig))
        lines.append("ne %d %d %d %d %s %s" % (o[0], o[1], o[2], o[3], vlib.hexs(e), vlib.hexs(cert)))
        descs.append((o, san, cns, e))
    hosts = [b"victim.example", b"www.a.com", b"a.b.example.org"]
    # directed: every string type x {exact, embedded NUL + suffix, trailing NUL, control byte}; SAN absent / unsupported-only / supported non-matching
    for t in STRTYPES:
        for e in hosts[:2]:
            for cnv in (e, e + b"\x00.attacker.example", e + b"\x00", e[:3] + b"\x01" + e[3:], b"*." + e.split(b".", 1)[1]):
                if t in ("bmp", "universal"):
                    w = 2 if t == "bmp" else 4
                    cnv = b"".join(bytes(w - 1) + bytes([c]) for c in cnv)
                for san in ([], [(GN_URI, b"http://x/")], [(GN_DNS, b"other.example")], [(GN_IP, bytes(16))], [(GN_DNS, b"other.example"), (GN_IP, bytes([0x20, 1, 0xd, 0xb8]) + bytes(12))],
                            [(GN_IP, bytes([0x20, 1, 0xd, 0xb8]) + bytes(12)), (GN_DNS, b"other.example")]):
                    for o in ((0, 0, 0, NT_ANY),):
                        mk(e, [(t, cnv)], san, o)
    # SAN strings with embedded NUL / control bytes, two CNs (the last / the first matching), random mixes
    for e in hosts:
        for g in (GN_DNS, GN_EMAIL):
            ee = e if g == GN_DNS else b"bob@" + e
            for d in (ee, ee + b"\x00.attacker.example", ee + b"\x00", b"\x00" + ee):
                mk(ee, [("utf8", b"unrelated.example")], [(g, d)], (0, 0, 0, NT_ANY))
        mk(e, [("utf8", b"unrelated.example"), ("utf8", e)], [], (0, 0, 0, NT_ANY))
        mk(e, [("utf8", e), ("utf8", b"unrelated.example")], [], (0, 0, 0, NT_ANY))
    for e in hosts + [b"host1.bank.example", b"secure-login.bank.example"]:
        for i, c in enumerate(e):
            if not (65 <= c <= 90 or 97 <= c <= 122):
                mk(e, [("utf8", e[:i] + bytes([c ^ 0x20]) + e[i + 1:])], [], (0, 0, 0, NT_ANY))
    mk(b"user@mail.example", [("utf8", b"unrelated.example")], [(GN_DNS, b"user`mail.example")], (0, 0, 0, NT_ANY))
    mk(b"user@mail.example", [("utf8", b"unrelated.example")], [(GN_EMAIL, b"user`mail.example")], (0, 0, 0, NT_ANY))
    while len(lines) < n:
        o, san, cn, e = gen_case(r)
        if not e or o[0]:
            continue
        san = [(g, d) for g, d in san if g in (GN_EMAIL, GN_DNS, GN_URI, GN_IP)]
        t = r.choice(list(STRTYPES)[:5])
        cns = [] if cn is None else [(t, cn if t not in ("bmp",) else b"".join(b"\x00" + bytes([c]) for c in cn))]
        mk(e, cns, san, o)
    return lines, descs

def e2e_expect(o, san, cns, e):
    """what the property allows for an end-to-end certificate: None = either verdict acceptable (outside the clean domain / string
    type whose conversion is the parser's business), True/False = required verdict when the certificate parses"""
    def plain(t, v):
        if t == "bmp":
            return bytes(v[1::2]) if all(b == 0 for b in v[0::2]) else None
        if t == "universal":
            return bytes(v[3::4]) if len(v) % 4 == 0 and all(v[i] == 0 for i in range(len(v)) if i % 4 != 3) else None
        return v
    vals = [plain(t, v) for t, v in cns]
    if any(v is None for v in vals):
        return None
    # a name string with an embedded NUL (or the certificate carrying one) never matches: accept is forbidden unless a CLEAN entry matches
    # documented interoperability rule of parseGeneralNames (DISABLE_X509_GENERAL_NAME_SUPPORT_C_NULL not set): ONE terminating zero byte
    # of a dNSName / rfc822Name / URI (sizeof instead of strlen at the issuer) is dropped; it is not an embedded NUL - nothing follows it
    san = [(g, d[:-1]) if (g in (GN_DNS, GN_EMAIL, GN_URI) and len(d) > 1 and d[-1] == 0 and 0 not in d[:-1]) else (g, d) for g, d in san]
    clean_san = [(g, d) for g, d in san if not (g in (GN_DNS, GN_EMAIL) and 0 in d)]
    clean_cns = [v for v in vals if 0 not in v]
    if len(clean_cns) > 1:
        # several CNs: the library uses one of them; require only: accept => some clean CN or SAN entry matches
        anym = spec_match(o, clean_san, None, e) or any(spec_match(o, clean_san, v, e) for v in clean_cns)
        return None if anym else False
    want = spec_match(o, clean_san, clean_cns[0] if clean_cns else None, e)
    if (len(clean_san) != len(san)) or (len(clean_cns) != len(vals)):
        return False if not want else None        # a NUL-carrying certificate may also be refused altogether
    return want


def corpus_cases():
    out = []
    p = os.path.join(vlib.VERIF, "corpus", "C05")
    if os.path.isdir(p):
        for f in sorted(os.listdir(p)):
            if not f.endswith(".case"):
                continue
            for l in open(os.path.join(p, f)):
                l = l.strip()
                if l and not l.startswith("#"):
                    out.append(l)
    return out


def run(ck):
    ck.trusted += ["Coq 8.16.1 kernel (coqc; vm_compute used only in Examples)", "tools/srcgen/consts.c translator (C compiler evaluates header constants)",
                   "extraction (ExtrOcamlBasic only) + ocaml/drv_c05.ml + harness/h_names.c correspondence",
                   "modelled, not verified: wildcardMatch, matchEmail, SAN/CN section of matrixValidateCertsExt, psX509ValidateGeneralName are hand-written Gallina (coq/Names/NamesModel.v) compared with the library on every run"]
    ck.assumptions += ["the expected name passed psX509ValidateGeneralName (enforced by matrixSslNewClientSession)",
                       "SAN dNSName/rfc822Name and CN strings contain no NUL (enforced at parse time; see C09)"]
    ck.build_repo()
    ck.regen([("consts.sh",)])
    ck.coq_properties()
    drv = ck.ocaml_driver("drv_c05", extract_vo="Extract/Extract_C05.vo", gen_ml=["m_c05"])
    h = ck.cc("h_names.c", wraps=["psGetBrokenDownGMTime"])
    if drv is None:
        return
    r = ck.rng("gen")
    cases = corpus_cases()
    ncorp = len(cases)
    cases += [line(*c) for c in ipv4_digit_pattern_cases()]
    n = ck.budget(6000, 150000)
    seen = set(cases)
    while len(cases) < n + ncorp:
        c = line(*gen_case(r))
        if c not in seen:
            seen.add(c); cases.append(c)
    # permutation cases: same entries, every order (order independence on the implementation itself)
    perm_groups = []
    for _ in range(ck.budget(150, 3000)):
        o, san, cn, e = gen_case(r)
        if 2 <= len(san) <= 4:
            grp = [line(o, list(p), cn, e) for p in itertools.permutations(san)]
            perm_groups.append((len(cases), len(grp)))
            cases += grp
    # the same verdicts are demanded when the peer presents leaf + intermediate CA (only the root is trusted) and the
    # INTERMEDIATE carries the expected name: only the leaf's names may count
    nchain = ck.budget(1200, 20000)
    cases += ["ncc" + c[2:] for c in cases[ncorp:ncorp + nchain] if c.startswith("nc ")]
    rc, impl, err = ck.run_lines(h, cases)
    rc2, model, err2 = ck.run_lines(drv, cases)
    ck.rules.append("grammar-based (expected name kinds host/email/IPv4/malformed; certificate entries derived from it by 16 mutations "
                    "incl. wildcards at each level, prefix/suffix, case flips, NUL/control bytes, 16-byte iPAddress; all 81 IPv4 digit-count patterns; "
                    "all permutations of 2-4 entry SAN lists); a case is non-trivial when the expected name is valid and the SAN list or CN is non-empty")
    dis = ck.correspond("name_check(model) vs matrixValidateCertsExt(impl)", cases, impl, model,
                        nontrivial=lambda c, o: o.startswith("v=1") and not c.endswith("NULL -"))
    # Impl vs Spec (search oracle), on clean inputs with a valid expected name
    nspec = 0
    for i, c in enumerate(cases):
        if i >= len(impl): break
        o, san, cn, e = parse_line(c)
        ck.count("valid_expected" if impl[i].startswith("v=1") else "invalid_expected")
        if not impl[i].startswith("v=1") or o[0] == 1 or not clean(san, cn):
            continue
        if o[1] == 1 and o[3] not in (NT_ANY, NT_HOST, NT_CN):
            if impl[i].split()[1] != "m=1006":       # documented PS_ARG_FAIL for this option combination
                ck.spec_violation("illegal-opts-accepted", "illegal option combination not refused", {"harness": "h_names", "case": c, "observed": impl[i]})
            continue
        nspec += 1
        want = spec_match(o, san, cn, e)
        got = impl[i].split()[1]
        ck.count("spec_match" if want else "spec_nomatch")
        if got not in ("m=0", "m=1"):
            ck.spec_violation("unexpected-rc", "validation returned an unexpected code on a genuinely signed leaf: " + impl[i],
                              {"harness": "h_names", "case": c, "observed": impl[i]})
        elif (got == "m=1") != want:
            kinds = sorted(set(g for g, _ in san))
            sig = "accept-without-name" if got == "m=1" else "reject-with-name"
            ck.spec_violation(sig + ":kinds=%s" % kinds,
                              "matrixValidateCertsExt %s although the certificate %s the expected name %r (SAN %r, CN %r)" % (
                                  "accepts" if got == "m=1" else "rejects", "does not carry" if got == "m=1" else "carries", e, san, cn),
                              {"harness": "h_names", "case": c, "observed": impl[i], "expected_by_spec": "m=%d" % want,
                               "model": model[i] if i < len(model) else None})
    # ---- end-to-end certificates: Impl vs Spec only (parser + validator together; the parser's own safety is C09's subject)
    elines, edescs = e2e_cases(ck, ck.rng("e2e"), ck.budget(700, 6000))
    rc3, eimpl, err3 = ck.run_lines(h, elines)
    ck.cov["evaluations"] += len(elines)
    for i, (l, dsc) in enumerate(zip(elines, edescs)):
        if i >= len(eimpl):
            ck.spec_violation("e2e-harness-died", "the harness died on an end-to-end certificate", {"harness": "h_names", "case": l}); break
        o, san, cns, e = dsc
        got = eimpl[i].split()[1] if len(eimpl[i].split()) > 1 else "?"
        ck.add_distinct("e2e:" + l[:200] + str(i))
        if got.startswith("m=P"):
            ck.count("e2e:parse-refused"); continue
        if not eimpl[i].startswith("v=1"):
            ck.count("e2e:invalid-expected"); continue
        if o[1] == 1 and o[3] not in (NT_ANY, NT_HOST, NT_CN):
            if got != "m=1006":       # documented PS_ARG_FAIL for this option combination
                ck.spec_violation("illegal-opts-accepted:e2e", "illegal option combination not refused", {"harness": "h_names", "case": l, "observed": eimpl[i]})
            continue
        want = e2e_expect(o, san, cns, e)
        ck.count("e2e:%s:%s" % (got, "free" if want is None else int(want)))
        if want is None or got not in ("m=0", "m=1"):
            if got not in ("m=0", "m=1"):
                ck.spec_violation("e2e-unexpected-rc", "validation of a genuinely signed end-to-end certificate returned " + eimpl[i], {"harness": "h_names", "case": l, "observed": eimpl[i]})
            continue
        if (got == "m=1") != want:
            kinds = sorted(set(g for g, _ in san)); types = sorted(set(t for t, _ in cns))
            sig = ("accept-without-name" if got == "m=1" else "reject-with-name") + ":e2e:kinds=%s:cn=%s" % (kinds, ",".join(types))
            ck.spec_violation(sig, "end to end (DER -> psX509ParseCert -> matrixValidateCertsExt): the library %s although the certificate %s the expected name %r (SAN %r, CN %r)" % (
                                  "accepts" if got == "m=1" else "rejects", "does not carry" if got == "m=1" else "carries", e, san, cns),
                              {"harness": "h_names", "case": l, "observed": eimpl[i], "expected_by_spec": "m=%d" % want})
    ck.rules.append("end-to-end stream: certificates built here for every DirectoryString type of the CN x {exact, embedded NUL, trailing NUL, control byte, wildcard} "
                    "x SAN {absent, unsupported only, supported non-matching, IPv6-sized iPAddress before/after a dNSName}, NUL-carrying SAN strings, two CNs, "
                    "plus random mixes; signed with the test CA, parsed and validated by the library unmodified")
    for (start, k) in perm_groups:
        outs = set(impl[start:start + k])
        if len(outs) > 1:
            ck.spec_violation("order-dependent", "verdict depends on subjectAltName order", {"harness": "h_names", "cases": cases[start:start + k], "observed": impl[start:start + k]})
    ck.cov["spec_oracle_cases"] = nspec
    ck.cov["permutation_groups"] = len(perm_groups)
    ck.cov["exhaustive"] = False


def replay(ck, path):
    rp = json.load(open(path))["replay"]
    h = ck.cc("h_names.c", wraps=["psGetBrokenDownGMTime"])
    cs = rp.get("cases") or [rp["case"]]
    rc, out, err = ck.run_lines(h, cs)
    for c, o in zip(cs, out):
        pl = parse_line(c)
        print("case:", c); print("  impl:", o, " spec: m=%d" % spec_match(*pl))
