"""C05 - expected-name check accepts only certificates issued for that name.

Theorems: coq/Properties/Properties_C05.v (model coq/Names/NamesModel.v, spec NamesSpec.v).
Tie: harness/h_names.c drives matrixValidateCertsExt / psX509ValidateGeneralName of the freshly
built library on the same generated cases as the extracted model (ocaml/drv_c05.ml).
Search oracle (Impl vs Spec): spec_match() below, an independent transcription of NamesSpec.v.
"""
import itertools, json, os
import vlib

GN_EMAIL, GN_DNS, GN_URI, GN_IP, GN_OTHER, GN_DIR = 1, 2, 6, 7, 0, 4
NT_ANY, NT_HOST, NT_CN, NT_DNS, NT_EMAIL, NT_IP = 0, 1, 2, 3, 4, 5


# ---------------------------------------------------------------- independent spec oracle
def lower(b):
    return bytes((c + 32) if 65 <= c <= 90 else c for c in b)

def ci_eq(a, b):
    return lower(a) == lower(b)

def dns_match(pat, host):
    if pat[:1] != b"*":
        return ci_eq(pat, host)
    rest = pat[1:]
    if rest[:1] != b".":
        return False
    if b"@" in host:
        return False
    i = host.find(b".")
    if i <= 0:
        return False                       # label must be non-empty and a dot must follow
    return ci_eq(rest, host[i:])

def email_match(cs, data, e):
    if not cs:
        return ci_eq(data, e)
    i = data.find(b"@")
    if i < 0:
        i = len(data)
    return data[:i] == e[:i] and ci_eq(data[i:], e[i:])

def spec_match(o, san, cn, e):
    skip, always_cn, email_ci, nt = o
    for (gid, data) in san:
        if gid == GN_DNS and nt in (NT_ANY, NT_HOST, NT_DNS) and 0 not in data and dns_match(data, e):
            return True
        if gid == GN_EMAIL and nt in (NT_ANY, NT_EMAIL) and 0 not in data and email_match(not email_ci, data, e):
            return True
        if gid == GN_IP and nt in (NT_ANY, NT_IP) and len(data) == 4 and e == b"%d.%d.%d.%d" % tuple(data):
            return True
    supported = any(g in (GN_DNS, GN_EMAIL, GN_IP) for g, _ in san)
    if nt in (NT_ANY, NT_CN, NT_HOST) and (not supported or always_cn) and cn is not None and 0 not in cn:
        return dns_match(cn, e)
    return False

def clean(san, cn):
    return all(0 not in d for g, d in san if g in (GN_DNS, GN_EMAIL)) and (cn is None or 0 not in cn)


# ---------------------------------------------------------------- generator
LABELS = [b"a", b"A", b"b", b"www", b"WWW", b"x1", b"1", b"a-b", b"example", b"Example", b"com", b"COM", b"org", b"mail"]

def gen_host(r):
    n = r.choice([1, 2, 2, 3, 3, 4])
    return b".".join(r.choice(LABELS) for _ in range(n))

def gen_ip(r):
    pick = lambda: r.choice([0, 1, 9, 10, 99, 100, 127, 200, 255])
    return bytes([pick(), pick(), pick(), pick()])

def gen_email(r):
    return r.choice([b"bob", b"Bob", b"a.b", b"x1"]) + b"@" + gen_host(r)

def flipcase(r, s):
    return bytes((c ^ 0x20) if (65 <= c <= 90 or 97 <= c <= 122) and r.random() < 0.5 else c for c in s)

def mutate_name(r, e):
    """cert-side DNS style names derived from the expected name e (bytes)"""
    k = r.randrange(16)
    parts = e.split(b".")
    if k == 0: return e
    if k == 1: return flipcase(r, e)
    if k == 2 and len(parts) > 1: return b"*." + b".".join(parts[1:])             # proper wildcard
    if k == 3 and len(parts) > 2: return b"*." + b".".join(parts[2:])             # wildcard one level too high
    if k == 4: return b"*." + e                                                    # wildcard one level too low
    if k == 5: return e[:-1] if len(e) > 1 else e                                  # prefix
    if k == 6: return e + r.choice([b"x", b".", b".com", b"\x00", b"\x00.evil.com", b"\x1f", b"\x7f"])
    if k == 7: return e[1:] if len(e) > 1 else e                                   # suffix
    if k == 8 and len(parts) > 1: return b"*" + b".".join(parts[1:])              # "*rest" without dot
    if k == 9 and len(parts) > 1: return parts[0][:1] + b"*." + b".".join(parts[1:])  # partial-label wildcard
    if k == 10 and len(parts) > 1: return b"." + b".".join(parts[1:])
    if k == 11: return b"*"
    if k == 12 and len(parts) > 1: return b"*." + flipcase(r, b".".join(parts[1:]))
    if k == 13: return gen_host(r)
    if k == 14 and len(parts) > 1: return b"*.*." + b".".join(parts[2:]) if len(parts) > 2 else b"*.*"
    return e.replace(b".", b"\x00.", 1)

def gen_case(r):
    kind = r.choice(["host", "host", "host", "email", "ip", "junk"])
    if kind == "host": e = gen_host(r)
    elif kind == "email": e = gen_email(r)
    elif kind == "ip":
        ipb = gen_ip(r); e = b"%d.%d.%d.%d" % tuple(ipb)
    else:
        e = r.choice([b"", b".a.com", b"a..com", b"-a.com", b"a.com.", b"a@b@c.com", b"1a@b.com", b"a_b.com", b"a.com-", b"*.a.com", b"@a.com", b"a b.com"])
    san = []
    for _ in range(r.choice([0, 1, 1, 2, 3, 4])):
        t = r.choice([GN_DNS, GN_DNS, GN_DNS, GN_EMAIL, GN_IP, GN_URI, GN_OTHER, GN_DIR])
        if t == GN_IP:
            if kind == "ip" and r.random() < 0.6:
                d = ipb if r.random() < 0.5 else bytes([ipb[0], ipb[1], ipb[2], r.choice([ipb[3] // 10, ipb[3], (ipb[3] * 10) % 256, ipb[3] ^ 1])])
                if r.random() < 0.15: d = d + bytes(12)                         # 16-byte (IPv6-sized) entry with the v4 prefix
            else:
                d = gen_ip(r)
        elif t == GN_EMAIL:
            if kind == "email" and r.random() < 0.7:
                d = r.choice([e, flipcase(r, e), e.split(b"@")[0] + b"@" + flipcase(r, e.split(b"@")[1]), e + b"\x00", e[:-1], b"x" + e])
            else:
                d = gen_email(r)
        else:
            d = mutate_name(r, e) if e and r.random() < 0.8 else gen_host(r)
        if not d: d = b"a"
        san.append((t, d))
    cnk = r.randrange(6)
    cn = None if cnk == 0 else (mutate_name(r, e) if e and cnk < 5 else gen_host(r))
    if cn is not None and len(cn) == 0: cn = b"a"
    o = (1 if r.random() < 0.03 else 0, 1 if r.random() < 0.25 else 0, 1 if r.random() < 0.3 else 0,
         r.choice([NT_ANY, NT_ANY, NT_ANY, NT_HOST, NT_CN, NT_DNS, NT_EMAIL, NT_IP]))
    return o, san, cn, e

def ipv4_digit_pattern_cases():
    """every digit-count pattern of a dotted quad (7..15 characters), exact and truncated/extended expected names"""
    cases = []
    reps = {1: 7, 2: 42, 3: 100}
    for pat in itertools.product([1, 2, 3], repeat=4):
        ipb = bytes(reps[k] for k in pat)
        s = b"%d.%d.%d.%d" % tuple(ipb)
        for e in (s, s[:-1], s + b"0"):
            if e[-1:] == b".": continue
            cases.append(((0, 0, 0, NT_ANY), [(GN_IP, ipb)], None, e))
    return cases

def line(o, san, cn, e):
    sans = ",".join("%d:%s" % (g, vlib.hexs(d)) for g, d in san) or "-"
    return "nc %d %d %d %d %s %s %s" % (o[0], o[1], o[2], o[3], vlib.hexs(e), "NULL" if cn is None else vlib.hexs(cn), sans)

def parse_line(l):
    t = l.split()
    o = (int(t[1]), int(t[2]), int(t[3]), int(t[4]))
    san = [] if t[7] == "-" else [(int(x.split(":")[0]), vlib.unhex(x.split(":")[1])) for x in t[7].split(",")]
    return o, san, (None if t[6] == "NULL" else vlib.unhex(t[6])), vlib.unhex(t[5])


def corpus_cases():
    out = []
    p = os.path.join(vlib.VERIF, "corpus", "C05")
    if os.path.isdir(p):
        for f in sorted(os.listdir(p)):
            if not f.endswith(".case"):
                continue
            for l in open(os.path.join(p, f)):
                l = l.strip()
                if l and not l.startswith("#"):
                    out.append(l)
    return out


def run(ck):
    ck.trusted += ["Coq 8.16.1 kernel (coqc; vm_compute used only in Examples)", "tools/srcgen/consts.c translator (C compiler evaluates header constants)",
                   "extraction (ExtrOcamlBasic only) + ocaml/drv_c05.ml + harness/h_names.c correspondence",
                   "modelled, not verified: wildcardMatch, matchEmail, SAN/CN section of matrixValidateCertsExt, psX509ValidateGeneralName are hand-written Gallina (coq/Names/NamesModel.v) compared with the library on every run"]
    ck.assumptions += ["the expected name passed psX509ValidateGeneralName (enforced by matrixSslNewClientSession)",
                       "SAN dNSName/rfc822Name and CN strings contain no NUL (enforced at parse time; see C09)"]
    ck.build_repo()
    ck.regen([("consts.sh",)])
    ck.coq_properties()
    drv = ck.ocaml_driver("drv_c05", extract_vo="Extract/Extract_C05.vo", gen_ml=["m_c05"])
    h = ck.cc("h_names.c", wraps=["psGetBrokenDownGMTime"])
    if drv is None:
        return
    r = ck.rng("gen")
    cases = corpus_cases()
    ncorp = len(cases)
    cases += [line(*c) for c in ipv4_digit_pattern_cases()]
    n = ck.budget(6000, 150000)
    seen = set(cases)
    while len(cases) < n + ncorp:
        c = line(*gen_case(r))
        if c not in seen:
            seen.add(c); cases.append(c)
    # permutation cases: same entries, every order (order independence on the implementation itself)
    perm_groups = []
    for _ in range(ck.budget(150, 3000)):
        o, san, cn, e = gen_case(r)
        if 2 <= len(san) <= 4:
            grp = [line(o, list(p), cn, e) for p in itertools.permutations(san)]
            perm_groups.append((len(cases), len(grp)))
            cases += grp
    # the same verdicts are demanded when the peer presents leaf + intermediate CA (only the root is trusted) and the
    # INTERMEDIATE carries the expected name: only the leaf's names may count
    nchain = ck.budget(1200, 20000)
    cases += ["ncc" + c[2:] for c in cases[ncorp:ncorp + nchain] if c.startswith("nc ")]
    rc, impl, err = ck.run_lines(h, cases)
    rc2, model, err2 = ck.run_lines(drv, cases)
    ck.rules.append("grammar-based (expected name kinds host/email/IPv4/malformed; certificate entries derived from it by 16 mutations "
                    "incl. wildcards at each level, prefix/suffix, case flips, NUL/control bytes, 16-byte iPAddress; all 81 IPv4 digit-count patterns; "
                    "all permutations of 2-4 entry SAN lists); a case is non-trivial when the expected name is valid and the SAN list or CN is non-empty")
    dis = ck.correspond("name_check(model) vs matrixValidateCertsExt(impl)", cases, impl, model,
                        nontrivial=lambda c, o: o.startswith("v=1") and not c.endswith("NULL -"))
    # Impl vs Spec (search oracle), on clean inputs with a valid expected name
    nspec = 0
    for i, c in enumerate(cases):
        if i >= len(impl): break
        o, san, cn, e = parse_line(c)
        ck.count("valid_expected" if impl[i].startswith("v=1") else "invalid_expected")
        if not impl[i].startswith("v=1") or o[0] == 1 or not clean(san, cn):
            continue
        if o[1] == 1 and o[3] not in (NT_ANY, NT_HOST, NT_CN):
            if impl[i].split()[1] != "m=1006":       # documented PS_ARG_FAIL for this option combination
                ck.spec_violation("illegal-opts-accepted", "illegal option combination not refused", {"harness": "h_names", "case": c, "observed": impl[i]})
            continue
        nspec += 1
        want = spec_match(o, san, cn, e)
        got = impl[i].split()[1]
        ck.count("spec_match" if want else "spec_nomatch")
        if got not in ("m=0", "m=1"):
            ck.spec_violation("unexpected-rc", "validation returned an unexpected code on a genuinely signed leaf: " + impl[i],
                              {"harness": "h_names", "case": c, "observed": impl[i]})
        elif (got == "m=1") != want:
            kinds = sorted(set(g for g, _ in san))
            sig = "accept-without-name" if got == "m=1" else "reject-with-name"
            ck.spec_violation(sig + ":kinds=%s" % kinds,
                              "matrixValidateCertsExt %s although the certificate %s the expected name %r (SAN %r, CN %r)" % (
                                  "accepts" if got == "m=1" else "rejects", "does not carry" if got == "m=1" else "carries", e, san, cn),
                              {"harness": "h_names", "case": c, "observed": impl[i], "expected_by_spec": "m=%d" % want,
                               "model": model[i] if i < len(model) else None})
    for (start, k) in perm_groups:
        outs = set(impl[start:start + k])
        if len(outs) > 1:
            ck.spec_violation("order-dependent", "verdict depends on subjectAltName order", {"harness": "h_names", "cases": cases[start:start + k], "observed": impl[start:start + k]})
    ck.cov["spec_oracle_cases"] = nspec
    ck.cov["permutation_groups"] = len(perm_groups)
    ck.cov["exhaustive"] = False


def replay(ck, path):
    rp = json.load(open(path))["replay"]
    h = ck.cc("h_names.c", wraps=["psGetBrokenDownGMTime"])
    cs = rp.get("cases") or [rp["case"]]
    rc, out, err = ck.run_lines(h, cs)
    for c, o in zip(cs, out):
        pl = parse_line(c)
        print("case:", c); print("  impl:", o, " spec: m=%d" % spec_match(*pl))
