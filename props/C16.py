"""C16 - DTLS survives loss/reorder/duplication and never accepts a record twice.

Theorems: coq/Properties/Properties_C16.v (model coq/Dtls/DtlsModel.v = dtlsChkReplayWindow,
dtlsCompareEpoch, the epoch gate of the record-header path of sslDecode.c, WITH the repair
pending-fixes/C16-replay-window.patch; spec Dtls/DtlsSpec.v; flight LTS / MSN in Dtls/Flight*.v).
Tie: harness/h_dtlswin.c ('w' direct calls of dtlsChkReplayWindow, 'g' records through
matrixSslDecode on an established session with fabricated state, 'live' in-memory DTLS sessions
under delivery schedules and replays) against the extracted model (ocaml/drv_c16.ml).
Search oracle (Impl vs Spec): never_twice / fresh_in_window re-implemented below on Python ints and
sets; for live sessions: every application message is delivered at most once, exactly once when
its datagram was not dropped, replays change nothing, the handshake completes.
"""
import itertools, json, os, re
import vlib

M32 = 1 << 32
ALPHA = [0, 1, 2, 30, 31, 32, 33, 34, 62, 63, 64, 65, 66, M32 - 2, M32 - 1]
SMALL = [0, 1, 31, 32, 33, M32 - 1]
HS_DONE, HS_FINISHED, HS_CLIENT_HELLO, HS_SERVER_HELLO = 255, 20, 1, 2
T_CCS, T_ALERT, T_HS, T_APP = 20, 21, 22, 23


def h12(v):
    return "%012x" % v


# ------------------------------------------------------------------ case construction
def w_case(seqs, last=0, bm=0, exp=1, epochs=None):
    return "w %s %x %d %s" % (h12(last), bm, exp, " ".join("%d:%s" % (epochs[i] if epochs else exp, h12(s)) for i, s in enumerate(seqs)))

def g_case(recs, role="S", last=0, bm=0, exp=1):
    """recs: (type, hs, pccs, ade, epoch, seq)"""
    return "g %s %s %x %d %s" % (role, h12(last), bm, exp, " ".join("%d:%d:%d:%d:%d:%s" % (t, hs, p, a, e, h12(s)) for (t, hs, p, a, e, s) in recs))

def parse_w(line):
    t = line.split()
    return int(t[1], 16), int(t[2], 16), int(t[3]), [(int(x.split(":")[0]), int(x.split(":")[1], 16)) for x in t[4:]]

def parse_g(line):
    t = line.split()
    recs = []
    for x in t[5:]:
        f = x.split(":")
        recs.append((int(f[0]), int(f[1]), int(f[2]), int(f[3]), int(f[4]), int(f[5], 16)))
    return t[1], int(t[2], 16), int(t[3], 16), int(t[4]), recs


# ------------------------------------------------------------------ independent spec oracle
def spec_check_w(ck, line, out):
    """never_twice always; window completeness when the run starts from the empty window"""
    last, bm, exp, recs = parse_w(line)
    bits = out.split()[0] if out.split() else ""
    if len(bits) != len(recs) or any(c not in "01" for c in bits):
        ck.spec_violation("w:bad-output", "harness produced no verdict per record", {"harness": "h_dtlswin", "case": line, "observed": out})
        return
    fresh_start = (last == 0 and bm == 0)
    acc = set()
    for i, ((e, s48), b) in enumerate(zip(recs, bits)):
        s = s48 % M32
        if b == "1":
            if s in acc:
                ck.spec_violation("w:double-accept", "dtlsChkReplayWindow accepts sequence number %d a second time (record %d of the case)" % (s, i),
                                  {"harness": "h_dtlswin", "case": line, "observed": out, "expected_by_spec": "0 at position %d" % i})
                return
            acc.add(s)
        elif fresh_start and s not in acc and all(a < s + 32 for a in acc):
            ck.spec_violation("w:false-drop", "dtlsChkReplayWindow drops new sequence number %d although it is inside/above the window (highest accepted %s)" % (
                              s, max(acc) if acc else None), {"harness": "h_dtlswin", "case": line, "observed": out, "expected_by_spec": "1 at position %d" % i})
            return
    ck.count("w:spec-checked")

def spec_check_g(ck, line, out):
    role, last, bm, exp, recs = parse_g(line)
    toks = out.split()[0] if out.split() else ""
    if len(toks) != 3 * len(recs):
        ck.spec_violation("g:bad-output", "harness produced no verdict per record", {"harness": "h_dtlswin", "case": line, "observed": out})
        return
    acc = set()
    for i, r in enumerate(recs):
        v = toks[3 * i:3 * i + 3]
        if v[0] == "a":
            key = (r[4], r[5] % M32)
            if key in acc:
                ck.spec_violation("g:double-accept:%s" % ("window" if v[1] == "w" else "window-skipped"),
                                  "record (epoch %d, seq %d) passes the epoch/replay gate of matrixSslDecode twice (record %d of the case%s)" % (
                                      key[0], key[1], i, "" if v[1] == "w" else "; the second time without consulting the replay window"),
                                  {"harness": "h_dtlswin", "case": line, "observed": out, "expected_by_spec": "d.. at position %d" % i})
                return
            acc.add(key)
    ck.count("g:spec-checked")

def parse_live_out(out):
    d = {}
    for t in out.split():
        if "=" in t:
            k, v = t.split("=", 1); d[k] = v
    d["fail"] = "HARNESSFAIL" in out
    return d

HS_NAMES = {1: "ClientHello", 2: "ServerHello", 3: "HelloVerifyRequest", 4: "NewSessionTicket", 11: "Certificate", 12: "ServerKeyExchange",
            13: "CertificateRequest", 14: "ServerHelloDone", 15: "CertificateVerify", 16: "ClientKeyExchange", 20: "Finished", 254: "ChangeCipherSpec"}
FRAGMENTABLE = (11, 13)          # dtlsWriteCertificate / dtlsWriteCertificateRequest are the only fragmenting writers

def parse_cfg(cfg):
    f = cfg.split("/")
    return f[0], (f[1] if len(f) > 1 and f[1] else "c02f"), (f[2] if len(f) > 2 and f[2] else "-")

def parse_sizes(out):
    """-> (hs, why, [(to, dgram, rectype, hstype|None, epoch, total_bytes)])"""
    t = out.split()
    if not t or t[0] != "sizes": return None
    recs = []
    for x in t[3:]:
        to, dgi, r = x.split(":")
        rt, ht, ep, ln = r.split(".")
        recs.append((to, int(dgi), int(rt), None if ht == "-" else int(ht), int(ep), int(ln)))
    return t[1].split("=")[1], t[2].split("=")[1], recs

def msg_code(rec):
    to, dgi, rt, ht, ep, ln = rec
    if rt == 20: return 254
    if rt == 22: return ht if ep == 0 else 20
    return 1000 + rt

def observed_flights(recs):
    """merge consecutive datagrams of one sender into a flight: 'C:1 S:3 ...' (sender = the other end of `to`)"""
    fl = []
    for r in recs:
        snd = "C" if r[0] == "S" else "S"
        if fl and fl[-1][0] == snd: fl[-1][1].append(msg_code(r))
        else: fl.append((snd, [msg_code(r)]))
    return " ".join("%s:%s" % (p, ",".join(str(m) for m in ms)) for p, ms in fl)

def oversize(sizes_unfragmented, pmtu):
    """handshake messages of the unfragmented run that exceed the PMTU and have no fragmenting writer"""
    if pmtu <= 0: return []
    return [(("C" if r[0] == "S" else "S"), msg_code(r), r[5]) for r in sizes_unfragmented if r[2] == 22 and msg_code(r) not in FRAGMENTABLE and r[5] > pmtu]

SIZES = {}       # (suite, mode) -> records of the clean unfragmented handshake, filled by run()

def spec_check_live(ck, line, out):
    t = line.split()
    cfg, fates = t[1], ("" if t[2] == "-" else t[2])
    inj = t[3:]
    d = parse_live_out(out)
    pmtu, suite, mode = parse_cfg(cfg)
    nfault = sum(1 for c in fates if c != ".")
    rp = {"harness": "h_dtlswin", "case": line, "observed": out}
    if "hs" not in d or d["fail"]:
        ck.spec_violation("live:harness-failure", "live DTLS harness could not run the schedule", rp); return
    ndrop = fates.count("x")
    if d["hs"] != "11":
        where = "with no loss" if ndrop == 0 else "after %d lost datagram(s)" % ndrop
        big = oversize(SIZES.get((suite, mode), []), int(pmtu))
        if nfault == 0 and not inj and big and re.fullmatch(r"%s[GRS]-\d+/80" % big[0][0], d.get("why", "")):
            # the peer that has to send the first oversize message stops with internal_error (alert 80) pending
            snd, code, ln = big[0]
            ck.spec_violation("live:incomplete:nofault:pmtu=%s:suite=%s:mode=%s:unfragmentable=%s/%d" % (pmtu, suite, mode, HS_NAMES.get(code, str(code)), ln),
                              "DTLS handshake fails with NO loss at PMTU %s (suite %s, mode %s): the %d-byte %s record is larger than the PMTU and cannot be fragmented "
                              "(only Certificate and CertificateRequest have a fragmenting writer); the %s stops with internal_error (%s)" % (
                                  pmtu, suite, mode, ln, HS_NAMES.get(code, str(code)), "server" if snd == "S" else "client", d.get("why")),
                              dict(rp, expected_by_spec="hs=11", oversize=["%s %s %d" % (a, HS_NAMES.get(b, b), c) for a, b, c in big])); return
        ck.spec_violation("live:incomplete:pmtu=%s:suite=%s:mode=%s" % (pmtu, suite, mode),
                          "DTLS handshake does not complete %s although every later datagram is delivered (schedule %s, suite %s, mode %s): %s" % (where, fates or "-", suite, mode, out),
                          dict(rp, expected_by_spec="hs=11")); return
    if ("r" in mode) != (d.get("res") == "11") and "res" in d:
        ck.spec_violation("live:wrong-handshake-kind:mode=%s" % mode, "the handshake was %s although the configuration asks for %s (%s)" % (
                          "resumed" if d.get("res") == "11" else "not resumed", "a resumed one" if "r" in mode else "a full one", out), rp); return
    if "a" in mode and "r" not in mode and d.get("ca") != "1":
        ck.spec_violation("live:wrong-handshake-kind:mode=%s" % mode, "client authentication was configured but not performed (%s)" % out, rp); return
    for who, sent in (("S", ["A1", "A2", "A3"]), ("C", ["B1", "B2"])):
        got = [x for x in d.get(who, "-").split(",") if x and x != "-"]
        if len(got) != len(set(got)):
            ck.spec_violation("live:app-data-delivered-twice", "application data delivered twice to the %s: %s (schedule %s, replays %s)" % (
                              "server" if who == "S" else "client", got, fates or "-", " ".join(inj) or "-"), dict(rp, expected_by_spec="each of %s at most once" % sent)); return
        if any(g not in sent for g in got):
            ck.spec_violation("live:foreign-app-data", "application data delivered that was never sent: %s" % got, rp); return
        # app datagrams are the ones emitted after the handshake; without drops everything arrives
        if ndrop == 0 and sorted(got) != sorted(sent):
            ck.spec_violation("live:app-data-lost-without-loss", "application data %s not delivered although no datagram was dropped (got %s, schedule %s)" % (
                              sent, got, fates or "-"), dict(rp, expected_by_spec=",".join(sent))); return
    if d.get("err") != "00":
        ck.spec_violation("live:error-state", "a peer entered the error state under a legal delivery schedule: " + out, rp); return
    if inj and set(fates) <= {"."}:
        if d.get("injacc") != "0" or d.get("injchg") != "0":
            ck.spec_violation("live:replay-accepted", "a replayed record was accepted / changed session state (injacc=%s injchg=%s, replays %s)" % (
                              d.get("injacc"), d.get("injchg"), " ".join(inj)), dict(rp, expected_by_spec="injacc=0 injchg=0")); return
    ck.count("live:spec-checked")


# ------------------------------------------------------------------ generators
def exhaustive_w(maxlen):
    for n in range(1, maxlen + 1):
        for seqs in itertools.product(ALPHA, repeat=n):
            yield w_case(seqs)

def exhaustive_g(maxlen, alpha, ctx):
    """symbols = (epoch in {exp-1, exp, exp+1}) x seq alphabet, fixed context per sweep, exp = 1"""
    t, hs, p, a, role = ctx
    syms = [(e, s) for e in (0, 1, 2) for s in alpha]
    for n in range(1, maxlen + 1):
        for seq in itertools.product(syms, repeat=n):
            yield g_case([(t, hs, p, a, e, s) for (e, s) in seq], role=role, exp=1)

def random_sender(r, maxlen):
    """monotone sender, bounded reordering, duplicates, replays of earlier records, occasional jumps"""
    n = r.randint(1, maxlen)
    base = r.choice([0, 0, 0, 1, 5, M32 - 40, r.randrange(0, M32 - 300)])
    sent, out, nxt = [], [], base
    pend = []
    while len(out) < n:
        k = r.random()
        if k < 0.55 or not sent:
            if r.random() < 0.05: nxt += r.choice([31, 32, 33, 63, 64, 100])
            sent.append(nxt); pend.append(nxt); nxt = min(nxt + 1, M32 - 1)
            # bounded reordering: release one of the last few pending
            if len(pend) > r.randint(0, 4):
                out.append(pend.pop(r.randrange(len(pend))))
        elif k < 0.75:
            out.append(r.choice(sent[-8:]))            # duplicate of a recent record
        elif k < 0.95:
            out.append(r.choice(sent))                 # replay of any earlier record
        else:
            out.append(r.choice(ALPHA))
    return out[:n]

def random_g(r, maxlen):
    exp = r.choice([0, 1, 1, 2, 5, 255, 256, 65534])
    role = r.choice("SC")
    last = r.choice([0, 0, 1, 5, 40, M32 - 1])
    bm = r.choice([0, 1, 3, 0x3f, 0x80000001, 0xffffffff]) if last else r.choice([0, 0, 1])
    recs = []
    cur = exp
    hist = []
    for _ in range(r.randint(1, maxlen)):
        if hist and r.random() < 0.35:
            rec = r.choice(hist)                       # exact replay (same context)
            if r.random() < 0.5:
                rec = (r.choice([T_CCS, T_ALERT, T_HS, T_APP]), r.choice([HS_DONE, HS_FINISHED, HS_CLIENT_HELLO, HS_SERVER_HELLO]), r.randint(0, 1), r.randint(0, 1), rec[4], rec[5])
        else:
            e = max(0, min(65535, cur + r.choice([-1, 0, 0, 0, 1, 1, 2])))
            s = r.choice(ALPHA + [r.randrange(0, 70)] * 6 + [(1 << 32) + 5, (1 << 47) + 1])
            rec = (r.choice([T_CCS, T_ALERT, T_HS, T_HS, T_APP, T_APP]), r.choice([HS_DONE, HS_DONE, HS_FINISHED, HS_FINISHED, HS_CLIENT_HELLO, HS_SERVER_HELLO]),
                   r.randint(0, 1), r.randint(0, 1), e, s)
        recs.append(rec); hist.append(rec)
        if rec[4] > cur: cur = rec[4]
    return g_case(recs, role=role, last=last, bm=bm, exp=exp)

def live_fate_cases(cfg, npos, maxbad):
    out = ["live %s -" % cfg]
    for k in range(1, maxbad + 1):
        for pos in itertools.combinations(range(npos), k):
            for fs in itertools.product("x2h", repeat=k):
                s = ["."] * (max(pos) + 1)
                for p, f in zip(pos, fs): s[p] = f
                out.append("live %s %s" % (cfg, "".join(s)))
    return out


def corpus_cases():
    out = []
    p = os.path.join(vlib.VERIF, "corpus", "C16")
    if os.path.isdir(p):
        for f in sorted(os.listdir(p)):
            for l in open(os.path.join(p, f)):
                l = l.strip()
                if l and not l.startswith("#"):
                    out.append(l)
    return out


H_WRAPS = ["psGetBrokenDownGMTime", "dtlsChkReplayWindow"]

def run(ck):
    ck.trusted += ["Coq 8.16.1 kernel (coqc; vm_compute only in Examples and in bits_ok: 32 <= width of unsigned long)",
                   "tools/srcgen/consts.c, consts_dtls.c translators (C compiler evaluates header constants, sizeof(ssl_t.dtlsBitmap))",
                   "extraction (ExtrOcamlBasic only) + ocaml/drv_c16.ml + harness/h_dtlswin.c correspondence",
                   "modelled, not verified: dtlsChkReplayWindow, dtlsResetReplayWindow, dtlsCompareEpoch, incrTwoByte and the DTLS epoch/RSN block of "
                   "matrixSslDecode are hand-written Gallina (coq/Dtls/DtlsModel.v) compared with the library on every run; ReplayWindowSize (a dtls.c-local enum) "
                   "is a literal in the model",
                   "flight LTS and handshake message-sequence model (coq/Dtls/FlightModel.v) are abstractions; the library is tied to them only by the live schedules run here"]
    ck.assumptions += ["transport may drop/duplicate/reorder/delay datagrams but not forge them (the window is consulted before the MAC check, as in the code)",
                       "the 16-bit epoch counter does not wrap during a session; fewer than 2^32 records per epoch (the code compares the low 32 bits of the 48-bit number)",
                       "one record per datagram in the gate model (the decodeMore loop over coalesced records is exercised by the live sessions only)"]
    ck.build_repo()
    ck.regen([("consts.sh",)])
    ck.coq_properties()
    drv = ck.ocaml_driver("drv_c16", extract_vo="Extract/Extract_C16.vo", gen_ml=["m_c16"])
    h = ck.cc("h_dtlswin.c", wraps=H_WRAPS)
    if drv is None:
        return
    thorough = ck.tier == "thorough"
    r = ck.rng("gen")
    corp = corpus_cases()
    wg = [c for c in corp if c[:2] in ("w ", "g ")]
    live = [c for c in corp if c.startswith("live ")]
    ncorp = len(wg)

    # 1. exhaustive sweeps
    wlen = 4 if thorough else 3
    wg += list(exhaustive_w(wlen))
    ctxs = [(T_APP, HS_DONE, 0, 1, "S"), (T_HS, HS_FINISHED, 1, 0, "C")]
    for ctx in ctxs:
        wg += list(exhaustive_g(3 if thorough else 2, ALPHA, ctx))
        wg += list(exhaustive_g(4 if thorough else 3, SMALL, ctx))
    nexh = len(wg) - ncorp
    # 2. random sender / random gate traffic
    nrand = ck.budget(1500, 20000)
    for _ in range(nrand):
        seqs = random_sender(r, 200)
        if r.random() < 0.25:
            wg.append(w_case(seqs, last=r.choice([1, 31, 32, 100, M32 - 1]), bm=r.choice([0, 1, 0x80000000, 0xffffffff, 0xdeadbeefcafe]), exp=r.choice([0, 1, 7])))
        else:
            wg.append(w_case(seqs, exp=r.choice([0, 1, 7])))
    for _ in range(nrand):
        wg.append(random_g(r, 60))
    rc, impl, err = ck.run_lines(h, wg)
    if impl and impl[0].strip() in ("BASEHSFAIL", "SESSFAIL", "KEYFAIL", "INITFAIL"):
        ck.spec_violation("live:incomplete:baseline", "a DTLS 1.2 handshake over a loss-free in-memory channel does not complete (%s): the harness cannot establish its base session" % impl[0].strip(),
                          {"harness": "h_dtlswin", "case": "live 0 -", "observed": impl[0], "expected_by_spec": "hs=11"})
        return
    rc2, model, err2 = ck.run_lines(drv, wg)
    if rc != 0:
        ck.log("harness exit code %d: %s" % (rc, err[-500:]))
    ck.rules.append("exhaustive: all sequences of length <= %d over the 15-value sequence alphabet {0,1,2,30..34,62..66,2^32-2,2^32-1} through dtlsChkReplayWindow from the empty window; "
                    "all sequences of length <= %d over that alphabet x epochs {exp-1,exp,exp+1} and length <= %d over a 6-value alphabet x 3 epochs through matrixSslDecode in two contexts "
                    "(application data in DONE on the server; handshake in FINISHED after CCS on the client); random: monotone sender with bounded reordering (<=4), duplicates, replays of every "
                    "earlier record and forward jumps 31..100, length <= 200, 25%% from corrupt initial windows; random gate traffic (type x hsState x parsedCCS x appDataExch x epoch +-2 x role, "
                    "35%% replays); a case is non-trivial when at least one record is accepted and one refused" % (wlen, 3 if thorough else 2, 4 if thorough else 3))
    def nontriv(c, o):
        v = o.split()[0] if o.split() else ""
        return ("1" in v and "0" in v) if c.startswith("w") else ("a" in v and "d" in v)
    ck.correspond("chk_replay / dtls_rx (model) vs dtlsChkReplayWindow / matrixSslDecode (impl)", wg, impl, model, nontrivial=nontriv)
    for i, c in enumerate(wg):
        if i >= len(impl): break
        if c.startswith("w "):
            spec_check_w(ck, c, impl[i]); ck.count("w-cases")
        else:
            spec_check_g(ck, c, impl[i]); ck.count("g-cases")
            v = impl[i].split()[0] if impl[i].split() else ""
            for k in range(0, len(v), 3): ck.count("verdict:" + v[k:k + 3])
    ck.cov["exhaustive"] = True
    ck.cov["exhaustive_cases"] = nexh

    # 3a. flight tables of the model against the flights of clean live handshakes; message sizes
    suites = ["c02f", "9c", "3c", "2f"] + (["35", "3d", "9d", "c013", "c014", "c027", "c028", "c030"] if thorough else [])
    fl_cases, fl_impl = [], []
    rcs, souts, _ = ck.run_lines(h, ["sizes 0/%s/%s" % (su, mo) for su in suites for mo in ("", "a", "r")])
    souts = [x for x in souts if x.startswith("sizes") or x in ("SESSFAIL", "PRIMEFAIL")]
    k = 0
    for su in suites:
        for mo in ("", "a", "r"):
            o = souts[k] if k < len(souts) else ""; k += 1
            ps = parse_sizes(o)
            fl_cases.append("flights %d %s" % (1 if su.startswith("c0") else 0, mo or "f"))
            if ps is None or ps[0] != "11":
                ck.spec_violation("live:incomplete:pmtu=0:suite=%s:mode=%s" % (su, mo or "-"), "clean unfragmented DTLS handshake does not complete (suite %s, mode %s): %s" % (su, mo or "-", o),
                                  {"harness": "h_dtlswin", "case": "live 0/%s/%s -" % (su, mo), "observed": o, "expected_by_spec": "hs=11"})
                fl_impl.append("INCOMPLETE"); continue
            SIZES[(su, mo or "-")] = ps[2]
            fl_impl.append(observed_flights(ps[2]))
    rcf, fl_model, _ = ck.run_lines(drv, fl_cases)
    ck.correspond("flights (model tables: full / client-auth / resumed, with and without ServerKeyExchange) vs flights of a clean live handshake (impl)",
                  fl_cases, fl_impl, fl_model, nontrivial=lambda c, o: True)
    # which (message, suite, mode) cannot cross which PMTU: recorded in the evidence
    table = {}
    for (su, mo), recs in sorted(SIZES.items()):
        for r in recs:
            if r[2] == 22 and msg_code(r) not in FRAGMENTABLE:
                key = "%s/%s %s" % (su, mo, HS_NAMES.get(msg_code(r), msg_code(r)))
                table[key] = max(table.get(key, 0), r[5])
    ck.cov["unfragmentable_message_bytes"] = {k2: v for k2, v in table.items() if v > 256}     # PS_MIN_PMTU = 256

    # 3b. live sessions (implementation against the spec only)
    F = lambda q, t: t if thorough else q
    nofrag = ["0/9c", "0/3c", "0/2f"]
    #            cfg            max faults   replays of every record at every position
    plan = [("0/9c",        F(2, 3), True),  ("0/3c",       F(1, 2), thorough), ("0/2f", F(0, 1), False),
            ("0/c02f",      F(2, 3), True),  ("600/9c",     F(2, 3), True),     ("300/9c", F(1, 2), thorough),
            ("600/c02f",    F(1, 2), thorough),
            ("0/9c/a",      F(2, 3), True),  ("0/9c/r",     F(2, 3), True),
            ("0/c02f/a",    F(1, 2), thorough), ("0/c02f/r", F(1, 2), thorough),
            ("600/9c/a",    F(2, 3), thorough), ("600/9c/r", F(2, 3), thorough),
            ("600/c02f/a",  F(1, 2), False), ("600/c02f/r", F(1, 2), False),
            ("300/9c/a",    F(2, 2), False), ("300/9c/r",   F(2, 3), False), ("300/c02f/r", F(1, 2), False),
            ("300/c02f",    -1, False)]      # ServerKeyExchange (354 bytes) cannot be fragmented: no-fault schedule only
    base_cfgs = [c for c, _, _ in plan]
    rcb, outb, _ = ck.run_lines(h, ["live %s -" % c for c in base_cfgs])
    outb = [x for x in outb if x.startswith("hs=") or x in ("SESSFAIL", "PRIMEFAIL")]
    for (cfg, nf, rep), o in zip(plan, outb):
        live.append("live %s -" % cfg)
        d = parse_live_out(o)
        if "nrec" not in d or d.get("hs") != "11": continue        # reported by spec_check_live on the baseline line
        nrec, ndg = int(d["nrec"]), int(d["ndg"])
        npos = max(1, min(ndg - 5 + 1, 20))                         # handshake datagrams (+ first application datagram)
        if nf > 0: live += live_fate_cases(cfg, npos, nf)
        ck.count("positions:%s=%d" % (cfg, npos))
        if not rep: continue
        # replays: every captured record alone after every datagram position (records not yet captured
        # at that position are skipped by the harness), and everything captured so far at once
        for i in range(nrec):
            for j in range(ndg):
                live.append("live %s - r%d@%d" % (cfg, i, j))
        for j in range(ndg):
            live.append("live %s - %s" % (cfg, " ".join("r%d@%d" % (i, j) for i in range(min(nrec, 60)))))
    rs = ck.rng("live")
    rnd_cfgs = nofrag + ["0/9c/a", "0/9c/r", "0/c02f", "0/c02f/a", "0/c02f/r"]
    rnd_cfgs_frag = ["600/9c", "600/9c/a", "600/9c/r", "600/c02f/a", "300/3c", "300/9c/a", "300/9c/r", "300/c02f/r"]
    for _ in range(ck.budget(600, 12000)):
        cfg = rs.choice(rnd_cfgs + rnd_cfgs_frag) if (thorough or rs.random() < 0.3) else rs.choice(rnd_cfgs)
        n = rs.randint(1, 30 if cfg.startswith("300") else 20 if cfg.startswith("600") else 14)
        fates = "".join(rs.choice("....x2h") for _ in range(n))
        live.append("live %s %s" % (cfg, fates))
    live = list(dict.fromkeys(live))
    # crash-resilient run: a schedule that kills the harness is reported and skipped
    lout = []
    start = 0
    ncrash = 0
    while start < len(live):
        rc3, o3, e3 = ck.run_lines(h, live[start:])
        o3 = [x for x in o3 if x.startswith("hs=") or x in ("SESSFAIL", "PRIMEFAIL")]      # psAssert chatter of the library goes to stdout too
        lout += o3
        if len(o3) >= len(live) - start:
            break
        bad = live[start + len(o3)]
        ncrash += 1
        ck.spec_violation("live:crash:pmtu=%s:suite=%s:mode=%s" % parse_cfg(bad.split()[1]),
                          "the library faults (harness killed by signal %d) under delivery schedule: %s" % (-rc3, bad),
                          {"harness": "h_dtlswin", "case": bad, "observed": "exit %d %s" % (rc3, e3[-300:])})
        lout.append("CRASH")
        start = start + len(o3) + 1
        if ncrash > 50: break
    for c, o in zip(live, lout):
        if o == "CRASH": ck.count("live-crash"); continue
        spec_check_live(ck, c, o)
        ck.count("live-cases")
        if " r" in c: ck.count("live-replay-cases")
        ck.add_distinct("live" + c)
    ck.cov["evaluations"] += len(lout)
    ck.cov["traces_validated_against_impl"] += len(lout)
    ck.cov["live_schedules"] = len(lout)
    for k in (0, len(live) // 2, len(live) - 1):
        if k < len(lout): ck.sample({"live": live[k], "impl": lout[k]})
    ck.rules.append("live: in-memory DTLS 1.2 client/server; handshake kinds full / client-authenticated (/a) / resumed (/r, after a clean priming handshake); suites 009c/003c/002f (RSA) and "
                    "c02f (ECDHE_RSA, default); PMTU default/600/300 (fragmented Certificate / CertificateRequest); schedules = every placement of <= k drop/duplicate/hold decisions over all "
                    "handshake datagram positions of the configuration (k per configuration: see `plan` in props/C16.py, %s), random schedules of length <= 14/20/30; every captured record "
                    "replayed alone after every datagram position plus all captured records together at every position; PMTU 300 with c02f: no-fault schedule only (ServerKeyExchange "
                    "cannot be fragmented)" % ("k = 2..3" if thorough else "k = 1..2"))


def replay(ck, path):
    rp = json.load(open(path))["replay"]
    h = ck.cc("h_dtlswin.c", wraps=H_WRAPS)
    cs = rp.get("cases") or [rp["case"]]
    rc, out, err = ck.run_lines(h, cs)
    for c, o in zip(cs, out):
        print("case:", c); print("  impl:", o)
        class _P:                                   # print what the oracle says
            def spec_violation(self, sig, what, r): print("  spec: VIOLATED [%s] %s" % (sig, what))
            def count(self, k): print("  spec: ok")
        (spec_check_w if c.startswith("w ") else spec_check_g if c.startswith("g ") else spec_check_live)(_P(), c, o)
