"""Independent exact-integer reference implementations used by props/C11.py as the SPEC oracle
(stdlib only: python ints + hashlib).  Nothing here is derived from the library's source.

  - EMSA-PKCS1-v1_5 (RFC 8017 9.2) with the DigestInfo prefixes of RFC 8017 9.2 note 1
  - EMSA-PSS encode / verify, MGF1 (RFC 8017 9.1, B.2.1)
  - short Weierstrass curves over GF(p): affine add/double/mul, ECDSA verify (FIPS 186-4 6.4), ECDH
  - strict DER for Ecdsa-Sig-Value
  - X25519 (RFC 7748), Ed25519 (RFC 8032)
"""
import hashlib

# ------------------------------------------------------------------ RSA encodings
# RFC 8017 section 9.2, note 1 (DER DigestInfo prefixes, NULL parameters present)
DIGESTINFO = {
    "md5":    bytes.fromhex("3020300c06082a864886f70d020505000410"),
    "sha1":   bytes.fromhex("3021300906052b0e03021a05000414"),
    "sha224": bytes.fromhex("302d300d06096086480165030402040500041c"),
    "sha256": bytes.fromhex("3031300d060960864801650304020105000420"),
    "sha384": bytes.fromhex("3041300d060960864801650304020205000430"),
    "sha512": bytes.fromhex("3051300d060960864801650304020305000440"),
}
HLEN = {"md5": 16, "sha1": 20, "sha224": 28, "sha256": 32, "sha384": 48, "sha512": 64}


def digestinfo_nonull(h):
    """the same DigestInfo with the NULL parameters omitted (lengths adjusted)"""
    p = DIGESTINFO[h]
    # 30 L1 30 L2 06 Lo oid 05 00 04 Lh  ->  30 L1-2 30 L2-2 06 Lo oid 04 Lh
    assert p[0] == 0x30 and p[2] == 0x30 and p[-4:-2] == b"\x05\x00"
    return bytes([0x30, p[1] - 2, 0x30, p[3] - 2]) + p[4:-4] + p[-2:]


def emsa_pkcs1_v15(h, digest, k, null=True):
    t = (DIGESTINFO[h] if null else digestinfo_nonull(h)) + digest
    if k < len(t) + 11:
        return None
    return b"\x00\x01" + b"\xff" * (k - 3 - len(t)) + b"\x00" + t


def emsa_raw(payload, k):
    """block type 1 padding of an arbitrary payload (TLS <= 1.1 style, no DigestInfo)"""
    if k < len(payload) + 11:
        return None
    return b"\x00\x01" + b"\xff" * (k - 3 - len(payload)) + b"\x00" + payload


def eme_type2_parse(em):
    """RSAES-PKCS1-v1_5 decoding (RFC 8017 7.2.2 step 3): message or None"""
    if len(em) < 11 or em[0] != 0 or em[1] != 2:
        return None
    i = em.find(b"\x00", 2)
    if i < 0 or i - 2 < 8:
        return None
    return em[i + 1:]


def mgf1(hname, seed, n):
    out = b""
    c = 0
    while len(out) < n:
        out += hashlib.new(hname, seed + c.to_bytes(4, "big")).digest()
        c += 1
    return out[:n]


def pss_encode(hname, mhash, salt, embits):
    hlen = HLEN[hname]
    emlen = (embits + 7) // 8
    if emlen < hlen + len(salt) + 2:
        return None
    H = hashlib.new(hname, b"\x00" * 8 + mhash + salt).digest()
    db = b"\x00" * (emlen - len(salt) - hlen - 2) + b"\x01" + salt
    mask = mgf1(hname, H, emlen - hlen - 1)
    mdb = bytearray(a ^ b for a, b in zip(db, mask))
    mdb[0] &= 0xFF >> (8 * emlen - embits)
    return bytes(mdb) + H + b"\xbc"


def pss_verify(hname, mhash, em, slen, embits):
    """RFC 8017 9.1.2 (steps 3-14); mhash is the already computed message digest"""
    hlen = HLEN[hname]
    emlen = (embits + 7) // 8
    if len(em) != emlen or emlen < hlen + slen + 2:
        return False
    if em[-1] != 0xBC:
        return False
    mdb, H = em[:emlen - hlen - 1], em[emlen - hlen - 1:-1]
    zbits = 8 * emlen - embits
    if mdb[0] >> (8 - zbits) if zbits else 0:
        return False
    mask = mgf1(hname, H, emlen - hlen - 1)
    db = bytearray(a ^ b for a, b in zip(mdb, mask))
    db[0] &= 0xFF >> zbits
    ps = emlen - hlen - slen - 2
    if any(db[:ps]) or db[ps] != 1:
        return False
    salt = bytes(db[ps + 1:])
    return hashlib.new(hname, b"\x00" * 8 + mhash + salt).digest() == H


# ------------------------------------------------------------------ elliptic curves (FIPS 186-4 D.1.2)
class Curve:
    def __init__(self, name, iana, p, b, n, gx, gy):
        self.name, self.iana = name, iana
        self.p, self.a, self.b, self.n, self.g = p, p - 3, b, n, (gx, gy)
        self.size = (p.bit_length() + 7) // 8

CURVES = {c.iana: c for c in [
    Curve("secp192r1", 19, 2**192 - 2**64 - 1,
          0x64210519E59C80E70FA7E9AB72243049FEB8DEECC146B9B1,
          0xFFFFFFFFFFFFFFFFFFFFFFFF99DEF836146BC9B1B4D22831,
          0x188DA80EB03090F67CBF20EB43A18800F4FF0AFD82FF1012,
          0x07192B95FFC8DA78631011ED6B24CDD573F977A11E794811),
    Curve("secp224r1", 21, 2**224 - 2**96 + 1,
          0xB4050A850C04B3ABF54132565044B0B7D7BFD8BA270B39432355FFB4,
          0xFFFFFFFFFFFFFFFFFFFFFFFFFFFF16A2E0B8F03E13DD29455C5C2A3D,
          0xB70E0CBD6BB4BF7F321390B94A03C1D356C21122343280D6115C1D21,
          0xBD376388B5F723FB4C22DFE6CD4375A05A07476444D5819985007E34),
    Curve("secp256r1", 23, 2**256 - 2**224 + 2**192 + 2**96 - 1,
          0x5AC635D8AA3A93E7B3EBBD55769886BC651D06B0CC53B0F63BCE3C3E27D2604B,
          0xFFFFFFFF00000000FFFFFFFFFFFFFFFFBCE6FAADA7179E84F3B9CAC2FC632551,
          0x6B17D1F2E12C4247F8BCE6E563A440F277037D812DEB33A0F4A13945D898C296,
          0x4FE342E2FE1A7F9B8EE7EB4A7C0F9E162BCE33576B315ECECBB6406837BF51F5),
    Curve("secp384r1", 24, 2**384 - 2**128 - 2**96 + 2**32 - 1,
          0xB3312FA7E23EE7E4988E056BE3F82D19181D9C6EFE8141120314088F5013875AC656398D8A2ED19D2A85C8EDD3EC2AEF,
          0xFFFFFFFFFFFFFFFFFFFFFFFFFFFFFFFFFFFFFFFFFFFFFFFFC7634D81F4372DDF581A0DB248B0A77AECEC196ACCC52973,
          0xAA87CA22BE8B05378EB1C71EF320AD746E1D3B628BA79B9859F741E082542A385502F25DBF55296C3A545E3872760AB7,
          0x3617DE4A96262C6F5D9E98BF9292DC29F8F41DBD289A147CE9DA3113B5F0B8C00A60B1CE1D7E819D7A431D7C90EA0E5F),
    Curve("secp521r1", 25, 2**521 - 1,
          0x0051953EB9618E1C9A1F929A21A0B68540EEA2DA725B99B315F3B8B489918EF109E156193951EC7E937B1652C0BD3BB1BF073573DF883D2C34F1EF451FD46B503F00,
          0x01FFFFFFFFFFFFFFFFFFFFFFFFFFFFFFFFFFFFFFFFFFFFFFFFFFFFFFFFFFFFFFFFFA51868783BF2F966B7FCC0148F709A5D03BB5C9B8899C47AEBB6FB71E91386409,
          0x00C6858E06B70404E9CD9E3ECB662395B4429C648139053FB521F828AF606B4D3DBAA14B5E77EFE75928FE1DC127A2FFA8DE3348B3C1856A429BF97E7E31C2E5BD66,
          0x011839296A789A3BC0045C8A5FB42C7D1BD998F54449579B446817AFBD17273E662C97EE72995EF42640C550B9013FAD0761353C7086A272C24088BE94769FD16650),
]}


def on_curve(c, P):
    if P is None:
        return False
    x, y = P
    return 0 <= x < c.p and 0 <= y < c.p and (y * y - (x * x * x + c.a * x + c.b)) % c.p == 0


def ec_add(c, P, Q):
    if P is None: return Q
    if Q is None: return P
    (x1, y1), (x2, y2) = P, Q
    p = c.p
    if (x1 - x2) % p == 0:
        if (y1 + y2) % p == 0:
            return None
        lam = (3 * x1 * x1 + c.a) * pow(2 * y1, -1, p) % p
    else:
        lam = (y2 - y1) * pow(x2 - x1, -1, p) % p
    x3 = (lam * lam - x1 - x2) % p
    return (x3, (lam * (x1 - x3) - y1) % p)


def ec_mul(c, k, P):
    R = None
    k %= c.n
    while k:
        if k & 1:
            R = ec_add(c, R, P)
        P = ec_add(c, P, P)
        k >>= 1
    return R


def ec_neg(c, P):
    return None if P is None else (P[0], (-P[1]) % c.p)


def bits2int(c, h):
    e = int.from_bytes(h, "big")
    nb = c.n.bit_length()
    if 8 * len(h) > nb:
        e >>= 8 * len(h) - nb
    return e


def ecdsa_verify_rs(c, Q, h, r, s):
    if not (1 <= r < c.n and 1 <= s < c.n):
        return False
    e = bits2int(c, h)
    w = pow(s, -1, c.n)
    R = ec_add(c, ec_mul(c, e * w % c.n, c.g), ec_mul(c, r * w % c.n, Q))
    return R is not None and R[0] % c.n == r


def ecdsa_sign_k(c, d, h, k):
    R = ec_mul(c, k, c.g)
    r = R[0] % c.n
    s = pow(k, -1, c.n) * (bits2int(c, h) + r * d) % c.n
    return r, s


def sqrt_mod(a, p):
    """square root mod p for p = 3 mod 4 (all NIST primes except P-224), else Tonelli-Shanks"""
    a %= p
    if a == 0: return 0
    if pow(a, (p - 1) // 2, p) != 1: return None
    if p % 4 == 3:
        return pow(a, (p + 1) // 4, p)
    q, s = p - 1, 0
    while q % 2 == 0: q //= 2; s += 1
    z = 2
    while pow(z, (p - 1) // 2, p) != p - 1: z += 1
    m, cc, t, r = s, pow(z, q, p), pow(a, q, p), pow(a, (q + 1) // 2, p)
    while t != 1:
        i, t2 = 0, t
        while t2 != 1: t2 = t2 * t2 % p; i += 1
        b = pow(cc, 1 << (m - i - 1), p)
        m, cc, t, r = i, b * b % p, t * b * b % p, r * b % p
    return r


# ------------------------------------------------------------------ DER for Ecdsa-Sig-Value
def der_len(n):
    if n < 128: return bytes([n])
    b = n.to_bytes((n.bit_length() + 7) // 8, "big")
    return bytes([0x80 | len(b)]) + b

def der_int(v):
    b = v.to_bytes(max(1, (v.bit_length() + 8) // 8), "big")       # minimal, leading 00 when the top bit is set
    return b"\x02" + der_len(len(b)) + b

def der_sig(r, s):
    body = der_int(r) + der_int(s)
    return b"\x30" + der_len(len(body)) + body

def der_parse_strict(sig):
    """(r, s) for a DER Ecdsa-Sig-Value (X.690 strict: minimal lengths, minimal non-negative integers,
    no trailing bytes), else None"""
    def rd_len(b, i):
        if i >= len(b): return None
        x = b[i]
        if x < 128: return x, i + 1
        n = x & 0x7F
        if n == 0 or n > 4 or i + 1 + n > len(b): return None
        v = int.from_bytes(b[i + 1:i + 1 + n], "big")
        if v < 128 or b[i + 1] == 0: return None
        return v, i + 1 + n
    def rd_int(b, i):
        if i >= len(b) or b[i] != 2: return None
        t = rd_len(b, i + 1)
        if t is None: return None
        l, j = t
        if l == 0 or j + l > len(b): return None
        c = b[j:j + l]
        if c[0] & 0x80: return None                                 # negative
        if l > 1 and c[0] == 0 and not (c[1] & 0x80): return None   # non-minimal
        return int.from_bytes(c, "big"), j + l
    if len(sig) < 2 or sig[0] != 0x30: return None
    t = rd_len(sig, 1)
    if t is None: return None
    l, i = t
    if i + l != len(sig): return None
    a = rd_int(sig, i)
    if a is None: return None
    b = rd_int(sig, a[1])
    if b is None or b[1] != len(sig): return None
    return a[0], b[0]


# ------------------------------------------------------------------ X25519 (RFC 7748 section 5)
P25519 = 2**255 - 19

def x25519(k, u):
    kb = bytearray(k); kb[0] &= 248; kb[31] &= 127; kb[31] |= 64
    kn = int.from_bytes(kb, "little")
    ub = bytearray(u); ub[31] &= 127
    x1 = int.from_bytes(ub, "little") % P25519
    x2, z2, x3, z3, swap = 1, 0, x1, 1, 0
    p = P25519
    for t in range(254, -1, -1):
        kt = (kn >> t) & 1
        swap ^= kt
        if swap: x2, x3, z2, z3 = x3, x2, z3, z2
        swap = kt
        A = (x2 + z2) % p; AA = A * A % p; B = (x2 - z2) % p; BB = B * B % p
        E = (AA - BB) % p; C = (x3 + z3) % p; D = (x3 - z3) % p
        DA = D * A % p; CB = C * B % p
        x3 = (DA + CB) ** 2 % p; z3 = x1 * (DA - CB) ** 2 % p
        x2 = AA * BB % p; z2 = E * (AA + 121665 * E) % p
    if swap: x2, x3, z2, z3 = x3, x2, z3, z2
    return (x2 * pow(z2, p - 2, p) % p).to_bytes(32, "little")


# ------------------------------------------------------------------ Ed25519 (RFC 8032 section 5.1 / 6)
ED_D = -121665 * pow(121666, P25519 - 2, P25519) % P25519
ED_L = 2**252 + 27742317777372353535851937790883648493
ED_I = pow(2, (P25519 - 1) // 4, P25519)

def ed_add(P, Q):
    p = P25519
    A = (P[1] - P[0]) * (Q[1] - Q[0]) % p; B = (P[1] + P[0]) * (Q[1] + Q[0]) % p
    C = 2 * P[3] * Q[3] * ED_D % p; D = 2 * P[2] * Q[2] % p
    E, F, G, H = B - A, D - C, D + C, B + A
    return (E * F % p, G * H % p, F * G % p, E * H % p)

def ed_mul(s, P):
    Q = (0, 1, 1, 0)
    while s > 0:
        if s & 1: Q = ed_add(Q, P)
        P = ed_add(P, P); s >>= 1
    return Q

def ed_eq(P, Q):
    p = P25519
    return (P[0] * Q[2] - Q[0] * P[2]) % p == 0 and (P[1] * Q[2] - Q[1] * P[2]) % p == 0

def ed_recover_x(y, sign):
    p = P25519
    if y >= p: return None
    x2 = (y * y - 1) * pow(ED_D * y * y + 1, p - 2, p) % p
    if x2 == 0:
        return None if sign else 0
    x = pow(x2, (p + 3) // 8, p)
    if (x * x - x2) % p != 0: x = x * ED_I % p
    if (x * x - x2) % p != 0: return None
    if (x & 1) != sign: x = p - x
    return x

_gy = 4 * pow(5, P25519 - 2, P25519) % P25519
ED_G = (ed_recover_x(_gy, 0), _gy, 1, ed_recover_x(_gy, 0) * _gy % P25519)

def ed_compress(P):
    p = P25519
    zi = pow(P[2], p - 2, p)
    x, y = P[0] * zi % p, P[1] * zi % p
    return (y | ((x & 1) << 255)).to_bytes(32, "little")

def ed_decompress(s):
    if len(s) != 32: return None
    y = int.from_bytes(s, "little"); sign = y >> 255; y &= (1 << 255) - 1
    x = ed_recover_x(y, sign)
    if x is None: return None
    return (x, y, 1, x * y % P25519)

def ed_expand(secret):
    h = hashlib.sha512(secret).digest()
    a = int.from_bytes(h[:32], "little"); a &= (1 << 254) - 8; a |= 1 << 254
    return a, h[32:]

def ed_public(secret):
    a, _ = ed_expand(secret)
    return ed_compress(ed_mul(a, ED_G))

def ed_sign(secret, msg):
    a, prefix = ed_expand(secret)
    A = ed_compress(ed_mul(a, ED_G))
    r = int.from_bytes(hashlib.sha512(prefix + msg).digest(), "little") % ED_L
    Rs = ed_compress(ed_mul(r, ED_G))
    h = int.from_bytes(hashlib.sha512(Rs + A + msg).digest(), "little") % ED_L
    return Rs + ((r + h * a) % ED_L).to_bytes(32, "little")

def ed_verify(pub, msg, sig):
    """RFC 8032 5.1.7 with the cofactorless check [S]B = R + [k]A (either is permitted by the RFC);
    S must be canonical (< L)"""
    if len(pub) != 32 or len(sig) != 64: return False
    A = ed_decompress(pub)
    if A is None: return False
    R = ed_decompress(sig[:32])
    if R is None: return False
    s = int.from_bytes(sig[32:], "little")
    if s >= ED_L: return False
    h = int.from_bytes(hashlib.sha512(sig[:32] + pub + msg).digest(), "little") % ED_L
    return ed_eq(ed_mul(s, ED_G), ed_add(R, ed_mul(h, A)))


# ------------------------------------------------------------------ private key files (DER) for cross-checking the harness
def der_items(b):
    """children of a DER SEQUENCE body: list of (tag, content)"""
    out, i = [], 0
    while i < len(b):
        tag = b[i]; l = b[i + 1]; i += 2
        if l & 0x80:
            n = l & 0x7F; l = int.from_bytes(b[i:i + n], "big"); i += n
        out.append((tag, b[i:i + l])); i += l
    return out

def parse_rsa_pkcs1(der):
    top = der_items(der)[0][1]
    ints = [int.from_bytes(c, "big") for t, c in der_items(top) if t == 2]
    return {"N": ints[1], "e": ints[2], "d": ints[3], "p": ints[4], "q": ints[5]}

def parse_ec_sec1(der):
    top = der_items(der)[0][1]
    it = der_items(top)
    d = int.from_bytes(it[1][1], "big")
    pub = None
    for t, c in it[2:]:
        if t == 0xA1:
            bs = der_items(c)[0][1]
            pub = bs[1:]
    return {"d": d, "pub": pub}

def pem_der(path, label=None):
    import base64
    lines, on = [], False
    for l in open(path):
        l = l.strip()
        if l.startswith("-----BEGIN"):
            on = (label is None or label in l); lines = [] if on else lines
            continue
        if l.startswith("-----END"):
            if on: return base64.b64decode("".join(lines))
            continue
        if on: lines.append(l)
    return None
