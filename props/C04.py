"""C04 - a handshake that calls for certificate authentication completes only if internal chain validation succeeded
or the application's callback explicitly accepted that failure, and the peer proved possession of the leaf key over this
handshake's own data; without a callback every validation failure is fatal, identically in every protocol version.

Theorems: coq/Properties/Properties_C04.v over coq/Auth/AuthModel.v (cert_outcome12 / cert_outcome13 = the REPAIRED
hsDecode.c parseCertificate / tls13Authenticate.c matrixSslValidatePeerCerts with the shared matrixssl.c
matrixSslSetCertChainAlert (most severe defect wins); message machine of the verifying side, for a client-auth server from
the ClientHello on: the requirement is dropped only by a successful lookup of the offered resumption material).
Tie (i)  verdict sweep: a live handshake is driven to the peer's Certificate message; harness/h_auth.c answers the real code's
         call of matrixValidateCertsExt with a fabricated verdict (rc, per-certificate authStatus/authFailFlags, chain
         shape), the REAL parseCertificate / tls13 code maps it; the extracted model must give the same callback argument
         and the same outcome (Continue(anon) / Fatal alert) on every case.  Exhaustive over the stated finite domain in
         `thorough`, stratified sample in `quick`.
Tie (ii) live handshakes with genuinely defective credentials / proofs of possession x callback modes x versions x key
         exchanges x roles; each verifying side is re-run through the extracted message machine (ideal signatures).
Tie (iii) a server configured for client authentication x what a client may offer instead of a fresh handshake (made-up / expired /
         evicted / altered / foreign-key session id, ticket, TLS 1.3 ticket PSK; sessions negotiated with and without client auth).
Search oracle (Impl vs Spec, from the property text, independent of the model): `complete-despite:...` (a callback's "0" accepts
the alert it was given only: completion is legal only if no defect of the chain is more severe than that alert),
`live-complete-despite:...`.
"""
import base64, itertools, json, os, re, threading
import vlib

WRAPS = ["psGetBrokenDownGMTime", "psGetEntropy", "psGetPrngLocked", "psGetTime", "csAesGcmEncryptTls13",
         "csChacha20Poly1305IetfEncryptTls13", "matrixValidateCertsExt", "psSign", "psRsaDecryptPriv", "tls13Verify",
         "chooseSkeSigAlg", "chooseSigAlg", "sslUpdateHSHash", "tls13TranscriptHashUpdate", "tls13EncryptMessage", "psEccX963ExportKey"]

PASS = 1
STATUS_NAME = {1: "PASS", 0: "UNEXAMINED", -32: "FAIL_BC", -33: "FAIL_DN", -34: "FAIL_SIG", -35: "FAIL_REVOKED", -36: "FAIL",
               -37: "FAIL_EXTENSION", -38: "FAIL_PATH_LEN", -39: "FAIL_AUTHKEY"}
STATUSES = [1, 0, -32, -33, -34, -35, -36, -37, -38, -39]
EXT_FLAGS = [0, 1, 4, 5, 8, 9, 12, 13]          # subsets of {KEY_USAGE 1, SUBJECT 4, DATE 8}; EKU/VERIFY_DEPTH are never read
OTHER_FLAGS = [0, 12]
RCS = [0, -1, -6, -31, -36, -8]                 # success, PS_FAILURE, PS_ARG_FAIL, PS_PARSE_FAIL, PS_CERT_AUTH_FAIL, PS_MEM_FAIL
CBS = [(0, 0), (1, 0), (2, 0), (3, 49), (3, -1), (3, 254), (6, 45), (6, 46), (6, 48)]
CB_NAME = {(0, 0): "nocb", (1, 0): "cb-strict", (2, 0): "cb-permissive", (3, 49): "cb-alert49", (3, -1): "cb-negative",
           (3, 254): "cb-anon", (6, 45): "cb-accept45", (6, 46): "cb-accept46", (6, 48): "cb-accept48", (6, 42): "cb-accept42"}


def cert_variants(st):
    return [(st, f) for f in (EXT_FLAGS if st == -37 else OTHER_FLAGS)]


ALL_CERTS = [c for st in STATUSES for c in cert_variants(st)]           # 26 (status, flags) pairs
FAIL_CERTS = [c for c in ALL_CERTS if c[0] != PASS]


def vline(ver, role, cb, ca, depth, rc, chain):
    """chain: list of (status, flags, selfsigned)"""
    return "V %d %s %d %d %d %d %d %d %s" % (ver, role, cb[0], cb[1], ca, depth, rc, len(chain),
                                            " ".join("%d %d %d" % c for c in chain))


def verdict_domain():
    """the finite domain of the exhaustive comparison (documented in ck.rules)"""
    out = []
    rcs_for = lambda st: RCS + ([st] if st < 0 and st not in RCS else [])
    # A: chains of 1 and 2 certificates with at most one certificate that did not pass
    shapes = [[(st, fl, 0)] for (st, fl) in ALL_CERTS]
    shapes += [[(st, fl, 0), (1, 0, 1)] for (st, fl) in ALL_CERTS]
    shapes += [[(1, 0, 0), (st, fl, 1)] for (st, fl) in FAIL_CERTS]
    for ch in shapes:
        worst = min(c[0] for c in ch)
        for rc in rcs_for(worst):
            for cb in CBS:
                for ca in (1, 0):
                    for ver in (12, 13):
                        out.append(("A", vline(ver, "c", cb, ca, 0, rc, ch)))
    # B: both certificates failing (which alert wins: first in TLS <= 1.2, last in TLS 1.3)
    reps = [(st, 8 if st == -37 else 0) for st in STATUSES if st != PASS] + [(-37, 0), (-37, 4)]
    for a in reps:
        for b in reps:
            for rc in (0, -36):
                for cb in ((0, 0), (1, 0), (2, 0), (6, 42), (6, 45), (6, 46), (6, 48)):
                    for ver in (12, 13):
                        out.append(("B", vline(ver, "c", cb, 1, 0, rc, [(a[0], a[1], 0), (b[0], b[1], 1)])))
    # C: max_verify_depth against chains of 1..3 certificates (self-signed or not at each position)
    for maxd in (1, 2, 3):
        for n in (1, 2, 3):
            for ss in itertools.product((0, 1), repeat=n - 1):
                for pat in ("pass", "leafdate", "lastdn"):
                    ch = [(1, 0, 0)] + [(1, 0, s) for s in ss]
                    if pat == "leafdate": ch[0] = (-37, 8, 0)
                    if pat == "lastdn": ch[-1] = (-33, 0, ch[-1][2])
                    for cb in ((0, 0), (1, 0), (2, 0), (6, 48), (3, 254)):
                        for ver in (12, 13):
                            out.append(("C", vline(ver, "c", cb, 1, maxd, 0 if pat == "pass" else (-33 if pat == "lastdn" else 0), ch)))
    # D: the server verifying a client chain (client authentication)
    for (st, fl) in ALL_CERTS:
        for rc in (0, -6, -36):
            for cb in ((0, 0), (1, 0), (2, 0), (3, 49), (3, 254)):
                for ver, ca in ((12, 1), (13, 1)):        # a server without CA never gets to validate a client chain (probed on every run)
                    out.append(("D", vline(ver, "s", cb, ca, 0, rc, [(st, fl, 0)])))
    # E: DTLS 1.2 / DTLS 1.0 run the same parseCertificate behind the datagram layer (ver 212 / 211)
    for (st, fl) in ALL_CERTS:
        for rc in (0, -6, -36):
            for cb in ((0, 0), (1, 0), (2, 0), (6, 45), (6, 48), (3, 254)):
                for ver in (212, 211):
                    for role in ("c", "s"):
                        out.append(("E", vline(ver, role, cb, 1, 0, rc, [(st, fl, 0)])))
    for a in reps:
        for cb in ((0, 0), (6, 45), (6, 46), (6, 48)):
            for ver in (212, 211):
                out.append(("E", vline(ver, "c", cb, 1, 0, -36, [(a[0], a[1], 0), (-33, 8, 1)])))
    return out


def parse_v(line):
    t = line.split()
    ver, role, cbm, cba, ca, depth, rc, n = int(t[1]), t[2], int(t[3]), int(t[4]), int(t[5]), int(t[6]), int(t[7]), int(t[8])
    chain = [(int(t[9 + 3 * i]), int(t[10 + 3 * i]), int(t[11 + 3 * i])) for i in range(n)]
    return dict(ver=ver, role=role, cb=(cbm, cba), ca=ca, depth=depth, rc=rc, chain=chain)


def with_ss(line, ss):
    """the model's cv_self = what the library's own comparison answered for each certificate (logged by the harness)"""
    t = line.split(); n = int(t[8])
    for i in range(min(n, len(ss))):
        t[11 + 3 * i] = ss[i]
    return " ".join(t)


def cb_answer(cb, alert):
    m, a = cb
    if m == 1: return alert
    if m == 2: return 0
    if m == 3: return a
    if m == 6: return 0 if alert == a else alert
    return alert


def spec_failure_reason(c, ss):
    """auth failure per the property text: which reason (None = authenticated)"""
    if c["rc"] < 0:
        return "rc<0"
    for (st, fl, _) in c["chain"]:
        if st != PASS:
            return STATUS_NAME.get(st, str(st))
    if not c["ca"]:
        return "NO_CA"
    if c["depth"] > 0:
        last_self = (ss[len(c["chain"]) - 1] == "1") if len(ss) >= len(c["chain"]) else False
        if len(c["chain"]) + (0 if last_self else 1) > c["depth"]:
            return "TOO_DEEP"
    return None


def spec_defects(c, ss):
    """every defect of the verdict, as the alert description that stands for it (property text: signature / issuer / constraint
    problems, revocation, unknown CA, expiry, name); written independently of the Coq spec"""
    D = []; n = len(c["chain"])
    for i, (st, fl, _) in enumerate(c["chain"]):
        hn = i < n - 1
        if st == PASS: continue
        if st == -35: D.append(44)
        elif st == -37:
            if (fl & ~12) or not (fl & 12): D.append(42 if hn else 47)
            if fl & 4: D.append(46)
            if fl & 8: D.append(45)
        elif st in (-32, -33): D.append(42 if hn else 48)
        else: D.append(42)
    if not c["ca"]: D.append(48)
    if c["depth"] > 0:
        last_self = (ss[n - 1] == "1") if len(ss) >= n else False
        if n + (0 if last_self else 1) > c["depth"]: D.append(48)
    if c["rc"] < 0 and not D: D.append(42)
    return D


def severity(alert):
    """expired < name mismatch < everything that breaks the trust path"""
    return 0 if alert in (0, 255, None) else 1 if alert == 45 else 2 if alert == 46 else 3


RES_V = re.compile(r"ss=(\S+) val=(\d+) cb=(\S+) out=(\S+)")


def run_h(ck, exe, lines, timeout=3000):
    """h_auth result lines carry the prefix '@ ' (the library prints diagnostics of its own to stdout)"""
    out = ck.run_lines(exe, lines, timeout=timeout)[1]
    return [o[2:] for o in out if o.startswith("@ ")]


def run_parallel(ck, exe, lines, nproc):
    if nproc <= 1 or len(lines) < 400:
        return run_h(ck, exe, lines)
    k = (len(lines) + nproc - 1) // nproc
    chunks = [lines[i:i + k] for i in range(0, len(lines), k)]
    res = [None] * len(chunks)
    def work(i):
        res[i] = run_h(ck, exe, chunks[i])
    th = [threading.Thread(target=work, args=(i,)) for i in range(len(chunks))]
    for t in th: t.start()
    for t in th: t.join()
    out = []
    for i, r in enumerate(res):
        r = r or []
        out += r + ["?"] * (len(chunks[i]) - len(r))
    return out


def verdict_sweep(ck, h, drv, corpus_v):
    dom = verdict_domain()
    total = len(dom)
    if ck.tier == "thorough":
        chosen = dom
    else:
        r = ck.rng("verdict-sample")
        want = {"A": 1300, "B": 300, "C": 250, "D": 250, "E": 300}
        chosen = []
        for blk in "ABCDE":
            xs = [d for d in dom if d[0] == blk]
            r.shuffle(xs)
            chosen += xs[:want[blk]]
    cases = list(corpus_v) + [d[1] for d in chosen]
    seen = set(); cases = [c for c in cases if not (c in seen or seen.add(c))]
    impl = run_parallel(ck, h, cases, 4)
    mcases, impl_c, keep = [], [], []
    for i, c in enumerate(cases):
        m = RES_V.match(impl[i]) if i < len(impl) else None
        if not m:
            ck.count("verdict:harness-line-unparsed"); mcases.append(c); impl_c.append(impl[i] if i < len(impl) else "?"); keep.append((c, None)); continue
        ss, val, cba, out = m.groups()
        mcases.append(with_ss(c, ss) if ss != "-" else c)
        impl_c.append("val=%s cb=%s out=%s" % (val, cba, out))
        keep.append((c, (ss, int(val), cba, out)))
    model = ck.run_lines(drv, mcases, timeout=3000)[1] if drv else []
    ck.correspond("verdict -> outcome: cert_outcome12/13 (model) vs parseCertificate / tls13ValidateCertChain (impl) under a substituted validator verdict",
                  mcases, impl_c, model, nontrivial=lambda c, o: "out=F" in o or "cb=-" not in o)
    # which defect does an un-repaired tree show: compare with the model of the pinned code as well (diagnostic only)
    dis = [i for i in range(min(len(impl_c), len(model))) if impl_c[i].strip() != model[i].strip()]
    if dis and drv:
        pm = ck.run_lines(drv, ["P" + mcases[i][1:] for i in dis[:2000]], timeout=600)[1]
        same = sum(1 for j, i in enumerate(dis[:2000]) if j < len(pm) and pm[j].strip() == impl_c[i].strip())
        ck.log("of the first %d disagreeing verdict cases %d behave like the model of the PINNED (un-repaired) code" % (min(len(dis), 2000), same))
    # ---- Impl vs Spec
    for c, ob in keep:
        if ob is None:
            continue
        ss, val, cba, out = ob
        p = parse_v(c)
        ck.count("verdict:%d:%s:%s" % (p["ver"], p["role"], "C" if out.startswith("C") else ("F" if out.startswith("F") else "X")))
        if out.startswith("X") or val == 0:
            ck.count("verdict:not-reached")
            continue
        reason = spec_failure_reason(p, ss)
        cbn = CB_NAME.get(p["cb"], "cb-%d-%d" % p["cb"])
        if out.startswith("C") and reason is not None:
            if p["cb"][0] == 0:
                bad = "no callback is registered"
            elif cba in ("-", "0"):
                bad = "the callback was %s" % ("never consulted" if cba == "-" else "told that no alert is pending (alert argument 0)")
            elif cb_answer(p["cb"], int(cba)) not in (0, 254):
                bad = "the callback answered %d" % cb_answer(p["cb"], int(cba))
            elif max(severity(d) for d in spec_defects(p, ss)) > severity(int(cba)):
                worst = max(spec_defects(p, ss), key=severity)
                bad = "the callback was only told alert %s while the chain also has a worse defect (alert %d)" % (cba, worst)
                cbn += "-hidden-worse"
            else:
                bad = None          # explicitly accepted by the application
            if bad:
                ck.spec_violation("complete-despite:%d:%s:%s" % (p["ver"], reason, cbn if bad != "the callback was told that no alert is pending (alert argument 0)" else cbn + "-told-ok"),
                                  "%s %s completed the handshake although certificate authentication failed (%s) and %s" % (
                                      {13: "TLS 1.3", 212: "DTLS 1.2", 211: "DTLS 1.0"}.get(p["ver"], "TLS <=1.2"), "client" if p["role"] == "c" else "server (client auth)", reason, bad),
                                  {"harness": "h_auth", "case": c, "observed": "ss=%s val=%d cb=%s out=%s" % ob,
                                   "expected_by_spec": "fatal alert (no callback acceptance of this failure)"})
        if p["cb"][0] != 0 and reason is not None and cba == "0" and not out.startswith("C"):
            ck.count("verdict:cb-told-ok-but-fatal")
        if out.startswith("C") and out[1:] == "1" and (p["cb"][0] == 0 or cb_answer(p["cb"], int(cba) if cba != "-" else 0) != 254):
            ck.spec_violation("anon-without-callback:%d" % p["ver"], "connection flagged anonymous although the callback did not return SSL_ALLOW_ANON_CONNECTION",
                              {"harness": "h_auth", "case": c, "observed": out})
    return len(cases), total


# ------------------------------------------------------------------ live matrix
SIG = {None: 71, "flip": 0, "stale": 70, "replay": 70, "wrongkey": 81}     # ideal signature: 10*key + (1 = this handshake's data); leaf key = 7
DEFAULT_OFFER = "2,4,5,6"


def lline(d):
    return "L " + " ".join("%s=%s" % (k, v) for k, v in d.items() if not k.startswith("_") and v is not None and v != "")


def live_scenarios(ck):
    S = []
    kexes = [(12, "c02f", "rsa", "dhe", 0), (12, "c02b", "ec", "dhe", 0), (12, "009c", "rsa", "rsa", 0), (12, "003c", "rsa", "rsa", 0),
             (13, "", "rsa", "dhe", 0), (13, "", "ec", "dhe", 0),
             # DTLS 1.2 (AEAD and CBC) and DTLS 1.0: the datagram transport of sess.h, HelloVerifyRequest round included
             (12, "c02f", "rsa", "dhe", 1), (12, "c027", "rsa", "dhe", 1), (12, "c02b", "ec", "dhe", 1), (11, "c013", "rsa", "dhe", 1)]
    cbs = [(0, "nocb"), (1, "cb-strict"), (2, "cb-permissive")]
    for ver, suite, key, kex, dtls in kexes:
        base = dict(ver=ver, suite=suite, key=key, _kex=kex)
        if dtls: base["dtls"] = 1
        for cbm, cbn in cbs:
            # --- client verifies the server
            cred = [("valid", {}), ("expired", dict(year=2030)), ("wrong-ca", dict(cca=2)), ("no-ca", dict(cca=0, cid=1)),
                    ("no-ca-selfsigned-root", dict(cca=0, cid=1, schain=1)), ("name-mismatch", dict(name="wrong.example.com")),
                    ("validator-arg-fail", dict(name="localhost", vmflags=1, vnametype=3))]
            for cls, kv in cred:
                S.append(dict(base, ccb=cbm, _cls=cls, _cb=cbn, _side="c", _pop=None, **kv))
            pops = ["flip", "stale", "replay", "wrongkey"] if kex == "dhe" else []
            if cbm == 0 and suite in ("c02f", "c02b", "", "c013"):
                # chains with TWO defects x callbacks that tolerate exactly ONE alert description (completion is legal only when the
                # tolerated alert is at least as severe as every defect: expired < name < untrusted)
                multi = [("expired+name-mismatch", dict(year=2030, name="wrong.example.com"), 2),
                         ("expired+wrong-ca", dict(year=2030, cca=2), 3),
                         ("expired-leaf+untrusted-root", dict(year=2030, cca=2, schain=1), 3),
                         ("expired+no-ca", dict(year=2030, cca=0, cid=1, schain=1), 3),
                         ("name-mismatch+wrong-ca", dict(name="wrong.example.com", cca=2), 3),
                         ("expired", dict(year=2030), 1), ("name-mismatch", dict(name="wrong.example.com"), 2)]
                for cls, kv, sev in multi:
                    for tol in (45, 46, 48, 42):
                        S.append(dict(base, ccb=6, carg=tol, _cls=cls, _cb="cb-accept%d" % tol, _side="c", _pop=None, _sev=sev, _tol=tol, **kv))
            for pm in pops:
                S.append(dict(base, ccb=cbm, pop=pm + ":s", _cls="valid", _cb=cbn, _side="c", _pop=pm))
            if kex == "rsa" and suite == "009c":      # (003c: a corrupted key exchange currently crashes the library in its CBC-SHA256 MAC path: reported to C08)
                S.append(dict(base, ccb=cbm, kt="wrongkey", _cls="valid", _cb=cbn, _side="c", _pop="kt-wrongkey"))
            if ver == 12 and kex == "dhe":
                sa = "0401" if key == "rsa" else "0403"
                for fh in (2, 5):
                    S.append(dict(base, ccb=cbm, sigalgs=sa, forcehash="%d:s" % fh, _cls="valid", _cb=cbn, _side="c", _pop="unoffered-alg", _alg=fh, _offer="4"))
                S.append(dict(base, ccb=cbm, sigalgs=sa, forcehash="4:s", _cls="valid", _cb=cbn, _side="c", _pop=None, _alg=4, _offer="4"))
            # --- a server that OMITS its proof of possession (everything else genuine, its own Finished computed without the message)
            if ver == 13:
                S.append(dict(base, ccb=cbm, omit="cv:s", _cls="valid", _cb=cbn, _side="c", _pop="absent-cv"))
            elif kex == "dhe":
                S.append(dict(base, ccb=cbm, omit="skesig:s", _cls="valid", _cb=cbn, _side="c", _pop="absent-ske-sig"))
            # --- server verifies the client (client authentication); the client itself is permissive so that the run reaches the server's check
            if suite != "003c":
                scred = [("valid", {}), ("expired", dict(year=2030, ccb=2)), ("wrong-ca", dict(sca=2)), ("no-ca", dict(sca=0))]
                for cls, kv in scred:
                    if cls == "no-ca" and ver == 13:
                        continue
                    S.append(dict(base, cauth=1, scb=cbm, _cls=cls, _cb=cbn, _side="s", _pop=None, **kv))
                for pm in ["flip", "stale", "replay", "wrongkey"]:
                    S.append(dict(base, cauth=1, scb=cbm, pop=pm + ":c", _cls="valid", _cb=cbn, _side="s", _pop=pm))
                # a client that sends Certificate (non-empty) but NO CertificateVerify, then a Finished that is genuine for that transcript
                if not dtls:
                    S.append(dict(base, cauth=1, scb=cbm, omit="cv:c", _cls="valid", _cb=cbn, _side="s", _pop="absent-cv"))
                if ver != 13 and kex == "dhe":   # (D)TLS <= 1.2 through the honest encoder alone (also keeps DTLS message_seq consistent)
                    S.append(dict(base, cauth=1, scb=cbm, preset="nocv", _cls="valid", _cb=cbn, _side="s", _pop="absent-cv-preset"))
                if ver == 13:       # same through the honest encoder alone: the client believes its Certificate was empty
                    S.append(dict(base, cauth=1, scb=cbm, preset="emptycert", _cls="valid", _cb=cbn, _side="s", _pop="absent-cv-preset"))
                if ver == 12:
                    sa = "0401" if key == "rsa" else "0403"
                    S.append(dict(base, cauth=1, scb=cbm, ssigalgs=sa, forcehash="2:c", _cls="valid", _cb=cbn, _side="s", _pop="unoffered-alg", _alg=2, _soffer="4"))
    return S


def vtag(s):
    """version tag of a scenario in signatures / histograms: 12, 13, 11; DTLS: d12, d10"""
    return ("d%d" % (12 if s["ver"] == 12 else 10)) if s.get("dtls") else str(s["ver"])


def vname(s):
    return ("DTLS %s" % ("1.2" if s["ver"] == 12 else "1.0")) if s.get("dtls") else "TLS %s" % {13: "1.3", 12: "1.2", 11: "1.1"}[s["ver"]]


RES_L = re.compile(r"new=(-?\d+)(?: rewrite=-?\d+)? c=(\S+) s=(\S+) val=(\d+):(\d+) sign=(\d+):(\d+) v=([^;]*);(\S+)")


def parse_side(t):
    if t == "nil": return None
    a = t.split(",")
    calls, last = a[3].split(":")
    return dict(done=int(a[0]), err=int(a[1]), hs=int(a[2]), cbcalls=int(calls), cblast=int(last), anon=int(a[4]))


def obs_of(p):
    if p is None: return "nil"
    if p["done"]: return "done"
    if p["err"] != 255: return "dead:%d" % p["err"]
    return "wait"


def cert_tok(verdict, ca, depth):
    parts = verdict.split("/")
    return "cert:7:%s:%d:%d:%s" % (parts[0], ca, depth, ",".join(x.replace(":", ".") + ".0" for x in parts[1:]))


def live_matrix(ck, h, drv, altkeys, corpus_l):
    S = live_scenarios(ck)
    lines = [altkeys] + list(corpus_l) + [lline(s) for s in S]
    out = run_h(ck, h, lines)
    if not out or not out[0].startswith("altkeys:") or ":-" in out[0]:
        ck.log("alternate private keys could not be loaded: %r" % (out[:1],))
    out = out[1 + len(corpus_l):]
    mlines, mexp, back = [], [], []
    for i, s in enumerate(S):
        line = lline(s)
        m = RES_L.match(out[i]) if i < len(out) else None
        if not m:
            ck.count("live:unparsed"); ck.log("unparsed live result: %s => %r" % (line, out[i] if i < len(out) else None)); continue
        c, sv = parse_side(m.group(2)), parse_side(m.group(3))
        vc, vs = m.group(8), m.group(9)
        if int(m.group(1)) != 0 or c is None or sv is None:
            ck.count("live:setup-failed:%s" % m.group(1)); continue
        ver, kex = s["ver"], s["_kex"]
        side = s["_side"]; ver_peer = c if side == "c" else sv
        cbn, cls, pop = s["_cb"], s["_cls"], s["_pop"]
        ck.count("live:%s:%s:%s:%s:%s" % (vtag(s), side, cls, pop or "-", obs_of(ver_peer).split(":")[0]))
        # ---- Impl vs Spec (from the property text; the generator knows what it broke)
        cbm = s.get("ccb" if side == "c" else "scb", 0)
        told = ver_peer["cblast"] if ver_peer["cbcalls"] else None
        accepted = cls == "valid" or (cbm == 2 and told not in (None, 0))
        if "_tol" in s:     # tolerant of one alert: legal only if it was told exactly that alert and nothing the chain has is worse
            accepted = told == s["_tol"] and severity(s["_tol"]) >= s["_sev"]
        if s.get("omit"):
            om = re.search(r" omit=(\d+):(\d+)", out[i])
            applied = om and int(om.group(2)) >= 1 and int(om.group(1)) >= 1
            if not applied:
                ck.obligation("live:omission-applied", False, detail="%s => %s" % (line, out[i]))
        if s.get("preset") == "nocv" and " nocv=1" not in out[i]:
            ck.obligation("live:preset-nocv-applied", False, detail="%s => %s" % (line, out[i]))
        if s.get("preset") and int(m.group(6)) != 0:
            ck.obligation("live:preset-suppresses-client-signature", False, detail="%s => %s" % (line, out[i]))
        signs = int(m.group(6)) + int(m.group(7))
        if pop == "replay" and signs >= 100:
            ck.count("live:replay-not-applicable"); pop = None; s = dict(s, pop="")       # no usable recorded signature: this run was a plain handshake
        if ver_peer["done"] and (not accepted or pop is not None):
            why = ("defective proof of possession (%s)" % pop) if pop is not None and accepted else \
                  ("%s credentials; callback: %s%s" % (cls, cbn, "" if told is None else " (told alert %d)" % told))
            ck.spec_violation("live-complete-despite:%s:%s:%s:%s" % (vtag(s), cls if not accepted else pop, cbn, side),
                              "%s %s completed a handshake with a peer presenting %s" % (vname(s), "client" if side == "c" else "server", why),
                              {"harness": "h_auth", "case": line, "observed": out[i], "expected_by_spec": "no completion on the verifying side"})
        if cls == "valid" and pop is None and not (c["done"] and sv["done"]):
            ck.count("live:valid-handshake-failed")
            ck.log("NOTE valid credentials did not complete: %s => %s" % (line, out[i]))
        # ---- model: each verifying side through the extracted message machine
        fixske = 1
        c_off = s.get("_offer", DEFAULT_OFFER); s_off = s.get("_soffer", DEFAULT_OFFER)
        alg = s.get("_alg", 4)
        spop = s["pop"].split(":")[0] if s.get("pop", "").endswith(":s") else None
        cpop = s["pop"].split(":")[0] if s.get("pop", "").endswith(":c") else None
        ca_c = 0 if s.get("cca", 1) == 0 else 1
        ca_s = 0 if s.get("sca", 1) == 0 else 1
        ccb = "%d %d" % (s.get("ccb", 0), s.get("carg", 0)); scb = "%d %d" % (s.get("scb", 0), s.get("sarg", 0))
        calg = alg if s.get("forcehash", "").endswith(":s") else 4
        salg = alg if s.get("forcehash", "").endswith(":c") else 4
        if vc == "-":
            continue
        s_omits = s.get("omit", "").endswith(":s"); c_omits = s.get("omit", "").endswith(":c") or s.get("preset") in ("emptycert", "nocv")
        mv = (200 + ver) if s.get("dtls") else ver
        if ver != 13:
            ske = ["skeu"] if s_omits else ["ske:%d:%d" % (calg, SIG[spop])]
            first = [cert_tok(vc, ca_c, s.get("depth", 0))] + (ske if kex == "dhe" else []) + ["shd"]
        else:
            first = [cert_tok(vc, ca_c, s.get("depth", 0))] + ([] if s_omits else ["cv:%d:%d" % (calg, SIG[spop])]) + ["fin:1"]
        head_c = "M %d c %s %s %d %s " % (mv, kex, ccb, fixske, c_off)
        back.append((i, "c1", line, out[i])); mlines.append(head_c + " ".join(first)); mexp.append(None)
        if s.get("cauth"):
            if vs == "-":
                # the server's validator was never called; with a CA list that does not cover the client's certificate the client answers the
                # CertificateRequest with an EMPTY Certificate message (harness fact: cls wrong-ca on the server side)
                smsgs = ["nocert"] if s["_cls"] == "wrong-ca" else []
            elif ver != 13:
                smsgs = [cert_tok(vs, ca_s, 0), "cke"] + ([] if c_omits else ["cv:%d:%d" % (salg, SIG[cpop])]) + ["fin:1"]
            else:
                smsgs = [cert_tok(vs, ca_s, 0)] + ([] if c_omits else ["cv:%d:%d" % (salg, SIG[cpop])]) + ["fin:1"]
            back.append((i, "s", line, out[i])); mlines.append("M %d s dhe %s %d %s " % (mv, scb, fixske, s_off) + " ".join(smsgs)); mexp.append(None)
        if ver != 13:
            vd = 81 if s.get("kt") == "wrongkey" else (71 if kex == "rsa" else 1)
            back.append((i, "c2", line, out[i])); mlines.append(head_c + " ".join(first + ["fin:%d" % vd])); mexp.append(None)
    mres = ck.run_lines(drv, mlines, timeout=600)[1] if drv else []
    # combine the per-side machine runs in protocol order, compare with what each side did
    by = {}
    for j, (i, tag, line, o) in enumerate(back):
        by.setdefault(i, {})[tag] = mres[j].split()[0][3:] if j < len(mres) else "?"
    cases, impl_c, model_c = [], [], []
    for i, tags in sorted(by.items()):
        s = S[i]; m = RES_L.match(out[i]); c, sv = parse_side(m.group(2)), parse_side(m.group(3))
        ver = s["ver"]
        c1 = tags.get("c1", "?"); srv = tags.get("s"); c2 = tags.get("c2")
        if c1.startswith("dead"):
            pc, ps = c1, "wait"
        elif ver == 13:
            pc = c1                                   # the TLS 1.3 client is done once it has verified the server's flight
            ps = srv if srv is not None else "done"
        else:
            if srv is not None and not srv == "done":
                pc, ps = "wait", ("wait" if srv.startswith("wait") else srv)
            elif s.get("kt") == "wrongkey":
                pc, ps = "wait", "dead"               # the server cannot decrypt the premaster: it fails on the client's Finished and never answers
            else:
                pc, ps = c2, "done"
        oc, os_ = obs_of(c), obs_of(sv)
        if ps == "dead": os_ = os_.split(":")[0]
        cases.append(lline(s)); impl_c.append("c=%s s=%s" % (oc, os_)); model_c.append("c=%s s=%s" % (pc, ps))
    ck.correspond("live handshakes with defective credentials / proofs of possession: message machine (model, ideal signatures) vs both peers (impl)",
                  cases, impl_c, model_c, nontrivial=lambda cs, o: "dead" in o or "wait" in o)
    return len(S)


# ------------------------------------------------------------------ the requirement "authenticate the client" across resumption offers
def resumption_scenarios():
    S = []
    for ver, suite, dtls in ((12, "c02f", 0), (11, "c013", 0), (13, "", 0), (12, "c02f", 1), (12, "c027", 1), (11, "c013", 1)):
        for scb, cbn in ((0, "nocb"), (1, "cb-strict"), (2, "cb-permissive")):
            base = dict(ver=ver, suite=suite, cauth=1, scb=scb, _cb=cbn)
            if dtls: base["dtls"] = 1
            if ver != 13:
                S.append(dict(base, offer="fakeid", cid=0, _cls="fake-session-id", _orig=None, _cert=0))
                S.append(dict(base, offer="fakeid", _cls="fake-session-id", _orig=None, _cert=1))
                for tk in ((0,) if dtls else (0, 1)):      # session tickets do not complete over DTLS in this build (probed on every run)
                    t = dict(ticket=1) if tk else {}
                    mech = "ticket" if tk else "id"
                    S.append(dict(base, pre="auth", _cls="genuine-" + mech, _orig=1, _cert=1, **t))
                    for bt in ("expire", "restart", "corrupt") + (("foreignkey",) if tk else ()):
                        if tk and bt == "restart": continue
                        S.append(dict(base, pre="auth", between=bt, seed=7, _cls="%s-%s" % (mech, bt), _orig=1, _cert=1, **t))
                        S.append(dict(base, pre="auth", between=bt, seed=7, cid=0, _cls="%s-%s" % (mech, bt), _orig=1, _cert=0, **t))
                    S.append(dict(base, pre="noauth", _cls="unauthenticated-original-" + mech, _orig=0, _cert=1, **t))
                    S.append(dict(base, pre="noauth", cid=0, _cls="unauthenticated-original-" + mech, _orig=0, _cert=0, **t))
                    S.append(dict(base, pre="noauth", between="expire", cid=0, _cls="unauthenticated-original-%s-expire" % mech, _orig=0, _cert=0, **t))
            else:
                S.append(dict(base, ticket=1, pre="auth", _cls="genuine-psk", _orig=1, _cert=1))
                for bt in ("expire", "corrupt", "foreignkey"):
                    S.append(dict(base, ticket=1, pre="auth", between=bt, _cls="psk-" + bt, _orig=1, _cert=1))
                    S.append(dict(base, ticket=1, pre="auth", between=bt, cid=0, _cls="psk-" + bt, _orig=1, _cert=0))
                S.append(dict(base, ticket=1, pre="noauth", _cls="unauthenticated-original-psk", _orig=0, _cert=1))
                S.append(dict(base, ticket=1, pre="noauth", cid=0, _cls="unauthenticated-original-psk", _orig=0, _cert=0))
    return S


RES_R = re.compile(r"(?: pre=(-?\d+),(-?\d+),(\d+),(\d+))? res=(-?\d+)")


def resumption_matrix(ck, h, drv):
    """a server configured for client authentication x what a client may offer instead of a fresh handshake.  Oracle (property text):
    the server completes only if THIS handshake validated a client chain and verified a CertificateVerify, or it resumed a session whose
    ORIGINAL handshake did."""
    S = resumption_scenarios()
    lines = [lline(s) for s in S]
    out = run_h(ck, h, lines)
    cases, impl_c, mlines = [], [], []
    for i, s in enumerate(S):
        o = out[i] if i < len(out) else ""
        m = RES_L.match(o); r = RES_R.search(o)
        if not m or not r or int(m.group(1)) != 0:
            ck.count("resume:unparsed-or-setup-failed"); ck.log("resumption scenario not run: %s => %r" % (lines[i], o)); continue
        c, sv = parse_side(m.group(2)), parse_side(m.group(3))
        sval, csign, vs = int(m.group(5)), int(m.group(6)), m.group(9)
        res = int(r.group(5)); ver = s["ver"]
        if s.get("pre"):
            pre_ok = r.group(1) is not None and int(r.group(1)) == 1 and int(r.group(2)) == 1 and \
                     ((int(r.group(3)) >= 1 and int(r.group(4)) >= 1) if s["pre"] == "auth" else int(r.group(3)) == 0)
            if not pre_ok:
                ck.obligation("resume:earlier-handshake-as-intended", False, detail="%s => %s" % (lines[i], o)); continue
        ck.count("resume:%s:%s:%s:res%d" % (vtag(s), s["_cls"], obs_of(sv).split(":")[0], res))
        authed_now = sval >= 1 and csign >= 1
        if sv["done"]:
            if res == 1 and not s["_orig"] and not authed_now:
                # (DTLS shares the parser and the open finding: the registered signature carries the TLS-equivalent version number)
                ck.spec_violation("live-complete-despite:%d:resumed-%s:%s%s:s" % (ver, s["_cls"], s["_cb"], "-dtls" if s.get("dtls") else ""),
                                  "a server configured for client authentication completed by resuming a session whose original handshake never "
                                  "authenticated the client (no certificate, no callback, no CertificateVerify in either handshake)",
                                  {"harness": "h_auth", "case": lines[i], "observed": o, "expected_by_spec": "full handshake with client authentication"})
            elif res != 1 and not authed_now:
                ck.spec_violation("live-complete-despite:%s:no-client-auth-after-%s:%s:s" % (vtag(s), s["_cls"], s["_cb"]),
                                  "a server configured for client authentication completed a FULL handshake without CertificateRequest / Certificate / "
                                  "CertificateVerify after the client offered resumption material it could not use (callback calls: %d)" % sv["cbcalls"],
                                  {"harness": "h_auth", "case": lines[i], "observed": o, "expected_by_spec": "client authentication, or failure"})
        if s["_cert"] == 1 and not s.get("between") == "corrupt" and ver != 13 and not (c["done"] and sv["done"]):
            ck.count("resume:honest-client-failed"); ck.log("NOTE honest client with certificate did not complete: %s => %s" % (lines[i], o))
        # ---- model: the server's message machine from the ClientHello on; the lookup's answer is read off the implementation
        if ver == 13 and not sv["done"] and sval == 0 and sv["err"] in (20, 40, 47, 51):
            ck.count("resume:tls13-psk-offer-rejected-in-hello"); continue       # PSK binder / ticket-age handling: not part of this model (C14/C10)
        hello = "ch:hit:%d" % (1 if s["_orig"] else 0) if res == 1 else "ch:miss"
        if res == 1:
            msgs = [hello, "fin:1"]
        elif vs != "-":
            msgs = [hello, cert_tok(vs, 1, 0)] + (["cke"] if ver != 13 else []) + (["cv:4:71"] if csign >= 1 else []) + ["fin:1"]
        elif s["_cert"] == 0:
            msgs = [hello, "nocert"]            # a client without certificate answers the CertificateRequest with an empty Certificate
        else:
            msgs = [hello]
        mver = 13 if ver == 13 else ((200 + ver) if s.get("dtls") else 12)
        mlines.append("M %d s dhe %d 0 1 %s " % (mver, s["scb"], DEFAULT_OFFER) + " ".join(msgs))
        cases.append(lines[i]); os_ = obs_of(sv)
        impl_c.append("s=%s%s" % (os_, " resumed" if res == 1 and sv["done"] else ""))
    mres = ck.run_lines(drv, mlines, timeout=600)[1] if drv else []
    model_c = []
    for j, ml in enumerate(mlines):
        r = mres[j] if j < len(mres) else "?"
        ph = r.split()[0][3:]
        model_c.append("s=%s%s" % ("wait" if ph.startswith("wait") else ph, " resumed" if "resumed=" in r and ph == "done" else ""))
    ck.correspond("client-auth server x resumption offers: message machine from the ClientHello (model) vs server (impl)", mlines, impl_c, model_c,
                  nontrivial=lambda cs, o: True)
    return len(S)


def probes(ck, h):
    """reachability facts the domain definition relies on, re-established on every run"""
    lines = ["V 13 s 0 0 0 0 0 1 1 0 0",                       # TLS 1.3 server without CA: does it reach certificate validation?
             "V 12 s 0 0 0 0 0 1 1 0 0",                       # TLS 1.2 server without CA: same question
             "L ver=12 suite=c02f schain=1 depth=2",          # documented: depth 2 = peer certificate + 1 root
             "L ver=13 cca=0 ckeys=none schain=1",            # TLS 1.3 client with NOTHING loaded
             "L ver=12 dtls=1 suite=c02f cauth=1 scb=1 ticket=1 pre=auth"]   # session-ticket resumption over DTLS: does it complete?
    out = run_h(ck, h, lines, timeout=300)
    for k in (0, 1):
        if len(out) > k and "val=0" not in out[k]:
            ck.notes.append("a TLS 1.%d server without loaded CAs now reaches certificate validation: extend the verdict domain (block D)" % (3 - k))
            ck.log("NOTE: " + ck.notes[-1])
            ck.obligation("domain:server-without-ca-unreachable", False, detail="%s => %s" % (lines[k], out[k]))
    out = out[1:]
    if len(out) >= 2:
        m = RES_L.match(out[1])
        if m and parse_side(m.group(2))["err"] == 48:
            ck.notes.append("over-strict (fail-closed, not a C04 violation): max_verify_depth=2 rejects leaf + self-signed root with unknown_ca, because "
                            "parseCertificate / psCheckSetPathLenFailure test self-signedness with memcmpct over the whole x509DNattributes_t "
                            "(heap pointers included), which never compares equal; the model takes the comparison's answer as the input cv_self")
    if len(out) >= 4:
        m = RES_L.match(out[3])
        if m and parse_side(m.group(3))["done"]:
            ck.notes.append("session-ticket resumption now completes over DTLS: add ticket offers to the DTLS resumption matrix")
            ck.log("NOTE: " + ck.notes[-1])
        else:
            ck.notes.append("session-ticket resumption does not complete over DTLS in this build (server resumes from the ticket, the client waits for a "
                            "Certificate: a liveness matter, not C04); the DTLS resumption matrix therefore offers session ids only")
    if len(out) >= 3:
        m = RES_L.match(out[2])
        if m and parse_side(m.group(2))["done"]:
            ck.spec_violation("live-complete-despite:13:no-ca-nothing-loaded:nocb:c",
                              "a TLS 1.3 client with no CA, no identity and no callback completed a handshake with a server presenting leaf + self-signed root",
                              {"harness": "h_auth", "case": lines[2], "observed": out[2]})


def load_altkeys(ck):
    def der(path, label):
        t = open(path).read()
        m = re.search(r"-----BEGIN %s-----(.*?)-----END %s-----" % (label, label), t, re.S)
        return base64.b64decode("".join(m.group(1).split())).hex()
    R = ck.build_repo()
    return "altkeys %s %s" % (der(os.path.join(R, "testkeys/RSA/2048_RSA_CA_KEY.pem"), "RSA PRIVATE KEY"),
                              der(os.path.join(R, "testkeys/EC/256_EC_CA_KEY.pem"), "EC PRIVATE KEY"))


def read_corpus():
    v, l = [], []
    d = os.path.join(vlib.VERIF, "corpus", "C04")
    if os.path.isdir(d):
        for f in sorted(os.listdir(d)):
            if f.endswith(".case"):
                for line in open(os.path.join(d, f)):
                    line = line.strip()
                    if line.startswith("V "): v.append(line)
                    elif line.startswith("L "): l.append(line)
    return v, l


def run(ck):
    ck.trusted += ["Coq 8.16.1 kernel", "tools/srcgen/consts_auth.c translator (alert numbers, PS_CERT_AUTH_*, configuration switches)",
                   "extraction (ExtrOcamlBasic only) + ocaml/drv_c04.ml",
                   "harness/h_auth.c + sess.h: link-time wraps of matrixValidateCertsExt (verdict substitution / recording), psSign, tls13Verify (the signer's "
                   "own fault check only), psRsaDecryptPriv, chooseSkeSigAlg/chooseSigAlg (a misbehaving signer), entropy/calendar/clock",
                   "modelled, not verified: parseCertificate (after the validator call), matrixUserCertValidator, matrixSslValidatePeerCerts, psCheckSetPathLenFailure, "
                   "psCheckValidationResult, tls13HandleUserCertCbResult are hand-written Gallina compared with the library on every run; the message machine "
                   "abstracts signatures / Finished MACs as oracles (byte-level checks: C11, C12) and the order of messages as the state gates (C06)"]
    ck.assumptions += ["ssl->err is SSL_ALERT_NONE when the Certificate message is parsed (default configuration: no ALLOW_VERSION_1_ROOT_CERT_PARSE, no "
                       "SERVER_WILL_ACCEPT_EMPTY_CLIENT_CERT_MSG, no USE_CERT_CHAIN_PARSING - checked through Gen/ConstsAuth.v)",
                       "c04_pop: sig_ok / fin_ok are arbitrary oracles (no cryptographic assumption is needed for the statement; unforgeability is what makes a "
                       "recorded successful check mean possession)",
                       "the chain validator's own correctness (which verdict a chain deserves) is C03; expected-name matching is C05"]
    ck.assumptions += ["DTLS 1.0 / 1.2 share parseCertificate, parseServerKeyExchange, parseCertificateVerify, parseClientHello (resumption) and the state gate "
                       "with TLS 1.1 / 1.2; what DTLS adds around them is NOT in the Coq model and only exercised by the live runs: the HelloVerifyRequest "
                       "round (stateless cookie), 12-byte handshake headers with message_seq / fragment fields (the omitting peers stay self-consistent: "
                       "message_seq and Finished are those of a peer that never wrote the message), epochs, retransmission on request (sess.h follows a "
                       "retransmission request on flight boundaries only).  One DTLS difference IS modelled (p_dtls): a ChangeCipherSpec + Finished arriving "
                       "while another handshake message is expected is dropped as out of order instead of answered with unexpected_message"]
    ck.build_repo()
    ck.regen([("consts.sh",)])
    ck.coq_properties()
    # configuration the model was written for
    gen = open(os.path.join(vlib.COQ, "Gen", "ConstsAuth.v")).read()
    for sw in ("accept_empty_client_cert", "allow_v1_root", "cert_chain_parsing"):
        ck.obligation("config:" + sw + "=false", ("a_cfg_%s : bool := false" % sw) in gen, detail="the model does not cover this configuration switch being on")
    drv = ck.ocaml_driver("drv_c04", extract_vo="Extract/Extract_C04.vo", gen_ml=["m_c04"])
    h = ck.cc("h_auth.c", wraps=WRAPS)
    corpus_v, corpus_l = read_corpus()
    n, total = verdict_sweep(ck, h, drv, corpus_v)
    altkeys = load_altkeys(ck)
    nl = live_matrix(ck, h, drv, altkeys, corpus_l)
    nr = resumption_matrix(ck, h, drv)
    probes(ck, h)
    ck.rules.append("verdict sweep: (A) chains of 1-2 certificates with at most one non-PASS certificate: authStatus in {PASS, 0, FAIL_BC, FAIL_DN, FAIL_SIG, "
                    "FAIL_REVOKED, FAIL, FAIL_EXTENSION, FAIL_PATH_LEN, FAIL_AUTHKEY} x failFlags (all subsets of KEY_USAGE/SUBJECT/DATE for FAIL_EXTENSION, "
                    "{0, SUBJECT|DATE} otherwise) x position (leaf / issuer) x rc in {0,-1,ARG,PARSE,AUTH_FAIL,MEM, the status itself} x 8 callback behaviours "
                    "(none, echo, 0, alert 49, negative, allow-anon, accept-only-45, accept-only-48) x CA loaded x {TLS 1.2, TLS 1.3}; (B) all pairs of failing "
                    "certificates; (C) max_verify_depth 1-3 x chain length 1-3 x self-signed patterns; (D) server verifying a client chain; (E) DTLS 1.2 / DTLS 1.0, both roles.  %d of %d "
                    "domain points run (%s); a case is non-trivial if it ends fatally or involves the callback" % (n, total, "all" if ck.tier == "thorough" else "stratified sample"))
    ck.rules.append("live matrix: %d handshakes: {valid, expired, wrong CA, no CA, no CA + self-signed root, name mismatch, validator argument failure} x "
                    "{no / strict / permissive callback} x {RSA key transport 009c/003c, ECDHE-RSA c02f, ECDHE-ECDSA c02b, TLS 1.3 RSA, TLS 1.3 ECDSA, DTLS 1.2 "
                    "c02f / c027 / c02b, DTLS 1.0 c013} x {client, "
                    "server verifying}; proofs of possession corrupted, over stale data, replayed from another handshake, made with another key, made with an "
                    "algorithm that was not offered, or simply ABSENT (CertificateVerify left out by a client / by a TLS 1.3 server, ServerKeyExchange "
                    "without signature; the omitting peer's own transcript and Finished are those of a peer that never wrote the message); RSA key "
                    "transport with a server lacking the private key" % nl)
    ck.rules.append("resumption offers: %d runs of a server configured for client authentication (TLS 1.1, 1.2, 1.3; no / strict / permissive callback) "
                    "against clients offering a made-up session id, the id / ticket / TLS 1.3 ticket PSK of an expired, evicted (server restart), altered or "
                    "foreign-key session, of a genuine authenticated session, and of a session negotiated WITHOUT client authentication on the same keys; "
                    "clients with and without a certificate; the same over DTLS 1.2 (GCM, CBC) and DTLS 1.0 with session ids" % nr)
    ck.cov["resumption_scenarios"] = nr
    ck.cov["exhaustive"] = (ck.tier == "thorough")
    ck.cov["verdict_domain_size"] = total
    ck.cov["verdict_cases_run"] = n
    ck.cov["live_scenarios"] = nl


def replay(ck, path):
    rp = json.load(open(path))["replay"]
    ck.build_repo()
    h = ck.cc("h_auth.c", wraps=WRAPS)
    lines = [load_altkeys(ck), rp["case"]]
    out = run_h(ck, h, lines)
    print("case:", rp["case"]); print("observed now:", out[1] if len(out) > 1 else out)
    print("expected by spec:", rp.get("expected_by_spec"))
