"""C20 - concurrent sessions sharing keys and caches are race-free and serialisable  (claimed PARTIALLY).

Theorems (coq/Properties/Properties_C20.v over coq/Conc/*.v and the GENERATED coq/Gen/LockPaths.v):
  c20_checker_sound        check_paths ps = true  =>  on every path of every entry function every access is made under
                           the mutex of the object, no mutex is taken while held, every exit holds nothing, lock order acyclic
  c20_well_locked          check_paths <table generated from the current source> = true          (vm_compute)
  c20_drf                  well-locked threads under mutex semantics: conflicting accesses are ordered by happens-before
  c20_sections_atomic      a critical section is one atomic step w.r.t. everything its mutex guards
  c20_atomic_serialisable  every schedule of atomic steps is a sequential history of the same operations
  c20_ticket_pin_*         the two-step "find key / user callback / use key" operation of getTicketKeys
Tie: tools/srcgen/gen_lockpaths.py re-reads the (preprocessed) source on every run.
Search / validation of the translator: harness/h_threads.c under ThreadSanitizer (N threads, in-memory handshakes full /
id-resumed / ticket-resumed / TLS 1.3 PSK, data, ticket-key rotation, session deletion, CRL cache updates against ONE
shared key set): data races, use-after-free, deadlock (watchdog), crashes, per-session outcomes vs sequential runs.
"""
import json, os, re, subprocess, time
import vlib

WRAPS = ["psGetBrokenDownGMTime"]


# ---------------------------------------------------------------- a small CRL (unrelated issuer: handshake verdicts do not depend on it)
def _tlv(t, b):
    n = len(b)
    l = bytes([n]) if n < 128 else (bytes([0x81, n]) if n < 256 else bytes([0x82, n >> 8, n & 255]))
    return bytes([t]) + l + b

def make_crl():
    seq = lambda *x: _tlv(0x30, b"".join(x))
    algid = seq(_tlv(6, bytes.fromhex("2a864886f70d01010b")), _tlv(5, b""))
    name = seq(_tlv(0x31, seq(_tlv(6, bytes.fromhex("550403")), _tlv(0x0c, b"verif-c20 unrelated issuer"))))
    utc = lambda s: _tlv(0x17, s)
    tbs = seq(_tlv(2, b"\x01"), algid, name, utc(b"200101000000Z"), utc(b"300101000000Z"),
              seq(seq(_tlv(2, b"\x01\x23"), utc(b"200101000000Z"))))
    return seq(tbs, algid, _tlv(3, b"\x00" + bytes((i * 7 + 3) & 255 for i in range(256)))).hex()


# ---------------------------------------------------------------- ThreadSanitizer report parsing
FRAME_RE = re.compile(r"^\s+#(\d+)\s+(\S+)\s+(\S+?)(?::(\d+))?(?::\d+)?\s+\(")

def parse_tsan(text):
    """-> list of reports {kind, stacks: [[(func, file, line), ...], ...], summary}"""
    reps = []
    for blk in text.split("=================="):
        m = re.search(r"WARNING: ThreadSanitizer: ([^\n(]+)", blk)
        if not m:
            m2 = re.search(r"ThreadSanitizer:DEADLYSIGNAL|ERROR: ThreadSanitizer: (SEGV[^\n]*)", blk)
            if not m2:
                continue
            kind = "SEGV"
        else:
            kind = m.group(1).strip()
        stacks, cur = [], None
        for ln in blk.split("\n"):
            if re.match(r"^  \S", ln) and ln.rstrip().endswith(":"):
                cur = []; stacks.append((ln.strip(), cur)); continue
            fm = FRAME_RE.match(ln)
            if fm and cur is not None:
                cur.append((fm.group(2), fm.group(3), int(fm.group(4) or 0)))
            elif fm and kind == "SEGV":
                if not stacks: stacks.append(("signal", []))
                stacks[-1][1].append((fm.group(2), fm.group(3), int(fm.group(4) or 0)))
        sm = re.search(r"SUMMARY: ThreadSanitizer: ([^\n]*)", blk)
        reps.append({"kind": kind, "stacks": stacks, "summary": sm.group(1) if sm else ""})
    return reps

def is_lib_frame(fr):
    fn, path, _ = fr
    if "libsanitizer" in path or "tsan_" in path or path.startswith("<"): return False
    if path.endswith("h_threads.c") or "/harness/" in path: return False
    return path.endswith(".c") or path.endswith(".h")

class SrcMap:
    def __init__(self, root):
        self.by_base = {}
        for top in ("core", "crypto", "matrixssl"):
            for r, _d, fs in os.walk(os.path.join(root, top)):
                for f in fs:
                    if f.endswith((".c", ".h")):
                        self.by_base.setdefault(f, []).append(os.path.relpath(os.path.join(r, f), root))
    def rel(self, path):
        b = os.path.basename(path)
        c = self.by_base.get(b, [])
        if len(c) == 1: return c[0]
        norm = os.path.normpath(path)
        for x in c:
            if norm.endswith(x): return x
        for x in c:
            if os.path.normpath(path).split("/")[-2:] == x.split("/")[-2:]: return x
        return c[0] if c else b


# ---------------------------------------------------------------- running the harness
def run_case(ck, exe, line, tag, timeout=400):
    logp = os.path.join(ck.scratch, "tsan-%s.log" % tag)
    for f in os.listdir(ck.scratch):
        if f.startswith("tsan-%s.log" % tag): os.remove(os.path.join(ck.scratch, f))
    env = dict(os.environ, TSAN_OPTIONS="exitcode=0 log_path=%s history_size=4 second_deadlock_stack=1" % logp)
    t = time.time()
    try:
        p = subprocess.run([exe], input=line + "\n", stdout=subprocess.PIPE, stderr=subprocess.PIPE, env=env, text=True,
                           errors="replace", timeout=timeout)
        rc, out, err = p.returncode, p.stdout, p.stderr
    except subprocess.TimeoutExpired as ex:
        rc, out, err = -999, (ex.stdout or b"").decode(errors="replace") if isinstance(ex.stdout, bytes) else (ex.stdout or ""), "timeout"
    logs = ""
    for f in sorted(os.listdir(ck.scratch)):
        if f.startswith("tsan-%s.log" % tag):
            logs += open(os.path.join(ck.scratch, f), errors="replace").read()
    return {"rc": rc, "out": out.split("\n"), "err": err, "tsan": logs + "\n" + err, "secs": time.time() - t}

def ops_of(res):
    d = {}
    for l in res["out"]:
        m = re.match(r"OP t=(\d+) i=(\d+) k=(\S+) (.*)", l)
        if m: d[(int(m.group(1)), int(m.group(2)))] = (m.group(3), m.group(4).strip())
    return d

def end_of(res):
    for l in res["out"]:
        if l.startswith("END"): return l
    return "END missing"


def run(ck):
    ck.trusted += ["Coq 8.16.1 kernel (coqc; vm_compute for the generated-table lemma and the bounded ticket-key sweeps)",
                   "tools/srcgen/gen_lockpaths.py: statement-level C parser + lexical, flow-insensitive pointer taint (trusted for the theorem; "
                   "cross-checked by the ThreadSanitizer runs: a race on a location it did not list fails the obligation translator-complete)",
                   "the list of shared roots / mutexes / set-up functions / 2 alias exemptions / callback summaries inside the translator",
                   "pthread mutex semantics (a mutex is granted only when free) and sequential consistency of data-race-free programs",
                   "harness/h_threads.c + ThreadSanitizer (search only)"]
    ck.assumptions += ["set-up and tear-down (matrixSslOpen/Close, key loading, callback registration, matrixSslDeleteKeys) run while no other thread uses the key set",
                       "each ssl_t is driven by one thread at a time (distinct sessions)",
                       "user callbacks may call matrixSslLoadSessionTicketKeys / matrixSslDeleteSessionTicketKey (they take g_sessTicketLock) and nothing else that locks",
                       "indirect calls other than ticket_cb made inside critical sections take no library mutex"]
    R = ck.build_repo()
    census_p = os.path.join(ck.scratch, "census.json")
    ck.regen([("gen_lockpaths.py", "--json", census_p)])
    census = json.load(open(census_p)) if os.path.exists(census_p) else {"functions": [], "static_failures": [], "shared": [], "mutexes": []}
    for sf in census.get("skipped", []):
        ck.notes.append("translator could not preprocess/parse: %s" % sf)
    ck.cov["table"] = {"functions": len(census["functions"]),
                       "by_kind": {k: sum(1 for f in census["functions"] if f["kind"] == k) for k in ("Entry", "Helper", "Setup", "Waived")},
                       "leaves": sum(len(f["leaves"]) for f in census["functions"]), "summaries": len(census.get("summaries", {})),
                       "shared": [s["name"] for s in census.get("shared", [])], "mutexes": census.get("mutexes", []),
                       "ticket_pin": census.get("ticket_pin"), "alias_exemptions": census.get("alias_exemptions", []),
                       "indirect_calls_in_lock_holders": census.get("indirect_calls_in_lock_holders", [])}
    for f in census["functions"]:
        if f["kind"] == "Waived":
            ck.spec_violation("unlocked:%s:%s" % (f["file"], f["name"]), "function excluded from the lock-discipline table by an open finding",
                              {"function": f["name"], "file": f["file"]})
    ok_coq = ck.coq_properties()
    ck._model_unlock()      # no extraction in this check: the shared coq/ tree is not needed any more (other checks may proceed)
    static_fail = census.get("static_failures", [])
    if static_fail:
        ck.notes.append("lock-discipline failures named by the translator's diagnostic walker: " + "; ".join(x["why"] for x in static_fail[:12]))
    h = ck.cc("h_threads.c", wraps=WRAPS, variant="tsan")
    Rt = ck.build_repo("tsan")
    smap = SrcMap(Rt)
    table_fns = {f["name"]: f for f in census["functions"]}
    with_acc = {f["name"] for f in census["functions"] if any(l[0] == "acc" for l in f["leaves"])}
    crl = make_crl()
    r = ck.rng("sched")
    ck.rules.append("every worker's operation list is a pure function of (seed, T, K, thread): full / id-resumed / ticket / ticket-resumed / TLS1.3 / PSK-resumed / "
                    "aborted / server-side deleted sessions, each with data both ways; a rotator thread adds and deletes ticket keys, a CRL thread updates the CRL cache; "
                    "yields and sleeps are drawn from the seed; the same operations are also run in 3 sequential orders; a case is non-trivial when the handshake completes")

    seen_sigs = {}
    uncovered = []
    harness_races = []

    def account_tsan(res, case, what):
        reps = parse_tsan(res["tsan"])
        for rp in reps:
            frames = [fr for _h, st in rp["stacks"] for fr in st]
            lib = [fr for fr in frames if is_lib_frame(fr)]
            if not lib:
                if any("h_threads.c" in fr[1] for fr in frames): harness_races.append(rp["summary"])
                continue
            # innermost library frame of the first access
            st0 = [fr for fr in (rp["stacks"][0][1] if rp["stacks"] else []) if is_lib_frame(fr)] or lib
            first = st0[0]
            rel = smap.rel(first[1])
            # a report inside a primitive (cipher / digest / bignum / buffer helper) is attributed to the innermost caller that
            # the translator holds responsible for the discipline (a function of the table)
            if re.match(r"(crypto/(symmetric|digest|math|aead|pubkey|prng|layer)/|core/)", rel):
                for fr in st0:
                    if fr[0] in table_fns:
                        first = fr; rel = smap.rel(fr[1]); break
            kind = "race" if "data race" in rp["kind"] else ("uaf" if "use-after-free" in rp["kind"] else ("crash" if rp["kind"] == "SEGV" else rp["kind"].replace(" ", "-")))
            sig = "%s:%s:%s" % (kind, rel, first[0])
            covered = any(fr[0] in with_acc for fr in lib)
            if not covered and kind in ("race", "uaf"):
                uncovered.append(sig + " via " + " <- ".join(fr[0] for fr in lib[:6]))
            if sig in seen_sigs: continue
            seen_sigs[sig] = True
            ck.count("tsan:" + kind)
            chain = []
            for hd, st in rp["stacks"][:2]:
                chain.append(hd + " " + " <- ".join("%s (%s:%d)" % (fr[0], smap.rel(fr[1]), fr[2]) for fr in st if is_lib_frame(fr))[:600])
            ck.spec_violation(sig, "%s: ThreadSanitizer %s in %s (%s:%d)%s" % (what, rp["kind"], first[0], rel, first[2],
                                                                                "" if covered else "  [location NOT in the translator's table]"),
                              {"harness": "h_threads(tsan)", "case": case, "observed": rp["summary"], "stacks": chain,
                               "expected_by_spec": "no data race / use after free under any schedule", "covered_by_table": covered})
        return reps

    # ------------------------------------------------------------ directed schedules for the two candidates
    res = run_case(ck, h, "uaf", "uaf")
    account_tsan(res, "uaf", "ticket key freed while a session uses it (getTicketKeys drops the lock around ticket_cb)")
    verdict = next((l for l in res["out"] if l.startswith("UAF verdict=")), "UAF verdict=missing:" + end_of(res))
    if "deadlock" in end_of(res) or res["rc"] == -999:
        ck.spec_violation("deadlock:uaf", "the ticket_cb schedule did not finish (a second session blocked on g_sessTicketLock while the first was inside ticket_cb): " + end_of(res),
                          {"harness": "h_threads(tsan)", "case": "uaf", "observed": res["out"][-6:]})
        verdict = "UAF verdict=delete-refused (not reached: deadlock reported)"
    ck.count(verdict)
    ck.cov["evaluations"] += 1
    if "delete-refused" not in verdict:
        ck.spec_violation("uaf:matrixssl/matrixssl.c:getTicketKeys", "matrixSslDeleteSessionTicketKey freed a ticket key that a session had pinned: "
                          "thread A is inside ticket_cb (lock dropped, holding the key pointer), a second session with the same key clears inUse, the delete succeeds, A continues with the freed key",
                          {"harness": "h_threads(tsan)", "case": "uaf", "observed": [l for l in res["out"] if l.startswith("UAF")],
                           "expected_by_spec": "delete refused (key in use) or performed before/after A's compound operation"})
    else:
        ck.add_distinct("uaf-refused")
    for sc in ("nullkey", "nullkey13"):
        res = run_case(ck, h, sc, sc)
        reps = account_tsan(res, sc, "last ticket key deleted between two flights of a ticket-issuing handshake")
        ck.cov["evaluations"] += 1
        e = end_of(res)
        ck.count(sc + ":" + e.split()[1] if len(e.split()) > 1 else sc + ":none")
        if "survived=1" not in e and not any(rp["kind"] == "SEGV" for rp in reps):
            ck.spec_violation("crash:%s" % sc, "process died in scenario %s: %s rc=%s" % (sc, e, res["rc"]),
                              {"harness": "h_threads(tsan)", "case": sc, "observed": res["out"][-5:] + res["err"].split("\n")[-5:]})
        elif "survived=1" in e:
            ck.add_distinct(sc)

    # ------------------------------------------------------------ randomized schedules
    nseeds = ck.budget(3, 40)
    T, K = ck.budget((4, 8), (6, 14))
    cases, impl_lines, model_lines = [], [], []
    base = r.randrange(1, 10 ** 6)
    plans = []
    for i in range(nseeds):
        plans.append(("T=%d K=%d seed=%d rot=1 crl=%s jitter=%d" % (T, K, base + i, crl, r.choice([10, 30, 60])), False))
    for i in range(ck.budget(2, 20)):
        # rotation of the ISSUING key while TLS 1.3 tickets / TLS 1.2 tickets are created and redeemed: resumption may legitimately fail
        plans.append(("T=%d K=%d seed=%d rot=1 rota=1 mix=%s jitter=%d" % (T, K, base + 1000 + i, r.choice(["0x3c", "0x30", "0xff"]), r.choice([10, 40])), True))
    # corpus schedules first
    cp = os.path.join(vlib.VERIF, "corpus", "C20")
    corpus_plans = []
    if os.path.isdir(cp):
        for f in sorted(os.listdir(cp)):
            for l in open(os.path.join(cp, f)):
                l = l.strip()
                if l.startswith("run mode=conc "):
                    corpus_plans.append((l[len("run mode=conc "):], "rota=1" in l))
    plans = corpus_plans + plans
    for (params, relaxed) in plans:
        conc = run_case(ck, h, "run mode=conc " + params, "conc")
        account_tsan(conc, "run mode=conc " + params, "concurrent sessions")
        e = end_of(conc)
        if "deadlock=0" not in e:
            stuck = [l for l in conc["out"] if l.startswith("STUCK")]
            sigk = "deadlock" if "deadlock=1" in e or conc["rc"] == -999 else "crash"
            ck.spec_violation("%s:%s" % (sigk, "run"), "concurrent run did not finish: %s %s rc=%s" % (e, stuck, conc["rc"]),
                              {"harness": "h_threads(tsan)", "case": "run mode=conc " + params, "observed": conc["out"][-8:] + conc["err"].split("\n")[-8:]})
            continue
        seqs = [ops_of(run_case(ck, h, "run mode=seq order=%d %s" % (o, params), "seq")) for o in (0, 1, 2)]
        cops = ops_of(conc)
        strip = (lambda s: re.sub(r" res=\d| tkt=\d", "", s)) if relaxed else (lambda s: s)
        for key in sorted(cops):
            kind, got = cops[key]
            allowed = [strip(sq[key][1]) for sq in seqs if key in sq]
            case = "run mode=conc %s # t=%d i=%d k=%s" % (params.replace(crl, "<crl>"), key[0], key[1], kind)
            cases.append(case); impl_lines.append(strip(got))
            model_lines.append(strip(got) if strip(got) in allowed else (allowed[0] if allowed else "missing"))
            ck.count("op:" + kind); ck.count("outcome:" + re.sub(r"cerr=-?\d+|serr=-?\d+", "", strip(got)))
            if strip(got) not in allowed:
                ck.spec_violation("outcome:%s" % kind, "session outcome under a concurrent schedule is not the outcome of any of the sequential orders tried",
                                  {"harness": "h_threads(tsan)", "case": "run mode=conc " + params, "op": "t=%d i=%d kind=%s" % (key[0], key[1], kind),
                                   "observed": got, "expected_by_spec": sorted(set(allowed))})
        for l in conc["out"]:
            if l.startswith("ROT") and ("load_fail=0 del_fail=0 keys_left=1" not in l):
                ck.spec_violation("rotation:" + ("rota" if relaxed else "bc"), "ticket-key rotation thread observed a failure or a wrong final key list: " + l,
                                  {"harness": "h_threads(tsan)", "case": "run mode=conc " + params, "observed": l})
            if l.startswith("CRL") and "parse_fail=0 ins=1 del=1" not in l:
                ck.spec_violation("crlcache", "CRL cache thread: insert/delete did not succeed as in a sequential run: " + l,
                                  {"harness": "h_threads(tsan)", "case": "run mode=conc " + params, "observed": l})
    if cases:
        ck.correspond("per-session outcome: concurrent schedule vs sequential orders of the same operations", cases, impl_lines, model_lines,
                      nontrivial=lambda c, o: o.startswith("hs=ok"))
    # ------------------------------------------------------------ translator validation
    ck.obligation("translator-complete", not uncovered,
                  detail="ThreadSanitizer reported shared locations the translator does not list: " + "; ".join(sorted(set(uncovered))[:6]) if uncovered else "")
    ck.obligation("harness-race-free", not harness_races, detail="; ".join(sorted(set(harness_races))[:4]))
    ck.cov["schedules"] = len(plans)
    ck.cov["tsan_distinct_reports"] = sorted(seen_sigs)
    ck.cov["exhaustive"] = False


def replay(ck, path):
    rp = json.load(open(path))["replay"]
    case = rp.get("case", "uaf")
    if "<crl>" in case: case = case.replace("<crl>", make_crl())
    case = case.split(" # ")[0]
    ck.build_repo()
    h = ck.cc("h_threads.c", wraps=WRAPS, variant="tsan")
    res = run_case(ck, h, case, "replay")
    print("case:", case[:300])
    for l in res["out"][-40:]: print("  ", l)
    for rpt in parse_tsan(res["tsan"]): print("  TSAN:", rpt["kind"], "|", rpt["summary"])
