"""C14 - a server resumes a session only with an identifier/ticket it issued itself, unexpired, not
invalidated, with matching version / suite / extended-master-secret use, and then with exactly the
original session's secret.

Theorems: coq/Properties/Properties_C14.v (model coq/Cache/CacheModel.v, spec CacheSpec.v, proofs CacheProofs.v).
Tie: harness/h_cache.c calls matrixRegisterSession / matrixResumeSession / matrixUpdateSession /
matrixClearSession / ticket create+unlock / ticket key add+delete of the freshly built library on
fabricated server connections, printing every return value, the connection and the whole cache
(table + chronological list) after EVERY operation; ocaml/drv_c14.ml runs the extracted model on the
same lines (ticket byte layout compared under a toy cipher/MAC wrapped in at link time).
Search oracle (Impl vs Spec): the abstract `issued` map below (independent of the model), applied to
the direct-call runs (real AES/HMAC for tickets) and to live two-peer sessions (full handshake ->
resumption by id / ticket with edited ids and tickets, foreign session ids next to a ticket or in a
TLS 1.3 hello, fatal alerts on resumed connections)."""
import json, os, re
import vlib

LIFE = 86400000
SUITES = ["c02f", "c030", "003c", "009c", "c027"]
VERS = [33, 33, 33, 32, 34]
BASE_WRAPS = ["psGetBrokenDownGMTime", "psGetEntropy", "psGetPrngLocked", "csAesGcmEncryptTls13",
              "csChacha20Poly1305IetfEncryptTls13", "psGetTime"]
TOY_WRAPS = ["psAesInitCBC", "psAesEncryptCBC", "psAesDecryptCBC", "psAesClearCBC",
             "psHmacSha256Init", "psHmacSha256Update", "psHmacSha256Final"]
CONNS = "ABCDEF"


# ---------------------------------------------------------------- parsing of harness output
CONN_RE = re.compile(r" ([A-F])\{(\d+):([0-9a-f]{64}):([RCE]*):([0-9a-f]{4}|N):([0-9a-f]{8}):t(-?\d+):([0-9a-f]{8}|-):q(\d):h(\d+|-)\}")
SLOT_RE = re.compile(r"(\d+):(-?\d+):([0-9a-f]{4}|N):(\d+)\.(\d+):(-?\d+):(-?\d+):([0-9a-f]{64}):([0-9a-f]{8}) ")

def parse_op(seg):
    seg = seg.strip()
    m = re.match(r"([a-z0-9?]+)=(-?\d+)", seg)
    if not m:
        return None
    d = {"op": m.group(1), "rc": int(m.group(2)), "raw": seg}
    if d["op"] == "mkt":
        mm = re.match(r"mkt=(-?\d+):([0-9a-f]+|-)", seg)
        d["ticket"] = bytes.fromhex(mm.group(2)) if mm and mm.group(2) != "-" else b""
    c = CONN_RE.search(seg)
    if c:
        d["conn"] = {"name": c.group(1), "len": int(c.group(2)), "sid": c.group(3), "flags": c.group(4), "cipher": c.group(5),
                     "ms": c.group(6), "tstate": int(c.group(7)), "tms": c.group(8), "req": int(c.group(9)), "ref": c.group(10)}
    t = re.search(r" T\{(.*?)\}", seg)
    if t is not None:
        d["tbl"] = {int(s[0]): {"inuse": int(s[1]), "cipher": s[2], "ver": (int(s[3]), int(s[4])), "ems": int(s[5]), "start": int(s[6]), "id": s[7], "ms": s[8]}
                    for s in SLOT_RE.findall(t.group(1))}
    if " L!CORRUPT" in seg:
        d["list"] = None
    else:
        l = re.search(r" L\[([0-9,]*)\]", seg)
        if l is not None:
            d["list"] = [int(x) for x in l.group(1).split(",")] if l.group(1) else []
    return d

def split_ops(line):
    return line.split(" | ")


# ---------------------------------------------------------------- generators
def newc(rng, x, **kw):
    v = kw.get("v", rng.choice(VERS)); s = kw.get("s", rng.choice(SUITES)); e = kw.get("e", rng.randrange(2))
    m = kw.get("m", "%02x" % rng.randrange(1, 256)); rnd = kw.get("r", "%02x" % rng.randrange(256))
    return "new %s v=%d s=%s e=%d m=%s r=%s" % (x, v, s, e, m, rnd)

def full_hs(rng, x, **kw):
    """register -> ClientKeyExchange update (full handshake on connection x, left open)"""
    return [newc(rng, x, **kw), "reg " + x, "upd " + x]

def structured_cases(r):
    C = []
    def case(ops): C.append("c " + " ; ".join(ops))
    base = dict(v=33, s="c02f", e=1)
    hsA = full_hs(r, "A", m="a1", r="11", **base) + ["save 0 A"]
    # 1 plain resume, twice, by different connections; release
    case(hsA + ["del A", newc(r, "B", **base), "sid B #0", "chr B", newc(r, "C", **base), "sid C #0", "chr C", "del B", "del C",
                newc(r, "D", **base), "sid D #0", "chr D", "upd D", "del D"])
    # 2 truncated / extended-by-zero / prefix ids, every length
    for k in list(range(1, 32)):
        case(hsA + ["del A", newc(r, "B", **base), "sid B #0:t%d" % k, "chr B", newc(r, "C", **base), "sid C #0:t%d:s32" % k, "chr C",
                    newc(r, "D", **base), "sid D #0:s%d" % k, "res D"])
    # 3 one flipped bit at each position
    for pos in range(32):
        case(hsA + ["del A", newc(r, "B", **base), "sid B #0:x%d.%02x" % (pos, 1 << r.randrange(8)), "chr B", newc(r, "C", **base), "sid C #0", "chr C"])
    # 4 expiry around LIFE and around the int32 wrap of a millisecond difference
    for d in [LIFE - 1, LIFE, LIFE + 1, 2 * LIFE, 2**31 - 1, 2**31, 2**31 + 1, 2**31 + LIFE, 2**32 - 1, 2**32, 2**32 + LIFE, 2**32 + LIFE + 1, 3 * 2**31, 2**33 + 5]:
        case(hsA + ["del A", "tick %d" % d, newc(r, "B", **base), "sid B #0", "chr B", "del B"])
        case(hsA + ["del A", "tick %d" % (d // 2), newc(r, "B", **base), "sid B #0", "chr B", "del B", "tick %d" % (d - d // 2), newc(r, "C", **base), "sid C #0", "chr C"])
    # 5 version / EMS mismatch in both directions
    for (v0, e0) in [(33, 0), (33, 1), (32, 0), (32, 1)]:
        for (v1, e1) in [(33, 0), (33, 1), (32, 0), (32, 1), (34, 1)]:
            case(full_hs(r, "A", v=v0, e=e0, s="c027", m="b2", r="21") + ["save 0 A", "del A", newc(r, "B", v=v1, e=e1, s="c027"), "sid B #0", "chr B", "del B"])
    # 6 fatal alerts: on the registrant, on a resumed connection sharing the entry, error flag at close; then replays
    replay = [newc(r, "E", **base), "sid E #0", "chr E", newc(r, "F", **base), "sid F #0:t4:s32", "chr F", newc(r, "F", **base), "sid F #0:t4", "chr F"]
    case(hsA + ["alert A", "del A"] + replay)
    case(hsA + [newc(r, "B", **base), "sid B #0", "chr B", "alert B", "del B", "del A"] + replay)
    case(hsA + [newc(r, "B", **base), "sid B #0", "chr B", "alert B", "upd A", "del A"] + replay)
    case(hsA + ["del A", newc(r, "B", **base), "sid B #0", "chr B", "flag B E1", "del B"] + replay)
    case(hsA + ["flag A E1", "upd A", "flag A E0", "upd A", "del A"] + replay)
    case(hsA + ["del A", newc(r, "B", **base), "sid B #0", "chr B", newc(r, "C", **base), "sid C #0", "chr C", "alert C", "del B"] + replay)
    # 7 bounded cache: fill beyond capacity while A stays open / after A closed
    for keep_open in (0, 1):
        for n in (31, 32, 33, 40):
            ops = list(hsA) + ([] if keep_open else ["del A"])
            for i in range(n):
                ops += full_hs(r, "B", m="%02x" % (i + 1), r="%02x" % (0x40 + i), **base) + ["del B"]
            ops += [newc(r, "C", **base), "sid C #0", "chr C", "del C"] + (["del A"] if keep_open else [])
            case(ops)
    # all entries in use: registration must fail, nothing evicted
    ops = []
    for i in range(6):
        ops += full_hs(r, CONNS[i], m="%02x" % (i + 1), r="%02x" % (0x50 + i), **base)
    case(ops + ["save 1 C"] + [o for i in range(6) for o in ("del " + CONNS[i],)] + [newc(r, "A", **base), "sid A #1", "chr A"])
    # 8 double release, release without holding, update after release
    case(hsA + ["flag A C1", "upd A", "clr A 0", "upd A", "clr A 1", newc(r, "B", **base), "reg B", "upd B", "del B"])
    case(hsA + ["clr A 0", "upd A", "clr A 0", "upd A", "flag A C1", "upd A", newc(r, "B", **base), "reg B"])
    case(hsA + ["clr A 1", "clr A 1", "upd A", "del A", newc(r, "B", **base), "sid B #0", "chr B"])
    case(hsA + ["del A", "del A", "upd A", "clr A 0", newc(r, "B", **base), "sid B #0", "chr B", "del B", "del B", "clr B 0"])
    # 9 a connection that only carries a client-chosen session id (ticket in use / TLS 1.3 echo) closes or alerts
    case(hsA + ["del A", "kadd n=aa k=11 kl=32 h=22", newc(r, "B", m="b7", **base), "mkt B iv=07 j=0", newc(r, "C", m="00", **base), "sid C #0", "unl C $0", "chr C", "del C",
                newc(r, "D", **base), "sid D #0", "chr D", "del D"])
    case(hsA + ["kadd n=aa k=11 kl=32 h=22", newc(r, "B", m="b7", **base), "mkt B iv=07 j=0", newc(r, "C", m="00", **base), "sid C #0", "unl C $0", "chr C", "alert C", "del C",
                "del A", newc(r, "D", **base), "sid D #0", "chr D", "del D"])
    case(hsA + ["del A", newc(r, "B", v=34, s="c02f", e=1, m="00"), "sid B #0", "chr B", "del B", newc(r, "D", **base), "sid D #0", "chr D", "del D"])
    case(hsA + ["del A", newc(r, "B", v=34, s="c02f", e=1, m="00"), "sid B #0", "chr B", "alert B", newc(r, "D", **base), "sid D #0", "chr D", "del D"])
    case(hsA + ["del A", newc(r, "B", m="66", **base), "sid B #0", "flag B C1", "upd B", "clr B 1", newc(r, "D", **base), "sid D #0", "chr D"])
    # 10 tickets: round trip, every byte edited (sampled), truncation/extension, foreign key, expiry, rotation, delete while listed
    tk = ["kadd n=aa k=11 kl=32 h=22", newc(r, "A", v=33, s="c02f", e=1, m="a1"), "mkt A iv=07 j=0"]
    case(tk + [newc(r, "B", **base), "unl B $0", newc(r, "C", v=32, s="c02f", e=1), "unl C $0", newc(r, "D", **base), "unl D $0:t127", "unl D $0:a00", "unl D -"])
    for pos in sorted(set([0, 15, 16, 31, 32, 33, 36, 37, 84, 85, 88, 95, 96, 127] + [r.randrange(128) for _ in range(6)])):
        case(tk + [newc(r, "B", **base), "unl B $0:x%d.%02x" % (pos, 1 << r.randrange(8)), "unl B $0"])
    for d in [86399000, 86400000, 86400999, 86401000, 90000000]:
        case(tk + ["tick %d" % d, newc(r, "B", **base), "unl B $0"])
    case(tk + ["kadd n=bb k=33 kl=16 h=44", newc(r, "B", **base), "unl B $0", "kdel n=aa", "unl B $0", newc(r, "A", v=33, s="c030", e=0, m="c3"), "mkt A iv=09 j=1",
               newc(r, "C", v=33, s="c030", e=0), "unl C $1", "kadd n=aa k=99 kl=32 h=22", newc(r, "D", **base), "unl D $0", "kadd n=cc k=01 kl=17 h=02", "kdel n=ee"])
    case(["kadd n=aa k=11 kl=32 h=22", "kadd n=bb k=11 kl=32 h=23", newc(r, "A", **base), "mkt A iv=01 j=0", "kdel n=aa", "mkt A iv=01 j=1",
          newc(r, "B", **base), "unl B $0", "unl B $1", "kdel n=bb", "unl B $1", "mkt A iv=02 j=2"])
    case(tk + [newc(r, "B", v=33, s="c02f", e=1), "flag B R0", "unl B $0", newc(r, "C", v=33, s="c02b", e=1), "unl C $0"])
    # 10b application ticket callback (matrixSslSetSessionTicketCallback): verdict scripts x key in list / never reloaded /
    # deleted meanwhile, each followed by resumption attempts (two per script so that two-letter scripts are consumed)
    for script in ("a", "r", "ra", "ar", "l", "w", "rl", "lr"):
        for keystate in ("inlist", "deleted", "deleted-between", "otherkey"):
            ops = ["kadd n=aa k=11 kl=32 h=22", "kadd n=bb k=33 kl=32 h=44", newc(r, "A", v=33, s="c02f", e=1, m="a1"), "mkt A iv=07 j=0"]
            if keystate == "deleted": ops.append("kdel n=aa")
            ops.append("cb %s k=%s h=22" % (script, "99" if keystate == "otherkey" else "11"))
            if keystate == "otherkey": ops.append("kdel n=aa")          # the callback can only supply a key of the same name with other material
            ops += [newc(r, "B", v=33, s="c02f", e=1), "unl B $0", "chr B", "del B"]
            if keystate == "deleted-between": ops.append("kdel n=aa")
            ops += [newc(r, "C", v=33, s="c02f", e=1), "unl C $0", "chr C", "del C", "cb -", newc(r, "D", v=33, s="c02f", e=1), "unl D $0", "chr D"]
            case(ops)
    case(["kadd n=aa k=11 kl=32 h=22", newc(r, "A", v=33, s="c02f", e=1, m="a1"), "mkt A iv=07 j=0", "cb r", newc(r, "B", v=33, s="c02f", e=1),
          "unl B $0:t127", "unl B $0:x3.01", "unl B -", "cb a", "unl B $0:x40.01", "unl B $0"])
    # 11 TLS 1.3 decrypted-ticket parameters: age around the sealed lifetime, negative age, saturation, version / suite mismatch
    ages = [0, 1, 999, 1000, 359000, 359999, 360000, 360999, 361000, 2**31 - 1, 2**31, 2**32 - 1, 2**32, 2**33 + 7]
    ops = ["tick %d" % (2**34), newc(r, "A", v=34, s="1301", e=1)]
    for life in (360, 0, 1, 604800, 2147482, 2147483, 2147484, 4294967295):
        for age in ages + [life * 1000 - 1, life * 1000, life * 1000 + 999, life * 1000 + 1000]:
            if 0 <= age: ops.append("t13v A v=34 s=1301 life=%d age=%d" % (life, age))
    case(ops)
    case([newc(r, "A", v=34, s="1301", e=1), "t13v A v=34 s=1301 life=360 age=0", "t13v A v=33 s=1301 life=360 age=0", "t13v A v=34 s=1302 life=360 age=0",
          "t13v A v=34 s=1301 life=360 age=-5000", "tick 400000", "t13v A v=34 s=1301 life=360 age=360999", "t13v A v=34 s=1301 life=360 age=361000",
          newc(r, "B", v=33, s="c02f", e=1), "t13v B v=33 s=c02f life=360 age=10", "t13v B v=34 s=c02f life=360 age=10"])
    return C

def shared_entry_cases(r):
    """two or three live connections hold ONE cache entry (the registrant A plus resumed B [, C]); every
    invalidating event hits one of them; resume attempts with the entry's id follow while the others are still
    open, after each further close (all delete orders), and after everything closed.  Events:
      sent    the server writes a fatal alert on X (sslEncodeResponse -> matrixClearSession(remove)), then deletes X
      recv    X received a fatal alert / hit a local error: SSL_FLAGS_ERROR, then matrixSslDeleteSession
      errupd  SSL_FLAGS_ERROR seen by a matrixUpdateSession while X stays open (closed later)
      close   control: plain close without close_notify - not an invalidation, later resumptions are legitimate"""
    import itertools
    C = []
    base = dict(v=33, s="c02f", e=1)
    for nh in (2, 3):
        holders = "ABC"[:nh]
        for x in holders:
            for ev in ("sent", "recv", "errupd", "close"):
                others = [h for h in holders if h != x]
                for order in itertools.permutations(others):
                    for probe_secret_change in (0, 1):
                        if probe_secret_change and ev != "close": continue
                        ops = full_hs(r, "A", m="a1", r="%02x" % r.randrange(1, 255), **base) + ["save 0 A"]
                        for h in holders[1:]:
                            ops += [newc(r, h, m="00", **base), "sid %s #0" % h, "chr " + h]
                        if ev == "sent": ops += ["alert " + x, "del " + x]
                        elif ev == "recv": ops += ["flag %s E1" % x, "del " + x]
                        elif ev == "errupd": ops += ["flag %s E1" % x, "upd " + x]
                        else: ops += ["del " + x]
                        probe = lambda y: [newc(r, y, m="00", **base), "sid %s #0" % y, "chr " + y]
                        ops += probe("D") + ["del D"]                       # while the other holders are open
                        for o in order:
                            ops += ["del " + o] + probe("E") + ["del E"]    # after each further close
                        if ev == "errupd": ops += ["del " + x]
                        ops += ["tick 1000"] + probe("F") + ["del F"] + probe("D")   # everything closed; twice
                        C.append("c " + " ; ".join(ops))
    return C

def random_case(r, nops):
    ops = []
    live = set(); saved = 0; tix = 0; keys = 0
    for x in "AB":
        ops.append(newc(r, x)); live.add(x)
    while len(ops) < nops:
        x = r.choice(CONNS[:r.choice([2, 3, 4, 6])])
        k = r.random()
        if x not in live or k < 0.06:
            ops.append(newc(r, x)); live.add(x)
        elif k < 0.22:
            ops += ["reg " + x] + (["upd " + x] if r.random() < 0.8 else [])
            if r.random() < 0.7:
                ops.append("save %d %s" % (saved % 16, x)); saved += 1
        elif k < 0.50:
            src = r.random()
            if saved and src < 0.6: spec = "#%d" % r.randrange(min(saved, 16))
            elif src < 0.85: spec = "@" + r.choice(sorted(live))
            else: spec = "%02x000000" % r.randrange(34) + ("%02x" % r.randrange(256)) * r.choice([0, 28, 28, 5])
            e = r.random()
            if e < 0.12: spec += ":t%d" % r.choice([1, 3, 4, 5, 8, 16, 31])
            elif e < 0.2: spec += ":t4:s32"
            elif e < 0.3: spec += ":x%d.%02x" % (r.randrange(32), 1 << r.randrange(8))
            elif e < 0.34: spec += ":s%d" % r.choice([0, 4, 31, 32])
            ops += ["sid %s %s" % (x, spec), r.choice(["chr " + x] * 4 + ["res " + x])]
        elif k < 0.62:
            ops.append("del " + x)
        elif k < 0.68:
            ops.append("alert " + x)
        elif k < 0.74:
            ops.append("upd " + x)
        elif k < 0.79:
            ops.append("clr %s %d" % (x, r.randrange(2)))
        elif k < 0.84:
            ops.append("flag %s %s" % (x, r.choice(["C1", "C0", "E1", "E0", "R1", "R0"])))
        elif k < 0.90:
            ops.append("tick %d" % r.choice([1, 1000, 3600000, LIFE // 2, LIFE - 1, LIFE, LIFE + 1, 2**31 - LIFE, 2**31, 2**32 - LIFE // 2]))
        elif k < 0.93:
            ops.append("kadd n=%02x k=%02x kl=%d h=%02x" % (r.choice([0xaa, 0xbb, 0xcc]), r.randrange(256), r.choice([16, 32, 32, 24]), r.randrange(256))); keys += 1
        elif k < 0.94:
            ops.append("kdel n=%02x" % r.choice([0xaa, 0xbb, 0xcc]))
        elif k < 0.95:
            ops.append("cb %s k=%02x h=%02x" % (r.choice(["a", "r", "ra", "l", "w", "-", "rl"]), r.randrange(256), r.randrange(256)))
        elif k < 0.97:
            ops.append("mkt %s iv=%02x j=%d" % (x, r.randrange(256), tix % 16)); tix += 1
        else:
            spec = "$%d" % r.randrange(max(1, min(tix, 16)))
            e = r.random()
            if e < 0.3: spec += ":x%d.%02x" % (r.randrange(128), 1 << r.randrange(8))
            elif e < 0.35: spec += ":t%d" % r.randrange(128)
            ops += (["sid %s %s" % (x, "#%d" % r.randrange(min(saved, 16)))] if saved and r.random() < 0.4 else []) + ["unl %s %s" % (x, spec), "chr " + x]
    return "c " + " ; ".join(ops)

def lifecycle_case(r, nsteps):
    """realistic connection lifecycles interleaved over six connection objects:
       new -> (present an id [-> resumed]) | (ticket [+ foreign id]) -> (register -> update) -> optional alert -> delete"""
    ops = []; saved = 0; tix = 0
    phase = {x: None for x in CONNS}            # None: no object; "hello": created; "open": handshake done
    if r.random() < 0.5:
        ops.append("kadd n=aa k=%02x kl=32 h=%02x" % (r.randrange(256), r.randrange(256)))
    while len(ops) < nsteps:
        x = r.choice(CONNS)
        if phase[x] is None:
            ops.append(newc(r, x, v=r.choice([33, 33, 33, 32, 34]), s=r.choice(["c02f", "c02f", "003c"]), e=r.choice([1, 1, 0])))
            resumed = False
            if tix and r.random() < 0.25:
                spec = "$%d" % r.randrange(min(tix, 16))
                if r.random() < 0.3: spec += ":x%d.%02x" % (r.randrange(128), 1 << r.randrange(8))
                if saved and r.random() < 0.5: ops.append("sid %s #%d" % (x, r.randrange(min(saved, 16))))
                ops += ["unl %s %s" % (x, spec), "chr " + x]
            elif saved and r.random() < 0.6:
                spec = "#%d" % r.randrange(min(saved, 16)); e = r.random()
                if e < 0.10: spec += ":t%d" % r.choice([1, 3, 4, 5, 8, 16, 31])
                elif e < 0.16: spec += ":t4:s32"
                elif e < 0.26: spec += ":x%d.%02x" % (r.randrange(32), 1 << r.randrange(8))
                ops += ["sid %s %s" % (x, spec), "chr " + x]
            elif r.random() < 0.15:
                ops += ["sid %s %02x000000%s" % (x, r.randrange(34), ("%02x" % r.randrange(256)) * 28), "chr " + x]
            phase[x] = "hello"
        elif phase[x] == "hello":
            ops.append("sh " + x)                  # full handshake (register + store secret) unless the connection was resumed
            if r.random() < 0.8: ops.append("save %d %s" % (saved % 16, x)); saved += 1
            if r.random() < 0.3 and any(o.startswith("kadd") for o in ops):
                ops.append("mkt %s iv=%02x j=%d" % (x, r.randrange(256), tix % 16)); tix += 1
            phase[x] = "open"
        else:
            k = r.random()
            if k < 0.12: ops.append("alert " + x)
            elif k < 0.18: ops.append("flag %s E1" % x)
            ops.append("del " + x); phase[x] = None
        if r.random() < 0.08:
            ops.append("tick %d" % r.choice([1000, 3600000, LIFE // 2, LIFE, LIFE + 1, 2**31, 2**32 - LIFE // 2]))
        if tix and r.random() < 0.04:
            ops.append("cb %s" % r.choice(["a", "r", "ra", "ar", "-", "-"]))
    return "c " + " ; ".join(ops)

def fill_case(r, n):
    """many short-lived sessions over six connections with interleaved resumptions: eviction order and in-use counts"""
    ops = []; saved = []
    for i in range(n):
        x = CONNS[i % 6]
        ops += [newc(r, x, v=33, e=1, s="c02f", m="%02x" % (1 + i % 250), r="%02x" % ((7 * i + 3) % 256)), "reg " + x, "upd " + x]
        if r.random() < 0.5:
            ops.append("save %d %s" % (i % 16, x)); saved.append(i % 16)
        if r.random() < 0.7:
            ops.append("del " + x)
        if saved and r.random() < 0.5:
            y = CONNS[r.randrange(6)]
            ops += [newc(r, y, v=33, e=1, s="c02f"), "sid %s #%d" % (y, r.choice(saved)), "chr " + y] + (["del " + y] if r.random() < 0.6 else [])
        if r.random() < 0.1:
            ops.append("tick %d" % r.choice([LIFE // 3, LIFE]))
    return "c " + " ; ".join(ops)


# ---------------------------------------------------------------- abstract spec oracle (direct-call runs)
def apply_edits_ticket(b, eds):
    b = bytearray(b)
    for ed in eds:
        if ed[0] == "t":
            k = int(ed[1:]);  b = b[:k] if k < len(b) else b
        elif ed[0] == "x":
            pos, v = ed[1:].split("."); pos = int(pos)
            if 0 <= pos < len(b): b[pos] ^= int(v, 16)
        elif ed[0] == "a":
            b += bytes.fromhex(ed[1:])
    return bytes(b)

class Spec:
    """issued : id -> record; tickets : bytes -> record.  Fed with what the IMPLEMENTATION reported."""
    def __init__(self):
        self.now = 1000000; self.issued = {}; self.holds = {}; self.cfg = {}; self.tickets = {}; self.tbank = {}; self.keys = []
        self.presented = {}
        self.cb = None; self.cb_pos = 0; self.cb_calls = 0

    def check_case(self, ck, case, out, harness):
        """returns number of resumption decisions checked"""
        toks = case.split(" ; "); toks[0] = toks[0][2:]
        segs = split_ops(out)
        n = 0
        for cmd, seg in zip(toks, segs):
            a = cmd.split(); d = parse_op(seg)
            if d is None:
                ck.count("oracle:unparsed-op"); break
            if d.get("list", []) is None:      # corrupted list
                ck.spec_violation("list-corrupt", "the chronological list of the session cache is corrupted (a node linked twice / unlinked twice)",
                                  {"harness": harness, "case": case, "at_op": cmd, "observed": seg[:300]})
                break
            n += self.step(ck, case, a, d, harness)
        return n

    def viol(self, ck, sig, what, case, cmd, d, harness, exp):
        ck.spec_violation(sig, what, {"harness": harness, "case": case, "at_op": cmd, "observed": d["raw"][:400], "expected_by_spec": exp})

    def step(self, ck, case, a, d, harness):
        op = a[0]; x = a[1] if len(a) > 1 else None; c = d.get("conn")
        if op == "tick": self.now += int(a[1]); return 0
        if op == "new":
            kv = dict(t.split("=") for t in a[2:])
            self.cfg[x] = {"ver": {31: (3, 1), 32: (3, 2), 33: (3, 3), 34: (3, 4)}[int(kv.get("v", 33))], "ems": int(kv.get("e", 0)), "ms": kv.get("m", "00") * 4, "suite": kv.get("s", "c02f")}
            self.holds[x] = None; self.presented[x] = None
            return 0
        if op == "sid":
            self.presented[x] = (c["sid"], c["len"]); return 0
        if op in ("reg", "sh") and d["rc"] >= 0 and c["len"] == 32 and d.get("tbl", {}).get(d["rc"], {}).get("id") == c["sid"] \
                and d["tbl"][d["rc"]]["start"] == self.now and self.holds.get(x) is None:
            self.issued[c["sid"]] = {"secret": c["ms"], "ver": self.cfg[x]["ver"], "suite": c["cipher"], "ems": self.cfg[x]["ems"], "t0": self.now, "valid": True}
            self.holds[x] = c["sid"]; return 0
        if op in ("res", "chr"):
            if op == "chr" and d["rc"] == 2: return 0           # ticket in use: standard resumption skipped
            pres = self.presented.get(x)
            if d["rc"] != 0 or pres is None or pres[1] == 0: return 1 if pres else 0
            pid, plen = pres
            rec = self.issued.get(pid) if plen == 32 else None
            cfg = self.cfg[x]
            why = None
            if plen != 32:
                cand = [i for i in self.issued if i[:2 * plen] == pid[:2 * plen]]
                why = ("prefix-only", "an id of %d bytes (issued ids have 32)%s" % (plen, ", equal to an issued id on that prefix" if cand else ""))
            elif rec is None: why = ("never-issued", "an id this server never issued")
            elif not rec["valid"]: why = ("invalidated", "an id whose session was invalidated by a fatal alert")
            elif self.now - rec["t0"] > LIFE: why = ("expired", "an id issued %d ms ago (lifetime %d ms)" % (self.now - rec["t0"], LIFE))
            elif rec["ver"] != cfg["ver"]: why = ("version", "a different protocol version than the original session")
            elif rec["ems"] != cfg["ems"]: why = ("ems", "a different extended-master-secret use than the original session")
            if why:
                self.viol(ck, "resumed-" + why[0], "matrixResumeSession resumed a session for " + why[1], case, " ".join(a), d, harness, "no resumption")
            elif c["ms"] != rec["secret"] or c["cipher"] != rec["suite"]:
                self.viol(ck, "resumed-other-secret", "the resumed connection got master secret %s.. / suite %s, the session issued under that id has %s.. / %s" % (c["ms"], c["cipher"], rec["secret"], rec["suite"]),
                          case, " ".join(a), d, harness, "secret %s suite %s" % (rec["secret"], rec["suite"]))
            else:
                self.holds[x] = pid
            return 1
        if op in ("upd", "del"):
            h = self.holds.get(x)
            closed = "C" in c["flags"]; err = "E" in c["flags"]
            if h is not None and h in self.issued:
                rec = self.issued[h]
                if err: rec["valid"] = False
                elif rec["valid"] and d["rc"] == 0: rec["secret"] = c["ms"]; rec["suite"] = c["cipher"]
            if closed or op == "del": self.holds[x] = None
            return 0
        if op in ("alert", "clr"):
            h = self.holds.get(x)
            if d["rc"] == 0:
                if h is not None and h in self.issued and (op == "alert" or a[2] == "1"): self.issued[h]["valid"] = False
                self.holds[x] = None
            return 0
        if op == "t13v":
            kv = dict(t.split("=") for t in a[2:]); m = re.match(r"t13v=(-?\d+):(\d+)", d["raw"])
            if not m or int(m.group(1)) == -100 or int(kv["life"]) > 604800: return 0     # RFC 8446 4.6.1: lifetime <= 7 days; larger ones (psDiffMsecs saturates at 24.8 days) are compared with the model only
            rc = int(m.group(1)); cfgv = self.cfg[x]["ver"]; age = int(kv["age"]); life = int(kv["life"])
            ok = ({31: (3, 1), 32: (3, 2), 33: (3, 3), 34: (3, 4)}[int(kv["v"])] == cfgv and kv["s"] == self.cfg[x].get("suite") and 0 <= age and age // 1000 <= life)
            if rc == 0 and not ok:
                self.viol(ck, "tls13-params-accepted-" + ("expired" if age // 1000 > life or age < 0 else "mismatch"),
                          "tls13ValidateSessionParams accepted ticket parameters that are %s" % ("%d ms old with a sealed lifetime of %d s" % (age, life) if (age // 1000 > life or age < 0) else "of another version / suite"),
                          case, " ".join(a), d, harness, "handshake_failure")
            return 1
        if op == "cb":
            self.cb = None if a[1].startswith("-") else a[1][:31]; self.cb_pos = 0; self.cb_calls = 0
            return 0
        if op == "kadd":
            if d["rc"] == 0: self.keys.append(a[1].split("=")[1])
            return 0
        if op == "kdel":
            nm = a[1].split("=")[1]
            if d["rc"] == 0 and nm in self.keys: self.keys.remove(nm)
            return 0
        if op == "mkt":
            kv = dict(t.split("=") for t in a[2:]); j = int(kv.get("j", 0)) & 15
            body = d.get("ticket", b"")[6:]
            self.tbank[j] = body
            if d["rc"] == 0 and body:
                self.tickets[body] = {"secret": c["ms"], "ver": self.cfg[x]["ver"], "suite": c["cipher"], "ems": self.cfg[x]["ems"], "t0": self.now // 1000, "key": "%02x" % body[0]}
            return 0
        if op == "unl":
            spec = a[2].split(":")
            if spec[0].startswith("$"): tk = apply_edits_ticket(self.tbank.get(int(spec[0][1:]) & 15, b""), spec[1:])
            elif spec[0] == "-": tk = b""
            else: tk = apply_edits_ticket(bytes.fromhex(spec[0]), spec[1:])
            verdict = None
            if self.cb:
                mc = re.search(r" C(\d+):(-?\d+)", d["raw"]); calls = int(mc.group(1)) if mc else self.cb_calls
                if calls > self.cb_calls:                       # the library consulted the application for this ticket
                    verdict = self.cb[self.cb_pos]
                    if self.cb_pos + 1 < len(self.cb): self.cb_pos += 1
                self.cb_calls = calls
                mk = re.search(r" K\[([^\]]*)\]", d["raw"])    # the callback may have loaded keys
                if mk: self.keys = [e.split("/")[0] for e in mk.group(1).split(",") if e]
                ck.count("unl-cb:%s:%s" % (verdict, "ok" if d["rc"] == 0 else "refused"))
            if d["rc"] != 0: return 1
            if self.cb and verdict is None:
                self.viol(ck, "unlocked-ticket-callback-bypassed", "a ticket callback is registered but matrixUnlockSessionTicket honoured a ticket without consulting it", case, " ".join(a), d, harness, "callback consulted")
            if verdict == "r":
                self.viol(ck, "unlocked-ticket-callback-rejected", "matrixUnlockSessionTicket honoured a ticket although the application's ticket callback returned < 0 for its key (key rejected / rotated out)",
                          case, " ".join(a), d, harness, "ticket refused")
            rec = self.tickets.get(tk); cfg = self.cfg[x]; why = None
            if rec is None: why = ("ticket-forged", "a ticket this server never issued (edited / truncated / extended / foreign)")
            elif rec["key"] not in self.keys: why = ("ticket-key-gone", "a ticket sealed under a key that is no longer in the server's key list")
            elif self.now // 1000 - rec["t0"] > LIFE // 1000: why = ("ticket-expired", "a ticket issued %d s ago" % (self.now // 1000 - rec["t0"]))
            elif rec["ver"] != cfg["ver"]: why = ("ticket-version", "a ticket of a different protocol version")
            if why:
                self.viol(ck, "unlocked-" + why[0], "matrixUnlockSessionTicket accepted " + why[1], case, " ".join(a), d, harness, "ticket refused")
            elif c["ms"] != rec["secret"] or c["cipher"] != rec["suite"]:
                self.viol(ck, "ticket-other-secret", "ticket resumption installed secret %s../suite %s, the ticket was issued for %s../%s" % (c["ms"], c["cipher"], rec["secret"], rec["suite"]),
                          case, " ".join(a), d, harness, "secret %s" % rec["secret"])
            return 1
        return 0


def table_frame_check(ck, case, out, harness):
    """Independent of the model: an operation on a connection that holds no reference on a slot must not
    change that slot (only matrixRegisterSession may, and only an unused one).  Uses consecutive dumps."""
    toks = case.split(" ; "); toks[0] = toks[0][2:]
    prev = None; holds = {}; refs = {}
    for cmd, seg in zip(toks, split_ops(out)):
        a = cmd.split(); d = parse_op(seg)
        if d is None or "tbl" not in d: continue
        tbl = d["tbl"]; x = a[1] if len(a) > 1 else None
        if a[0] == "save" and len(a) > 2: x = a[2]
        if x in refs: holds[x] = refs[x]                       # ssl->sessionCacheRef as of the previous dump of x
        if prev is not None and a[0] in ("upd", "del", "clr", "alert", "chr", "res", "sid", "flag", "unl", "mkt", "save", "new"):
            for slot in set(prev) | set(tbl):
                if prev.get(slot) != tbl.get(slot) and holds.get(x) != slot and not (a[0] in ("chr", "res") and d["rc"] == 0):
                    ck.spec_violation("foreign-slot-modified", "cache slot %d was modified by `%s` on a connection that never registered or resumed it" % (slot, cmd),
                                      {"harness": harness, "case": case, "at_op": cmd, "before": prev.get(slot), "after": tbl.get(slot)})
                    return
        if a[0] in ("reg", "sh") and d["rc"] >= 0 and "conn" in d and tbl.get(d["rc"], {}).get("id") == d["conn"]["sid"] and prev is not None and prev.get(d["rc"]) != tbl.get(d["rc"]):
            if prev.get(d["rc"], {}).get("inuse", 0) != 0:
                ck.spec_violation("evicted-in-use", "matrixRegisterSession evicted slot %d which was in use" % d["rc"], {"harness": harness, "case": case, "at_op": cmd})
            if "conn" in d and d["conn"]["ref"] != "0": holds[x] = d["rc"]
        if a[0] in ("chr", "res") and d["rc"] == 0 and "conn" in d:
            holds[x] = int(d["conn"]["sid"][:2], 16) + 256 * int(d["conn"]["sid"][2:4], 16)
        if a[0] in ("del", "alert", "clr", "new") or (a[0] == "upd" and "conn" in d and "C" in d["conn"]["flags"]):
            if not (a[0] == "clr" and d["rc"] != 0): holds[x] = None
        if "conn" in d and d["conn"]["ref"] != "-":
            refs[d["conn"]["name"]] = int(d["conn"]["ref"]) - 1 if d["conn"]["ref"] != "0" else None
        for slot, e in tbl.items():
            if e["inuse"] < 0:
                ck.spec_violation("negative-inuse", "in-use count of cache slot %d went negative after `%s`" % (slot, cmd), {"harness": harness, "case": case, "at_op": cmd, "observed": e})
                return
        prev = tbl


# ---------------------------------------------------------------- search: from a state disagreement to a property-level failure
VTOK = {(3, 1): 31, (3, 2): 32, (3, 3): 33, (3, 4): 34}

def followups(case, impl_line, model_line):
    """The cache state of library and model differs after op k of `case`.  Such a difference matters for the
    property only through later resumption decisions, so extend the history up to and including op k by resume
    attempts for every identifier (and ticket) that occurs in either dump so far - with the version / EMS use
    recorded for it - on a fresh connection: at once, after the other connections were closed (in two orders),
    and a second time (a first attempt may itself change counts)."""
    toks = case[2:].split(" ; ")
    a, b = split_ops(impl_line), split_ops(model_line)
    k = next((j for j in range(min(len(a), len(b))) if a[j] != b[j]), None)
    if k is None or k >= len(toks): return []
    prefix = toks[:k + 1]
    ids = {}                                         # id hex -> (ver, ems, suite)
    for line in (a[:k + 1], b[:k + 1]):
        for seg in line:
            d = parse_op(seg)
            if not d or "tbl" not in d: continue
            for e in d["tbl"].values():
                if e["id"][8:] != "0" * 56:
                    cur = ids.get(e["id"])
                    if cur is None or e["cipher"] != "N":
                        ids[e["id"]] = (e["ver"], e["ems"], e["cipher"] if e["cipher"] != "N" else (cur[2] if cur else "c02f"))
    tickets = sorted(set(int(t.split("j=")[1]) & 15 for t in prefix if t.startswith("mkt ") and "j=" in t))
    used = sorted(set(t.split()[1] for t in prefix if len(t.split()) > 1 and t.split()[1] in CONNS and len(t.split()[1]) == 1))
    out = []
    def probe(y, idhex, cfg):
        ver, ems, suite = cfg
        return ["new %s v=%d s=%s e=%d m=00 r=00" % (y, VTOK.get(ver, 33), suite if suite != "N" else "c02f", 1 if ems else 0), "sid %s %s" % (y, idhex), "chr " + y]
    for idhex, cfg in sorted(ids.items()):
        out.append(prefix + probe("F", idhex, cfg))
        closes = ["del " + x for x in used if x != "F"]
        for order in (closes, closes[::-1]):
            out.append(prefix + order + probe("F", idhex, cfg) + ["del F"] + probe("F", idhex, cfg))
        out.append(prefix + probe("F", idhex, cfg) + ["del F"] + probe("E", idhex, cfg))
    for j in tickets:
        out.append(prefix + ["new F v=33 s=c02f e=1 m=00 r=00", "unl F $%d" % j, "chr F"])
        out.append(prefix + ["new F v=33 s=c02f e=0 m=00 r=00", "unl F $%d" % j, "chr F"])
    return ["c " + " ; ".join(o) for o in out]

def search_from_disagreements(ck, h_real, drv, cases, dis, impl, model, nchecked, have_ref):
    """Impl against Spec on the follow-up histories of every disagreeing case (bounded); a follow-up whose prefix
    is a wild sequence (the Python oracle's holder bookkeeping is only exact for realistic lifecycles) is reported
    only if the proven model also refuses what the library accepted."""
    fu = []; origin = []
    for i in dis[:40]:
        if i >= len(impl) or i >= len(model): continue
        for f in followups(cases[i], impl[i], model[i])[:60]:
            fu.append(f); origin.append(i)
    if not fu: return 0
    rc, real, err = ck.run_lines(h_real, fu)
    rc2, mod, err2 = ck.run_lines(drv, fu)
    found = 0
    for f, i, o, m in zip(fu, origin, real, mod):
        verdicts = []
        class Collector:
            def spec_violation(self_, sig, what, replay): verdicts.append((sig, what, replay)); return "new"
            def count(self_, *a): pass
        Spec().check_case(Collector(), f, o, "h_cache (real AES-CBC/HMAC), follow-up of a model/implementation cache-state disagreement")
        if not verdicts: continue
        if i >= nchecked:
            io, mo = split_ops(o), split_ops(m)
            di, dm = (parse_op(io[-1]) if io else None), (parse_op(mo[-1]) if mo else None)
            if not (di and dm and di["rc"] == 0 and dm["rc"] != 0): continue
        for sig, what, replay in verdicts:
            replay = dict(replay, derived_from_case=cases[i][:2000], model_says=(split_ops(m)[-1][:300] if m else None))
            ck.spec_violation(sig, what, replay); found += 1
    ck.cov["followup_histories"] = len(fu)
    return found

# ---------------------------------------------------------------- live sessions (Impl vs Spec only)
def live_scripts():
    S = []
    base = "new cv=3 sv=3 seed=%d"
    def L(name, script): S.append((name, "live " + script))
    L("id-ok", "new cv=3 sv=3 seed=1 ; hs ; markfirst ; res? ; closeall ; new cv=3 sv=3 resume=1 seed=2 keepkeys=1 ; hs ; res?")
    L("ticket-ok", "new cv=3 sv=3 ticket=1 seed=1 ; hs ; markfirst ; res? ; closeall ; new cv=3 sv=3 ticket=1 resume=1 seed=2 keepkeys=1 ; hs ; res?")
    for k in (1, 4, 5, 16, 31):
        L("id-trunc%d" % k, "new cv=3 sv=3 seed=1 ; hs ; markfirst ; res? ; closeall ; idc t%d ; new cv=3 sv=3 resume=1 seed=2 keepkeys=1 ; hs ; res?" % k)
    for pos in (0, 3, 4, 17, 31):
        L("id-flip%d" % pos, "new cv=3 sv=3 seed=1 ; hs ; markfirst ; res? ; closeall ; idc x%d.04 ; new cv=3 sv=3 resume=1 seed=2 keepkeys=1 ; hs ; res?" % pos)
    for pos in (0, 15, 16, 40, 100, 127):
        L("ticket-flip%d" % pos, "new cv=3 sv=3 ticket=1 seed=1 ; hs ; markfirst ; res? ; closeall ; tkx %d 01 ; new cv=3 sv=3 ticket=1 resume=1 seed=2 keepkeys=1 ; hs ; res?" % pos)
    L("id-expired", "new cv=3 sv=3 seed=1 ; hs ; markfirst ; res? ; closeall ; tick 86400001 ; new cv=3 sv=3 resume=1 seed=2 keepkeys=1 ; hs ; res?")
    L("id-expired-wrap", "new cv=3 sv=3 seed=1 ; hs ; markfirst ; res? ; closeall ; tick 4294967296 ; new cv=3 sv=3 resume=1 seed=2 keepkeys=1 ; hs ; res?")
    L("ticket-expired", "new cv=3 sv=3 ticket=1 seed=1 ; hs ; markfirst ; res? ; closeall ; tick 86401000 ; new cv=3 sv=3 ticket=1 resume=1 seed=2 keepkeys=1 ; hs ; res?")
    L("id-version", "new cv=3 sv=2,3 seed=1 ; hs ; markfirst ; res? ; closeall ; new cv=2 sv=2,3 resume=1 seed=2 keepkeys=1 ; hs ; res?")
    L("id-suite", "new cv=3 sv=3 suite=c02f seed=1 ; hs ; markfirst ; res? ; closeall ; new cv=3 sv=3 suite=c030 resume=1 seed=2 keepkeys=1 ; hs ; res?")
    L("id-ems", "new cv=3 sv=3 seed=1 ; hs ; markfirst ; res? ; closeall ; new cv=3 sv=3 ems=-1 resume=1 seed=2 keepkeys=1 ; hs ; res?")
    L("ticket-rotated-out", "new cv=3 sv=3 ticket=1 seed=1 ; hs ; markfirst ; res? ; closeall ; rekey add=77 ; rekey delfirst ; new cv=3 sv=3 ticket=1 resume=1 seed=2 keepkeys=1 ; hs ; res?")
    L("ticket-rotated-kept", "new cv=3 sv=3 ticket=1 seed=1 ; hs ; markfirst ; res? ; closeall ; rekey add=77 ; new cv=3 sv=3 ticket=1 resume=1 seed=2 keepkeys=1 ; hs ; res?")
    # application ticket callback in live sessions (server key name/material as loaded by the harness: k=5a h=a5)
    tcbs = "new cv=3 sv=3 ticket=1 seed=1 ; hs ; markfirst ; res? ; closeall ; %snew cv=3 sv=3 ticket=1 resume=1 seed=2 keepkeys=1 ; hs ; res? ; tcb?"
    L("ticket-cb-accept", tcbs % "tcb a ; ")
    L("ticket-cb-reject-key-in-list", tcbs % "tcb r ; ")
    L("ticket-cb-reject-then-accept-first", tcbs % "tcb ra ; ")
    L("ticket-cb-load-after-delete", tcbs % "rekey add=77 ; rekey delfirst ; tcb l ; ")
    L("ticket-cb-load-wrong-material-after-delete", tcbs % "rekey add=77 ; rekey delfirst ; tcb l k=5b ; ")
    L("ticket-cb-reject-after-delete", tcbs % "rekey add=77 ; rekey delfirst ; tcb r ; ")
    L("ticket-cb-wrong-name-after-delete", tcbs % "rekey add=77 ; rekey delfirst ; tcb w wn=31 ; ")
    # TLS 1.3 PSK tickets (tls13Resume.c; not modelled - judged against the spec only)
    t13 = "new cv=4 sv=4 ticket=1 seed=1 ; hs ; markfirst ; res? ; closeall ; %snew cv=4 sv=4 ticket=1 resume=1 seed=2 keepkeys=1 ; hs ; res?"
    L("tls13-psk-ok", t13 % "")
    L("tls13-psk-fresh-359s", t13 % "tick 359000 ; ")
    L("tls13-psk-expired-361s", t13 % "tick 361000 ; ")
    L("tls13-psk-expired-wrap", t13 % "tick 4294967296 ; ")
    for pos in (0, 16, 20, 60, 100, 151):
        L("tls13-psk-flip%d" % pos, t13 % ("pskx %d 01 ; " % pos))
    L("tls13-psk-wrong-secret", t13 % "pskkx 3 10 ; ")
    L("tls13-psk-rotated-out", t13 % "rekey add=77 ; rekey delfirst ; ")
    L("tls13-psk-rotated-kept", t13 % "rekey add=77 ; ")
    # fatal alert on a resumed connection (client Finished damaged in flight), then replay of the id
    L("alert-on-resumed", "new cv=3 sv=3 seed=1 ; hs ; markfirst ; res? ; closeall ; new cv=3 sv=3 resume=1 seed=2 keepkeys=1 ; step c2s 1 ; step s2c 3 ; step c2s 1 ; xor c2s 10 01 ; step c2s 1 ; hs ; closeall ; new cv=3 sv=3 resume=1 seed=3 keepkeys=1 ; hs ; res?")
    # SHARED cache entries: the original connection and resumption(s) of it are open at the same time; one of them
    # is hit by a fatal alert (received: a damaged server record makes the client send one; sent: a damaged client
    # record makes the server send one) and deleted; the id is then presented again
    first = "new cv=3 sv=3 seed=1 ; hs ; markfirst ; park 0 ; new cv=3 sv=3 resume=1 seed=2 keepkeys=1 ; hs ; res? ; "
    recv = "app s 6161 ; xor s2c 10 01 ; step s2c 1 ; step c2s 1 ; sflags ; closeall ; "
    sent = "app c 6161 ; xor c2s 10 01 ; step c2s 1 ; sflags ; closeall ; "
    again = "new cv=3 sv=3 resume=1 seed=%d keepkeys=1 ; hs ; res?"
    L("shared-recv-alert-on-resumed", first + recv + again % 3)
    L("shared-sent-alert-on-resumed", first + sent + again % 3)
    L("shared-recv-alert-on-resumed-then-all-closed", first + recv + "unpark 0 ; closeall ; " + again % 3)
    L("shared-recv-alert-on-original", first + "park 1 ; unpark 0 ; " + recv + again % 3)
    L("shared-sent-alert-on-original", first + "park 1 ; unpark 0 ; " + sent + again % 3)
    L("shared-recv-alert-on-original-then-all-closed", first + "park 1 ; unpark 0 ; " + recv + "unpark 1 ; closeall ; " + again % 3)
    L("shared3-recv-alert-on-third", first + "park 1 ; new cv=3 sv=3 resume=1 seed=4 keepkeys=1 ; hs ; res? ; " + recv + again % 5)
    L("shared3-recv-alert-then-others-closed", first + "park 1 ; new cv=3 sv=3 resume=1 seed=4 keepkeys=1 ; hs ; res? ; " + recv + "unpark 1 ; closeall ; unpark 0 ; closeall ; " + again % 5)
    L("shared-plain-close", first + "closeall ; " + again % 3 + " ; legit")
    L("shared3-plain-close", first + "park 1 ; new cv=3 sv=3 resume=1 seed=4 keepkeys=1 ; hs ; res? ; closeall ; unpark 1 ; closeall ; " + again % 5 + " ; legit")
    # a client holding a valid ticket of its own presents another session's id next to it; then resumes that id with its own secret
    L("foreign-id-with-ticket", "new cv=3 sv=3 ticket=1 seed=1 ; hs ; closeall ; stash 0 ; new cv=3 sv=3 seed=2 keepkeys=1 ; hs ; markfirst ; closeall ; tbl ; stash 1 ; unstash 0 ; idfrom 1 ; "
      "new cv=3 sv=3 ticket=1 resume=1 seed=3 keepkeys=1 ; hs ; closeall ; tbl ; tkdrop ; new cv=3 sv=3 resume=1 seed=4 keepkeys=1 ; hs ; res?")
    L("foreign-id-with-ticket-victim", "new cv=3 sv=3 ticket=1 seed=1 ; hs ; closeall ; stash 0 ; new cv=3 sv=3 seed=2 keepkeys=1 ; hs ; markfirst ; closeall ; tbl ; stash 1 ; unstash 0 ; idfrom 1 ; "
      "new cv=3 sv=3 ticket=1 resume=1 seed=3 keepkeys=1 ; hs ; closeall ; tbl ; unstash 1 ; new cv=3 sv=3 resume=1 seed=5 keepkeys=1 ; hs ; res? ; legit")
    # TLS 1.3 hello carrying another session's id as legacy_session_id
    L("foreign-id-in-tls13", "new cv=3 sv=3,4 seed=2 ; hs ; markfirst ; closeall ; tbl ; stash 1 ; mksid cipher=c02f m=77 ; idfrom 1 ; new cv=3,4 sv=3,4 resume=1 seed=3 keepkeys=1 ; hs ; closeall ; tbl ; "
      "unstash 1 ; new cv=3 sv=3,4 resume=1 seed=5 keepkeys=1 ; hs ; res? ; legit")
    return S

def merge_trace_lines(lines):
    """the library prints a few error traces ("Ticket decryption failed") on stdout, newline included, in the
    middle of a scenario's result line: glue the pieces together again (every scenario starts with `new`)"""
    out = []
    for l in lines:
        if out and not l.startswith("new:"):
            out[-1] = re.sub(r"(Ticket decryption failed|[A-Z][A-Za-z0-9 :,.'-]*)$", "", out[-1]) + l
        else:
            out.append(l)
    return out

def check_live(ck, name, script, out):
    """spec verdict per scenario from the last `res?` and the `tbl` dumps"""
    segs = split_ops(out)
    res = [s for s in segs if s.strip().startswith("res:")]
    tbls = [s for s in segs if s.strip().startswith("tbl")]
    if not res:
        ck.spec_violation("live-harness", "live scenario produced no verdict", {"harness": "h_cache", "scenario": name, "case": script, "observed": out[:400]}); return
    m = re.search(r"res:c=(-?\d),s=(-?\d),mseq=(-?\d),first=(-?\d),sidlen=(-?\d+),v13=(\d)", res[-1])
    cr, sr, mseq, first = int(m.group(1)), int(m.group(2)), int(m.group(3)), int(m.group(4))
    hs = [s for s in segs if s.strip().startswith("hs:")][-1].strip()
    ok_hs = hs.startswith("hs:c=1/0,s=1/0")
    ck.count("live:" + ("resumed" if sr == 1 else "full" if ok_hs else "failed"))
    must_resume = name in ("id-ok", "ticket-ok", "ticket-rotated-kept", "tls13-psk-ok", "tls13-psk-fresh-359s", "tls13-psk-rotated-kept", "ticket-cb-accept", "ticket-cb-load-after-delete") or "legit" in script
    if must_resume:
        if not (ok_hs and cr == 1 and sr == 1 and mseq == 1 and first == 1):
            sig = "live-" + name + "-not-resumed"
            ck.spec_violation(sig, "live: the legitimate resumption in scenario %s did not resume with the original secret (%s, %s) - another connection damaged the cached session" % (name, hs, res[-1].strip()),
                              {"harness": "h_cache", "scenario": name, "case": script, "observed": out[-600:]})
    else:
        if ok_hs and (sr == 1 or cr == 1):
            ck.spec_violation("live-" + name + "-resumed", "live: scenario %s ended in a RESUMED session (server resumed=%d, client=%d, same secret as first session=%d)" % (name, sr, cr, first),
                              {"harness": "h_cache", "scenario": name, "case": script, "observed": out[-600:], "expected_by_spec": "full handshake or failure"})
    if name.startswith("foreign-id") and len(tbls) >= 2:
        if tbls[0].strip() != tbls[1].strip():
            ck.spec_violation("live-" + name + "-entry-modified", "live: a connection that only echoed another session's id changed that session's cache entry when it closed",
                              {"harness": "h_cache", "scenario": name, "case": script, "before": tbls[0].strip()[:300], "after": tbls[1].strip()[:300]})


# ---------------------------------------------------------------- run
def corpus_cases():
    out = []
    p = os.path.join(vlib.VERIF, "corpus", "C14")
    if os.path.isdir(p):
        for f in sorted(os.listdir(p)):
            if f.endswith(".case"):
                for l in open(os.path.join(p, f)):
                    l = l.strip()
                    if l and not l.startswith("#"): out.append(l)
    return out

def canon(line, strip_ref):
    """cut at the first corrupted-list report (both sides stop being comparable there); optionally drop the h field"""
    segs = split_ops(line); keep = []
    for s in segs:
        keep.append(s)
        if "L!CORRUPT" in s: break
    l = " | ".join(keep)
    if strip_ref: l = re.sub(r":h(\d+|-)\}", "}", l)
    return l

def run(ck):
    ck.trusted += ["Coq 8.16.1 kernel", "tools/srcgen/consts_cache.c translator (compiler evaluates header constants; calls matrixSessionTicketLen, psEncodeVersionMaj/Min, sslGetCipherSpec)",
                   "extraction (ExtrOcamlBasic only) + ocaml/drv_c14.ml + harness/h_cache.c (+ cache_sess.h) correspondence; the static g_sessionTable / g_sessionChronList are located through the ELF symbol table of the harness executable",
                   "modelled, not verified: matrixRegisterSession / matrixResumeSession / matrixUpdateSession / matrixClearSession, their callers' cache-relevant lines, psDiffMsecs, ticket create/unlock and the ticket key list are hand-written Gallina (coq/Cache/CacheModel.v) compared with the library after every operation on every run",
                   "AES-CBC and HMAC-SHA256 are Section variables of the ticket model (C12 covers the primitives); byte layout compared under a toy cipher/MAC wrapped in at link time, spec oracle run with the real primitives"]
    ck.assumptions += ["Hunf (ticket theorems): a MAC tag that verifies under a server key was produced by the server for exactly that byte string",
                       "the clock (psGetTime) does not go backwards within the life of the process; ticket timestamps are seconds of that clock",
                       "a connection object is created zeroed (matrixSslNewServerSession) - ONew in the model",
                       "the application's ticket callback is an arbitrary function of (key name, found-in-list flag) returning accept / reject / load-a-key; it does not delete keys while it runs",
                       "TLS 1.3 PSK tickets: only the handling of the sealed parameters (version, suite, lifetime, issue time) in tls13ValidateSessionParams is modelled and compared; sealing (AES-GCM), PSK lookup and binders are judged by the live spec oracle only (round trip, byte edits of the ticket, wrong resumption secret, lifetime 360 s, key rotation)"]
    R = ck.build_repo()
    have_ref = "sessionCacheRef" in open(os.path.join(R, "matrixssl/matrixssllib.h")).read()
    ck.regen([("consts.sh",)])
    ck.coq_properties()
    drv = ck.ocaml_driver("drv_c14", extract_vo="Extract/Extract_C14.vo", gen_ml=["m_c14"])
    defs = ["HAVE_CACHE_REF"] if have_ref else []
    h_toy = ck.cc("h_cache.c", out=os.path.join(ck.scratch, "h_cache-toy"), wraps=BASE_WRAPS + TOY_WRAPS, extra=["-no-pie"], defines=defs + ["TOYCRYPTO=1"])
    h_real = ck.cc("h_cache.c", out=os.path.join(ck.scratch, "h_cache-real"), wraps=BASE_WRAPS, extra=["-no-pie"], defines=defs)
    if drv is None:
        return
    if not have_ref:
        ck.notes.append("the tree has no ssl_t.sessionCacheRef (fix C14-3 not applied): the reference field is left out of the comparison")
    r = ck.rng("gen")
    cases = corpus_cases()
    ncorp = len(cases)
    cases += structured_cases(r)
    cases += shared_entry_cases(r)
    nstruct = len(cases) - ncorp
    for _ in range(ck.budget(120, 4000)):
        cases.append(lifecycle_case(r, r.choice([20, 40, 70, 110])))
    for _ in range(ck.budget(10, 150)):
        cases.append(fill_case(r, r.choice([35, 50, 80])))
    nchecked = len(cases)                     # cases above follow realistic connection lifecycles: also judged by the spec oracle
    for _ in range(ck.budget(120, 4000)):
        cases.append(random_case(r, r.choice([12, 25, 40, 70])))   # wild sequences (objects reused after delete, ids re-parsed on holders): model correspondence only
    ck.rules.append("operation sequences over <= 6 fabricated server connections: %d structured cases (every truncation length 1..31 of an issued id, zero-extended prefixes, one flipped bit at each of the 32 id positions, clock jumps LIFE-1/LIFE/LIFE+1 and around 2^31/2^32 ms, 20 version x EMS combinations, fatal alerts on registrant / on a resumed sharer / error flag at close followed by replays, SHARED entries (2 or 3 connections - registrant + resumed - holding one entry) x the event hitting each of them (fatal alert sent, fatal alert received / local error then delete, error seen by an update while open, plain close) x every delete order of the others, with resume attempts while the others are open, after each close and after all closed, cache filled to 31/32/33/40 sessions with the first one open or closed, all slots in use, double and unheld releases, client-chosen ids on ticket-resumed and TLS 1.3 connections, ticket round trip / sampled byte edits / truncation / extension / foreign key / expiry at the second / key rotation and deletion, application ticket callback with 8 verdict scripts (accept, reject, reject-then-accept, load-when-not-found, load-wrong-name ...) x key in list / deleted / deleted between attempts / same name other material) + interleaved realistic connection lifecycles over six connection objects (20-110 ops: hello with an id from a bank of issued ids - possibly truncated, flipped, zero-extended - or with a ticket and a foreign id, full handshake, optional fatal alert, close; clock jumps) + fill runs of 35-80 sessions with interleaved resumptions (these three groups are also judged by the spec oracle) + wild random sequences (objects reused after delete, ids re-parsed on holders; model correspondence only); a case is non-trivial when at least one resumption decision is taken" % nstruct)
    rc, impl, err = ck.run_lines(h_toy, cases)
    rc2, model, err2 = ck.run_lines(drv, cases)
    if rc != 0: ck.notes.append("h_cache (toy) exit code %d: %s" % (rc, err[-300:]))
    impl_c = [canon(l, not have_ref) for l in impl]; model_c = [canon(l, not have_ref) for l in model]
    dis = ck.correspond("cache+ticket model (drv_c14) vs matrixssl.c via h_cache, state compared after every op", cases, impl_c, model_c,
                        nontrivial=lambda c, o: (" chr " in c or " res " in c or " unl " in c))
    nops = sum(c.count(" ; ") + 1 for c in cases)
    ck.cov["operations_compared"] = nops
    # Impl vs Spec with the real primitives
    rc3, real, err3 = ck.run_lines(h_real, cases)
    ndec = 0
    for i, c in enumerate(cases):
        if i >= len(real): break
        if i < nchecked:
            ndec += Spec().check_case(ck, c, real[i], "h_cache (real AES-CBC/HMAC)")
            table_frame_check(ck, c, real[i], "h_cache")
        for seg in split_ops(real[i]):
            d = parse_op(seg)
            if d and d["op"] in ("chr", "res", "unl"):
                ck.count("%s:%s" % (d["op"], "ok" if d["rc"] == 0 else "rc%d" % d["rc"]))
    ck.cov["spec_oracle_decisions"] = ndec
    if dis:
        nf = search_from_disagreements(ck, h_real, drv, cases, dis, impl, model, nchecked, have_ref)
        ck.notes.append("search: %d property-level failures found on follow-up histories derived from the %d disagreeing cases" % (nf, len(dis)))
    # live sessions
    scripts = live_scripts()
    rc4, lout, err4 = ck.run_lines(h_real, [s for _, s in scripts])
    lout = merge_trace_lines(lout)
    if len(lout) != len(scripts):
        ck.violation("live harness stopped early (%d of %d scenarios): %s" % (len(lout), len(scripts), err4[-300:]), {"stage": "live", "broken": "correspondence h_cache live"}, found_input=False)
    for (name, s), o in zip(scripts, lout):
        check_live(ck, name, s, o)
    ck.cov["live_scenarios"] = len(scripts)
    ck.cov["evaluations"] += len(scripts)
    ck.cov["exhaustive"] = False
    for i in dis[:3]:
        # first differing op, for the replay file
        a, b = split_ops(impl_c[i]) if i < len(impl_c) else [], split_ops(model_c[i]) if i < len(model_c) else []
        k = next((j for j in range(min(len(a), len(b))) if a[j] != b[j]), min(len(a), len(b)))
        ck.notes.append("disagreement in case %d at op %d: impl=%s model=%s" % (i, k, (a[k] if k < len(a) else None), (b[k] if k < len(b) else None)))


def replay(ck, path):
    rp = json.load(open(path))["replay"]
    R = ck.build_repo()
    have_ref = "sessionCacheRef" in open(os.path.join(R, "matrixssl/matrixssllib.h")).read()
    h = ck.cc("h_cache.c", wraps=BASE_WRAPS, extra=["-no-pie"], defines=["HAVE_CACHE_REF"] if have_ref else [])
    cs = rp.get("cases") or [rp["case"]]
    rc, out, err = ck.run_lines(h, cs)
    out = merge_trace_lines(out) if cs and cs[0].startswith("live") else out
    for c, o in zip(cs, out):
        print("case:", c)
        for cmd, seg in zip((c[2:] if c.startswith("c ") else c[5:]).split(" ; "), split_ops(o)):
            print("   %-40s -> %s" % (cmd, re.sub(r" L\[[0-9,]*\]", "", seg.strip())[:300]))
        if c.startswith("c "):
            Spec().check_case(ck, c, o, "h_cache"); table_frame_check(ck, c, o, "h_cache")
        else:
            check_live(ck, rp.get("scenario", ""), c, o)
    for v in ck.violations:
        print("spec verdict:", v["what"])
