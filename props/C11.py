"""C11 - signatures verify iff valid; public-key results standard; bad keys rejected.

Theorems: coq/Properties/Properties_C11.v (model coq/Pk/PkModel.v, spec PkSpec.v, proofs PkProofs.v).
Tie: harness/h_pk.c turns every encoded block into a REAL signature with the test key's private
exponent and calls the library's public entry points; the extracted model (ocaml/drv_c11.ml) runs on
the same case lines (the raw RSA operation / EC scalar multiples are exact integers supplied by this
file).  Spec oracle (Impl vs Spec): props/c11ref.py - independent exact-integer implementations of
RFC 8017, FIPS 186-4, RFC 7748, RFC 8032.
"""
import hashlib, json, os, re
import vlib
import c11ref as R

RSA_BITS = [1024, 2048, 3072, 4096]
EC_BITS = {192: 19, 224: 21, 256: 23, 384: 24, 521: 25}
HASHES = ["md5", "sha1", "sha256", "sha384", "sha512"]
PSS_ID = {"sha1": 0, "md5": 1, "sha256": 2, "sha384": 3, "sha512": 4}
hx = vlib.hexs


def i2b(v, l=None):
    return v.to_bytes(l if l is not None else max(1, (v.bit_length() + 7) // 8), "big")


def gen_consts():
    """sigAlg identifiers etc. from the regenerated coq/Gen/ConstsPk.v (i.e. from the source)"""
    txt = open(os.path.join(vlib.COQ, "Gen", "ConstsPk.v")).read()
    d = {m.group(1): int(m.group(2)) for m in re.finditer(r"Definition pkn?_([A-Za-z0-9_]+) : [NZ] := \((-?\d+)\)", txt)}
    return d


# ---------------------------------------------------------------- lenient (BER-ish) reading of Ecdsa-Sig-Value
def der_parse_lenient(sig):
    """(r, s) as a tolerant parser reads them: any definite length form, INTEGER content taken as an
    unsigned number, trailing bytes and an inaccurate outer length ignored; None when unreadable."""
    def rd_len(b, i, end):
        if i >= end: return None
        x = b[i]
        if x < 128: return x, i + 1
        n = x & 0x7F
        if n == 0 or n > 4 or i + 1 + n > end: return None
        return int.from_bytes(b[i + 1:i + 1 + n], "big"), i + 1 + n
    def rd_int(b, i, end):
        if i >= end or b[i] != 2: return None
        t = rd_len(b, i + 1, end)
        if t is None or t[1] + t[0] > end: return None
        return int.from_bytes(b[t[1]:t[1] + t[0]], "big"), t[1] + t[0]
    end = len(sig)
    if end < 1 or sig[0] != 0x30: return None
    t = rd_len(sig, 1, end)
    if t is None or t[1] + t[0] > end: return None
    a = rd_int(sig, t[1], end)
    if a is None: return None
    b = rd_int(sig, a[1], end)
    if b is None: return None
    return a[0], b[0]


_MUL = {}
def ec_mul_memo(c, k, P):
    key = (c.iana, k % c.n, P)
    if key not in _MUL:
        _MUL[key] = R.ec_mul(c, k, P)
    return _MUL[key]


def ecdsa_verify_memo(c, Q, h, r_, s_):
    if not (1 <= r_ < c.n and 1 <= s_ < c.n):
        return False
    e = R.bits2int(c, h); w = pow(s_, -1, c.n)
    P = R.ec_add(c, ec_mul_memo(c, e * w % c.n, c.g), ec_mul_memo(c, r_ * w % c.n, Q))
    return P is not None and P[0] % c.n == r_


class Gen:
    """collects case lines with what the spec expects of each"""
    def __init__(self, ck, K):
        self.ck, self.K = ck, K
        self.cases = []          # (line, kind, expect dict)

    def add(self, line, kind, **exp):
        self.cases.append((line, kind, exp))


# ---------------------------------------------------------------- keys
def load_keys(ck, h):
    lines = ["rsakey %d" % b for b in RSA_BITS] + ["eckey %d" % b for b in EC_BITS] + ["dhp 1024", "dhp 2048", "dhp ffdhe2048"]
    rc, out, err = ck.run_lines(h, lines)
    K = {"rsa": {}, "ec": {}, "dh": {}}
    for l, o in zip(lines, out):
        kv = dict(t.split("=") for t in o.split() if "=" in t)
        t = l.split()
        if t[0] == "rsakey":
            bits = int(t[1])
            k = {"N": int(kv["N"], 16), "e": int(kv["e"], 16), "d": int(kv["d"], 16), "k": int(kv["size"])}
            # independent reading of the PEM file
            pem = R.parse_rsa_pkcs1(R.pem_der(os.path.join(vlib.REPO, "testkeys/RSA/%d_RSA_KEY.pem" % bits)))
            if (pem["N"], pem["e"], pem["d"]) != (k["N"], k["e"], k["d"]) or k["k"] * 8 != bits:
                ck.violation("harness key material differs from testkeys/RSA/%d_RSA_KEY.pem" % bits, {"stage": "keys", "broken": "correspondence h_pk.c"}, found_input=False)
            k["p"], k["q"] = pem["p"], pem["q"]
            K["rsa"][bits] = k
        elif t[0] == "eckey":
            bits = int(t[1])
            c = R.CURVES[int(kv["curve"])]
            k = {"curve": c, "d": int(kv["d"], 16), "Q": (int(kv["qx"], 16), int(kv["qy"], 16))}
            pem = R.parse_ec_sec1(R.pem_der(os.path.join(vlib.REPO, "testkeys/EC/%d_EC_KEY.pem" % bits), "EC PRIVATE"))
            if pem["d"] != k["d"] or R.ec_mul(c, k["d"], c.g) != k["Q"] or EC_BITS[bits] != c.iana:
                ck.violation("harness EC key differs from testkeys/EC/%d_EC_KEY.pem" % bits, {"stage": "keys", "broken": "correspondence h_pk.c"}, found_input=False)
            K["ec"][bits] = k
        else:
            K["dh"][t[1]] = {"p": int(kv["p"], 16), "g": int(kv["g"], 16)}
    return K


def rsa_sign_int(k, em):
    """em^d mod N by CRT (python side, used only for raw-signature cases)"""
    m = int.from_bytes(em, "big")
    p, q, d = k["p"], k["q"], k["d"]
    a, b = pow(m % p, d % (p - 1), p), pow(m % q, d % (q - 1), q)
    return (b + q * ((a - b) * pow(q, -1, p) % p)) % k["N"]


# ---------------------------------------------------------------- RSA PKCS#1 v1.5 cases
def v15_expected(h, digest, k, em):
    """spec verdict for a DigestInfo signature: exactly one of the two standard encodings"""
    if len(digest) != R.HLEN[h]:
        return False
    return em in (R.emsa_pkcs1_v15(h, digest, k, True), R.emsa_pkcs1_v15(h, digest, k, False))


def gen_rsa(g, r, C, ALG):
    ck = g.ck
    for bits in RSA_BITS:
        key = g.K["rsa"][bits]; k = key["k"]
        hs = HASHES if bits <= 2048 else (["sha256", "sha512"] if ck.tier == "thorough" else ["sha256"])
        for h in hs:
            alg = ALG[h]
            digest = hashlib.new(h, b"C11 message %d %s" % (bits, h.encode())).digest()
            good = R.emsa_pkcs1_v15(h, digest, k, True)
            alt = R.emsa_pkcs1_v15(h, digest, k, False)
            T = R.DIGESTINFO[h] + digest
            def rv(em, what, di=1, msg=digest, a=alg):
                if len(em) != k or int.from_bytes(em, "big") >= key["N"]:
                    return
                g.add("rv %d %d %d %s %s" % (bits, a, di, hx(msg), hx(em)), "rv", bits=bits, h=h, em=em, msg=msg, di=di, what=what, alg=a)
            rv(good, "valid"); rv(alt, "valid-nonull")
            # every byte position of the padded block
            full = bits <= 2048 and h == "sha256" or ck.tier == "thorough"
            pos = range(k) if full else sorted(set(list(range(0, 4)) + list(range(k - len(T) - 2, k, 1 if bits <= 2048 else 5)) + [r.randrange(k) for _ in range(12)]))
            for i in pos:
                for x in ((0x01, 0x80) if (full and bits == 1024) else (r.choice([0x01, 0x80, 0xFF, 0x10]),)):
                    em = bytearray(good); em[i] ^= x
                    rv(bytes(em), "flip@%d" % i)
            if h not in ("sha256", "md5") and bits > 1024:
                continue
            # 00/01/FF structure
            for b0, b1 in ((0, 2), (0, 0), (1, 1), (0, 0xFF), (0xFF, 1)):
                em = bytearray(good); em[0], em[1] = b0, b1; rv(bytes(em), "header %02x%02x" % (b0, b1))
            ps = k - 3 - len(T)
            for i in (2, 2 + ps // 2, 1 + ps):
                for v in (0xFE, 0x00, 0x01, 0x7F):
                    em = bytearray(good); em[i] = v; rv(bytes(em), "pad[%d]=%02x" % (i, v))
            em = bytearray(good); em[2 + ps] = 0xFF; rv(bytes(em), "no separator")
            em = bytearray(good); em[2 + ps] = 0x01; rv(bytes(em), "separator 01")
            rv(b"\x00\x01" + b"\xff" * (k - 2), "all FF")
            rv(b"\x00\x01" + b"\xff" * (k - 3) + b"\x00", "separator last, empty payload")
            # short padding + trailing garbage after the hash (Bleichenbacher'06 / BERserk shapes)
            for j in (0, 1, 7, 8, 9, ps - 1, ps - 8):
                if j < 0 or j > ps: continue
                garbage = bytes(r.randrange(256) for _ in range(ps - j))
                rv(b"\x00\x01" + b"\xff" * j + b"\x00" + T + garbage, "PS=%d + %d trailing bytes" % (j, ps - j))
                rv(b"\x00\x01" + b"\xff" * j + b"\x00" + garbage + T, "PS=%d, garbage before T" % j)
                rv(b"\x00\x01" + b"\xff" * j + b"\x00" + b"\xff" * (ps - j) + T, "PS=%d then 00 then FF.. T" % j)
            # garbage hidden inside the DigestInfo (parameters field), lengths adjusted
            p = R.DIGESTINFO[h]
            for glen in (1, 8, 32):
                if glen + 2 > ps - 8: continue
                oid_end = len(p) - 4
                params = b"\x05" + bytes([glen]) + bytes(r.randrange(256) for _ in range(glen))
                body = p[4:oid_end] + params
                t2 = bytes([0x30, p[1] + glen, 0x30, p[3] + glen]) + body + p[-2:] + digest
                e2 = R.emsa_raw(t2, k)
                if e2: rv(e2, "NULL replaced by %d parameter bytes" % glen)
            # alternative encodings of the same DigestInfo
            t3 = bytes([0x30, 0x81, p[1]]) + p[2:] + digest            # long-form outer length
            rv(R.emsa_raw(t3, k), "long-form length")
            t4 = p[:-1] + bytes([p[-1] + 1]) + digest + b"\x00"         # hash one byte longer
            rv(R.emsa_raw(t4, k), "hash length +1 in DigestInfo")
            rv(R.emsa_raw(p + digest[:-1], k), "hash one byte short")
            rv(R.emsa_raw(p + digest + b"\x00", k), "hash one byte long")
            rv(R.emsa_raw(digest, k), "bare hash, no DigestInfo")
            rv(R.emsa_raw(p[:-2] + digest, k), "no OCTET STRING header")
            if h == "md5":
                bad_alt = bytes.fromhex("3020300c06082a864886f70d02050410") + digest     # lengths not adjusted
                rv(R.emsa_raw(bad_alt, k), "md5-nonull-with-stale-lengths")
            # wrong algorithm / wrong digest
            for h2 in HASHES:
                if h2 == h: continue
                d2 = hashlib.new(h2, b"x").digest()
                rv(R.emsa_pkcs1_v15(h2, d2, k, True), "valid %s block verified as %s" % (h2, h), msg=d2)            # hash length mismatch with alg
                rv(R.emsa_raw(R.DIGESTINFO[h2][:-1] + bytes([len(digest)]) + digest, k), "OID of %s around a %s digest" % (h2, h))
            rv(good, "wrong digest", msg=bytes(len(digest)))
            rv(good, "digest one bit off", msg=digest[:-1] + bytes([digest[-1] ^ 1]))
            rv(good, "unsupported sigAlg", a=12345)
            rv(good, "ECDSA sigAlg on RSA key", a=C.get("OID_SHA256_RSA_SIG", 0) + 1000)
            # no DigestInfo (TLS <= 1.1 style), di = 0
            for ml in (0, 1, 16, 20, 32, 36, 48, 63, 64, 65, 100, k - 11, k - 10, k - 3):
                if ml < 0 or ml > k - 3: continue
                m = bytes(r.randrange(256) for _ in range(ml))
                e5 = b"\x00\x01" + b"\xff" * (k - 3 - ml) + b"\x00" + m
                rv(e5, "raw payload %d" % ml, di=0, msg=m)
                if ml in (20, 36):
                    e6 = bytearray(e5); e6[5] = 0xFE; rv(bytes(e6), "raw payload %d, bad pad" % ml, di=0, msg=m)
                    rv(e5, "raw payload %d, other message" % ml, di=0, msg=bytes(ml))
                    rv(b"\x00\x01" + b"\xff" * 4 + b"\x00" + bytes(k - 7 - ml) + m, "raw: short PS then zeros", di=0, msg=m)
            rv(good, "DigestInfo block verified as raw digest", di=0, msg=digest)
        # ---- raw signature bytes: lengths and range
        h = "sha256"; alg = ALG[h]
        digest = hashlib.sha256(b"raw sig %d" % bits).digest()
        em = R.emsa_pkcs1_v15(h, digest, k, True)
        s = rsa_sign_int(key, em)
        def rs(sig, what, di=1, msg=digest):
            aux = "-"
            if len(sig) == k:
                v = int.from_bytes(sig, "big")
                aux = "L" if v > key["N"] else hx(i2b(pow(v, key["e"], key["N"]), k))
            g.add("rs %d %d %d %s %s %s" % (bits, alg, di, hx(msg), hx(sig), aux), "rs", bits=bits, h=h, sig=sig, msg=msg, di=di, what=what)
        sb = i2b(s, k)
        rs(sb, "valid")
        rs(sb[1:], "truncated: first byte dropped"); rs(sb[:-1], "truncated: last byte dropped"); rs(sb[:k // 2], "half"); rs(b"", "empty")
        rs(b"\x00" + sb, "over-long: 00 prepended"); rs(sb + b"\x00", "over-long: 00 appended"); rs(bytes(k) + sb, "over-long: k zeros prepended")
        rs(i2b(key["N"], k), "s = N"); rs(bytes(k), "s = 0"); rs(i2b(1, k), "s = 1"); rs(i2b(key["N"] - 1, k), "s = N-1")
        rs(i2b(key["N"] + 1, k), "s = N+1"); rs(b"\xff" * k, "s = 2^8k-1")
        if s + key["N"] < 256 ** k: rs(i2b(s + key["N"], k), "s + N")
        if bits == 1024:
            # a valid signature whose first byte is 0: the same integer in k-1 bytes must be refused
            for t in range(4000):
                d2 = hashlib.sha256(b"lead0 %d" % t).digest()
                s2 = rsa_sign_int(key, R.emsa_pkcs1_v15(h, d2, k, True))
                if s2 < 256 ** (k - 1):
                    rs(i2b(s2, k), "valid with leading 00", msg=d2); rs(i2b(s2, k - 1), "leading 00 stripped", msg=d2)
                    break
        # ---- same buffer verified twice (explored only)
        g.add("rv2 %d %d %s %s" % (bits, alg, hx(digest), hx(em)), "rv2", bits=bits)
        # ---- unpadding of RSAES-PKCS1-v1_5 (decryption side), real ciphertexts
        for ml, pl in ((48, k - 51), (k - 11, 8), (k - 10, 7), (k - 12, 9), (32, k - 35), (0, k - 3)):
            if pl < 0: continue
            ps = bytes(r.randrange(1, 256) for _ in range(pl)); m = bytes(r.randrange(256) for _ in range(ml))
            e7 = b"\x00\x02" + ps + b"\x00" + m
            g.add("dp %d %d %s" % (bits, ml, hx(e7)), "dp", em=e7, outlen=ml, what="PS=%d" % pl)
            if pl >= 10:
                e8 = bytearray(e7); e8[5] = 0; g.add("dp %d %d %s" % (bits, ml, hx(bytes(e8))), "dp", em=bytes(e8), outlen=ml, what="zero inside PS")
            e9 = bytearray(e7); e9[1] = 1; g.add("dp %d %d %s" % (bits, ml, hx(bytes(e9))), "dp", em=bytes(e9), outlen=ml, what="block type 1")
            g.add("dp %d %d %s" % (bits, ml + 1, hx(e7)), "dp", em=e7, outlen=ml + 1, what="expected length +1")
    # ---- pkcs1UnpadExt directly, including blocks shorter than any key
    for typ in (1, 2):
        for verify in (0, 1):
            for em in (b"", b"\x00", b"\x00" + bytes([typ]), b"\x00" + bytes([typ]) + b"\x00", b"\x00" + bytes([typ]) + b"\xff" * 8,
                       b"\x00" + bytes([typ]) + b"\xff" * 8 + b"\x00", b"\x00" + bytes([typ]) + b"\xff" * 8 + b"\x00abc",
                       b"\x00" + bytes([typ]) + b"\xff" * 7 + b"\x00abc", b"\x00" + bytes([typ]) + b"\x00" + b"abc",
                       b"\x01" + bytes([typ]) + b"\xff" * 8 + b"\x00abc", b"\x00" + bytes([3 - typ]) + b"\xff" * 8 + b"\x00abc",
                       b"\x00" + bytes([typ]) + b"\xff\xfe" + b"\xff" * 6 + b"\x00abc"):
                for outlen, outcap in ((3, 3), (0, 0), (2, 2), (4, 4), (3, 64), (64, 3), (100, 100)):
                    g.add("up %d %d %d %d %s" % (typ, verify, outlen, outcap, hx(em)), "up")


# ---------------------------------------------------------------- RSASSA-PSS cases
def gen_pss(g, r):
    ck = g.ck
    for bits in RSA_BITS:
        key = g.K["rsa"][bits]; k = key["k"]
        for h in (["sha256", "sha1", "sha384", "sha512"] if bits <= 2048 else ["sha256"]):
            hl = R.HLEN[h]; hid = PSS_ID[h]
            mh = hashlib.new(h, b"pss %d" % bits).digest()
            for sl in sorted(set([hl, 0, 20, k - hl - 2])):
                if k < hl + sl + 2: continue
                salt = bytes(r.randrange(256) for _ in range(sl))
                em = R.pss_encode(h, mh, salt, 8 * k - 1)
                def pv(e, what, s=sl, m=mh, hh=h):
                    if len(e) != k or int.from_bytes(e, "big") >= key["N"]: return
                    g.add("pv %d %d %d %s %s" % (bits, PSS_ID[hh], s, hx(m), hx(e)), "pv", bits=bits, h=hh, em=e, msg=m, sl=s, what=what)
                pv(em, "valid")
                if sl != hl and not (bits == 1024 and h == "sha256"): continue
                e1 = bytearray(em); e1[-1] = 0xBD; pv(bytes(e1), "trailer BD")
                e1 = bytearray(em); e1[0] |= 0x80; pv(bytes(e1), "top bit set")
                e1 = bytearray(em); e1[0] ^= 0x40; pv(bytes(e1), "maskedDB[0] bit")
                e1 = bytearray(em); e1[k - hl - 2] ^= 1; pv(bytes(e1), "last salt byte")
                e1 = bytearray(em); e1[k - hl - 1] ^= 1; pv(bytes(e1), "first H byte")
                e1 = bytearray(em); e1[k - 2] ^= 0x80; pv(bytes(e1), "last H byte")
                ps = k - sl - hl - 2
                if ps > 0:
                    e1 = bytearray(em); e1[ps // 2] ^= 1; pv(bytes(e1), "PS byte non-zero")
                e1 = bytearray(em); e1[ps] ^= 3; pv(bytes(e1), "01 separator -> 02")
                e1 = bytearray(em); e1[ps] ^= 1; pv(bytes(e1), "01 separator -> 00")
                for i in ([r.randrange(k) for _ in range(ck.budget(6, 40))]):
                    e1 = bytearray(em); e1[i] ^= 1 << r.randrange(8); pv(bytes(e1), "flip@%d" % i)
                pv(em, "salt length +1", s=sl + 1);
                if sl > 0: pv(em, "salt length -1", s=sl - 1)
                pv(em, "other digest", m=bytes(hl)); pv(em, "digest one byte short", m=mh[:-1]); pv(em, "digest one byte long", m=mh + b"\x00")
                for h2 in ("sha1", "sha256", "sha512"):
                    if h2 != h: pv(em, "verified with %s" % h2, hh=h2, m=hashlib.new(h2, b"pss %d" % bits).digest()[:hl] if False else mh)
                g.add("pv %d %d %d %s %s" % (bits, 9, sl, hx(mh), hx(em)), "pv", bits=bits, h=None, em=em, msg=mh, sl=sl, what="unsupported hash id")
                # raw signature lengths
                s = rsa_sign_int(key, em); sb = i2b(s, k)
                def ps_(sig, what):
                    aux = "-"
                    if len(sig) == k:
                        v = int.from_bytes(sig, "big"); aux = "L" if v > key["N"] else hx(i2b(pow(v, key["e"], key["N"]), k))
                    g.add("ps %d %d %d %s %s %s" % (bits, hid, sl, hx(mh), hx(sig), aux), "ps", bits=bits, h=h, sig=sig, msg=mh, sl=sl, what=what)
                ps_(sb, "valid"); ps_(b"\x00" + sb, "over-long: 00 prepended"); ps_(bytes(44) + sb, "over-long: 44 zeros prepended")
                ps_(sb[:-1], "truncated"); ps_(sb[1:], "first byte dropped"); ps_(b"", "empty"); ps_(i2b(key["N"], k), "s = N"); ps_(bytes(k), "s = 0")
                if bits == 1024 and h == "sha256":
                    for t in range(4000):
                        m2 = hashlib.sha256(b"pss lead0 %d" % t).digest()
                        s2 = rsa_sign_int(key, R.pss_encode(h, m2, salt, 8 * k - 1))
                        if s2 < 256 ** (k - 1):
                            g.add("ps %d %d %d %s %s %s" % (bits, hid, sl, hx(m2), hx(i2b(s2, k - 1)), "-"), "ps", bits=bits, h=h, sig=i2b(s2, k - 1), msg=m2, sl=sl, what="leading 00 stripped")
                            break


# ---------------------------------------------------------------- ECDSA cases
def ecdsa_oracle_token(c, Q, hsh, sig):
    """scalar multiples the model needs: the library's own e (first `size` bytes of the digest)"""
    rs = der_parse_lenient(sig)
    if rs is None: return "-"
    r_, s_ = rs
    if not (1 <= r_ < c.n and 1 <= s_ < c.n): return "-"
    e = int.from_bytes(hsh[:c.size], "big")
    w = pow(s_, -1, c.n)
    u1, u2 = e * w % c.n or 1, r_ * w % c.n or 1
    P1, P2 = ec_mul_memo(c, u1, c.g), ec_mul_memo(c, u2, Q)
    f = lambda P: "inf:inf" if P is None else "%x:%x" % P
    return "%x:%s:%x:%s" % (u1, f(P1), u2, f(P2))


def gen_ecdsa(g, r):
    ck = g.ck
    for bits, cid in EC_BITS.items():
        key = g.K["ec"][bits]; c = key["curve"]; d, Q = key["d"], key["Q"]; L = c.size
        pt = b"\x04" + i2b(Q[0], L) + i2b(Q[1], L)
        def ev(sig, hsh, what, cmd="ev"):
            g.add("%s %d %s %s %s %s" % (cmd, cid, hx(pt), hx(hsh), hx(sig), ecdsa_oracle_token(c, Q, hsh, sig) if cmd == "ev" else "-"),
                  "ev", curve=c, Q=Q, hsh=hsh, sig=sig, what=what)
        hs = {n: hashlib.new(n, b"ecdsa %d" % bits).digest() for n in ("sha1", "sha256", "sha384", "sha512")}
        small = ck.tier == "quick" and bits in (224, 384, 521)      # quick tier: full variant set on P-192 and P-256 only
        for n, hsh in hs.items():
            if small and n in ("sha1", "sha384"): continue
            k_ = r.randrange(1, c.n)
            r_, s_ = R.ecdsa_sign_k(c, d, hsh, k_)
            ev(R.der_sig(r_, s_), hsh, "valid %s" % n)
            ev(R.der_sig(r_, c.n - s_), hsh, "valid, s -> n-s")
            ev(R.der_sig(r_, s_), hs["sha1" if n != "sha1" else "sha256"], "other digest")
            h2 = bytearray(hsh); h2[0] ^= 0x80; ev(R.der_sig(r_, s_), bytes(h2), "digest bit flipped")
            if len(hsh) > L:
                h3 = bytearray(hsh); h3[-1] ^= 1; ev(R.der_sig(r_, s_), bytes(h3), "bit flipped beyond the order length (still valid)")
        hsh = hs["sha256"]; k_ = r.randrange(1, c.n); r_, s_ = R.ecdsa_sign_k(c, d, hsh, k_)
        good = R.der_sig(r_, s_)
        # r, s out of range
        for rv_, sv_, what in ((0, s_, "r=0"), (r_, 0, "s=0"), (0, 0, "r=s=0"), (1, s_, "r=1"), (r_, 1, "s=1"), (c.n - 1, s_, "r=n-1"), (r_, c.n - 1, "s=n-1"),
                               (c.n, s_, "r=n"), (r_, c.n, "s=n"), (c.n + 1, s_, "r=n+1"), (r_, c.n + 1, "s=n+1"), (r_ + c.n, s_, "r+n"), (r_, s_ + c.n, "s+n"),
                               (s_, r_, "r,s swapped"), (c.p, s_, "r=p"), (2 ** (8 * L) - 1, s_, "r=2^8L-1")):
            ev(R.der_sig(rv_, sv_), hsh, what)
        if small:
            ev(good + b"\x00", hsh, "trailing byte"); ev(good[:-1], hsh, "truncated to %d bytes" % (len(good) - 1))
            ev(R.der_sig(*R.ecdsa_sign_k(c, d, bytes(len(hsh)), r.randrange(1, c.n))), bytes(len(hsh)), "e0: digest all zero (valid)")
            continue
        # encodings
        rb, sb = i2b(r_), i2b(s_)
        rawint = lambda b: b"\x02" + R.der_len(len(b)) + b
        seq = lambda body, l=None: b"\x30" + R.der_len(len(body) if l is None else l) + body
        neg = lambda v: i2b((1 << (8 * L + 8)) - v, L + 1)            # two's complement of -v
        ev(seq(rawint(neg(r_)) + R.der_int(s_)), hsh, "r negative (two's complement of -r)")
        ev(seq(rawint(b"\xff" + rb) + R.der_int(s_)), hsh, "r with FF prefix")
        ev(seq(rawint(b"\x00\x00" + rb) + R.der_int(s_)), hsh, "non-minimal r (00 00 prefix)")
        ev(seq(rawint(bytes(40) + rb) + R.der_int(s_)), hsh, "over-long r (40 zero bytes)")
        ev(seq(rawint(bytes(2000) + rb) + R.der_int(s_)), hsh, "over-long r (2000 zero bytes)")
        ev(seq(rawint(rb.lstrip(b"\x00")) + rawint(sb.lstrip(b"\x00"))), hsh, "no sign octet (DER-negative when top bit set)")
        ev(b"\x30\x81" + bytes([len(good) - 2]) + good[2:], hsh, "long-form SEQUENCE length") if len(good) - 2 < 128 else None
        ev(b"\x30\x82\x00" + bytes([len(good) - 2]) + good[2:], hsh, "2-byte long-form SEQUENCE length") if len(good) - 2 < 256 and good[1] < 128 else None
        ev(good + b"\x00", hsh, "trailing byte"); ev(good + good, hsh, "signature twice")
        if good[1] < 128:
            ev(bytes([0x30, good[1] - 1]) + good[2:], hsh, "SEQUENCE length -1"); ev(bytes([0x30, good[1] + 1]) + good[2:], hsh, "SEQUENCE length +1")
            ev(bytes([0x30, good[1] + 1]) + good[2:] + b"\x00", hsh, "trailing byte inside SEQUENCE")
            ev(bytes([0x30, 0x80]) + good[2:] + b"\x00\x00", hsh, "indefinite length")
            ev(bytes([0x31]) + good[1:], hsh, "SET tag"); ev(bytes([0x10]) + good[1:], hsh, "primitive SEQUENCE tag")
        ev(seq(b"\x03" + R.der_int(r_)[1:] + R.der_int(s_)), hsh, "BIT STRING tag for r")
        ev(seq(R.der_int(r_)), hsh, "only r"); ev(seq(b""), hsh, "empty SEQUENCE"); ev(seq(R.der_int(r_) + R.der_int(s_) + R.der_int(1)), hsh, "three integers")
        ev(seq(b"\x02\x00" + R.der_int(s_)), hsh, "empty INTEGER r")
        ev(seq(b"\x02\x85\x00\x00\x00\x00" + bytes([len(rb)]) + rb + R.der_int(s_)), hsh, "5-byte length of length")
        ev(seq(b"\x02\x84\xff\xff\xff\xff" + rb + R.der_int(s_)), hsh, "INTEGER length 2^32-1")
        for cut in (range(len(good)) if (bits in (256, 521) or ck.tier == "thorough") else (0, 1, 2, 3, 4, len(good) // 2, len(good) - 1)):
            ev(good[:cut], hsh, "truncated to %d bytes" % cut)
        for i in ([r.randrange(len(good)) for _ in range(ck.budget(8, 60))]):
            b = bytearray(good); b[i] ^= 1 << r.randrange(8); ev(bytes(b), hsh, "signature bit flipped @%d" % i)
        # degenerate scalar cases (constructed with the private key)
        for zh, what in ((bytes(len(hsh)), "e0: digest all zero"), (b"", "e0: empty digest"), (i2b(c.n, L), "e0: digest = n")):
            ev(R.der_sig(*R.ecdsa_sign_k(c, d, zh, r.randrange(1, c.n))), zh, what + " (valid)")
            # valid as if u1 were 1: x(G + u2 Q) = r  <=>  s = r d / (k - 1), r = x(kG)
            kk = r.randrange(2, c.n); Rp = R.ec_mul(c, kk, c.g); rr = Rp[0] % c.n
            ss = rr * d * pow(kk - 1, -1, c.n) % c.n
            if rr and ss: ev(R.der_sig(rr, ss), zh, what + " (invalid; would verify with u1 = 1)")
        t = r.randrange(1, c.n); Rp = R.ec_mul(c, 2 * t % c.n, c.g); r2 = Rp[0] % c.n
        s2 = r2 * d * pow(t, -1, c.n) % c.n; e2 = r2 * d % c.n
        if r2 and s2:
            ev(R.der_sig(r2, s2), i2b(e2, L), "double: u1*G = u2*Q (valid)")
            ev(R.der_sig(r.randrange(1, c.n), r.randrange(1, c.n)), i2b((-r2 * d) % c.n, L), "random r,s")
        r3, s3 = r.randrange(1, c.n), r.randrange(1, c.n)
        ev(R.der_sig(r3, s3), i2b((-r3 * d) % c.n, L), "infinity: u1*G = -u2*Q (invalid)")
        # the Gallina reference end to end (slow: one scalar multiplication is seconds in extracted code)
        if ck.tier == "thorough" and bits <= 256:
            g.add("evr %d %s %s %s -" % (cid, hx(pt), hx(hsh), hx(good)), "ev", curve=c, Q=Q, hsh=hsh, sig=good, what="valid, full Gallina reference")


# ---------------------------------------------------------------- points, ECDH, DH
def gen_points(g, r):
    for bits, cid in EC_BITS.items():
        c = R.CURVES[cid]; L = c.size
        enc = lambda x, y, l=L, f=4: bytes([f]) + i2b(x, l) + i2b(y, l)
        def ei(pt, what, canonical_point=None):
            g.add("ei %d %s" % (cid, hx(pt)), "ei", curve=c, pt=pt, what=what)
        P = R.ec_mul(c, r.randrange(1, c.n), c.g)
        ei(enc(*c.g), "G"); ei(enc(*P), "random point"); ei(enc(*R.ec_neg(c, P)), "-P")
        ei(enc(P[0], (P[1] + 1) % c.p), "off curve: y+1"); ei(enc((P[0] + 1) % c.p, P[1]), "off curve: x+1"); ei(enc(P[1], P[0]), "coordinates swapped")
        ei(enc(0, 0), "(0,0)"); ei(b"\x00", "infinity (single 00)"); ei(bytes(2 * L + 1), "all zero"); ei(enc(0, 0, f=0), "format 00")
        y0 = R.sqrt_mod(c.b, c.p)
        if y0 is not None: ei(enc(0, y0), "x = 0 on curve")
        for f in (2, 3, 6, 7, 5, 0xFF): ei(enc(*P, f=f), "format %02x" % f)
        ei(enc(*P)[:-1], "one byte short (even length)"); ei(enc(*P)[:-2], "two bytes short"); ei(enc(*P) + b"\x00", "one byte long"); ei(enc(*P) + b"\x00\x00", "two bytes long")
        ei(enc(*P, l=L + 1), "zero-padded coordinates (L+1)"); ei(enc(*P, l=L + 16), "zero-padded coordinates (L+16)")
        ei(enc(*P)[:47], "47 bytes"); ei(enc(*P)[:49], "49 bytes (minimum accepted length)"); ei(b"", "empty"); ei(b"\x04", "04 only")
        ei(enc(c.p, P[1]), "x = p"); ei(enc(P[0], c.p), "y = p"); ei(enc(c.p - 1, 1), "x = p-1")
        # coordinates >= p that are congruent to a real point
        for _ in range(60):
            x = r.randrange(1, min(c.p, 256 ** L - c.p)) if 256 ** L > c.p + 1 else None
            if x is None: break
            y = R.sqrt_mod(x ** 3 + c.a * x + c.b, c.p)
            if y is None: continue
            ei(enc(x, y), "small-x point"); ei(enc(x + c.p, y), "x + p (same residue)")
            if y + c.p < 256 ** L: ei(enc(x, y + c.p), "y + p (same residue)")
            ei(enc(x + c.p, y + c.p, l=L + 2), "x + p, y + p in longer encoding"); ei(enc(x + 3 * c.p, y, l=L + 2), "x + 3p in longer encoding")
            d = r.randrange(1, c.n)
            g.add("es %d %s %s" % (cid, hx(i2b(d)), hx(enc(x + c.p, y))), "es", curve=c, d=d, pt=enc(x + c.p, y), P=None, what="ECDH with x + p")
            break
        # other curve's point
        for bits2, cid2 in EC_BITS.items():
            if cid2 != cid:
                c2 = R.CURVES[cid2]; ei(b"\x04" + i2b(c2.g[0], c2.size) + i2b(c2.g[1], c2.size), "generator of %s" % c2.name)
        # ECDH
        for _ in range(g.ck.budget(3, 20)):
            d = r.randrange(1, c.n); Pp = R.ec_mul(c, r.randrange(1, c.n), c.g)
            g.add("es %d %s %s" % (cid, hx(i2b(d)), hx(enc(*Pp))), "es", curve=c, d=d, pt=enc(*Pp), P=Pp, what="ECDH")
        g.add("es %d %s %s" % (cid, hx(i2b(r.randrange(1, c.n))), hx(enc(P[0], (P[1] + 1) % c.p))), "es", curve=c, d=1, pt=None, P=None, what="ECDH with off-curve point")
    for name, dh in g.K["dh"].items():
        p = dh["p"]
        for y, what in ((0, "0"), (1, "1"), (2, "2"), (3, "3"), (p - 2, "p-2"), (p - 1, "p-1"), (p, "p"), (p + 1, "p+1"), (p + 2, "p+2"), (2 * p - 1, "2p-1"),
                        (r.randrange(2, p - 1), "random"), (dh["g"], "g"), (pow(dh["g"], r.randrange(2, p - 2), p), "g^x")):
            x = r.randrange(2, 2 ** 256)
            g.add("dh %s %s %s" % (hx(i2b(p)), hx(i2b(x)), hx(i2b(y))), "dh", p=p, x=x, y=y, what="y=" + what)
        x = r.randrange(2, 2 ** 256)
        g.add("dh %s %s %s" % (hx(i2b(p)), hx(i2b(x)), hx(bytes(5) + i2b(7))), "dh", p=p, x=x, y=7, what="y=7 with leading zero bytes")


# ---------------------------------------------------------------- signing / encryption / 25519 (explored: reference comparison only)
def gen_explored(g, r):
    for bits in RSA_BITS:
        key = g.K["rsa"][bits]
        for h in ("sha1", "sha256", "sha384"):
            dg = hashlib.new(h, b"sign %d" % bits).digest()
            g.add("rsign %d %s" % (bits, hx(dg)), "rsign", key=key, h=h, dg=dg)
        for h in ("sha256", "sha384"):
            dg = hashlib.new(h, b"psign %d" % bits).digest(); salt = bytes(r.randrange(256) for _ in range(R.HLEN[h]))
            g.add("psign %d %d %s %s" % (bits, PSS_ID[h], hx(salt), hx(dg)), "psign", key=key, h=h, dg=dg, salt=salt)
        for ml in (0, 1, 48, key["k"] - 11, key["k"] - 10):
            m = bytes(r.randrange(256) for _ in range(ml))
            g.add("renc %d %s" % (bits, hx(m)), "renc", key=key, m=m)
    for bits in EC_BITS:
        key = g.K["ec"][bits]
        for h in ("sha256", "sha512"):
            dg = hashlib.new(h, b"esign %d" % bits).digest()
            g.add("esign %d %s" % (bits, hx(dg)), "esign", key=key, dg=dg)
    # X25519: RFC 7748 5.2 vectors, random, and non-canonical / low values
    vec = [("a546e36bf0527c9d3b16154b82465edd62144c0ac1fc5a18506a2244ba449ac4", "e6db6867583030db3594c1a424b15f7c726624ec26b3353b10a903a6d0ab1c4c"),
           ("4b66e9d4d1b4673c5ad22691957d6af5c11b6421e0ea01d42ca4169e7918ba0d", "e5210f12786811d3f4b7959d0538ae2c31dbe7106fc03c3efc4cd549c715a493")]
    for k, u in vec:
        g.add("x25519 %s %s" % (k, u), "x25519", k=bytes.fromhex(k), u=bytes.fromhex(u))
    for _ in range(g.ck.budget(20, 300)):
        k = bytes(r.randrange(256) for _ in range(32)); u = bytes(r.randrange(256) for _ in range(32))
        g.add("x25519 %s %s" % (hx(k), hx(u)), "x25519", k=k, u=u)
    k = bytes(r.randrange(256) for _ in range(32))
    for uv in (0, 1, 2, 9, R.P25519 - 1, R.P25519, R.P25519 + 1, 2 ** 255 - 1, 2 ** 255 + 9, 2 ** 256 - 1,
               325606250916557431795983626356110631294008115727848805560023387167927233504,
               39382357235489614581723060781553021112529911719440698176882885853963445705823):
        u = uv.to_bytes(32, "little")
        g.add("x25519 %s %s" % (hx(k), hx(u)), "x25519", k=k, u=u)
    # Ed25519
    for i in range(g.ck.budget(6, 60)):
        sk = bytes(r.randrange(256) for _ in range(32)); pk = R.ed_public(sk)
        m = bytes(r.randrange(256) for _ in range(r.choice([0, 1, 31, 64, 200])))
        sig = R.ed_sign(sk, m)
        g.add("eds %s %s %s" % (hx(sk), hx(pk), hx(m)), "eds", sig=sig)
        def edv(p, mm, s, what): g.add("edv %s %s %s" % (hx(p), hx(mm), hx(s)), "edv", pk=p, m=mm, sig=s, what=what)
        edv(pk, m, sig, "valid")
        edv(pk, m + b"x", sig, "other message")
        for j in (0, 31, 32, 63):
            s2 = bytearray(sig); s2[j] ^= 1 << r.randrange(8); edv(pk, m, bytes(s2), "signature bit @%d" % j)
        p2 = bytearray(pk); p2[3] ^= 4; edv(bytes(p2), m, sig, "public key bit")
        S = int.from_bytes(sig[32:], "little")
        if S + R.ED_L < 2 ** 256: edv(pk, m, sig[:32] + (S + R.ED_L).to_bytes(32, "little"), "S + L (non-canonical S)")
        edv(pk, m, sig[:32] + bytes(32), "S = 0"); edv(pk, m, bytes(32) + sig[32:], "R = 0 encoding")


# ---------------------------------------------------------------- verdicts
def canon_impl(line, out):
    """strip what the model does not produce (the signature bytes, the DH secret) / normalise hex"""
    t = line.split()[0]
    if t in ("rv", "pv"):
        return " ".join(x for x in out.split() if not x.startswith("sig="))
    if t == "dh" and out.startswith("h=0:"):
        return "h=ok"
    if t == "ei" and out.startswith("i=0 "):
        kv = dict(x.split("=") for x in out.split()[1:])
        return "i=0 x=%x y=%x" % (int(kv["x"], 16), int(kv["y"], 16))
    return out


MODELLED = ("rv", "rs", "pv", "ps", "up", "dp", "ev", "evr", "ei", "dh")


def corpus_cases():
    out = []
    p = os.path.join(vlib.VERIF, "corpus", "C11")
    if os.path.isdir(p):
        for f in sorted(os.listdir(p)):
            for l in open(os.path.join(p, f)):
                l = l.strip()
                if l and not l.startswith("#"):
                    out.append(l)
    return out


def parse_case(line, K):
    """(kind, expectation record) rebuilt from a bare case line (corpus witnesses, replays)"""
    t = line.split(); c = t[0]; ub = vlib.unhex
    try:
        if c == "rv": return "rv", dict(bits=int(t[1]), alg=int(t[2]), di=int(t[3]), msg=ub(t[4]), em=ub(t[5]), what="corpus")
        if c == "rs": return "rs", dict(bits=int(t[1]), alg=int(t[2]), di=int(t[3]), msg=ub(t[4]), sig=ub(t[5]), what="corpus")
        if c in ("pv", "ps"):
            h = {v: k for k, v in PSS_ID.items()}.get(int(t[2]))
            d = dict(bits=int(t[1]), h=h, sl=int(t[3]), msg=ub(t[4]), what="corpus")
            d["em" if c == "pv" else "sig"] = ub(t[5]); return c, d
        if c == "dp": return "dp", dict(outlen=int(t[2]), em=ub(t[3]), what="corpus")
        if c in ("ev", "evr"):
            cv = R.CURVES[int(t[1])]; pt = ub(t[2]); l = (len(pt) - 1) // 2
            return "ev", dict(curve=cv, Q=(int.from_bytes(pt[1:1 + l], "big"), int.from_bytes(pt[1 + l:], "big")), hsh=ub(t[3]), sig=ub(t[4]), what="corpus")
        if c == "ei": return "ei", dict(curve=R.CURVES[int(t[1])], pt=ub(t[2]), what="corpus")
        if c == "es":
            cv = R.CURVES[int(t[1])]; pt = ub(t[3]); P = None
            if len(pt) == 2 * cv.size + 1 and pt[0] == 4:
                P = (int.from_bytes(pt[1:1 + cv.size], "big"), int.from_bytes(pt[1 + cv.size:], "big"))
                if not R.on_curve(cv, P): P = None
            return "es", dict(curve=cv, d=int(t[2], 16), pt=pt, P=P, what="corpus")
        if c == "dh": return "dh", dict(p=int(t[1], 16), x=int(t[2], 16), y=int(t[3], 16), what="corpus y")
        if c == "x25519": return "x25519", dict(k=ub(t[1]), u=ub(t[2]))
        if c == "edv": return "edv", dict(pk=ub(t[1]), m=ub(t[2]), sig=ub(t[3]), what="corpus")
        if c == "rv2": return "rv2", dict(bits=int(t[1]))
    except (ValueError, IndexError, KeyError):
        pass
    return None, None


def judge(ck, K, ALGNAME, line, kind, exp, out):
    """Impl vs SPEC for one case; reports spec violations"""
    def viol(sig, what, expected):
        ck.spec_violation(sig, what, {"harness": "h_pk", "case": line[:3000], "observed": out[:600], "expected_by_spec": expected, "variant": exp.get("what")})
    kv = dict(x.split("=", 1) for x in out.split() if "=" in x)
    if kind in ("rv", "rs"):
        key = K["rsa"][exp["bits"]]; k = key["k"]
        if kind == "rv":
            em = exp["em"]
            if "sig" not in kv or pow(int(kv["sig"], 16), key["e"], key["N"]) != int.from_bytes(em, "big"):
                ck.violation("harness did not produce a signature of the requested block", {"stage": "sign", "case": line[:500], "observed": out[:300], "broken": "correspondence h_pk.c"}, found_input=False)
                return
            siglen_ok = True
        else:
            sig = exp["sig"]; siglen_ok = len(sig) == k and int.from_bytes(sig, "big") < key["N"]
            em = i2b(pow(int.from_bytes(sig, "big"), key["e"], key["N"]), k) if siglen_ok else None
        if exp["di"]:
            h = ALGNAME.get(exp.get("alg", ALGNAME["_default"]))
            valid = siglen_ok and h is not None and v15_expected(h, exp["msg"], k, em)
        else:
            valid = siglen_ok and len(exp["msg"]) <= 64 and em == R.emsa_raw(exp["msg"], k)
        acc = kv.get("v") == "0:1"
        ck.count("rsa15:%s" % ("valid" if valid else "invalid"))
        if kv.get("v") == "-7777:0":
            viol("rsa15:crash:%s" % ("di" if exp["di"] else "raw"), "psVerifySig crashed (stack smashed) on a %d-byte reference message" % len(exp["msg"]), "refuse or verify without writing outside out[]")
        elif acc and not valid:
            tag = "md5-stale-lengths" if exp.get("what") == "md5-nonull-with-stale-lengths" else ("msglen>64" if (not exp["di"] and len(exp["msg"]) > 64) else "block")
            viol("rsa15:accepted-invalid:%s" % tag, "RSA PKCS#1 v1.5 verification ACCEPTED a block that is not the standard encoding (%s)" % exp.get("what"), "reject")
        elif valid and not acc:
            tag = "md5-nonull" if (exp.get("h") == "md5" and exp.get("what") == "valid-nonull") else "block"
            viol("rsa15:rejected-valid:%s" % tag, "RSA PKCS#1 v1.5 verification REJECTED a standard encoding (%s)" % exp.get("what"), "accept")
        if acc and exp.get("what") == "valid-nonull": ck.count("rsa15:nonull-variant-accepted")
    elif kind in ("pv", "ps"):
        key = K["rsa"][exp["bits"]]; k = key["k"]
        if kind == "pv":
            em = exp["em"]
            if "sig" not in kv or pow(int(kv["sig"], 16), key["e"], key["N"]) != int.from_bytes(em, "big"):
                ck.violation("harness did not produce a signature of the requested block", {"stage": "sign", "case": line[:500], "broken": "correspondence h_pk.c"}, found_input=False); return
            ok_len = True
        else:
            sig = exp["sig"]; ok_len = len(sig) == k and int.from_bytes(sig, "big") < key["N"]
            em = i2b(pow(int.from_bytes(sig, "big"), key["e"], key["N"]), k) if ok_len else None
        valid = ok_len and exp["h"] is not None and len(exp["msg"]) == R.HLEN[exp["h"]] and R.pss_verify(exp["h"], exp["msg"], em, exp["sl"], 8 * k - 1)
        acc = kv.get("v") == "0:1"
        ck.count("pss:%s" % ("valid" if valid else "invalid"))
        if acc and not valid:
            tag = "siglen" if (kind == "ps" and len(exp["sig"]) != k) else "block"
            viol("pss:accepted-invalid:%s" % tag, "RSASSA-PSS verification ACCEPTED an invalid signature (%s)" % exp.get("what"), "reject")
        elif valid and not acc:
            viol("pss:rejected-valid", "RSASSA-PSS verification REJECTED a valid signature (%s)" % exp.get("what"), "accept")
    elif kind == "dp":
        want = R.eme_type2_parse(exp["em"])
        valid = want is not None and len(want) == exp["outlen"]
        acc = kv.get("p", "").startswith("0:")
        ck.count("rsaes:%s" % ("valid" if valid else "invalid"))
        if acc and not valid:
            viol("rsaes:accepted-invalid:%s" % exp["what"].replace(" ", ""), "psRsaDecryptPriv returned a message from a block RFC 8017 7.2.2 rejects (%s)" % exp["what"], "decryption error")
        elif valid and (not acc or vlib.unhex(kv["p"][2:]) != want):
            viol("rsaes:rejected-valid", "psRsaDecryptPriv failed on / altered a well-formed block (%s)" % exp["what"], "0:" + hx(want))
    elif kind == "ev":
        c, Q = exp["curve"], exp["Q"]
        if len(exp["hsh"]) > 64:                      # outside the stated assumption (no digest is longer than 64 bytes)
            ck.count("explored:ecdsa-digest-longer-than-64-bytes"); return
        strict = R.der_parse_strict(exp["sig"])
        valid = strict is not None and ecdsa_verify_memo(c, Q, exp["hsh"], *strict)
        acc = kv.get("e") == "0:1"
        if acc != (kv.get("v") == "0:1"):
            viol("ecdsa:psVerifySig-differs", "psVerifySig and psEccDsaVerify disagree", kv.get("e"))
        ck.count("ecdsa:%s" % ("valid" if valid else "invalid"))
        deg = None                          # degenerate scalar class, decided from the data (not from the generator's label)
        rs_ = strict or der_parse_lenient(exp["sig"])
        if rs_ and 1 <= rs_[0] < c.n and 1 <= rs_[1] < c.n:
            e_ = R.bits2int(c, exp["hsh"]) % c.n
            if e_ == 0:
                deg = "e0"
            else:
                w_ = pow(rs_[1], -1, c.n)
                P1_, P2_ = ec_mul_memo(c, e_ * w_ % c.n, c.g), ec_mul_memo(c, rs_[0] * w_ % c.n, Q)
                if P1_ == P2_: deg = "double"
        if acc and not valid:
            len_rs = der_parse_lenient(exp["sig"])
            if strict is None and len_rs is not None and ecdsa_verify_memo(c, Q, exp["hsh"], *len_rs):
                ck.count("ecdsa:non-DER-encoding-of-valid-(r,s)-accepted")          # explored only
            else:
                viol("ecdsa:%s:invalid-accepted" % (deg or "sig"), "ECDSA verification ACCEPTED an invalid signature (%s)" % exp["what"], "reject")
        elif valid and not acc:
            viol("ecdsa:%s:valid-rejected" % (deg or "sig"), "ECDSA verification REJECTED a valid signature (%s)" % exp["what"], "accept")
    elif kind == "ei":
        c, pt = exp["curve"], exp["pt"]; L = c.size
        acc = kv.get("i") == "0"
        P = None
        if len(pt) >= 3 and len(pt) % 2 == 1 and pt[0] == 4:
            l = (len(pt) - 1) // 2; P = (int.from_bytes(pt[1:1 + l], "big"), int.from_bytes(pt[1 + l:], "big"))
        valid_elem = P is not None and R.on_curve(c, P)                  # includes 0 <= x,y < p
        canonical = valid_elem and len(pt) == 2 * L + 1
        ck.count("point:%s" % ("valid" if canonical else "invalid"))
        if acc and not valid_elem:
            tag = "coord>=p" if (P is not None and (P[0] >= c.p or P[1] >= c.p) and R.on_curve(c, (P[0] % c.p, P[1] % c.p))) else "not-a-point"
            viol("point:accepted-invalid:%s" % tag, "psEccX963ImportKey ACCEPTED an invalid public point (%s)" % exp["what"], "reject")
        elif acc and not canonical:
            ck.count("point:valid-element-in-non-standard-length-accepted")          # explored only
        elif canonical and not acc:
            viol("point:rejected-valid", "psEccX963ImportKey REJECTED a valid point (%s)" % exp["what"], "accept")
        elif acc and (int(kv["x"], 16), int(kv["y"], 16)) != P:
            viol("point:wrong-coordinates", "imported coordinates differ from the encoding", "%x %x" % P)
    elif kind == "es":
        c = exp["curve"]
        if exp["P"] is None:
            if kv.get("s", "").startswith("0:"):
                viol("ecdh:computed-on-invalid-point", "ECDH secret computed from an invalid public point (%s)" % exp["what"], "refuse before use")
        else:
            want = i2b(R.ec_mul(c, exp["d"], exp["P"])[0], c.size)
            ck.count("ecdh")
            if kv.get("s") != "0:" + hx(want):
                viol("ecdh:wrong-secret", "psEccGenSharedSecret differs from the reference", "0:" + hx(want))
    elif kind == "dh":
        p, x, y = exp["p"], exp["x"], exp["y"]
        valid = 2 <= y <= p - 2
        acc = kv.get("h", "").startswith("0:")
        ck.count("dh:%s" % ("valid" if valid else "invalid"))
        if acc and not valid:
            viol("dh:accepted-out-of-range", "DH public value %s used" % exp["what"], "refuse before use")
        elif valid and not acc:
            viol("dh:rejected-valid", "DH public value %s refused" % exp["what"], "accept")
        elif acc and int(kv["h"][2:], 16) != pow(y, x, p):
            viol("dh:wrong-secret", "psDhGenSharedSecret differs from y^x mod p", "%x" % pow(y, x, p))
    elif kind == "rsign":
        key = exp["key"]; want = rsa_sign_int(key, R.emsa_pkcs1_v15(exp["h"], exp["dg"], key["k"], True))
        ck.count("explored:rsa-sign")
        if kv.get("g") != "0:" + hx(i2b(want, key["k"])):
            viol("rsa-sign:differs", "privRsaEncryptSignedElement differs from RSASSA-PKCS1-v1_5-SIGN", "0:" + hx(i2b(want, key["k"]))[:80])
    elif kind == "psign":
        key = exp["key"]; want = rsa_sign_int(key, R.pss_encode(exp["h"], exp["dg"], exp["salt"], 8 * key["k"] - 1))
        ck.count("explored:pss-sign")
        if kv.get("g") != "0:" + hx(i2b(want, key["k"])):
            viol("pss-sign:differs", "psRsaPssSignHash differs from RSASSA-PSS-SIGN with the given salt", "0:" + hx(i2b(want, key["k"]))[:80])
    elif kind == "renc":
        key = exp["key"]; k = key["k"]
        ck.count("explored:rsa-encrypt")
        fits = len(exp["m"]) <= k - 11
        if kv.get("g", "").startswith("0:"):
            emd = i2b(rsa_sign_int(key, vlib.unhex(kv["g"][2:])), k)
            if not fits or R.eme_type2_parse(emd) != exp["m"]:
                viol("rsa-encrypt:bad-block", "psRsaEncryptPub produced a block that does not decode to the message under RFC 8017 7.2", hx(exp["m"]))
        elif fits:
            viol("rsa-encrypt:refused", "psRsaEncryptPub refused a message of legal length %d" % len(exp["m"]), "ciphertext")
    elif kind == "esign":
        key = exp["key"]; c = key["curve"]
        ck.count("explored:ecdsa-sign")
        rs = R.der_parse_strict(vlib.unhex(kv["g"][2:])) if kv.get("g", "").startswith("0:") else None
        if rs is None or not R.ecdsa_verify_rs(c, key["Q"], exp["dg"], *rs):
            viol("ecdsa-sign:invalid", "psEccDsaSign output is not a DER signature that verifies under the reference", "valid DER signature")
    elif kind == "x25519":
        want = R.x25519(exp["k"], exp["u"])
        ck.count("explored:x25519")
        if kv.get("h", "").startswith("0:"):
            if kv["h"][2:] != want.hex():
                viol("x25519:differs", "psDhX25519GenSharedSecret differs from RFC 7748", want.hex())
        elif want != bytes(32):
            viol("x25519:refused", "psDhX25519GenSharedSecret refused an input with non-zero result", want.hex())
        else:
            ck.count("explored:x25519-all-zero-refused")
    elif kind == "eds":
        ck.count("explored:ed25519-sign")
        if kv.get("g") != "0:" + exp["sig"].hex():
            viol("ed25519-sign:differs", "psEd25519Sign differs from RFC 8032", exp["sig"].hex())
    elif kind == "edv":
        want = R.ed_verify(exp["pk"], exp["m"], exp["sig"])
        ck.count("explored:ed25519-verify:%s" % ("valid" if want else "invalid"))
        if (kv.get("e") == "1") != want:
            viol("ed25519:%s" % ("accepted-invalid" if not want else "rejected-valid"), "psEd25519Verify differs from RFC 8032 (%s)" % exp["what"], "e=%d" % want)
    elif kind == "rv2":
        ck.count("explored:verify-twice:kept=%s:second=%s" % (kv.get("kept"), kv.get("v2")))
        if kv.get("v1") == "0:1" and kv.get("v2") != "0:1":
            ck.notes.append("psVerifySig (RSA PKCS#1 v1.5) decrypts the caller's const signature buffer in place: a second verification of the same buffer fails (%s); see pending-fixes/C03-verify-sig-keeps-signature-buffer.patch" % out)


def run_grouped(ck, exe, lines, label):
    """run the case lines grouped by command (one process per command) and log the time of each group"""
    import time
    groups = {}
    for i, l in enumerate(lines):
        groups.setdefault(l.split()[0], []).append(i)
    out = [""] * len(lines)
    rep = []
    for cmd, idx in groups.items():
        t = time.time()
        rc, o, err = ck.run_lines(exe, [lines[i] for i in idx], timeout=3000)
        for i, x in zip(idx, o):
            out[i] = x
        if len(o) != len(idx):
            for i in idx[len(o):]:
                out[i] = "DIED rc=%s %s" % (rc, err[-120:].replace("\n", " "))
        rep.append("%s:%d/%.1fs" % (cmd, len(idx), time.time() - t))
    ck.log(label + " " + " ".join(rep))
    return out


def my_consts_pk(ck):
    """coq/Gen/ConstsPk.v as THIS run's build of the library produces it (tools/srcgen/consts_pk.c run directly)"""
    Rb = ck.builds["plain"]
    exe = os.path.join(ck.scratch, "consts_pk_own")
    cmd = ["cc", "-w", "-DMATRIXSSL_VERIF"] + ["-I" + os.path.join(Rb, i) for i in vlib.INC] + \
          [os.path.join(vlib.VERIF, "tools/srcgen/consts_pk.c")] + [os.path.join(Rb, l) for l in vlib.LIBS] + ["-lpthread", "-o", exe]
    rc, o, e = vlib.sh(cmd, timeout=300)
    if rc != 0:
        return None
    rc, o, e = vlib.sh([exe], timeout=60)
    return o if rc == 0 else None


def build_model(ck):
    """regenerate Gen/, check the theorems, extract and build the driver.  coq/Gen is shared by all checks and
    every check's consts.sh rewrites every Gen file from ITS build: when a concurrent check of another
    property (built from a different tree) overwrote Gen/ConstsPk.v in between, start over."""
    mine = my_consts_pk(ck)
    path = os.path.join(vlib.COQ, "Gen", "ConstsPk.v")
    drv = None
    tries = 5
    for attempt in range(tries):
        n_ob = len(ck.obligations)
        ck.regen([("consts.sh",)])
        ck.coq_properties()
        drv = ck.ocaml_driver("drv_c11", extract_vo="Extract/Extract_C11.vo", gen_ml=["m_c11"])
        if mine is None or open(path).read() == mine:
            return drv
        ck.log("coq/Gen/ConstsPk.v was rewritten by a concurrent check built from another tree (attempt %d)" % (attempt + 1))
        if attempt + 1 < tries:                      # start over; the last attempt's results are kept
            del ck.obligations[n_ob:]
            if hasattr(ck, "coq_fail_log"): del ck.coq_fail_log
    ck.notes.append("coq/Gen/ConstsPk.v kept being rewritten by concurrent checks; results may mix two trees")
    return drv


def run(ck):
    ck.trusted += ["Coq 8.16.1 kernel (vm_compute used for the table lemmas table_consistent_ok / table_is_rfc_ok / curves_ok_true and Examples)",
                   "tools/srcgen/consts_pk.c translator (calls psGetDigestInfoPrefix, psIsValidHashLenSigAlgCombination, psPssHashAlgToHashLen, reads eccCurves[] of the freshly built library)",
                   "extraction (ExtrOcamlBasic only) + ocaml/drv_c11.ml + harness/h_pk.c correspondence",
                   "modelled, not verified: pkcs1UnpadExt, psRsaDecryptPubExt, pubRsaDecryptSignedElementExt, psRsaDecryptPub, psVerifySig (RSA), psPkcs1PssDecode, pkcs_1_mgf1, psRsaPssVerify, getAsnLength32/getAsnSequence/pstm_read_asn, psEccDsaVerify front end, psEccX963ImportKey, eccTestPoint, DH range test are hand-written Gallina (coq/Pk/PkModel.v) compared with the library on every run",
                   "NOT modelled (Section variables / exact integers supplied by props/C11.py): psRsaCrypt modular exponentiation, the digests inside PSS (Gallina digests of coq/Crypto plugged in for the run), eccMulmod/eccProjectiveAddPoint Jacobian arithmetic (the affine Gallina reference ec_mul/ec_add is the executable spec; pstm itself is C13)",
                   "props/c11ref.py: independent exact-integer references (RFC 8017, FIPS 186-4, RFC 7748, RFC 8032), self-checked against RFC vectors"]
    ck.assumptions += ["RSA modulus has 8*k bits (true of every test key; psPkcs1PssDecode is called with modulus_bitlen = 8*keysize)",
                       "ECDSA digests are at most 64 bytes (for longer digests on P-521 the code truncates to 66 bytes where FIPS 186-4 takes the leftmost 521 bits)",
                       "sign/encrypt/ECDH/X25519/Ed25519 results are explored_only: compared with the reference on generated inputs, no theorem"]
    ck.build_repo()
    drv = build_model(ck)
    h = ck.cc("h_pk.c")
    if drv is None:
        return
    C = gen_consts()
    ALG = {"md5": C["OID_MD5_RSA_SIG"], "sha1": C["OID_SHA1_RSA_SIG"], "sha256": C["OID_SHA256_RSA_SIG"], "sha384": C["OID_SHA384_RSA_SIG"], "sha512": C["OID_SHA512_RSA_SIG"]}
    ALGNAME = {v: k for k, v in ALG.items()}; ALGNAME["_default"] = ALG["sha256"]
    K = load_keys(ck, h)
    g = Gen(ck, K)
    gen_rsa(g, ck.rng("rsa"), C, ALG)
    gen_pss(g, ck.rng("pss"))
    gen_ecdsa(g, ck.rng("ecdsa"))
    gen_points(g, ck.rng("points"))
    gen_explored(g, ck.rng("explored"))
    for (l, kind, exp) in g.cases:
        if kind == "rv" and "alg" not in exp: exp["alg"] = ALG["sha256"]
        if kind == "rs": exp["alg"] = ALG["sha256"]
    corp = corpus_cases()
    lines = corp + [c[0] for c in g.cases]
    impl = run_grouped(ck, h, lines, "harness")
    died = [i for i, o in enumerate(impl) if o.startswith("DIED")]
    if died:
        ck.violation("harness h_pk died on a case: %s" % impl[died[0]],
                     {"harness": "h_pk", "case": lines[died[0]][:3000], "signature": "harness-died"}, found_input=True)
    midx = [i for i, l in enumerate(lines) if l.split()[0] in MODELLED]
    mlines = [lines[i] for i in midx]
    model = run_grouped(ck, drv, mlines, "model")
    ck.rules.append("structure-aware variants of valid encodings, each turned into a REAL signature with the test key's private exponent: every byte of the padded block "
                    "flipped (all positions for RSA-1024/2048, sampled for 3072/4096 in the quick tier), header/padding/separator edits, padding shorter than 8 with trailing "
                    "garbage (Bleichenbacher e=3 shapes), garbage in the DigestInfo parameters, alternative/malformed DigestInfo encodings, wrong OID/hash length, raw payloads "
                    "of every boundary length, truncated/over-long/out-of-range signature integers; PSS blocks with each field edited; ECDSA r,s in {0,1,n-1,n,n+1,r+n}, "
                    "negative/non-minimal/over-long/indefinite DER, every truncation, degenerate scalars (e = 0 mod n, u1 G = +-u2 Q); points off-curve/at infinity/coordinates "
                    ">= p/wrong length/wrong format/other curve; DH publics {0,1,2,p-2,p-1,p,p+1,..}; a case is non-trivial when the library reached the padding/DER/curve checks")
    canon = [canon_impl(lines[i], impl[i]) if i < len(impl) else "" for i in midx]
    ck.correspond("PkModel (extracted) vs libcrypt_s.a public-key entry points", mlines, canon, model,
                  nontrivial=lambda c, o: not ("=-6:" in o and c.split()[0] in ("rv", "rs")))
    # Impl vs Spec
    for i, (l, kind, exp) in enumerate(g.cases):
        j = len(corp) + i
        if j >= len(impl): break
        judge(ck, K, ALGNAME, l, kind, exp, impl[j])
    for j, l in enumerate(corp):                      # corpus witnesses are judged like generated cases
        kind, exp = parse_case(l, K)
        if kind and j < len(impl):
            judge(ck, K, ALGNAME, l, kind, exp, impl[j])
    # the Gallina reference against the python reference (scalar multiples)
    r = ck.rng("ecref")
    ref_lines, ref_want = [], []
    for cid in ([19, 23] if ck.tier == "quick" else [19, 21, 23, 24, 25]):
        c = R.CURVES[cid]
        for _ in range(2):
            big = ck.tier == "thorough" and cid in (19, 23)
            u1, u2 = (r.randrange(1, c.n), r.randrange(1, c.n)) if big else (r.randrange(1, 2 ** 20), r.randrange(1, 2 ** 20))
            Q = R.ec_mul(c, r.randrange(1, c.n), c.g)
            ref_lines.append("ecref %d %x %x %x %x" % (cid, u1, u2, Q[0], Q[1]))
            P = R.ec_add(c, R.ec_mul(c, u1, c.g), R.ec_mul(c, u2, Q))
            ref_want.append("r=inf" if P is None else "r=%x:%x" % P)
    rc3, ref_out, _ = ck.run_lines(drv, ref_lines, timeout=3000)
    ck.correspond("Gallina affine EC reference (extracted) vs python reference", ref_lines, ref_want, ref_out)
    ck.cov["explored_only"] = ["RSA signing (privRsaEncryptSignedElement, psRsaPssSignHash)", "psRsaEncryptPub", "psEccDsaSign", "psEccGenSharedSecret",
                               "psDhGenSharedSecret value", "psDhX25519GenSharedSecret", "psEd25519Sign/psEd25519Verify", "in-place decryption of the signature buffer (rv2)"]
    ck.cov["exhaustive"] = False


def replay(ck, path):
    rp = json.load(open(path))["replay"]
    h = ck.cc("h_pk.c")
    cs = rp.get("cases") or [rp["case"]]
    rc, out, err = ck.run_lines(h, cs)
    C = gen_consts()
    ALGNAME = {C["OID_MD5_RSA_SIG"]: "md5", C["OID_SHA1_RSA_SIG"]: "sha1", C["OID_SHA256_RSA_SIG"]: "sha256", C["OID_SHA384_RSA_SIG"]: "sha384",
               C["OID_SHA512_RSA_SIG"]: "sha512", "_default": C["OID_SHA256_RSA_SIG"]}
    K = load_keys(ck, h)
    for c, o in zip(cs, out):
        print("case:", c[:400]); print("  impl:", o[:400], " expected_by_spec:", rp.get("expected_by_spec"), " variant:", rp.get("variant"))
        kind, exp = parse_case(c, K)
        if kind:
            n = len(ck.violations)
            judge(ck, K, ALGNAME, c, kind, exp, o)
            print("  spec verdict now:", "VIOLATED" if len(ck.violations) > n else "satisfied")
